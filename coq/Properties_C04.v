(* C04 - Concurrent vector: stable addresses, one element per index, built/destroyed once, cooling period.
   Only statements; proofs are `exact <lemma of CV/CVProofs.v>`.  `Reach b t0 progs s` = "s is reachable from the
   initial state (block size 2^b, clock t0 seconds) of client programs `progs` under SOME schedule": every theorem is
   quantified over all schedules, all programs of ensure/reserve/[]/size/snapshot/snapshot[]/for_each/gc/time-passes/
   calendar-clock-steps,
   all thread counts, all block sizes and all (monotone) clock histories, 16-bit stamp wrap included.

   Everything in the property text is a theorem at full strength (no `_partial`, no `_refuted` left):
   stable addresses (c04_stable, c04_tables_only_grow); one element per index (c04_same_element through any published
   table now or later, c04_results_same_element for the values callers get, c04_reads_go_through_published_tables);
   constructed exactly once (c04_constructed_once); while the vector is alive no block is destroyed twice, no visible
   block is destroyed at all and every not-yet-destroyed block is either published or owned by exactly one thread inside
   the slow path (c04_destroyed_at_most_once); at death every block has been constructed once and destroyed once and
   every heap table deleted exactly once (c04_death, c04_table_frees); the installed table is never freed
   (c04_current_table_alive); cooling period > 64 s for every clock history incl. gc() and stamp wrap (c04_cooling,
   c04_snapshot_usable) - since fix 8cef5d9 (retire re-reads the clock in every round of its push loop; regenerated
   target retry_new_head, reverting it breaks the translator) the former finding F4 is impossible: c04_no_stale_stamp.
   Whole-object operations (move construction / assignment, swap; sequential by contract) are a second, sequential model
   CVObjModel over several vector objects: c04_moved_vectors_keep_their_constructor, c04_objects_death.  The concurrent
   model of one vector assumes what that layer proves: the vector carries a real element constructor.
   Residual assumptions (all outside the model, listed in META): allocator never hands out an address that a stalled
   thread still holds (no pointer ABA on _block_table/_head: a head word equal to the one loaded designates the same
   node chain); sequentially consistent interleavings; a thread stalled for more than 64 s between obtaining a table
   pointer and using it (inside one call, or through a snapshot older than 64 s) reads freed memory - that is the
   documented contract of the time-based design and exactly what c04_snapshot_usable delimits.  A stall between the
   clock read and the CAS within ONE round of the push loop is harmless (proved: the CAS only succeeds against the head
   value loaded BEFORE that clock read, so every node below it was retired before the stamp). *)
From Coq Require Import ZArith List Bool.
Require Import Verif.Gen.Gen_cvector Verif.Conc.Machine Verif.CV.CVModel Verif.CV.CVProofs Verif.CV.CVObjModel
  Verif.CV.CVObjProofs.
Import ListNotations.
Local Open Scope Z_scope.

(* stable addresses: once index i designates element e = (block, offset) it does so in every later state, however many
   threads grow the vector in between *)
Theorem c04_stable : forall b t0 progs s sch i e, Reach b t0 progs s ->
  slot s i = Some e -> slot (run st step s sch) i = Some e.
Proof. exact cv_stable. Qed.
Print Assumptions c04_stable.

Theorem c04_tables_only_grow : forall b t0 progs s sch, Reach b t0 progs s ->
  prefix (live s) (live (run st step s sch)).
Proof. exact cv_tables_only_grow. Qed.
Print Assumptions c04_tables_only_grow.

(* one element per index: read through ANY published table (current, just installed by a slow path, held by a
   snapshot, retired), now or at any later time, index i yields the same element *)
Theorem c04_same_element : forall b t0 progs s sch k1 k2 ti1 ti2 i e1 e2, Reach b t0 progs s ->
  nth_error (tables s) k1 = Some ti1 -> published ti1 ->
  nth_error (tables (run st step s sch)) k2 = Some ti2 -> published ti2 ->
  read_elem s (tblocks ti1) i = Some e1 -> read_elem (run st step s sch) (tblocks ti2) i = Some e2 -> e1 = e2.
Proof. exact cv_same_element. Qed.
Print Assumptions c04_same_element.

(* at the level of what callers get: every element returned by ensure(i) / operator[](i) / snapshot[i], by any thread
   at any time, is the element the current table designates for i (and, by c04_stable, will designate for ever):
   two requests for the same index always got the same element *)
Theorem c04_results_same_element : forall b t0 progs s t1 t2 th1 th2 j1 j2 o1 o2 i e1 e2, Reach b t0 progs s ->
  nth_error (threads s) t1 = Some th1 -> nth_error (threads s) t2 = Some th2 ->
  nth_error (prog th1) j1 = Some o1 -> nth_error (prog th2) j2 = Some o2 ->
  op_index o1 = Some i -> op_index o2 = Some i ->
  nth_error (results th1) j1 = Some (RElem (Some e1)) -> nth_error (results th2) j2 = Some (RElem (Some e2)) ->
  e1 = e2 /\ slot s i = Some e1.
Proof. exact cv_results_same_element. Qed.
Print Assumptions c04_results_same_element.

(* ... and the tables that ensure / operator[] / snapshots read through are published ones *)
Theorem c04_reads_go_through_published_tables : forall b t0 progs s t th, Reach b t0 progs s ->
  nth_error (threads s) t = Some th ->
  (exists ti, nth_error (tables s) (cur s) = Some ti /\ published ti) /\
  (forall k taken, snap th = Some (k, taken) -> exists ti, nth_error (tables s) k = Some ti /\ published ti) /\
  (forall old nt hw hn w c0 hclk, tpc th = RetStrong old nt hw hn w c0 hclk \/ tpc th = RetWeak old nt hw hn w c0 hclk ->
     exists ti, nth_error (tables s) nt = Some ti /\ published ti).
Proof. exact cv_reads_published. Qed.
Print Assumptions c04_reads_go_through_published_tables.

(* the table installed in _block_table is never freed *)
Theorem c04_current_table_alive : forall b t0 progs s, Reach b t0 progs s ->
  exists ti, nth_error (tables s) (cur s) = Some ti /\ tfreed ti = None /\ tsup ti = None.
Proof. exact cv_current_alive. Qed.
Print Assumptions c04_current_table_alive.

(* every element (block) is constructed exactly once *)
Theorem c04_constructed_once : forall b t0 progs s, Reach b t0 progs s -> Forall (fun c => c = 1%nat) (bctor s).
Proof. exact cv_constructed_once. Qed.
Print Assumptions c04_constructed_once.

(* while the vector is alive no block is destroyed twice, no block visible through the published table is destroyed,
   and a block that is not destroyed is published or owned by exactly one thread inside the slow path *)
Theorem c04_destroyed_at_most_once : forall b t0 progs s blk c, Reach b t0 progs s -> nth_error (bdtor s) blk = Some c ->
  (c <= 1)%nat /\ (In blk (live s) -> c = 0%nat) /\
  (c = 0%nat -> In blk (live s) \/ exists t th, nth_error (threads s) t = Some th /\ slow_nt (tpc th) <> None /\
                                         nth_error (bst s) blk = Some (BSpec t)).
Proof. exact cv_destroyed_at_most_once. Qed.
Print Assumptions c04_destroyed_at_most_once.

(* when the vector dies (every call has returned; `destroy` = ~ConcurrentVector): every block ever created - published
   or speculatively created by a loser - has been constructed exactly once and destroyed exactly once, and every heap
   block table (published, retired or speculative) has been deleted exactly once *)
Theorem c04_death : forall b t0 progs s, Reach b t0 progs s -> all_done s = true ->
  Forall (fun c => c = 1%nat) (bctor (destroy s)) /\ Forall (fun c => c = 1%nat) (bdtor (destroy s)) /\
  length (bdtor (destroy s)) = length (bctor (destroy s)) /\
  forall k ti, nth_error (tables (destroy s)) k = Some ti -> k <> 0%nat -> tfrees ti = 1%nat.
Proof. exact cv_death. Qed.
Print Assumptions c04_death.

(* while alive: a table is deleted at most once, and only after it left the retire list or if it was never published *)
Theorem c04_table_frees : forall b t0 progs s k ti, Reach b t0 progs s -> nth_error (tables s) k = Some ti -> k <> 0%nat ->
  (tfrees ti <= 1)%nat /\ (tfrees ti = 1%nat <-> (tst ti = TFreed \/ tst ti = TDead)).
Proof. exact cv_table_frees. Qed.
Print Assumptions c04_table_frees.

(* whole-object operations (CVObjModel: several vector objects; construction with an element constructor, growth, move
   construction = delegate + swap, move assignment = swap, swap, destruction - sequential, as documented): after ANY
   sequence of such steps every block of every live vector was built by the constructor that vector carries, which is a
   real constructor (never the empty std::function, i.e. never create_block's memset branch), and nothing visible has been
   destroyed.  Relies on the regenerated move_ctor_delegate_arg (a COPY of other._constructor), swap member list and
   create_block test: stealing the constructor in the move constructor re-opens this proof. *)
Theorem c04_moved_vectors_keep_their_constructor : forall sb n ops v o b,
  forallb pos_ctor ops = true -> olive (orun (oinit sb n) ops) v o -> In b (oblocks o) ->
  nth b (built (orun (oinit sb n) ops)) 0 = octor o /\ 0 < octor o /\ nth b (killed (orun (oinit sb n) ops)) 0%nat = 0%nat.
Proof. exact cvo_built_by_constructor. Qed.
Print Assumptions c04_moved_vectors_keep_their_constructor.

(* ... and once every vector object is gone every block ever created, through whichever object it travelled, was
   constructed by a real constructor and destroyed exactly once *)
Theorem c04_objects_death : forall sb n ops b,
  forallb pos_ctor ops = true -> (forall v, oslot (orun (oinit sb n) ops) v = None) ->
  (b < length (built (orun (oinit sb n) ops)))%nat ->
  0 < nth b (built (orun (oinit sb n) ops)) 0 /\ nth b (killed (orun (oinit sb n) ops)) 0%nat = 1%nat.
Proof. exact cvo_death. Qed.
Print Assumptions c04_objects_death.

Theorem c04_move_and_swap_source_facts : (forall c, move_ctor_delegate_arg c = c) /\
  (swap_meta = 1 /\ swap_constructor = 1 /\ swap_block_table = 1 /\ swap_retire_list = 1 /\ move_assign_swaps = 1) /\
  (forall c, create_block_constructs c = negb (c =? 0)).
Proof. exact (conj cvo_move_delegates_a_copy (conj cvo_swap_all_members cvo_create_block_test)). Qed.
Print Assumptions c04_move_and_swap_source_facts.

(* which clock retire()/gc() stamp with: the regenerated clock id names a MONOTONIC clock, so the stamp source is elapsed
   time whatever an adversary does to the calendar clock (client op OStep d: wall clock stepped by d seconds, forward or
   backward - NTP step, date -s, VM resume).  With a calendar id (CLOCK_REALTIME*, CLOCK_TAI) this fails and every proof
   below that goes through step_Step re-opens. *)
Theorem c04_stamp_clock_is_monotonic : clock_is_monotonic clock_id = true /\ forall s, tsrc s = clock s.
Proof. exact (conj cv_clock_is_monotonic tsrc_clock). Qed.
Print Assumptions c04_stamp_clock_is_monotonic.

(* cooling period: a table is freed more than 64 s of ELAPSED time after the growth that superseded it, for every
   schedule and every clock history - elapsed time advancing arbitrarily (OAdv), the calendar clock stepped arbitrarily
   in either direction (OStep) -, gc() calls included, 16-bit stamp wrap included *)
Theorem c04_cooling : forall b t0 progs s, 0 <= t0 -> Reach b t0 progs s ->
  forall k ti r f, nth_error (tables s) k = Some ti -> tsup ti = Some r -> tfreed ti = Some f -> f - r > 64.
Proof. exact cv_cooling. Qed.
Print Assumptions c04_cooling.

(* a snapshot is found unusable (its table freed) only more than 64 s after it was taken - hence more than one
   cooling period after the growth that superseded it is not needed: 64 s after the snapshot was TAKEN suffice *)
Theorem c04_snapshot_usable : forall b t0 progs s, 0 <= t0 -> Reach b t0 progs s ->
  forall k taken c, In (k, taken, c) (uaf s) -> c - taken > 64.
Proof. exact cv_snapshot_usable. Qed.
Print Assumptions c04_snapshot_usable.

(* the stamp pushed by retire() is never older than the list it is pushed onto (ghost `stale`, the former finding F4):
   the clock is re-read in every round of the push loop (regenerated target retry_new_head) *)
Theorem c04_no_stale_stamp : forall b t0 progs s, 0 <= t0 -> Reach b t0 progs s -> stale s = false.
Proof. exact cv_never_stale. Qed.
Print Assumptions c04_no_stale_stamp.

Theorem c04_times_are_past : forall b t0 progs s, 0 <= t0 -> Reach b t0 progs s ->
  forall k ti, nth_error (tables s) k = Some ti ->
    (forall r, tsup ti = Some r -> r <= clock s) /\ (forall f, tfreed ti = Some f -> f <= clock s).
Proof. exact cv_times_sane. Qed.
Print Assumptions c04_times_are_past.

(* the regenerated stamp arithmetic: 48-bit pointer tagging round-trips; `expire` (mod 2^16) implies two whole units
   have passed, wrap can only delay an expiry; two units apart means more than 64 s *)
Theorem c04_head_packing : forall p ts, 0 <= p < 2 ^ 48 -> 0 <= ts ->
  ts_of_head (make_head p ts) = ts /\ node_of_head (make_head p ts) = p.
Proof. exact cv_head_packing. Qed.
Print Assumptions c04_head_packing.

Theorem c04_expire_sound : forall hw c U, 0 <= U <= current_unit c -> ts_of_head hw = U mod 2 ^ 16 ->
  expire hw (stamp_at c) = true -> U + 2 <= current_unit c.
Proof. exact cv_expire_sound. Qed.
Print Assumptions c04_expire_sound.

Theorem c04_ts16_wrap_only_delays : forall hw c U, 0 <= U <= current_unit c -> ts_of_head hw = U mod 2 ^ 16 ->
  current_unit c - U < 2 ^ 16 -> (expire hw (stamp_at c) = true <-> U + 2 <= current_unit c).
Proof. exact cv_expire_wrap_only_delays. Qed.
Print Assumptions c04_ts16_wrap_only_delays.

Theorem c04_two_units_is_more_than_64s : forall r c U, current_unit r <= U -> U + 2 <= current_unit c -> c - r > 64.
Proof. exact units_apart. Qed.
Print Assumptions c04_two_units_is_more_than_64s.

Theorem c04_stamp_types : ts_bits = 16 /\ ts_of_head_bits = 16 /\ expire_arg_bits = 16.
Proof. exact cv_ts_bits. Qed.
Print Assumptions c04_stamp_types.

(* the regenerated slow path: copy exactly the old entries, create and (on loss) delete exactly [block_num, expect) *)
Theorem c04_slow_path_ranges : forall bn e, copy_bytes bn / 8 = bn /\ create_lo bn e = bn /\ create_hi bn e = e /\
  delete_lo bn e = bn /\ delete_hi bn e = e /\ new_table_size bn e = e.
Proof. exact cv_gen_ranges. Qed.
Print Assumptions c04_slow_path_ranges.

Theorem c04_qualified_tests : forall n e, (table_qualified n e = true <-> e <= n) /\ (loser_done n e = true <-> e <= n).
Proof. intros n e. split; [exact (cv_table_qualified n e)|exact (cv_loser_done n e)]. Qed.
Print Assumptions c04_qualified_tests.

Theorem c04_element_loops : forall n, ctor_loop_hi n = n /\ dtor_loop_hi n = n /\ destroy_loop_hi n = n.
Proof. intro n. destruct (cv_elem_loops n). repeat split; auto. Qed.
Print Assumptions c04_element_loops.

(* index arithmetic: static and dynamic block sizes agree; an index splits uniquely into (block, offset) *)
Theorem c04_static_dynamic_agree : forall i b, 0 <= b ->
  sta_block_index i b = dyn_block_index i b /\
  sta_block_offset i (2 ^ b) = dyn_block_offset i (mask_of b) /\ sta_block_mask (2 ^ b) = mask_of b /\
  dyn_block_size (mask_of b) = 2 ^ b.
Proof. exact cv_static_dynamic_agree. Qed.
Print Assumptions c04_static_dynamic_agree.

Theorem c04_index_split : forall i b, 0 <= b -> 0 <= i ->
  i = dyn_block_index i b * 2 ^ b + dyn_block_offset i (mask_of b) /\ 0 <= dyn_block_offset i (mask_of b) < 2 ^ b.
Proof. exact cv_index_split. Qed.
Print Assumptions c04_index_split.

(* the memory orders the argument relies on are the ones in the source (regenerated site tables) *)
Theorem c04_memory_order_obligations : orders_ok = true.
Proof. exact cv_orders_ok. Qed.
Print Assumptions c04_memory_order_obligations.

(* non-vacuity: a reachable state in which a table was retired, freed 128 s later by gc() (no stale stamp) and a
   too-old snapshot found it freed *)
Example c04_objects_example : forallb pos_ctor obj_example = true /\
  (forall v, oslot (orun (oinit 0 3) obj_example) v = None) /\ length (built (orun (oinit 0 3) obj_example)) = 5%nat.
Proof. exact cvo_example. Qed.

Example c04_death_example :
  exists s, Reach 0 1000000 death_progs s /\ all_done s = true /\ (0 < sum (bdtor s))%nat /\ (2 <= length (tl (tables s)))%nat.
Proof. exact cv_death_example. Qed.

Example c04_cooling_example :
  exists s, Reach 0 1000000 ok_progs s /\ stale s = false /\
    (exists k ti r f, nth_error (tables s) k = Some ti /\ tsup ti = Some r /\ tfreed ti = Some f /\ f - r = 128) /\
    uaf s <> [].
Proof. exact cv_cooling_example. Qed.

(* ---- "constructed before anyone can see it": publication of a freshly built block table on the release/acquire
   view machine (coq/WM/RA.v), orders regenerated from vector.hpp.  Two growers race to CAS-publish their table;
   a reader that acquires the pointer (get_qualified_block_table / snapshot) reads the winner's table and blocks
   without a data race; the CAS loser, which continues with the winner's table, does too (failure order). *)
Require Import Verif.Base.Atomics Verif.WM.RA Verif.WM.RALitmus Verif.WM.RALitmusProofs.
Definition c04_cas_success : morder := match sites_get_table_slow with [(KCasS, o, _)] => o | _ => Relaxed end.
Definition c04_cas_failure : morder := match sites_get_table_slow with [(KCasS, _, o)] => o | _ => Relaxed end.
Definition c04_table_load : morder := match sites_get_table with [(KLoad, o, _)] => o | _ => Relaxed end.
Definition c04_snapshot_load : morder := match sites_snapshot with [(KLoad, o, _)] => o | _ => Relaxed end.

Theorem c04_table_publication : forall sch,
  RA.final (RA.run (RA.init (mp_cas_publish c04_cas_success c04_table_load)) sch) = true ->
  mp_cas_bad (RA.result (RA.run (RA.init (mp_cas_publish c04_cas_success c04_table_load)) sch)) = false.
Proof. apply mp_cas_publish_all_executions. vm_compute. reflexivity. Qed.
Print Assumptions c04_table_publication.

Theorem c04_snapshot_publication : forall sch,
  RA.final (RA.run (RA.init (mp_cas_publish c04_cas_success c04_snapshot_load)) sch) = true ->
  mp_cas_bad (RA.result (RA.run (RA.init (mp_cas_publish c04_cas_success c04_snapshot_load)) sch)) = false.
Proof. apply mp_cas_publish_all_executions. vm_compute. reflexivity. Qed.
Print Assumptions c04_snapshot_publication.

(* the loser of the publication CAS acquires the winner's table: both the success and the failure order matter *)
Theorem c04_cas_loser_sees_winner_table :
  has_acquire c04_cas_failure = true /\ has_release c04_cas_success = true /\ has_acquire c04_cas_success = true.
Proof. vm_compute. repeat split; reflexivity. Qed.
Print Assumptions c04_cas_loser_sees_winner_table.
