(* C04 - Concurrent vector: stable addresses, one element per index, built/destroyed once, cooling period. *)
From Coq Require Import ZArith List Bool.
Require Import Verif.Gen.Gen_cvector Verif.Conc.Machine Verif.CV.CVModel Verif.CV.CVProofs.
Import ListNotations.
Local Open Scope Z_scope.

Theorem c04_slow_path_ranges : forall bn e, copy_bytes bn / 8 = bn /\ create_lo bn e = bn /\ create_hi bn e = e /\
  delete_lo bn e = bn /\ delete_hi bn e = e /\ new_table_size bn e = e.
Proof. exact cv_gen_ranges. Qed.
Print Assumptions c04_slow_path_ranges.
