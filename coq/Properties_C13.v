From Coq Require Import ZArith List Bool Arith.
Require Import Verif.Conc.Machine Verif.CO.COModel Verif.CO.COProofs.
Theorem c13_placeholder : True. Proof. exact placeholder. Qed.
Print Assumptions c13_placeholder.
