(* C13 - Coroutines: each suspension resumed exactly once, on its executor, right result.

   Model: CO/COModel.v - interleaving machine of coroutine::Futex (futex.h / futex.cpp: await_suspend, add_awaiter,
   wake_one, wake_all, Awaitable::cancel, remove_awaiter) over an abstract DepositBox (emplace -> versioned id, take
   succeeds once per id, finish returns the slot; its allocator is property C14), with BasicPromise::resume handing
   the continuation to the executor the coroutine is bound to, and the take race of BasicCancellable.  Client programs
   (wake_one / wake_all / cancel / value store, any number of threads) and coroutine programs (any number of waits
   each, any executor) are universally quantified; schedules are arbitrary lists of thread ids ([Reach] = reachable
   from [init] by the machine of Conc/Machine.v).  The loop advances of wake_one / wake_all, the branches of
   await_suspend, add_awaiter and remove_awaiter are regenerated from the source (Gen_coroutine.v, [gen_cfg]);
   [c13_code_paths] ties them to the configuration the invariant is proved for, so an edit of those expressions
   re-opens the proofs.

   What is proved (all by one ownership invariant, COProofs.Inv, preserved by every step):
     c13_resume_once        no resumption ever hits a coroutine that is not suspended (bad = 0) and no suspension
                            (coroutine, wait index) is resumed twice
     c13_resumer_owns       the thread about to resume node n is its only owner and the coroutine stored in n is
                            suspended on exactly n (cancel vs wake_one vs wake_all: exactly one wins the node)
     c13_on_executor        every continuation is handed to the executor its coroutine is bound to
     c13_quiescent          when nothing is in flight every deposit slot is free or is the node of a queued, untaken
                            waiter whose coroutine is suspended on it (no leaked bookkeeping, slots held = waits in
                            progress), and every suspended coroutine has such a node in the list (never stranded: the
                            next wake_one / wake_all reaches it)
     c13_wake_one_zero      a wake_one call that returns 0 leaves an empty list at that moment, and
     c13_failed_take        a node a waker could not take is owned by a canceller that has not unlinked it yet
                            (so wake_one returns 0 only if every queued waiter was being cancelled)
     c13_wake_all           wake_all detaches the whole list; every detached node is untaken-and-queued or being
                            cancelled, every node it took has its coroutine suspended on it (and is resumed once, by it)
     c13_nonmatching        a wait whose value does not match does not suspend, publishes no token, returns its slot
     c13_suspend_atomic     the value check and the enqueue of add_awaiter are one step (as FUTEX(2)): the coroutine is
                            queued and suspended with the word equal to its expected value, or goes on unsuspended; so
                            no wake can fall between the two (no lost wakeup: with c13_quiescent / c13_wake_all every
                            waiter queued before a wake_all's critical section is taken by it, every later one saw the
                            new word).  [bad] of c13_resume_once also counts nodes queued on a non-matching word.
                            Holds because the regenerated flag add_compare_under_lock is 1 (c13_code_paths);
                            c13_unlocked_compare_refuted is the lost wakeup of the machine with the flag 0
     c13_list_wellformed    the waiter list is a well-formed doubly linked list in every reachable state: acyclic (no node
                            twice), every member has prev set and next = its successor (nullptr for the last; node link
                            fields are explicit per deposit slot and persist across slot reuse: wake_one clears prev and
                            next of a node it detaches, wake_all only prev), every member is the node of a coroutine
                            suspended on it and is untaken or owned by a canceller that has not unlinked it.  With it
                            remove_awaiter (both fix-ups under their regenerated guards) only writes link fields of
                            members of the list: [bad] of c13_resume_once also counts a write into a node that is not in
                            the list.  c13_unnested_fixup_refuted is the stray write of the machine with the
                            next->prev fix-up outside the `if (node->prev)` block
     c13_cancel_iff_empty   BasicCancellable: whatever the calls of cancel / resume on one id, the awaiter is resumed
                            exactly once, by the first, and its optional is empty iff that first call was a cancel
   Partial / not mechanised: liveness is in safety form (c13_quiescent: no reachable quiescent state strands or leaks
   a wait); "eventually resumed under a fair scheduler" is the standard step from there and is not proved.  The
   return value of wake_all (= number of nodes it took) is checked by the acct monitor on the real code, not proved.
   Task / FutureAwaitable / final_suspend hand-off are covered by monitors on the real code only (value, executor,
   once).  The use of the awaitable after add_awaiter published the node (await_suspend fetched _on_suspend from an
   awaitable the continuation may already have destroyed; repaired by 2496902) is outside the model (object lifetime):
   it is checked on the real code by the variant driver (scheduling point after every unlock of futex.cpp, freed memory
   poisoned, monitor cbafter) and by the regenerated target callback_taken_before_publish.
   Regression witnesses (code before the repairs 3220185 / 0534791 / 78434ce, cfg_asis): c13_asis_*. *)
From Coq Require Import ZArith List Bool Arith.
Require Import Verif.Conc.Machine Verif.Gen.Gen_coroutine Verif.CO.COModel Verif.CO.COProofs.
Import ListNotations.
Local Open Scope Z_scope.

Theorem c13_code_paths : gen_cfg = cfg_fixed.
Proof. exact gen_cfg_fixed. Qed.
Print Assumptions c13_code_paths.

Theorem c13_resume_once : forall v0 cps kps s, Reach v0 cps kps s -> bad s = 0%nat /\ NoDup (map fst (rlog s)).
Proof. exact t_resume_once. Qed.
Print Assumptions c13_resume_once.

Theorem c13_resumer_owns : forall v0 cps kps s t n, Reach v0 cps kps s -> In n (held_pc (cst s t)) ->
  kstat s (nco (slot_at s n)) = KSusp (nwi (slot_at s n)) n /\ (forall t', In n (owned_pc (cst s t')) -> t' = t).
Proof. exact t_resumer_owns. Qed.
Print Assumptions c13_resumer_owns.

Theorem c13_on_executor : forall v0 cps kps s i j e, Reach v0 cps kps s -> In (i, j, e) (rlog s) -> e = kex s i.
Proof. exact t_on_executor. Qed.
Print Assumptions c13_on_executor.

Theorem c13_quiescent : forall v0 cps kps s, Reach v0 cps kps s -> quiescent s = true ->
  (forall n, (n < nslots s)%nat ->
     In n (freel s) \/
     (In n (lst s) /\ take_ok s n (nidv (slot_at s n)) = true /\
      kstat s (nco (slot_at s n)) = KSusp (nwi (slot_at s n)) n)) /\
  (forall i j n, kstat s i = KSusp j n ->
     In n (lst s) /\ take_ok s n (nidv (slot_at s n)) = true /\ nco (slot_at s n) = i /\ nwi (slot_at s n) = j).
Proof. exact t_quiescent. Qed.
Print Assumptions c13_quiescent.

Theorem c13_wake_one_zero : forall s t cl s' cl',
  nth_error (clients s) t = Some cl -> step_client gen_cfg s t cl = Some s' ->
  ((cpcv cl = CIdle /\ nth_error (cprog cl) (copi cl) = Some OWake1) \/ exists n, cpcv cl = W1Take n) ->
  nth_error (clients s') t = Some cl' -> cres cl' = cres cl ++ [RW1 0] -> lst s' = [].
Proof. exact t_wake_one_zero. Qed.
Print Assumptions c13_wake_one_zero.

Theorem c13_failed_take : forall v0 cps kps s t n, Reach v0 cps kps s ->
  (cst s t = W1Take n \/ exists r taken, cst s t = WATake (n :: r) taken) ->
  take_ok s n (nidv (slot_at s n)) = false -> exists t', cst s t' = CKLock n.
Proof. exact t_failed_take. Qed.
Print Assumptions c13_failed_take.

Theorem c13_wake_all : forall v0 cps kps,
  (forall s t cl s', step_client gen_cfg s t cl = Some s' -> cpcv cl = CIdle ->
     nth_error (cprog cl) (copi cl) = Some OWakeAll -> lst s' = []) /\
  (forall s t pend taken n, Reach v0 cps kps s -> cst s t = WATake pend taken ->
     (In n pend -> (n < nslots s)%nat /\
        ((sst (slot_at s n) = SQueued /\ take_ok s n (nidv (slot_at s n)) = true) \/ exists t', cst s t' = CKLock n)) /\
     (In n taken -> kstat s (nco (slot_at s n)) = KSusp (nwi (slot_at s n)) n)).
Proof. exact t_wake_all. Qed.
Print Assumptions c13_wake_all.

Theorem c13_nonmatching : forall s i k j n x tok s',
  kstv k = KLock j n -> nth_error (kprog k) j = Some (x, tok) -> x <> fv s -> (n < nslots s)%nat ->
  step_coro gen_cfg s i k = Some s' ->
  s' = set_coro (release (take s n SFree) n) i (set_kst k (KReady (S j))) /\ In n (freel s') /\
  lst s' = lst s /\ tokens s' = tokens s.
Proof. exact t_nonmatching. Qed.
Print Assumptions c13_nonmatching.

Theorem c13_suspend_atomic : forall s i k j n x tok s',
  nth_error (coros s) i = Some k -> kstv k = KLock j n -> nth_error (kprog k) j = Some (x, tok) ->
  step_coro gen_cfg s i k = Some s' ->
  (x = fv s /\ lst s' = n :: lst s /\ kstat s' i = KSusp j n) \/
  (x <> fv s /\ lst s' = lst s /\ kstat s' i = KReady (S j)).
Proof. exact t_suspend_atomic. Qed.
Print Assumptions c13_suspend_atomic.

Theorem c13_list_wellformed : forall v0 cps kps s, Reach v0 cps kps s ->
  NoDup (lst s) /\
  map (nnext s) (lst s) = map enc (succs (lst s)) /\
  (forall n, In n (lst s) ->
     (n < nslots s)%nat /\ linked (slot_at s n) = true /\
     kstat s (nco (slot_at s n)) = KSusp (nwi (slot_at s n)) n /\
     (take_ok s n (nidv (slot_at s n)) = true \/ exists t, cst s t = CKLock n)).
Proof. exact t_list_wellformed. Qed.
Print Assumptions c13_list_wellformed.

Theorem c13_cancel_iff_empty : forall idv w calls,
  cresumed (crun idv (w :: calls)) = 1%nat /\ cwins (crun idv (w :: calls)) = [w] /\
  (cresult_empty (crun idv (w :: calls)) = true <-> w = CCancel).
Proof. exact cancellable_race. Qed.
Print Assumptions c13_cancel_iff_empty.

(* regression witnesses: the three pre-fix behaviours, on the model of the code as it was (cfg_asis) *)
Theorem c13_asis_leak_refuted : exists sch,
  let s := run st (step cfg_asis) (init 1 [] [(0%nat, [(0, false)])]) sch in
  quiescent s = true /\ map kstv (coros s) = [KDone] /\ in_use s = 1%nat /\ lst s = [].
Proof. exact asis_leak. Qed.
Print Assumptions c13_asis_leak_refuted.

Theorem c13_asis_wake_one_refuted : exists sch,
  let s := run st (step cfg_asis) (init 1 [[OCancel 1 0]; [OWake1]] [(0%nat, [(1, true)]); (0%nat, [(1, true)])]) sch in
  map cres (clients s) = [[]; [RW1 0]] /\ lst s = [0%nat] /\ take_ok s 0 (nidv (slot_at s 0)) = true.
Proof. exact asis_wake_one. Qed.
Print Assumptions c13_asis_wake_one_refuted.

Theorem c13_asis_wake_all_refuted : exists sch,
  let s := run st (step cfg_asis) (init 1 [[OWakeAll]] [(0%nat, [(1, false)]); (0%nat, [(1, false); (1, false)])]) sch in
  quiescent s = true /\ map cres (clients s) = [[RWA 1]] /\ map kstv (coros s) = [KSusp 0 0; KSusp 1 1] /\ lst s = [1%nat].
Proof. exact asis_wake_all. Qed.
Print Assumptions c13_asis_wake_all_refuted.

(* the same machine with add_awaiter comparing the word before it takes the mutex (regenerated flag
   add_compare_under_lock = 0): waiter compares, waker stores + wake_all on an empty list, waiter enqueues - lost wakeup *)
Theorem c13_unlocked_compare_refuted : exists sch,
  let s := run st (step cfg_cmp_unlocked) (init 0 [[OSetV 1; OWakeAll]] [(0%nat, [(0, false)])]) sch in
  quiescent s = true /\ map cres (clients s) = [[RV; RWA 0]] /\ map kstv (coros s) = [KSusp 0 0] /\ fv s = 1 /\ bad s = 1%nat.
Proof. exact unlocked_compare_lost_wakeup. Qed.
Print Assumptions c13_unlocked_compare_refuted.

(* the same machine with the next->prev fix-up of remove_awaiter outside the `if (node->prev)` block (regenerated flag
   next_fixup_nested = 0): cancel wins the take of X, wake_all detaches X (keeping X->next) and takes Y, the canceller
   then writes Y->prev although Y is not in the list any more *)
Theorem c13_unnested_fixup_refuted : exists sch,
  let s := run st (step cfg_fix2_unnested)
               (init 1 [[OWaitTok 2; OCancel 1 0]; [OWaitTok 2; OWakeAll]] [(0%nat, [(1, true)]); (0%nat, [(1, true)])]) sch in
  bad s = 1%nat /\ lst s = [] /\ map cpcv (clients s) = [CKResume 1; WAResume 0 [] 0].
Proof. exact unnested_fixup_stray_write. Qed.
Print Assumptions c13_unnested_fixup_refuted.

(* non-vacuity: reachable states of the repaired code that satisfy the hypotheses above *)
Example c13_ex_quiescent_waiter :
  let s := run st (step gen_cfg) (init 1 [] [(0%nat, [(1, true)])]) [0; 0]%nat in
  quiescent s = true /\ lst s = [0%nat] /\ kstat s 0 = KSusp 0 0 /\ length (tokens s) = 1%nat.
Proof. vm_compute. auto. Qed.
Example c13_ex_cancel_beats_wake_one :   (* same programs and schedule as c13_asis_wake_one_refuted *)
  let s := run st (step gen_cfg) (init 1 [[OCancel 1 0]; [OWake1]] [(0%nat, [(1, true)]); (0%nat, [(1, true)])])
               [2; 2; 3; 3; 0; 1; 1; 1; 1; 1; 0; 0; 0; 2; 2; 3; 3]%nat in
  quiescent s = true /\ map cres (clients s) = [[RK (Some true)]; [RW1 1]] /\ map kstv (coros s) = [KDone; KDone] /\
  in_use s = 0%nat /\ map fst (rlog s) = [(0, 0); (1, 0)]%nat.
Proof. vm_compute. auto. Qed.
Example c13_ex_wake_all_rewait :          (* same programs as c13_asis_wake_all_refuted *)
  let s := run st (step gen_cfg) (init 1 [[OWakeAll]] [(0%nat, [(1, false)]); (0%nat, [(1, false); (1, false)])])
               [1; 1; 2; 2; 0; 0; 0; 0; 0; 2; 2; 2; 0; 0; 0; 0; 1; 1]%nat in
  quiescent s = true /\ map cres (clients s) = [[RWA 2]] /\ map kstv (coros s) = [KDone; KSusp 1 1] /\ in_use s = 1%nat.
Proof. vm_compute. auto. Qed.
Example c13_ex_mismatch_no_leak :
  let s := run st (step gen_cfg) (init 1 [] [(0%nat, [(0, false)])]) [0; 0; 0]%nat in
  map kstv (coros s) = [KDone] /\ in_use s = 0%nat.
Proof. vm_compute. auto. Qed.
