(* C02 - bounded queue: a blocked push/pop is always woken (no lost wakeup, no deadlock).
   Only statements; proofs are `exact <lemma of BQ/*.v>`.  Reach k progs s = "s is reachable from the initial state of the queue of
   capacity 2^k with client programs `progs` under SOME schedule (list of thread ids, clock ticks included)": every theorem
   about reachable states is quantified over all schedules, all capacities, all thread counts and all client programs mixing
   push, pop, try_push, try_pop, push_n, pop_n, try_push_n, try_pop_n and the timed exclusive pop with any template flags
   (usage_ok = the documented pairing rules where stated).

   PROVED (all "Closed under the global context"):
     c02_no_lost_wakeup          (usage_ok, versions below 2^16) a thread asleep in futex_wait on a slot whose version already
                                 equals the one it waits for has a waker on its way: a pending wake_all on that slot, or the
                                 USE_FUTEX_WAKE batch publisher of that version before / inside its wakeup_waiters pass - for the
                                 single exchange waker AND the batch store16 / seq_cst fence / load / CAS / wake_all waker,
                                 including the window "waiter registers between the waker's store and the waker's check"
     c02_ready_sleeper_waker_enabled, c02_deadlock_not_lost_wakeup
                                 that waker is itself enabled; in a state where no thread can move every sleeper's slot has
                                 really not reached its version: a deadlock can only be a resource deadlock of the client
                                 program (e.g. more pops than pushes), never a lost wakeup
     c02_sleeper_not_forgotten   (any program) a sleeper always has the waiter bit of its slot set or a wake_all pending
     c02_single_waker_wakes, c02_batch_waker_load_sees_waiter, c02_batch_waker_cas_wakes, c02_wake_releases_all
                                 the individual steps of both wakers
     c02_unparked_threads_enabled, c02_timed_wait_released_by_clock, c02_clock_can_advance, c02_finished_threads_idle
                                 nothing but futex_wait blocks a thread; a timed sleeper is released by the clock
     c02_timed_pop_tail_never_waits, c02_timed_pop_wait_then_try_pop_n, c02_timed_pop_passes_num
                                 the timed exclusive pop: once its single timed wait is over (reached or timed out) the call is
                                 the index load of try_pop_n<false> and runs to its return through non-waiting steps only -
                                 it can never sleep without a deadline; the tail of the function is regenerated from the
                                 source (the statement after the timed wait must be `return try_pop_n<false,...>(callback, num);`
                                 and the last one of the body, else the translator stops)
     c02_entry_points_forward_flags, c02_cores_forward_role, c02_no_lost_wakeup_any_entry, c02_no_deadlock_any_entry
                                 public overloads: a call written through the callback / value / pointer / iterator overload or
                                 an overload without template arguments (entry_ok) runs the core operation with exactly the
                                 flags written - every forwarded template-argument list is regenerated from the source - so
                                 the two schedule-quantified theorems hold for client programs (lists of calls) whose
                                 declared flags satisfy usage_ok
     c02_wake_batch_tso, c02_wake_single_tso, c02_wake_batch_without_fence_refuted
                                 the same waker / waiter race on an explicit store-buffer (TSO) machine, every execution, with
                                 the fences regenerated from the source
     c02_wake_tests_match_waiter_bit, c02_timeout_refresh, c02_memory_order_obligations
                                 the regenerated `<= UINT16_MAX` tests, `+ UINT16_MAX + 1`, the timeout refresh and the orders
     c02_no_deadlock             (balanced programs of blocking calls with one-sided threads, versions below 2^16) a reachable
                                 state with an unfinished thread always has an enabled thread; termination under a fair
                                 scheduler is the standard consequence and is not mechanised
   The 16-bit wrap: c02_no_lost_wakeup and c02_no_deadlock assume versions below 2^16 (fewer than 2^15 rounds); beyond that the model (unbounded
   versions compared through 16-bit words, as the code does) admits the ABA "waiter pre-empted for exactly 2^15 rounds". *)
From Coq Require Import ZArith List Bool.
Require Import Verif.Gen.Gen_bounded_queue Verif.Conc.Machine Verif.BQ.BQModel Verif.BQ.BQProofs.
Require Import Verif.BQ.BQInvDefs Verif.BQ.BQInvStep Verif.BQ.BQInvMain Verif.BQ.BQInvThm Verif.BQ.BQWake Verif.BQ.BQFifo Verif.BQ.BQTry Verif.BQ.BQDead Verif.BQ.BQTimed Verif.BQ.BQEntry.
Import ListNotations.
Local Open Scope Z_scope.

Theorem c02_sleeper_not_forgotten : forall k progs s, Reach k progs s ->
  forall u thu j sl, nth_error (threads s) u = Some thu -> tpc thu = WParked j sl ->
  wf (get_slot s sl) = true \/
  exists v thv, nth_error (threads s) v = Some thv /\ (tpc thv = PubWake sl \/ exists j', tpc thv = WkWake j' sl).
Proof. exact bq_sleeper_not_forgotten. Qed.
Print Assumptions c02_sleeper_not_forgotten.

Theorem c02_single_waker_wakes : forall s t th o j s', nth_error (threads s) t = Some th -> nth_error (prog th) (opi th) = Some o ->
  tpc th = Pub j -> is_single o = true -> fwake (oflags o) = true -> wf (get_slot s (seg_slot s o (lc th) j)) = true ->
  step s t = Some s' ->
  exists th', nth_error (threads s') t = Some th' /\ tpc th' = PubWake (seg_slot s o (lc th) j).
Proof. exact bq_xchg_waker. Qed.
Print Assumptions c02_single_waker_wakes.

Theorem c02_batch_waker_load_sees_waiter : forall s t th o j s', nth_error (threads s) t = Some th ->
  nth_error (prog th) (opi th) = Some o -> tpc th = WkLoad j -> wf (get_slot s (seg_slot s o (lc th) j)) = true ->
  ver (get_slot s (seg_slot s o (lc th) j)) = wake_ver (okind o) (seg_ever s o (lc th)) ->
  step s t = Some s' ->
  exists th', nth_error (threads s') t = Some th' /\ tpc th' = WkCas j (ver (get_slot s (seg_slot s o (lc th) j))).
Proof. exact bq_batch_waker_load. Qed.
Print Assumptions c02_batch_waker_load_sees_waiter.

Theorem c02_batch_waker_cas_wakes : forall s t th o j cur s', nth_error (threads s) t = Some th ->
  nth_error (prog th) (opi th) = Some o -> tpc th = WkCas j cur -> wf (get_slot s (seg_slot s o (lc th) j)) = true ->
  ver (get_slot s (seg_slot s o (lc th) j)) = cur -> step s t = Some s' ->
  exists th', nth_error (threads s') t = Some th' /\ tpc th' = WkWake j (seg_slot s o (lc th) j).
Proof. exact bq_batch_waker_cas. Qed.
Print Assumptions c02_batch_waker_cas_wakes.

Theorem c02_wake_releases_all : forall s t th s' sl, nth_error (threads s) t = Some th ->
  (tpc th = PubWake sl \/ exists j, tpc th = WkWake j sl) -> step s t = Some s' ->
  forall u thu j, nth_error (threads s') u = Some thu -> tpc thu <> WParked j sl.
Proof. exact bq_wake_releases. Qed.
Print Assumptions c02_wake_releases_all.

Theorem c02_unparked_threads_enabled : forall s t th, nth_error (threads s) t = Some th -> thread_done th = false ->
  (forall j sl, tpc th <> WParked j sl) -> step s t <> None.
Proof. exact bq_unparked_enabled. Qed.
Print Assumptions c02_unparked_threads_enabled.

Theorem c02_timed_wait_released_by_clock : forall s t th o j sl, nth_error (threads s) t = Some th ->
  nth_error (prog th) (opi th) = Some o -> tpc th = WParked j sl -> is_timed o = true -> dl (lc th) <= clock s ->
  step s t <> None.
Proof. exact bq_timed_released. Qed.
Print Assumptions c02_timed_wait_released_by_clock.

Theorem c02_clock_can_advance : forall s, step s (length (threads s)) <> None.
Proof. exact bq_clock_enabled. Qed.
Print Assumptions c02_clock_can_advance.

(* until_tail p: p is none of Idle / TkStore / WLoad / WCas / WFutex / WParked / WReload / WSleep / WSpin;
   tail_or_done th th': same call and until_tail (tpc th'), or the call has returned *)
Theorem c02_timed_pop_tail_never_waits : forall s t s' th o th', step s t = Some s' -> nth_error (threads s) t = Some th ->
  nth_error (prog th) (opi th) = Some o -> is_timed o = true -> until_tail (tpc th) ->
  nth_error (threads s') t = Some th' ->
  (opi th' = opi th /\ until_tail (tpc th')) \/ (opi th' = S (opi th) /\ tpc th' = Idle).
Proof. exact bq_timed_pop_tail. Qed.
Print Assumptions c02_timed_pop_tail_never_waits.

Theorem c02_timed_pop_wait_then_try_pop_n : forall o l j, is_timed o = true -> after_wait o l j = TnIdx.
Proof. exact bq_timed_wait_then_tail. Qed.
Print Assumptions c02_timed_pop_wait_then_try_pop_n.

Theorem c02_timed_pop_passes_num : forall n, until_try_num n = n.
Proof. exact bq_until_try_num. Qed.
Print Assumptions c02_timed_pop_passes_num.

(* public entry points: lower c = the core operation call c really runs (flags after every forwarding wrapper, regenerated) *)
Theorem c02_entry_points_forward_flags : forall c, entry_ok c = true -> lower c = c_op c.
Proof. exact bq_lower_faithful. Qed.
Print Assumptions c02_entry_points_forward_flags.

Theorem c02_cores_forward_role : cores_ok = true.
Proof. exact bq_cores_ok. Qed.
Print Assumptions c02_cores_forward_role.

Theorem c02_no_lost_wakeup_any_entry : forall k cp s, calls_ok cp = true -> usage_ok k (declared cp) = true ->
  Reach k (lower_progs cp) s -> small s ->
  forall t th sl x, nth_error (threads s) t = Some th -> parkedOn s th sl x -> ver (get_slot s sl) = x ->
  waker_on_its_way s sl x.
Proof. exact bq_client_no_lost_wakeup. Qed.
Print Assumptions c02_no_lost_wakeup_any_entry.

Theorem c02_no_deadlock_any_entry : forall k cp s, calls_ok cp = true -> usage_ok k (declared cp) = true ->
  balanced (declared cp) -> blocking_only (declared cp) -> one_sided_threads (declared cp) ->
  Reach k (lower_progs cp) s -> small s -> all_done s = false -> exists t, (t < length (threads s))%nat /\ step s t <> None.
Proof. exact bq_client_no_deadlock. Qed.
Print Assumptions c02_no_deadlock_any_entry.

Example c02_any_entry_example :
  let spinwake := {| conc := true; fwait := false; fwake := true |} in
  let sleeper := {| conc := true; fwait := true; fwake := false |} in
  let cp := [[{| c_entry := EnIt; c_op := OPushN spinwake [1; 2] |}];
             [{| c_entry := EnVal; c_op := OPop sleeper |}; {| c_entry := EnPtr; c_op := OPop sleeper |}]] in
  calls_ok cp = true /\ usage_ok 1 (declared cp) = true /\ lower_progs cp = declared cp.
Proof. exact bq_client_example. Qed.

Theorem c02_wake_tests_match_waiter_bit : forall v w,
  block_no_waiter (word16 v w) = negb w /\ xchg_no_waiter (word16 v w) = negb w /\ wakeup_no_waiter (word16 v w) = negb w /\
  block_no_waiter (block_wait_word (word16 v false)) = false.
Proof. exact (fun v w => conj (word16_flag v w) (conj (word16_flag_x v w) (conj (word16_flag_w v w) (word16_set_waiter v)))). Qed.
Print Assumptions c02_wake_tests_match_waiter_bit.

Theorem c02_timeout_refresh : forall b e d, block_elapsed b e = e - b /\ block_expired d = (d <=? 0).
Proof. exact bq_timeout_refresh. Qed.
Print Assumptions c02_timeout_refresh.

Theorem c02_memory_order_obligations : orders_ok = true.
Proof. exact bq_orders_ok. Qed.
Print Assumptions c02_memory_order_obligations.

(* ---- no lost wakeup, combined form (all usage_ok programs, capacities, thread counts, schedules) ----
   parkedOn s th sl x     : th sleeps in futex_wait on slot sl inside a wait_until_reach_expected_version(x) (BQ/BQWake.v)
   waker_on_its_way s sl x: some thread has a wake_all on sl pending (exchange waker after its exchange, batch waker after its
                            successful CAS), or is a USE_FUTEX_WAKE batch publisher of version x of slot sl that has not yet
                            passed its wakeup_waiters check of that slot (still storing versions, at the seq_cst fence, or in
                            the load / CAS / wake_all of an earlier slot of the same batch, or in the load / CAS of this slot)
   small s                : every slot version is below 2^16 (the 16-bit version field has not wrapped: fewer than 2^15 rounds) *)
Theorem c02_no_lost_wakeup : forall k progs s, usage_ok k progs = true -> Reach k progs s -> small s ->
  forall t th sl x, nth_error (threads s) t = Some th -> parkedOn s th sl x -> ver (get_slot s sl) = x ->
  waker_on_its_way s sl x.
Proof. exact bq_no_lost_wakeup. Qed.
Print Assumptions c02_no_lost_wakeup.

(* the waker of a ready sleeper is itself enabled: a state in which some sleeper's version has been reached is never a
   deadlock; conversely in a deadlocked state (no thread enabled) every sleeper's slot really has not reached the version it
   waits for - a deadlock of the model can only be a resource deadlock of the client program, never a lost wakeup *)
Theorem c02_ready_sleeper_waker_enabled : forall k progs s, usage_ok k progs = true -> Reach k progs s -> small s ->
  forall t th sl x, nth_error (threads s) t = Some th -> parkedOn s th sl x -> ver (get_slot s sl) = x ->
  exists u thu, nth_error (threads s) u = Some thu /\ (cert thu sl \/ win s thu sl x) /\ step s u <> None.
Proof. exact bq_ready_sleeper_waker_enabled. Qed.
Print Assumptions c02_ready_sleeper_waker_enabled.

Theorem c02_deadlock_not_lost_wakeup : forall k progs s, usage_ok k progs = true -> Reach k progs s -> small s ->
  (forall u, (u < length (threads s))%nat -> step s u = None) ->
  forall t th sl x, nth_error (threads s) t = Some th -> parkedOn s th sl x -> ver (get_slot s sl) <> x.
Proof. exact bq_deadlock_not_lost_wakeup. Qed.
Print Assumptions c02_deadlock_not_lost_wakeup.

(* a thread whose program is exhausted is idle (so "unfinished" and "has a current call" coincide) *)
Theorem c02_finished_threads_idle : forall k progs s u thu, usage_ok k progs = true -> Reach k progs s ->
  nth_error (threads s) u = Some thu -> thread_done thu = true -> tpc thu = Idle.
Proof. exact bq_finished_idle. Qed.
Print Assumptions c02_finished_threads_idle.

(* ---- no deadlock: in a program whose pushes and pops balance (balanced), made of blocking calls push / pop / push_n / pop_n
   with any flags (blocking_only), each thread producing only or consuming only (one_sided_threads), no reachable state with an
   unfinished thread is a deadlock - some thread can always step.  Proof (BQ/BQDead.v): every issued ticket is published or
   held by a thread (NL); the ticket counters equal the elements of the calls that obtained their tickets (AC); among the
   tickets awaited by sleepers take one of minimal expected version: the ticket it depends on (same slot, version one less) is
   unpublished, hence held by - or, by the accounting and balance, still to be requested by - a thread that is itself asleep on
   a ticket of smaller-or-equal expected version, contradiction; so by c02_deadlock_not_lost_wakeup nobody can be asleep.
   Same 16-bit hypothesis as c02_no_lost_wakeup (versions below 2^16).  Termination under a fair scheduler is the standard
   consequence and is not mechanised. *)
Theorem c02_no_deadlock : forall k progs s, usage_ok k progs = true -> balanced progs -> blocking_only progs -> one_sided_threads progs ->
  Reach k progs s -> small s -> all_done s = false -> exists t, (t < length (threads s))%nat /\ step s t <> None.
Proof. exact bq_no_deadlock. Qed.
Print Assumptions c02_no_deadlock.

(* non-vacuity: a usage_ok program; a reachable state with a sleeper and a pending wake; a run that finishes *)
Example c02_usage_example : usage_ok 1 [[OPush f111 1; OPushN f111 [2; 3]]; [OPop f111; OPopN f111 2]] = true.
Proof. exact bq_usage_example. Qed.
Example c02_balanced_example :
  balanced [[OPush f111 1; OPushN f111 [2; 3]]; [OPop f111; OPopN f111 2]] /\
  blocking_only [[OPush f111 1; OPushN f111 [2; 3]]; [OPop f111; OPopN f111 2]] /\
  one_sided_threads [[OPush f111 1; OPushN f111 [2; 3]]; [OPop f111; OPopN f111 2]].
Proof. exact bq_balanced_example. Qed.
Example c02_reach_example :
  exists s, Reach 0 [[OPush f111 1]; [OPop f111]] s /\ existsb parked_b (threads s) = true /\
            existsb wake_pending_b (threads s) = true /\ err s = false.
Proof. exact bq_reach_example. Qed.

(* ---- store-buffer (TSO) half of "no lost wakeup": the batch waker / waiter skeleton on the explicit store-buffer machine of
   coq/WM.  waker = 16-bit relaxed version store; [the fence of deal_n_continuously / try_deal_n_continuously as regenerated
   from the source: present in the skeleton iff it is seq_cst]; load of the waiter half (wakeup_waiters).  waiter = CAS-set
   waiter bit while the version is still old; futex_wait's kernel-side compare.  For EVERY schedule of instruction steps and
   store-buffer flushes no execution parks the waiter while the waker misses its waiter bit.  Weakening or removing either
   fence in the source flips the regenerated flag and this theorem fails; c02_wake_batch_without_fence_refuted is the
   statement that an execution then exists (bin/check prints it as the replay of a wm- violation).  The single-element waker
   is one exchange (read-modify-write) of the whole word: safe on the store-buffer machine without any fence. *)
Require Import Verif.Base.Atomics Verif.WM.TSO Verif.WM.Litmus Verif.WM.LitmusProofs Verif.BQ.BQTso.
Theorem c02_wake_batch_tso : forall sch,
  (final (run (init [waker deal_n_fence_is_seq_cst; waiter]) sch) = true ->
   lost_wakeup (result (run (init [waker deal_n_fence_is_seq_cst; waiter]) sch)) = false) /\
  (final (run (init [waker try_deal_n_fence_is_seq_cst; waiter]) sch) = true ->
   lost_wakeup (result (run (init [waker try_deal_n_fence_is_seq_cst; waiter]) sch)) = false).
Proof. exact bq_wake_batch_tso. Qed.
Print Assumptions c02_wake_batch_tso.

Theorem c02_wake_single_tso : xchg_waker_is_rmw = true /\
  forall sch, final (run (init [xchg_waker; waiter]) sch) = true ->
              xchg_lost (result (run (init [xchg_waker; waiter]) sch)) = false.
Proof. exact bq_wake_single_tso. Qed.
Print Assumptions c02_wake_single_tso.

Theorem c02_wake_batch_without_fence_refuted : batch_wake_safe false = false.
Proof. exact batch_wake_unfenced_refuted. Qed.
Print Assumptions c02_wake_batch_without_fence_refuted.


(* ---- the deadline of a timed wait (clause "returns no later than its deadline plus scheduling delay") ----
   BQDeadlineModel is the loop of SlotFutex::block_until_reach_expected_version_slow (futex wait, refresh of the
   remaining time after every wake-up that did not bring the version) and of spin_until_reach_expected_version_slow
   (usleep quantum, deadline test) against an arbitrary list of environment events; which timeout the refresh starts
   from, that it is stored back, that begin is sampled once, that ETIMEDOUT leaves the loop, the subtraction, both
   expiry tests, the spin deadline and the quantum are regenerated from bounded_queue.hpp.  For EVERY number and timing
   of spurious or genuine wake-ups the call leaves no later than begin + timeout + one scheduling delay (+ one quantum
   when spinning), and a call that is still waiting has only seen events before its deadline.  Together with
   c02_timed_pop_tail_never_waits (nothing behind the wait can block) this is the deadline clause for
   try_pop_n_exclusively_until. *)
Require Import Verif.BQ.BQDeadlineModel Verif.BQ.BQDeadline.
Theorem c02_timed_futex_wait_meets_deadline : forall delay begin timeout evs x,
  0 <= delay -> 0 < timeout ->
  block_env delay timeout begin timeout begin evs ->
  block_loop timeout begin timeout evs = Some x ->
  begin <= x <= begin + timeout + delay.
Proof. exact block_deadline. Qed.
Print Assumptions c02_timed_futex_wait_meets_deadline.

Theorem c02_timed_futex_wait_nonpositive_timeout : forall delay begin timeout evs x,
  0 <= delay -> timeout <= 0 ->
  block_env delay timeout begin timeout begin evs ->
  block_loop timeout begin timeout evs = Some x ->
  begin <= x <= begin + delay.
Proof. exact block_deadline_nonpositive. Qed.
Print Assumptions c02_timed_futex_wait_nonpositive_timeout.

Theorem c02_timed_futex_wait_only_waits_before_deadline : forall delay begin timeout evs w,
  0 <= delay -> 0 < timeout ->
  block_env delay timeout begin timeout begin evs ->
  block_loop timeout begin timeout evs = None ->
  In w evs -> wake_time w < begin + timeout.
Proof. exact block_still_waiting_before_deadline. Qed.
Print Assumptions c02_timed_futex_wait_only_waits_before_deadline.

Theorem c02_timed_spin_wait_meets_deadline : forall delay begin timeout evs x,
  0 <= delay -> 0 <= timeout ->
  spin_env delay begin evs -> spin_loop (spin_deadline begin timeout) evs = Some x ->
  begin <= x <= begin + timeout + spin_quantum_us * 1000 + delay.
Proof. exact spin_deadline_bound. Qed.
Print Assumptions c02_timed_spin_wait_meets_deadline.

Example c02_timed_wait_hypotheses_satisfiable :
  block_env 5 100 0 100 0 [Woken 40 false; TimedOut 103] /\
  block_loop 100 0 100 [Woken 40 false; TimedOut 103] = Some 103.
Proof. exact block_deadline_nonvacuous. Qed.
(* observation, not a finding (the property bounds the return only from above): after two wake-ups without the version
   the refresh has subtracted the elapsed time twice and the wait ends before its deadline *)
Example c02_timed_wait_may_end_early :
  block_env 0 100 0 100 0 [Woken 40 false; Woken 70 false] /\
  block_loop 100 0 100 [Woken 40 false; Woken 70 false] = Some 70.
Proof. exact block_early_after_two_wakeups. Qed.

(* reserve_and_clear on a quiescent empty queue keeps the slot protocol state: the slot of the next push index carries the
   push version of that index, whether the capacity changes (indexes AND slot versions rewound together) or not (clear()
   only, nothing rewound).  Where the index stores and the futex reset loop stand in the function is regenerated
   (rc_* of Gen_bounded_queue); index stores outside the capacity-changed branch break the proof. *)
Require Import Verif.BQ.BQReserve.
Theorem c02_reserve_and_clear_keeps_protocol_state : forall q same bits,
  rq_empty q -> push_slot_ready q ->
  let q' := reserve_and_clear q same bits in
  rq_empty q' /\ push_slot_ready q' /\ (same = true -> q' = q) /\ (same = false -> r_push q' = 0 /\ r_bits q' = bits).
Proof. exact reserve_and_clear_keeps_push_slot_ready. Qed.
Print Assumptions c02_reserve_and_clear_keeps_protocol_state.
Theorem c02_reserve_and_clear_same_capacity_is_clear : same_branch_is_clear = true.
Proof. exact same_branch_is_clear_holds. Qed.
Print Assumptions c02_reserve_and_clear_same_capacity_is_clear.
