(* C02 - bounded queue: no lost wakeup, no deadlock.  Only statements. *)
From Coq Require Import ZArith List Bool.
Require Import Verif.Gen.Gen_bounded_queue Verif.Conc.Machine Verif.BQ.BQModel Verif.BQ.BQProofs.
Import ListNotations.
Local Open Scope Z_scope.

Theorem c02_memory_order_obligations : orders_ok = true.
Proof. exact bq_orders_ok. Qed.
Print Assumptions c02_memory_order_obligations.
