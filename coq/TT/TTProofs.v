(* Proofs about TTModel.  Statements are fixed by Properties_C15.v. *)
From Coq Require Import ZArith List Bool Lia Arith PeanoNat.
Require Import Verif.Base.Atomics Verif.Gen.Gen_topic Verif.Conc.Machine Verif.TT.TTModel.
Import ListNotations.
Local Open Scope nat_scope.

(* ---- vocabulary used by the statements (do not change) ---- *)
Definition Reach (progs : list (list op)) (s : st) : Prop := reachable st step (init progs) s.

Definition stat (s : st) (j : nat) : Z := status_of (wordat s j).
Definition valat (s : st) (j : nat) : Z := value (get j (slots s)).
(* the items in publication-index order *)
Definition items (s : st) : list Z := map fst (expected s).
Definition exp_val (s : st) (j : nat) : Z := nth j (items s) 0%Z.

Definition pub_range (p : pc) : option (nat * nat) :=
  match p with PFill b e _ => Some (b, e) | PStore _ e b => Some (b, e) | _ => None end.
Definition cons_pos (p : pc) : option (nat * nat * nat) :=
  match p with
  | CClosed i e b | CPub i e b | CReady i e b | CCas i e b _ | CWait i e b _ | CBlocked i e b | CReload i e b => Some (i, e, b)
  | _ => None
  end.
Definition blocked_on (th : thread) : option nat := match tpc th with CBlocked i _ _ => Some i | _ => None end.
(* thread w will still issue futex wake_all on slot i (or is about to decide whether to) *)
Definition will_wake (p : pc) (i : nat) : bool :=
  match p with
  | PStore _ e b => Nat.leb b i && Nat.ltb i e
  | XStore c => Nat.eqb c i
  | PWakeLoad j e | PWakeCas j e _ | PWakeAll j e => Nat.leb j i && Nat.ltb i e
  | _ => false
  end.
Definition at_wake_all (p : pc) (i : nat) : bool :=
  match p with PWakeAll j _ | PWakeCas j _ _ => Nat.eqb j i | _ => false end.
Definition waiter_bit (s : st) (i : nat) : bool := Z.leb 65536 (wordat s i).
(* w is certain to issue wake_all on slot i: it is past the waiter-bit test, or the test will succeed *)
Definition wit (s : st) (i : nat) (w : thread) : bool := will_wake (tpc w) i && (at_wake_all (tpc w) i || waiter_bit s i).
Definition wake_in_flight (s : st) (i : nat) : bool := existsb (wit s i) (threads s).
(* a consumer parked on slot i is not lost: nothing was published there yet (and it is registered), or a wake-up is in flight *)
Definition lw_ok (s : st) (i : nat) : Prop := (waiter_bit s i = true /\ stat s i = INITIAL) \/ wake_in_flight s i = true.

(* memory-order obligations on the regenerated site tables *)
Definition orders_ok : bool :=
  match sites_publish_n, sites_close, sites_consume, sites_set_published, sites_set_closed with
  | [(KFadd, _, _); (KLoad, _, _); (KStore, _, _); (KFence, o_rel, _); (KFence, o_sc, _)],
    [(KLoad, _, _); (KFence, o_csc, _)], [(KFence, o_acq, _)], [(KStore, _, _)], [(KStore, _, _)] =>
    has_release o_rel && is_seq_cst o_sc && is_seq_cst o_csc && has_acquire o_acq
  | _, _, _, _, _ => false
  end &&
  match sites_wakeup, sites_wakeup_slow, sites_wait, sites_wait_slow with
  | [(KLoad, _, _)], [(KCasW, _, _)], [(KLoad, _, _)], [(KCasW, _, _); (KLoad, _, _)] => true
  | _, _, _, _ => false
  end.

(* ======================================================================================== *)
(* Proofs                                                                                   *)
(* ======================================================================================== *)

(* ---- the generated definitions, restated (each proof breaks if the C++ expression changes) ---- *)
Lemma consts_distinct : PUBLISHED <> INITIAL /\ CLOSED <> INITIAL /\ PUBLISHED <> CLOSED /\
  (0 <= INITIAL < 65536)%Z /\ (0 <= PUBLISHED < 65536)%Z /\ (0 <= CLOSED < 65536)%Z.
Proof. vm_compute. repeat split; congruence. Qed.
Lemma published_status_spec : published_status = PUBLISHED. Proof. reflexivity. Qed.
Lemma closed_status_spec : closed_status = CLOSED. Proof. reflexivity. Qed.
Lemma published_test_spec : published_test = PUBLISHED. Proof. reflexivity. Qed.
Lemma closed_test_spec : closed_test = CLOSED. Proof. reflexivity. Qed.
Lemma reset_word_spec : reset_word = INITIAL. Proof. reflexivity. Qed.
Lemma clear_index_spec : Z.to_nat clear_index = 0. Proof. reflexivity. Qed.
Lemma pub_end_spec : forall b n, Z.to_nat (pub_end_index (Z.of_nat b) (Z.of_nat n)) = b + n.
Proof. intros. unfold pub_end_index. lia. Qed.
Lemma cons_end_spec : forall b n, Z.to_nat (cons_end_index (Z.of_nat b) (Z.of_nat n)) = b + n.
Proof. intros. unfold cons_end_index. lia. Qed.
Lemma wake_fast_spec : forall w, wake_fast w = true <-> (w < 65536)%Z.
Proof. intro w. unfold wake_fast. rewrite Z.leb_le. lia. Qed.
Lemma can_register_spec : forall w, can_register w = true <-> (w < 65536)%Z.
Proof. intro w. unfold can_register. rewrite Z.leb_le. lia. Qed.
Lemma wait_word_spec : forall w, wait_word w = (w + 65536)%Z.
Proof. intro w. unfold wait_word. lia. Qed.
Lemma ready_fast_spec : forall x, ready_fast x = true <-> x <> INITIAL.
Proof. intro x. unfold ready_fast. rewrite negb_true_iff, Z.eqb_neq. reflexivity. Qed.
Lemma wait_loop_spec : forall x, wait_loop x = true <-> x = INITIAL.
Proof. intro x. unfold wait_loop. apply Z.eqb_eq. Qed.

Lemma status_of_with_status : forall w x, (0 <= x < 65536)%Z -> status_of (with_status w x) = x.
Proof. intros w x H. unfold status_of, with_status. rewrite Z.add_comm, Z_mod_plus_full. apply Z.mod_small. exact H. Qed.
Lemma status_of_wait_word : forall w, status_of (wait_word w) = status_of w.
Proof. intro w. rewrite wait_word_spec. unfold status_of. replace (w + 65536)%Z with (w + 1 * 65536)%Z by lia. apply Z_mod_plus_full. Qed.
Lemma status_of_idem : forall w, status_of (status_of w) = status_of w.
Proof. intro w. unfold status_of. apply Z.mod_mod. lia. Qed.

(* ---- lists ---- *)
Lemma nth_error_set_nth_eq : forall A (l : list A) t x y, nth_error l t = Some y -> nth_error (set_nth t x l) t = Some x.
Proof. induction l as [|a l IH]; intros [|t] x y H; cbn in *; try discriminate; eauto. Qed.
Lemma nth_error_set_nth_neq : forall A (l : list A) t t' x, t' <> t -> nth_error (set_nth t x l) t' = nth_error l t'.
Proof. induction l as [|a l IH]; intros [|t] [|t'] x H; cbn in *; try reflexivity; try congruence. apply IH. congruence. Qed.
Lemma nth_error_set_nth_inv : forall A (l : list A) t t' x y, nth_error (set_nth t x l) t' = Some y ->
  (t' = t /\ y = x) \/ (t' <> t /\ nth_error l t' = Some y).
Proof.
  intros A l t t' x y H. destruct (Nat.eq_dec t' t) as [->|N].
  - left. split; [reflexivity|]. destruct (nth_error l t) eqn:E.
    + rewrite (nth_error_set_nth_eq _ _ _ _ _ E) in H. congruence.
    + exfalso. clear -H E. revert t H E. induction l as [|a l IH]; intros [|t] H E; cbn in *; try discriminate. eauto.
  - right. split; [exact N|]. rewrite nth_error_set_nth_neq in H; assumption.
Qed.

Lemma get_put_eq : forall i x l, get i (put i x l) = x.
Proof. unfold get. induction i as [|i IH]; intros x [|a l]; cbn; auto. Qed.
Lemma get_nil : forall i, get i [] = slot0.
Proof. unfold get. destruct i; reflexivity. Qed.
Lemma get_put_neq : forall i j x l, j <> i -> get j (put i x l) = get j l.
Proof.
  unfold get. induction i as [|i IH]; intros [|j] x [|a l] H; try congruence; try reflexivity.
  - cbn. destruct j; reflexivity.
  - cbn [put nth]. rewrite IH by congruence. destruct j; reflexivity.
  - cbn [put nth]. apply IH. congruence.
Qed.
Lemma get_set_word : forall i j w l, get j (set_word i w l) = if Nat.eqb j i then {| word := w; value := value (get i l) |} else get j l.
Proof. intros. unfold set_word. destruct (Nat.eqb_spec j i) as [->|N]; [apply get_put_eq | apply get_put_neq; exact N]. Qed.
Lemma get_set_value : forall i j v l, get j (set_value i v l) = if Nat.eqb j i then {| word := word (get i l); value := v |} else get j l.
Proof. intros. unfold set_value. destruct (Nat.eqb_spec j i) as [->|N]; [apply get_put_eq | apply get_put_neq; exact N]. Qed.
Lemma word_get_fill : forall vals b j l, word (get j (fill b vals l)) = word (get j l).
Proof.
  induction vals as [|v r IH]; intros b j l; cbn [fill]; [reflexivity|]. rewrite IH, get_set_value.
  destruct (Nat.eqb_spec j b) as [->|]; reflexivity.
Qed.
Lemma value_get_fill : forall vals b j l, value (get j (fill b vals l)) =
  if Nat.leb b j && Nat.ltb j (b + length vals) then nth (j - b) vals 0%Z else value (get j l).
Proof.
  induction vals as [|v r IH]; intros b j l; cbn [fill length].
  - replace (b + 0) with b by lia. destruct (Nat.leb_spec b j), (Nat.ltb_spec j b); cbn; try reflexivity; lia.
  - rewrite IH, get_set_value.
    destruct (Nat.eqb_spec j b) as [->|N].
    + replace (b - b) with 0 by lia. cbn [nth].
      destruct (Nat.leb_spec (S b) b); [lia|]. cbn [andb]. destruct (Nat.leb_spec b b); [|lia].
      destruct (Nat.ltb_spec b (b + S (length r))); [|lia]. reflexivity.
    + destruct (Nat.leb_spec (S b) j), (Nat.ltb_spec j (S b + length r)), (Nat.leb_spec b j), (Nat.ltb_spec j (b + S (length r)));
        cbn [andb]; try lia; try reflexivity.
      replace (j - b) with (S (j - S b)) by lia. reflexivity.
Qed.
Lemma get_map_reset : forall j l, get j (map reset_slot l) = if Nat.ltb j (length l) then reset_slot (get j l) else slot0.
Proof.
  unfold get. induction j as [|j IH]; intros [|a l]; cbn; try reflexivity.
  rewrite IH. reflexivity.
Qed.

Lemma nth_map_seq_firstn : forall (l : list Z) n, n <= length l -> map (fun j => nth j l 0%Z) (seq 0 n) = firstn n l.
Proof.
  intros l n. revert l. induction n as [|n IH]; intros l H; [reflexivity|].
  destruct l as [|a l]; [cbn in H; lia|]. cbn [seq map firstn nth]. f_equal.
  rewrite <- seq_shift, map_map. cbn [nth]. apply IH. cbn in H. lia.
Qed.

(* ---- theorems that need no invariant ---- *)
Lemma tt_orders_ok : orders_ok = true.
Proof. vm_compute. reflexivity. Qed.

Ltac split_goal_ifs :=
  repeat match goal with
  | |- context [if ?c then _ else _] => destruct c
  end.

(* every unfinished thread that is neither parked in the kernel nor waiting at a (harness) barrier can step *)
Lemma tt_unparked_enabled : forall progs s t th, Reach progs s ->
  nth_error (threads s) t = Some th -> thread_done th = false -> parked th = false -> at_barrier th = false ->
  step s t <> None.
Proof.
  intros progs s t th _ Hth Hd Hp Hb. unfold step. rewrite Hth. unfold step_thread, thread_done, parked, at_barrier in *.
  destruct (tpc th) eqn:Hpc; try discriminate Hp.
  1: { destruct (cur_op th) as [o|] eqn:Hop; [|discriminate Hd].
       destruct o; try discriminate Hb; unfold start_consume; cbv zeta; split_goal_ifs; discriminate. }
  all: cbv zeta; split_goal_ifs; discriminate.
Qed.

(* ======================================================================================== *)
(* The safety invariant                                                                     *)
(* ======================================================================================== *)
Definition req (th : thread) : nat := match cur_op th with Some (OConsume k) | Some (OLoop k) => k | _ => 0 end.

Definition G (s : st) : Prop :=
  length (expected s) = nei s /\
  (forall j, stat s j = PUBLISHED -> j < nei s /\ valat s j = exp_val s j) /\
  (forall c, closed_at s = Some c -> c = nei s) /\
  (forall j, stat s j = CLOSED -> closed_at s = Some j).

Definition cons_gen (s : st) (th : thread) : Prop :=
  cepoch th <= epoch s /\
  (cepoch th = epoch s ->
     received th = map (exp_val s) (seq 0 (cursor th)) /\
     (forall j, j < cursor th -> stat s j = PUBLISHED) /\
     (ended th = true -> closed_at s = Some (cursor th))).

Definition pc_inv (s : st) (t : nat) (th : thread) : Prop :=
  match tpc th with
  | PFill b e vals => b < e /\ e = b + length vals /\
      forall j, b <= j < e -> nth_error (expected s) j = Some (nth (j - b) vals 0%Z, (t, opi th))
  | PStore i e b => b <= i < e /\
      forall j, b <= j < e -> exists v, nth_error (expected s) j = Some (v, (t, opi th)) /\ valat s j = v
  | XStore i => closed_at s = Some i
  | CHand b n sawc e => e = b + req th /\ (cepoch th = epoch s -> b = cursor th /\ (forall j, j < b + n -> stat s j = PUBLISHED) /\
      (sawc = true -> closed_at s = Some (b + n)) /\ (sawc = false -> b + n = e /\ 0 < n))
  | p => match cons_pos p with
         | Some (i, e, b) => e = b + req th /\ (cepoch th = epoch s -> b = cursor th /\ b <= i < e /\ (forall j, j < i -> stat s j = PUBLISHED))
         | None => True
         end
  end.
Definition tinv (s : st) (t : nat) (th : thread) : Prop := cons_gen s th /\ pc_inv s t th.
Definition TI (s : st) : Prop := forall t th, nth_error (threads s) t = Some th -> tinv s t th.
Definition Inv (s : st) : Prop := misuse s = false -> G s /\ TI s.

Definition stable (t : nat) (s s' : st) : Prop :=
  epoch s' = epoch s /\
  (forall j x, nth_error (expected s) j = Some x -> nth_error (expected s') j = Some x) /\
  (forall j, stat s j = PUBLISHED -> stat s' j = PUBLISHED) /\
  (forall c, closed_at s = Some c -> closed_at s' = Some c) /\
  (forall j v o, nth_error (expected s) j = Some (v, o) -> fst o <> t -> valat s' j = valat s j).

Lemma exp_val_nth_error : forall s j x, nth_error (expected s) j = Some x -> exp_val s j = fst x.
Proof.
  intros s j x H. unfold exp_val, items. apply nth_error_nth. rewrite nth_error_map, H. reflexivity.
Qed.
Lemma nth_error_lt_some : forall A (l : list A) j, j < length l -> exists x, nth_error l j = Some x.
Proof. intros A l j H. destruct (nth_error l j) eqn:E; [eauto|]. apply nth_error_None in E. lia. Qed.

Lemma exp_val_stable : forall t s s' j, G s -> stable t s s' -> stat s j = PUBLISHED -> exp_val s' j = exp_val s j.
Proof.
  intros t s s' j (G1 & G2 & _) (_ & Hx & _) Hp. destruct (G2 j Hp) as [Hlt _]. rewrite <- G1 in Hlt.
  destruct (nth_error_lt_some _ _ _ Hlt) as [x Hx0]. rewrite (exp_val_nth_error _ _ _ Hx0), (exp_val_nth_error _ _ _ (Hx _ _ Hx0)). reflexivity.
Qed.

Lemma cons_gen_stable : forall t s s' th, G s -> stable t s s' -> cons_gen s th -> cons_gen s' th.
Proof.
  intros t s s' th HG Hst [Hle Hc]. pose proof Hst as (He & Hx & Hp & Hcl & _). split; [lia|].
  intro E. rewrite He in E. destruct (Hc E) as (Hr & Hpub & Hend). repeat split.
  - rewrite Hr. apply map_ext_in. intros j Hj. apply in_seq in Hj. symmetry. eapply exp_val_stable; eauto. apply Hpub. lia.
  - intros j Hj. apply Hp, Hpub, Hj.
  - intro Hen. apply Hcl, Hend, Hen.
Qed.

Lemma tinv_stable_gen : forall t s s' t' th, G s -> stable t s s' -> (t' <> t \/ forall i e b, tpc th <> PStore i e b) -> tinv s t' th -> tinv s' t' th.
Proof.
  intros t s s' t' th HG Hst N [Hc Hp]. split; [eapply cons_gen_stable; eauto|].
  destruct Hst as (He & Hx & Hpub & Hcl & Hv). unfold pc_inv in *. rewrite He.
  destruct (tpc th); cbn [cons_pos] in *; auto.
  - destruct Hp as (A & B & C). repeat split; auto.
  - destruct Hp as (A & C). split; auto. intros j Hj. destruct (C j Hj) as (v & E1 & E2). exists v. split; auto.
    destruct N as [N|N]; [|exfalso; eapply N; reflexivity]. rewrite (Hv j v _ E1); auto.
  - destruct Hp as (A & C). split; auto. intro E. destruct (C E) as (B1 & B2 & B3). auto.
  - destruct Hp as (A & C). split; auto. intro E. destruct (C E) as (B1 & B2 & B3). auto.
  - destruct Hp as (A & C). split; auto. intro E. destruct (C E) as (B1 & B2 & B3). auto.
  - destruct Hp as (A & C). split; auto. intro E. destruct (C E) as (B1 & B2 & B3). auto.
  - destruct Hp as (A & C). split; auto. intro E. destruct (C E) as (B1 & B2 & B3). auto.
  - destruct Hp as (A & C). split; auto. intro E. destruct (C E) as (B1 & B2 & B3). auto.
  - destruct Hp as (A & C). split; auto. intro E. destruct (C E) as (B1 & B2 & B3). auto.
  - destruct Hp as (A & C). split; auto. intro E. destruct (C E) as (B1 & B2 & B3 & B4). repeat split; auto; apply B4; auto.
Qed.

Lemma tinv_stable : forall t s s' t' th, G s -> stable t s s' -> t' <> t -> tinv s t' th -> tinv s' t' th.
Proof. intros. eapply tinv_stable_gen; eauto. Qed.

(* shared parts related by "same status and value everywhere" *)
Lemma equiv_stable : forall t s s1, nei s1 = nei s -> expected s1 = expected s -> closed_at s1 = closed_at s -> epoch s1 = epoch s ->
  (forall j, stat s1 j = stat s j) -> (forall j, valat s1 j = valat s j) -> stable t s s1 /\ (G s -> G s1).
Proof.
  intros t s s1 E1 E2 E3 E4 Hs Hv. split.
  - unfold stable. rewrite E2, E3, E4. repeat split; auto. intros j Hj. rewrite Hs. exact Hj.
  - intros (G1 & G2 & G3 & G4). unfold G, exp_val, items. rewrite E1, E2, E3. repeat split; auto.
    + apply G2. rewrite <- Hs. assumption.
    + rewrite Hv. apply G2. rewrite <- Hs. assumption.
    + intros j Hj. apply G4. rewrite <- Hs. assumption.
Qed.

Lemma finish_case : forall s s1 t th th1, G s -> TI s -> nth_error (threads s) t = Some th -> threads s1 = threads s ->
  stable t s s1 -> G s1 -> tinv s1 t th1 -> G (upd_thread s1 t th1) /\ TI (upd_thread s1 t th1).
Proof.
  intros s s1 t th th1 HG HT Hth Eth Hst HG1 Hnew. split; [exact HG1|].
  intros t' th' Hn. change (tinv s1 t' th'). cbn [threads upd_thread set_threads] in Hn. rewrite Eth in Hn.
  apply nth_error_set_nth_inv in Hn as [[-> ->]|[N Hn]]; [exact Hnew|]. exact (tinv_stable t s s1 t' th' HG Hst N (HT t' th' Hn)).
Qed.

Lemma others_idle_spec : forall l t t' th, others_idle t l = true -> t' <> t -> nth_error l t' = Some th -> tpc th = Idle.
Proof.
  induction l as [|a l IH]; intros t t' th H N Hn; [destruct t'; discriminate|].
  destruct t as [|t]; cbn [others_idle] in H.
  - destruct t' as [|t']; [congruence|]. cbn in Hn. rewrite forallb_forall in H. apply nth_error_In in Hn. apply H in Hn.
    unfold is_idle in Hn. destruct (tpc th); congruence.
  - apply andb_true_iff in H as [H1 H2]. destruct t' as [|t']; cbn in Hn.
    + injection Hn as <-. unfold is_idle in H1. destruct (tpc a); congruence.
    + apply (IH t t' th H2); [lia | exact Hn].
Qed.

Lemma status_of_initial : status_of INITIAL = INITIAL.
Proof. reflexivity. Qed.

Lemma stat_set_word : forall s i w j, stat (set_slots s (set_word i w (slots s))) j = if Nat.eqb j i then status_of w else stat s j.
Proof. intros. unfold stat, wordat. cbn [slots set_slots]. rewrite get_set_word. destruct (Nat.eqb j i); reflexivity. Qed.
Lemma valat_set_word : forall s i w j, valat (set_slots s (set_word i w (slots s))) j = valat s j.
Proof. intros. unfold valat. cbn [slots set_slots]. rewrite get_set_word. destruct (Nat.eqb_spec j i) as [->|]; reflexivity. Qed.

Lemma stable_refl : forall t s, stable t s s.
Proof. intros. unfold stable. repeat split; auto. Qed.

Lemma tinv_goto_cons : forall s t th p i e b, cons_gen s th -> cons_pos p = Some (i, e, b) ->
  (match p with CHand _ _ _ _ => False | _ => True end) ->
  e = b + req th -> (cepoch th = epoch s -> b = cursor th /\ b <= i < e /\ (forall j, j < i -> stat s j = PUBLISHED)) ->
  tinv s t (goto th p).
Proof.
  intros s t th p i e b Hc Hpos Hnh He H. split; [exact Hc|]. unfold pc_inv. cbn [tpc goto].
  destruct p; cbn [cons_pos] in *; try discriminate; try contradiction; injection Hpos as -> -> ->; (split; [exact He | exact H]).
Qed.

Lemma tinv_goto_slow : forall s t th i e b cur, cons_gen s th ->
  e = b + req th -> (cepoch th = epoch s -> b = cursor th /\ b <= i < e /\ (forall j, j < i -> stat s j = PUBLISHED)) ->
  tinv s t (goto th (slow i e b cur)).
Proof.
  intros. unfold slow. destruct (wait_loop _); [destruct (can_register _)|]; eapply tinv_goto_cons; eauto; reflexivity.
Qed.

Lemma tinv_idle : forall s t th1, cons_gen s th1 -> tpc th1 = Idle -> tinv s t th1.
Proof. intros s t th1 Hc Hpc. split; [exact Hc|]. unfold pc_inv. rewrite Hpc. exact I. Qed.

Lemma nth_error_app_map : forall (l : list (Z * (nat * nat))) (vals : list Z) o j, length l <= j < length l + length vals ->
  nth_error (l ++ map (fun v => (v, o)) vals) j = Some (nth (j - length l) vals 0%Z, o).
Proof.
  intros l vals o j H. rewrite nth_error_app2 by lia. rewrite nth_error_map.
  rewrite (nth_error_nth' vals 0%Z) by lia. reflexivity.
Qed.


Lemma tinv_goto_triv : forall s t th p, cons_gen s th ->
  (match p with PWakeLoad _ _ | PWakeCas _ _ _ | PWakeAll _ _ => True | _ => False end) -> tinv s t (goto th p).
Proof. intros s t th p Hc Hp. split; [exact Hc|]. unfold pc_inv. cbn [tpc goto]. destruct p; try contradiction; exact I. Qed.
Lemma tinv_wake_next : forall s t th i e, cons_gen s th -> tinv s t (wake_next th i e).
Proof.
  intros s t th i e Hc. unfold wake_next. destruct (Nat.eqb _ _).
  - apply tinv_idle; [exact Hc | reflexivity].
  - apply tinv_goto_triv; [exact Hc | exact I].
Qed.
Lemma tinv_wake_thread : forall s t th i, tinv s t th -> tinv s t (wake_thread i th).
Proof.
  intros s t th i [Hc Hp]. unfold wake_thread. destruct (tpc th) eqn:Hpc; try (split; assumption).
  destruct (Nat.eqb _ _); [|split; assumption]. split; [exact Hc|]. unfold pc_inv in *. rewrite Hpc in Hp. cbn [tpc goto cons_pos] in *. exact Hp.
Qed.
Lemma pstore_other : forall p, (match p with PStore _ _ _ => False | _ => True end) -> forall i e b, p <> PStore i e b.
Proof. intros p H i e b ->. exact H. Qed.


Lemma start_consume_inv : forall s t th k, Inv s -> nth_error (threads s) t = Some th -> tpc th = Idle -> req th = k ->
  Inv (start_consume s t th k).
Proof.
  intros s t th k HI Hth Hpc Hreq. unfold start_consume. cbv zeta. rewrite cons_end_spec.
  match goal with |- context [upd_thread ?x t _] => set (s1 := x) end.
  assert (Hgoal : forall th1, (th1 = goto th (CHand (cursor th) 0 false (cursor th + k)) /\ cursor th = cursor th + k \/
                               th1 = goto th (CClosed (cursor th) (cursor th + k) (cursor th)) /\ cursor th <> cursor th + k) ->
                  Inv (upd_thread s1 t th1)).
  { intros th1 Hth1 M. change (misuse s || (Nat.eqb k 0 || negb (Nat.eqb (cepoch th) (epoch s))) = false) in M.
    apply orb_false_elim in M as [M Mk]. apply orb_false_elim in Mk as [Mk Me]. apply Nat.eqb_neq in Mk.
    destruct (HI M) as [HG HT]. destruct (HT t th Hth) as [Hc Hp].
    assert (Hst : stable t s s1) by (unfold stable; repeat split; auto).
    refine (finish_case s s1 t th _ HG HT Hth eq_refl Hst HG _).
    destruct Hth1 as [[-> E]|[-> E]]; [lia|].
    apply (tinv_goto_cons s1 t th (CClosed (cursor th) (cursor th + k) (cursor th)) (cursor th) (cursor th + k) (cursor th) Hc eq_refl I).
    - rewrite Hreq. reflexivity.
    - intro Ee. destruct Hc as [_ Hc]. destruct (Hc Ee) as (_ & Hpub & _). repeat split; auto; lia. }
  destruct (Nat.eqb_spec (cursor th) (cursor th + k)); apply Hgoal; auto.
Qed.

Ltac open_case s HI Hown Hpc M HG HT Hc Hp :=
  intro M; change (misuse s = false) in M; destruct (HI M) as [HG HT]; destruct (Hown M) as [Hc Hp];
  unfold pc_inv in Hp; rewrite Hpc in Hp; cbn [cons_pos] in Hp.

Lemma step_inv : forall s t s', Inv s -> step s t = Some s' -> Inv s'.
Proof.
  intros s t s' HI Hs. unfold step in Hs. destruct (nth_error (threads s) t) as [th|] eqn:Hth; [|discriminate].
  assert (Hown : misuse s = false -> tinv s t th) by (intro M; destruct (HI M) as [_ HT]; exact (HT t th Hth)).
  unfold step_thread in Hs. destruct (tpc th) eqn:Hpc.
  - (* Idle *)
    destruct (cur_op th) as [o|] eqn:Hop; [|discriminate]. destruct o.
    + (* OPub *)
      cbv zeta in Hs. rewrite pub_end_spec in Hs.
      match type of Hs with context [upd_thread ?x t _] => set (s1 := x) in Hs end.
      assert (Hgoal : forall th1, (th1 = finish_op th RDone \/
                                   th1 = goto th (PFill (nei s) (nei s + length vals) vals) /\ nei s <> nei s + length vals) ->
                      Inv (upd_thread s1 t th1)).
      { intros th1 Hth1 M. change (misuse s || match closed_at s with Some _ => true | None => false end = false) in M.
        apply orb_false_elim in M as [M Mc]. destruct (HI M) as [HG HT]. destruct (Hown M) as [Hc Hp].
        pose proof HG as (G1 & G2 & G3 & G4).
        assert (Hcl : closed_at s = None) by (destruct (closed_at s); [discriminate|reflexivity]).
        assert (Hst : stable t s s1).
        { unfold stable. repeat split; auto. intros j x Hj.
          change (expected s1) with (expected s ++ map (fun v => (v, (t, opi th))) vals).
          rewrite nth_error_app1; [exact Hj|]. apply nth_error_Some. rewrite Hj. discriminate. }
        assert (HG1 : G s1).
        { unfold G. change (nei s1) with (nei s + length vals). change (closed_at s1) with (closed_at s).
          split; [change (expected s1) with (expected s ++ map (fun v => (v, (t, opi th))) vals); rewrite app_length, map_length, G1; reflexivity|].
          split; [|split].
          - intros j H. change (stat s j = PUBLISHED) in H. destruct (G2 j H) as [A B]. split; [lia|].
            change (valat s1 j) with (valat s j). rewrite B. symmetry. apply (exp_val_stable t s s1 j HG Hst H).
          - intros c Hc'. rewrite Hcl in Hc'. discriminate.
          - intros j Hj. apply G4. exact Hj. }
        refine (finish_case s s1 t th _ HG HT Hth eq_refl Hst HG1 _).
        destruct Hth1 as [->|[-> Ne]].
        - apply tinv_idle; [exact (cons_gen_stable t s _ th HG Hst Hc) | reflexivity].
        - split; [exact (cons_gen_stable t s _ th HG Hst Hc)|]. unfold pc_inv. cbn [tpc goto opi]. split; [lia|]. split; [reflexivity|].
          intros j Hj. change (expected s1) with (expected s ++ map (fun v => (v, (t, opi th))) vals).
          replace (j - nei s) with (j - length (expected s)) by (rewrite G1; reflexivity). apply nth_error_app_map. rewrite G1. lia. }
      destruct (Nat.eqb_spec (nei s) (nei s + length vals)); injection Hs as <-; apply Hgoal; auto.
    + (* OConsume *)
      injection Hs as <-. apply start_consume_inv; auto. unfold req. rewrite Hop. reflexivity.
    + (* OLoop *)
      injection Hs as <-. apply start_consume_inv; auto. unfold req. rewrite Hop. reflexivity.
    + (* OClose *)
      cbv zeta in Hs. injection Hs as <-. match goal with |- Inv (upd_thread ?x t _) => set (s1 := x) end.
      open_case s HI Hown Hpc M HG HT Hc Hp. pose proof HG as (G1 & G2 & G3 & G4).
      assert (Hst : stable t s s1).
      { unfold stable. repeat split; auto. intros c Hc'.
        change (closed_at s1) with (match closed_at s with Some c => Some c | None => Some (nei s) end). rewrite Hc'. reflexivity. }
      assert (HG1 : G s1).
      { unfold G. change (nei s1) with (nei s). change (expected s1) with (expected s).
        change (closed_at s1) with (match closed_at s with Some c => Some c | None => Some (nei s) end).
        split; [exact G1|]. split; [exact G2|]. split.
        - intros c Hc'. destruct (closed_at s) eqn:E; injection Hc' as <-; [apply G3; reflexivity | reflexivity].
        - intros j Hj. change (stat s j = CLOSED) in Hj. rewrite (G4 j Hj). reflexivity. }
      refine (finish_case s s1 t th _ HG HT Hth eq_refl Hst HG1 _).
      split; [exact (cons_gen_stable t s _ th HG Hst Hc)|]. unfold pc_inv. cbn [tpc goto].
      change (closed_at s1) with (match closed_at s with Some c => Some c | None => Some (nei s) end).
      destruct (closed_at s) eqn:E; [f_equal; apply G3; reflexivity | reflexivity].
    + (* OClear *)
      cbv zeta in Hs. injection Hs as <-. match goal with |- Inv (upd_thread ?x t _) => set (s1 := x) end.
      intro M. change (misuse s || negb (others_idle t (threads s)) = false) in M. apply orb_false_elim in M as [M Mo].
      apply negb_false_iff in Mo. destruct (HI M) as [HG HT]. destruct (Hown M) as [Hc Hp].
      assert (Hs1 : forall j, stat s1 j = INITIAL).
      { intro j. unfold stat, wordat. change (slots s1) with (map reset_slot (slots s)). rewrite get_map_reset.
        destruct (Nat.ltb _ _); reflexivity. }
      destruct consts_distinct as (D1 & D2 & D3 & _).
      split.
      * unfold G. change (expected s1) with (@nil (Z * (nat * nat))). change (nei s1) with (Z.to_nat clear_index).
        change (closed_at s1) with (@None nat). split; [reflexivity|]. split; [|split].
        -- intros j H. change (stat s1 j = PUBLISHED) in H. rewrite Hs1 in H. exfalso. apply D1. symmetry. exact H.
        -- discriminate.
        -- intros j H. change (stat s1 j = CLOSED) in H. rewrite Hs1 in H. exfalso. apply D2. symmetry. exact H.
      * intros t' th' Hn. cbn [threads upd_thread set_threads] in Hn. change (threads s1) with (threads s) in Hn.
        apply nth_error_set_nth_inv in Hn as [[-> ->]|[N Hn]].
        -- apply tinv_idle; [|reflexivity]. destruct Hc as [Hle _]. split; [change (cepoch th <= S (epoch s)); lia|].
           intro E. change (cepoch th = S (epoch s)) in E. lia.
        -- pose proof (others_idle_spec _ _ _ _ Mo N Hn) as Hidle. destruct (HT t' th' Hn) as [[Hle _] _].
           apply tinv_idle; [|exact Hidle]. split; [change (cepoch th' <= S (epoch s)); lia|].
           intro E. change (cepoch th' = S (epoch s)) in E. lia.
    + (* OSub *)
      injection Hs as <-. open_case s HI Hown Hpc M HG HT Hc Hp.
      refine (finish_case s s t th _ HG HT Hth eq_refl (stable_refl _ _) HG _).
      apply tinv_idle; [|reflexivity]. split; [cbn [cepoch]; lia|]. intros _. cbn [received cursor ended seq map].
      repeat split; [intros j Hj; lia | discriminate].
    + (* OBarrier *)
      destruct (barrier_open s th); [|discriminate]. injection Hs as <-. open_case s HI Hown Hpc M HG HT Hc Hp.
      refine (finish_case s s t th _ HG HT Hth eq_refl (stable_refl _ _) HG _).
      apply tinv_idle; [exact Hc | reflexivity].
  - (* PFill *)
    injection Hs as <-. open_case s HI Hown Hpc M HG HT Hc Hp. destruct Hp as (Hbe & Hlen & Hown').
    pose proof HG as (G1 & G2 & G3 & G4).
    set (s1 := set_slots s (fill b vals (slots s))).
    assert (Hs1 : forall j, stat s1 j = stat s j) by (intro j; unfold stat, wordat, s1; cbn [slots set_slots]; rewrite word_get_fill; reflexivity).
    assert (Hv1 : forall j, valat s1 j = if Nat.leb b j && Nat.ltb j e then nth (j - b) vals 0%Z else valat s j).
    { intro j. unfold valat, s1. cbn [slots set_slots]. rewrite value_get_fill, <- Hlen. reflexivity. }
    assert (Hin : forall j, Nat.leb b j && Nat.ltb j e = true -> b <= j < e).
    { intros j Hj. apply andb_true_iff in Hj as [A B]. apply Nat.leb_le in A. apply Nat.ltb_lt in B. lia. }
    assert (Hst : stable t s s1).
    { unfold stable. repeat split; auto.
      - intros j Hj. rewrite Hs1. exact Hj.
      - intros j v o Hj No. rewrite Hv1. destruct (Nat.leb b j && Nat.ltb j e) eqn:Eb; [|reflexivity].
        rewrite (Hown' j (Hin j Eb)) in Hj. injection Hj as _ <-. exfalso. apply No. reflexivity. }
    assert (HG1 : G s1).
    { unfold G. change (expected s1) with (expected s). change (nei s1) with (nei s). change (closed_at s1) with (closed_at s).
      split; [exact G1|]. split; [|split; [exact G3|]].
      - intros j H. rewrite Hs1 in H. destruct (G2 j H) as [A B]. split; [exact A|]. unfold exp_val, items. change (expected s1) with (expected s).
        fold (items s). fold (exp_val s j). rewrite Hv1. destruct (Nat.leb b j && Nat.ltb j e) eqn:Eb; [|exact B].
        rewrite (exp_val_nth_error _ _ _ (Hown' j (Hin j Eb))). reflexivity.
      - intros j Hj. rewrite Hs1 in Hj. apply G4; exact Hj. }
    refine (finish_case s s1 t th _ HG HT Hth eq_refl Hst HG1 _).
    split; [exact (cons_gen_stable t s _ th HG Hst Hc)|]. unfold pc_inv. cbn [tpc goto opi]. split; [lia|].
    intros j Hj. exists (nth (j - b) vals 0%Z). split; [apply Hown'; exact Hj|]. rewrite Hv1.
    destruct (Nat.leb_spec b j); [|lia]. destruct (Nat.ltb_spec j e); [|lia]. reflexivity.
  - (* PStore *)
    cbv zeta in Hs.
    set (s1 := set_slots s (set_word i (with_status (wordat s i) published_status) (slots s))) in Hs.
    assert (Hgoal : forall th1, (th1 = goto th (PWakeLoad b e) \/ th1 = goto th (PStore (S i) e b) /\ S i <> e) -> Inv (upd_thread s1 t th1)).
    { intros th1 Hth1. open_case s HI Hown Hpc M HG HT Hc Hp. destruct Hp as (Hbe & Hown').
      pose proof HG as (G1 & G2 & G3 & G4). destruct consts_distinct as (D1 & D2 & D3 & R1 & R2 & R3).
      assert (Hs1 : forall j, stat s1 j = if Nat.eqb j i then PUBLISHED else stat s j).
      { intro j. unfold s1. rewrite stat_set_word, status_of_with_status by (rewrite published_status_spec; exact R2). reflexivity. }
      assert (Hv1 : forall j, valat s1 j = valat s j) by (intro j; apply valat_set_word).
      destruct (Hown' i Hbe) as (v & Ei & Vi).
      assert (Hst : stable t s s1).
      { unfold stable. repeat split; auto. intros j Hj. rewrite Hs1. destruct (Nat.eqb j i); [reflexivity | exact Hj]. }
      assert (HG1 : G s1).
      { unfold G. change (expected s1) with (expected s). change (nei s1) with (nei s). change (closed_at s1) with (closed_at s).
        split; [exact G1|]. split; [|split; [exact G3|]].
        - intros j H. rewrite Hv1. unfold exp_val, items. change (expected s1) with (expected s). fold (items s). fold (exp_val s j).
          destruct (Nat.eq_dec j i) as [E|E].
          + subst j. split; [rewrite <- G1; apply nth_error_Some; rewrite Ei; discriminate|].
            rewrite (exp_val_nth_error _ _ _ Ei). exact Vi.
          + rewrite Hs1 in H. apply Nat.eqb_neq in E. rewrite E in H. apply G2; exact H.
        - intros j Hj. rewrite Hs1 in Hj. destruct (Nat.eqb j i); [congruence | apply G4; exact Hj]. }
      refine (finish_case s s1 t th _ HG HT Hth eq_refl Hst HG1 _).
      destruct Hth1 as [->|[-> Ne]].
      - apply tinv_goto_triv; [exact (cons_gen_stable t s _ th HG Hst Hc) | exact I].
      - split; [exact (cons_gen_stable t s _ th HG Hst Hc)|]. unfold pc_inv. cbn [tpc goto opi]. split; [lia|].
        intros j Hj. destruct (Hown' j Hj) as (v' & A & B). exists v'. split; [exact A | rewrite Hv1; exact B]. }
    destruct (Nat.eqb_spec (S i) e); injection Hs as <-; apply Hgoal; auto.
  - (* PWakeLoad *)
    cbv zeta in Hs. destruct (wake_fast _); injection Hs as <-; open_case s HI Hown Hpc M HG HT Hc Hp;
      refine (finish_case s s t th _ HG HT Hth eq_refl (stable_refl _ _) HG _).
    + apply tinv_wake_next; exact Hc.
    + apply tinv_goto_triv; [exact Hc | exact I].
  - (* PWakeCas *)
    cbv zeta in Hs. injection Hs as <-. destruct (Z.eqb_spec (wordat s i) cur) as [Ew|Ew]; open_case s HI Hown Hpc M HG HT Hc Hp.
    + destruct (equiv_stable t s (set_slots s (set_word i (status_of cur) (slots s))) eq_refl eq_refl eq_refl eq_refl) as [Hst HGG].
      { intro j. rewrite stat_set_word. destruct (Nat.eqb_spec j i) as [->|]; [|reflexivity]. rewrite status_of_idem. unfold stat. rewrite Ew. reflexivity. }
      { intro j. apply valat_set_word. }
      refine (finish_case s (set_slots s (set_word i (status_of cur) (slots s))) t th _ HG HT Hth eq_refl Hst (HGG HG) _).
      apply tinv_goto_triv; [exact (cons_gen_stable t s _ th HG Hst Hc) | exact I].
    + refine (finish_case s s t th _ HG HT Hth eq_refl (stable_refl _ _) HG _). apply tinv_goto_triv; [exact Hc | exact I].
  - (* PWakeAll *)
    injection Hs as <-. open_case s HI Hown Hpc M HG HT Hc Hp. split; [exact HG|].
    intros t' th' Hn. change (tinv s t' th'). cbn [threads upd_thread set_threads] in Hn.
    apply nth_error_set_nth_inv in Hn as [[-> ->]|[N Hn]]; [apply tinv_wake_next; exact Hc|].
    rewrite nth_error_map in Hn. destruct (nth_error (threads s) t') as [th0|] eqn:E0; [|discriminate].
    injection Hn as <-. apply tinv_wake_thread. apply HT. exact E0.
  - (* XStore *)
    cbv zeta in Hs. injection Hs as <-. open_case s HI Hown Hpc M HG HT Hc Hp.
    pose proof HG as (G1 & G2 & G3 & G4). destruct consts_distinct as (D1 & D2 & D3 & R1 & R2 & R3).
    assert (Hnp : stat s i <> PUBLISHED).
    { intro Hp'. destruct (G2 i Hp') as [Hlt _]. rewrite (G3 i Hp) in Hlt. lia. }
    set (s1 := set_slots s (set_word i (with_status (wordat s i) closed_status) (slots s))).
    assert (Hs1 : forall j, stat s1 j = if Nat.eqb j i then CLOSED else stat s j).
    { intro j. unfold s1. rewrite stat_set_word. rewrite status_of_with_status by (rewrite closed_status_spec; exact R3). reflexivity. }
    assert (Hv1 : forall j, valat s1 j = valat s j) by (intro j; apply valat_set_word).
    assert (Hst : stable t s s1).
    { unfold stable. repeat split; auto. intros j Hj. rewrite Hs1. destruct (Nat.eqb_spec j i) as [->|]; [contradiction|exact Hj]. }
    assert (HG1 : G s1).
    { unfold G. change (expected s1) with (expected s). change (nei s1) with (nei s). change (closed_at s1) with (closed_at s).
      split; [exact G1|]. split; [|split; [exact G3|]].
      - intros j H. rewrite Hs1 in H. destruct (Nat.eqb j i); [congruence|]. rewrite Hv1. unfold exp_val, items.
        change (expected s1) with (expected s). apply G2; exact H.
      - intros j Hj. destruct (Nat.eq_dec j i) as [E|E]; [subst j; exact Hp|]. rewrite Hs1 in Hj. apply Nat.eqb_neq in E. rewrite E in Hj. apply G4; exact Hj. }
    refine (finish_case s s1 t th _ HG HT Hth eq_refl Hst HG1 _).
    apply tinv_goto_triv; [exact (cons_gen_stable t s _ th HG Hst Hc) | exact I].
  - (* CClosed *)
    cbv zeta in Hs. remember (i - b) as n eqn:En in Hs.
    destruct (Z.eqb_spec (status_of (wordat s i)) closed_test) as [Ec|Ec]; injection Hs as <-;
      open_case s HI Hown Hpc M HG HT Hc Hp; destruct Hp as [He Hp];
      refine (finish_case s s t th _ HG HT Hth eq_refl (stable_refl _ _) HG _).
    + split; [exact Hc|]. unfold pc_inv. cbn [tpc goto]. split; [exact He|]. intro E. destruct (Hp E) as (B1 & B2 & B3).
      replace (b + n) with i by lia. repeat split; auto; try discriminate.
      intros _. destruct HG as (_ & _ & _ & G4). apply G4. exact Ec.
    + eapply tinv_goto_cons; eauto; reflexivity.
  - (* CPub *)
    cbv zeta in Hs. remember (S i - b) as n eqn:En in Hs.
    destruct (Z.eqb_spec (status_of (wordat s i)) published_test) as [Ec|Ec];
      [destruct (Nat.eqb_spec (S i) e) as [Ee|Ee]|]; injection Hs as <-;
      open_case s HI Hown Hpc M HG HT Hc Hp; destruct Hp as [He Hp];
      refine (finish_case s s t th _ HG HT Hth eq_refl (stable_refl _ _) HG _).
    + split; [exact Hc|]. unfold pc_inv. cbn [tpc goto]. split; [exact He|]. intro E. destruct (Hp E) as (B1 & B2 & B3).
      replace (b + n) with (S i) by lia. repeat split; auto; try discriminate; try lia.
      intros j Hj. destruct (Nat.eq_dec j i) as [->|]; [exact Ec | apply B3; lia].
    + apply (tinv_goto_cons s t th (CClosed (S i) e b) (S i) e b Hc eq_refl I He). intro E. destruct (Hp E) as (B1 & B2 & B3). repeat split; auto; try lia.
      intros j Hj. destruct (Nat.eq_dec j i) as [->|]; [exact Ec | apply B3; lia].
    + eapply tinv_goto_cons; eauto; reflexivity.
  - (* CReady *)
    cbv zeta in Hs. destruct (ready_fast _); injection Hs as <-;
      open_case s HI Hown Hpc M HG HT Hc Hp; destruct Hp as [He Hp];
      refine (finish_case s s t th _ HG HT Hth eq_refl (stable_refl _ _) HG _).
    + eapply tinv_goto_cons; eauto; reflexivity.
    + apply tinv_goto_slow; auto.
  - (* CCas *)
    destruct (Z.eqb_spec (wordat s i) cur) as [Ew|Ew]; injection Hs as <-; open_case s HI Hown Hpc M HG HT Hc Hp; destruct Hp as [He Hp].
    + destruct (equiv_stable t s (set_slots s (set_word i (wait_word cur) (slots s))) eq_refl eq_refl eq_refl eq_refl) as [Hst HGG].
      { intro j. rewrite stat_set_word. destruct (Nat.eqb_spec j i) as [->|]; [|reflexivity]. rewrite status_of_wait_word. unfold stat. rewrite Ew. reflexivity. }
      { intro j. apply valat_set_word. }
      refine (finish_case s (set_slots s (set_word i (wait_word cur) (slots s))) t th _ HG HT Hth eq_refl Hst (HGG HG) _).
      apply (tinv_stable_gen t s _ t _ HG Hst). { right. intros; discriminate. }
      apply (tinv_goto_cons s t th (CWait i e b (wait_word cur)) i e b Hc eq_refl I He Hp).
    + refine (finish_case s s t th _ HG HT Hth eq_refl (stable_refl _ _) HG _).
      apply (tinv_goto_cons s t th (CReload i e b) i e b Hc eq_refl I He Hp).
  - (* CWait *)
    destruct (Z.eqb _ _); injection Hs as <-;
      open_case s HI Hown Hpc M HG HT Hc Hp; destruct Hp as [He Hp];
      refine (finish_case s s t th _ HG HT Hth eq_refl (stable_refl _ _) HG _); eapply tinv_goto_cons; eauto; reflexivity.
  - (* CBlocked *) discriminate.
  - (* CReload *)
    injection Hs as <-. open_case s HI Hown Hpc M HG HT Hc Hp; destruct Hp as [He Hp].
    refine (finish_case s s t th _ HG HT Hth eq_refl (stable_refl _ _) HG _). apply tinv_goto_slow; auto.
  - (* CHand *)
    cbv zeta in Hs. injection Hs as <-. open_case s HI Hown Hpc M HG HT Hc Hp; destruct Hp as [He Hp].
    refine (finish_case s s t th _ HG HT Hth eq_refl (stable_refl _ _) HG _).
    apply tinv_idle; [|reflexivity].
    destruct Hc as [Hle Hc]. split; [exact Hle|]. intro E. change (cepoch th = epoch s) in E.
    destruct (Hc E) as (Hr & Hpub & Hend). destruct (Hp E) as (B1 & B2 & B3 & B4).
    pose proof HG as (G1 & G2 & G3 & G4).
    unfold hand_out. cbv zeta. cbn [received cursor ended].
    repeat split.
    + rewrite seq_app, map_app, Hr, <- B1. cbn [Nat.add]. f_equal. apply map_ext_in. intros j Hj. apply in_seq in Hj.
      change (valat s j = exp_val s j). apply G2. apply B2. lia.
    + exact B2.
    + intro Hen. apply orb_true_iff in Hen as [Hen|Hen].
      * pose proof (Hend Hen) as Hcl. rewrite <- B1 in Hcl. destruct n as [|n]; [replace (b + 0) with b by lia; exact Hcl|].
        exfalso. assert (Hb : b < b + S n) by lia. destruct (G2 b (B2 b Hb)) as [Hlt _]. rewrite (G3 _ Hcl) in Hlt. lia.
      * apply Nat.eqb_eq in Hen. subst n. destruct sawc; [apply B3; reflexivity|]. destruct (B4 eq_refl). lia.
Qed.

Lemma inv_init : forall progs, Inv (init progs).
Proof.
  intros progs _. destruct consts_distinct as (D1 & D2 & D3 & _).
  assert (Hs : forall j, stat (init progs) j = INITIAL).
  { intro j. unfold stat, wordat, init. cbn [slots]. rewrite get_nil. reflexivity. }
  split.
  - unfold G. repeat split; try reflexivity; try discriminate.
    + rewrite Hs in H. exfalso. apply D1. symmetry. exact H.
    + rewrite Hs in H. exfalso. apply D1. symmetry. exact H.
    + intros j H. rewrite Hs in H. exfalso. apply D2. symmetry. exact H.
  - intros t th Hn. cbn [threads init] in Hn. rewrite nth_error_map in Hn. destruct (nth_error progs t); [|discriminate].
    injection Hn as <-. apply tinv_idle; [|reflexivity]. split; [cbn; lia|]. intros _. cbn [received cursor ended mk_thread seq map].
    repeat split; [intros j Hj; lia | discriminate].
Qed.

Lemma tt_inv : forall progs s, Reach progs s -> Inv s.
Proof. intros progs s H. eapply inv_reachable; [apply inv_init | apply step_inv | exact H]. Qed.

Lemma in_nth_error : forall A (l : list A) x, In x l -> exists t, nth_error l t = Some x.
Proof. intros. apply In_nth_error. assumption. Qed.

(* ---- each item exactly once, in publication-index order, with the value the publisher passed ---- *)
Lemma tt_each_once_in_order : forall progs s th, Reach progs s -> misuse s = false -> In th (threads s) ->
  cepoch th = epoch s -> received th = firstn (cursor th) (items s) /\ cursor th <= length (items s).
Proof.
  intros progs s th HR M Hin E. destruct (tt_inv _ _ HR M) as [HG HT]. destruct (in_nth_error _ _ _ Hin) as [t Ht].
  destruct (HT t th Ht) as [[_ Hc] _]. destruct (Hc E) as (Hr & Hpub & _). destruct HG as (G1 & G2 & _).
  assert (Hle : cursor th <= length (items s)).
  { unfold items. rewrite map_length, G1. destruct (cursor th) as [|c] eqn:Ec; [lia|].
    assert (Hc' : c < S c) by lia. destruct (G2 c (Hpub c Hc')). lia. }
  split; [|exact Hle]. rewrite Hr. unfold exp_val. apply nth_map_seq_firstn. exact Hle.
Qed.

Lemma tt_published_slot_holds_item : forall progs s j, Reach progs s -> misuse s = false ->
  stat s j = PUBLISHED -> j < nei s /\ nth_error (items s) j = Some (valat s j).
Proof.
  intros progs s j HR M Hp. destruct (tt_inv _ _ HR M) as [(G1 & G2 & _) _]. destruct (G2 j Hp) as [A B]. split; [exact A|].
  rewrite B. unfold exp_val. apply nth_error_nth'. unfold items. rewrite map_length, G1. exact A.
Qed.

(* ---- the end marker only after everything was delivered ---- *)
Lemma tt_end_after_all : forall progs s th, Reach progs s -> misuse s = false -> In th (threads s) ->
  cepoch th = epoch s -> ended th = true ->
  closed_at s = Some (cursor th) /\ cursor th = nei s /\ received th = items s.
Proof.
  intros progs s th HR M Hin E Hen. destruct (tt_each_once_in_order _ _ _ HR M Hin E) as [Hr Hle].
  destruct (tt_inv _ _ HR M) as [HG HT]. destruct (in_nth_error _ _ _ Hin) as [t Ht].
  destruct (HT t th Ht) as [[_ Hc] _]. destruct (Hc E) as (_ & _ & Hend). destruct HG as (G1 & _ & G3 & _).
  pose proof (Hend Hen) as Hcl. pose proof (G3 _ Hcl) as Hn. repeat split; auto.
  rewrite Hr, Hn. apply firstn_all2. unfold items. rewrite map_length, G1. lia.
Qed.

(* ---- consume(k) hands out fewer than k items only at the CLOSED slot (it blocks otherwise) ---- *)
Lemma tt_short_only_if_closed : forall progs s th b n sawc e, Reach progs s -> misuse s = false -> In th (threads s) ->
  cepoch th = epoch s -> tpc th = CHand b n sawc e ->
  e = b + req th /\ b = cursor th /\ (n < req th -> closed_at s = Some (b + n) /\ b + n = nei s).
Proof.
  intros progs s th b n sawc e HR M Hin E Hpc. destruct (tt_inv _ _ HR M) as [HG HT]. destruct (in_nth_error _ _ _ Hin) as [t Ht].
  destruct (HT t th Ht) as [_ Hp]. unfold pc_inv in Hp. rewrite Hpc in Hp. destruct Hp as [He Hp].
  destruct (Hp E) as (B1 & B2 & B3 & B4). destruct HG as (_ & _ & G3 & _). repeat split; auto.
  - destruct sawc; [apply B3; reflexivity | destruct (B4 eq_refl); lia].
  - destruct sawc; [apply G3; apply B3; reflexivity | destruct (B4 eq_refl); lia].
Qed.

(* a consumer walking at slot i has seen PUBLISHED on every slot before it: it never skips an unpublished slot *)
Lemma tt_consumer_behind_published : forall progs s th i e b, Reach progs s -> misuse s = false -> In th (threads s) ->
  cepoch th = epoch s -> cons_pos (tpc th) = Some (i, e, b) ->
  b = cursor th /\ b <= i < e /\ e = b + req th /\ forall j, j < i -> stat s j = PUBLISHED.
Proof.
  intros progs s th i e b HR M Hin E Hpos. destruct (tt_inv _ _ HR M) as [HG HT]. destruct (in_nth_error _ _ _ Hin) as [t Ht].
  destruct (HT t th Ht) as [_ Hp]. unfold pc_inv in Hp.
  destruct (tpc th); cbn [cons_pos] in *; try discriminate; injection Hpos as -> -> ->; destruct Hp as [He Hp];
    destruct (Hp E) as (B1 & B2 & B3); repeat split; auto; lia.
Qed.

(* ---- concurrent publishers never share a slot ---- *)
Lemma pub_range_owner : forall s t th b e, tinv s t th -> pub_range (tpc th) = Some (b, e) ->
  b < e /\ forall j, b <= j < e -> exists v o, nth_error (expected s) j = Some (v, (t, o)).
Proof.
  intros s t th b e [_ Hp] Hr. unfold pc_inv in Hp. destruct (tpc th); cbn [pub_range] in Hr; try discriminate; injection Hr as -> ->.
  - destruct Hp as (A & B & C). split; [exact A|]. intros j Hj. eauto.
  - destruct Hp as (A & C). split; [lia|]. intros j Hj. destruct (C j Hj) as (v & E1 & _). eauto.
Qed.

Lemma tt_publishers_disjoint : forall progs s t1 t2 th1 th2 b1 e1 b2 e2, Reach progs s -> misuse s = false ->
  nth_error (threads s) t1 = Some th1 -> nth_error (threads s) t2 = Some th2 -> t1 <> t2 ->
  pub_range (tpc th1) = Some (b1, e1) -> pub_range (tpc th2) = Some (b2, e2) -> e1 <= b2 \/ e2 <= b1.
Proof.
  intros progs s t1 t2 th1 th2 b1 e1 b2 e2 HR M H1 H2 N R1 R2. destruct (tt_inv _ _ HR M) as [_ HT].
  destruct (pub_range_owner _ _ _ _ _ (HT _ _ H1) R1) as [L1 O1]. destruct (pub_range_owner _ _ _ _ _ (HT _ _ H2) R2) as [L2 O2].
  destruct (Nat.le_gt_cases e1 b2) as [|A]; [left; assumption|]. destruct (Nat.le_gt_cases e2 b1) as [|B]; [right; assumption|].
  exfalso. set (j := Nat.max b1 b2). assert (J1 : b1 <= j < e1) by (unfold j; lia). assert (J2 : b2 <= j < e2) by (unfold j; lia).
  destruct (O1 j J1) as (v1 & o1 & E1). destruct (O2 j J2) as (v2 & o2 & E2). rewrite E1 in E2. injection E2 as _ Et _. exact (N Et).
Qed.

(* the range a publish claims is made of indices nobody was given before in this epoch *)
Lemma tt_publish_claims_fresh_range : forall progs s t th b e vals, Reach progs s -> misuse s = false ->
  nth_error (threads s) t = Some th -> tpc th = PFill b e vals ->
  e = b + length vals /\ e <= nei s /\ forall j, b <= j < e -> nth_error (items s) j = Some (nth (j - b) vals 0%Z).
Proof.
  intros progs s t th b e vals HR M Ht Hpc. destruct (tt_inv _ _ HR M) as [(G1 & _) HT]. destruct (HT _ _ Ht) as [_ Hp].
  unfold pc_inv in Hp. rewrite Hpc in Hp. destruct Hp as (A & B & C). split; [exact B|]. split.
  - assert (J : b <= e - 1 < e) by lia. pose proof (C _ J) as E. rewrite <- G1. assert (e - 1 < length (expected s)); [|lia].
    apply nth_error_Some. rewrite E. discriminate.
  - intros j Hj. unfold items. rewrite nth_error_map, (C j Hj). reflexivity.
Qed.

(* ---- after clear() the shared state is that of a new topic ---- *)
Lemma tt_clear_is_new : forall s t th s', nth_error (threads s) t = Some th -> tpc th = Idle -> cur_op th = Some OClear ->
  step s t = Some s' ->
  nei s' = 0 /\ (forall j, stat s' j = INITIAL) /\ items s' = [] /\ closed_at s' = None /\ epoch s' = S (epoch s) /\
  (misuse s' = false -> forall t' th', t' <> t -> nth_error (threads s) t' = Some th' -> tpc th' = Idle).
Proof.
  intros s t th s' Ht Hpc Hop Hs. unfold step in Hs. rewrite Ht in Hs. unfold step_thread in Hs. rewrite Hpc, Hop in Hs.
  cbv zeta in Hs. injection Hs as <-. repeat split; try reflexivity.
  - intro j. unfold stat, wordat. cbn [slots upd_thread set_threads]. rewrite get_map_reset. destruct (Nat.ltb _ _); reflexivity.
  - intros M t' th' N Hn. cbn [misuse upd_thread set_threads] in M. apply orb_false_elim in M as [_ Mo]. apply negb_false_iff in Mo.
    eapply others_idle_spec; eauto.
Qed.

(* ======================================================================================== *)
(* No lost wake-up                                                                          *)
(* ======================================================================================== *)
Definition lw_local (th : thread) : Prop :=
  match tpc th with
  | CCas _ _ _ cur => (0 <= cur)%Z /\ status_of cur = INITIAL
  | CWait _ _ _ v => (65536 <= v)%Z /\ status_of v = INITIAL
  | PWakeLoad j e | PWakeCas j e _ | PWakeAll j e => j < e
  | _ => True
  end.
Definition LW (s : st) : Prop :=
  (forall j, (0 <= wordat s j)%Z) /\
  (forall t th, nth_error (threads s) t = Some th -> lw_local th /\ forall i, blocked_on th = Some i -> lw_ok s i).
Definition LInv (s : st) : Prop := misuse s = false -> LW s.

Lemma existsb_nth : forall A (P : A -> bool) l, existsb P l = true <-> exists t x, nth_error l t = Some x /\ P x = true.
Proof.
  intros A P l. rewrite existsb_exists. split.
  - intros (x & Hin & Hp). destruct (In_nth_error _ _ Hin) as [t Ht]. eauto.
  - intros (t & x & Ht & Hp). exists x. split; [eapply nth_error_In; eauto | exact Hp].
Qed.

Lemma lw_step : forall s s' t th th1 i,
  nth_error (threads s) t = Some th -> threads s' = set_nth t th1 (threads s) ->
  (waiter_bit s i = true -> waiter_bit s' i = true) ->
  (wit s i th = true -> wit s' i th1 = true) ->
  (stat s i = INITIAL -> waiter_bit s i = true -> stat s' i = INITIAL \/ wit s' i th1 = true) ->
  lw_ok s i -> lw_ok s' i.
Proof.
  intros s s' t th th1 i Ht Eth W T S [[Hw Hs]|Hf].
  - destruct (S Hs Hw) as [Hs'|Hwit]; [left; auto|]. right. unfold wake_in_flight. apply existsb_nth. exists t, th1. split; [|exact Hwit].
    rewrite Eth. eapply nth_error_set_nth_eq; eauto.
  - right. unfold wake_in_flight in *. apply existsb_nth in Hf as (tw & w & Hn & Hp). apply existsb_nth.
    destruct (Nat.eq_dec tw t) as [->|N].
    + rewrite Ht in Hn. injection Hn as <-. exists t, th1. split; [rewrite Eth; eapply nth_error_set_nth_eq; eauto | apply T; exact Hp].
    + exists tw, w. split; [rewrite Eth, nth_error_set_nth_neq; auto|]. unfold wit in *. apply andb_true_iff in Hp as [A B].
      rewrite A. cbn [andb]. apply orb_true_iff in B as [B|B]; [rewrite B; reflexivity|]. rewrite (W B). apply orb_true_r.
Qed.

(* words unchanged *)
Lemma lw_step_simple : forall s s' t th th1,
  nth_error (threads s) t = Some th -> threads s' = set_nth t th1 (threads s) ->
  (forall j, wordat s' j = wordat s j) ->
  (forall i, wit s i th = true -> wit s i th1 = true) ->
  forall i, lw_ok s i -> lw_ok s' i.
Proof.
  intros s s' t th th1 Ht Eth Hw T i. assert (Wb : forall j, waiter_bit s' j = waiter_bit s j) by (intro j; unfold waiter_bit; rewrite Hw; reflexivity).
  assert (St : forall j, stat s' j = stat s j) by (intro j; unfold stat; rewrite Hw; reflexivity).
  apply (lw_step s s' t th th1 i Ht Eth).
  - rewrite Wb. auto.
  - intro H. unfold wit. rewrite Wb. apply T. exact H.
  - intros H _. left. rewrite St. exact H.
Qed.

Lemma lw_finish : forall s s' t th th1,
  LW s -> nth_error (threads s) t = Some th -> threads s' = set_nth t th1 (threads s) ->
  (forall j, (0 <= wordat s' j)%Z) -> lw_local th1 -> (forall i, blocked_on th1 = Some i -> lw_ok s' i) ->
  (forall i, lw_ok s i -> lw_ok s' i) -> LW s'.
Proof.
  intros s s' t th th1 [Hw HT] Ht Eth Hw' Hl Hb Hpres. split; [exact Hw'|]. intros t' th' Hn. rewrite Eth in Hn.
  apply nth_error_set_nth_inv in Hn as [[-> ->]|[N Hn]]; [split; assumption|].
  destruct (HT t' th' Hn) as [A B]. split; [exact A|]. intros i Hi. apply Hpres, B, Hi.
Qed.

Lemma not_waker_wit : forall s s' i th th1, (forall j, will_wake (tpc th) j = false) -> wit s i th = true -> wit s' i th1 = true.
Proof. intros s s' i th th1 H Hw. unfold wit in Hw. rewrite H in Hw. discriminate. Qed.

Lemma lw_local_slow : forall th i e b cur, (0 <= cur)%Z -> lw_local (goto th (slow i e b cur)).
Proof.
  intros th i e b cur Hc. unfold slow, lw_local. destruct (wait_loop (status_of cur)) eqn:E1; [|exact I].
  apply wait_loop_spec in E1. destruct (can_register cur) eqn:E2; cbn [tpc goto].
  - split; assumption.
  - split; [|assumption]. destruct (Z.lt_ge_cases cur 65536) as [H|H]; [|exact H]. apply can_register_spec in H. congruence.
Qed.
Lemma blocked_slow : forall th i e b cur j, blocked_on (goto th (slow i e b cur)) = Some j -> False.
Proof. intros th i e b cur j. unfold slow, blocked_on. destruct (wait_loop _); [destruct (can_register _)|]; cbn; discriminate. Qed.

Lemma lw_local_wake_next : forall th j e, j < e -> lw_local (wake_next th j e).
Proof.
  intros th j e H. unfold wake_next, lw_local. destruct (Nat.eqb_spec (S j) e); cbn [tpc goto finish_op]; [exact I | lia].
Qed.
Lemma blocked_wake_next : forall th j e i, blocked_on (wake_next th j e) = Some i -> False.
Proof. intros th j e i. unfold wake_next, blocked_on. destruct (Nat.eqb _ _); cbn; discriminate. Qed.

Lemma waiter_with_status : forall w x, (0 <= x < 65536)%Z -> Z.leb 65536 (with_status w x) = Z.leb 65536 w.
Proof.
  intros w x Hx. unfold with_status. pose proof (Z.div_mod w 65536 ltac:(lia)) as D. pose proof (Z.mod_pos_bound w 65536 ltac:(lia)) as B.
  destruct (Z.leb_spec 65536 w), (Z.leb_spec 65536 (w / 65536 * 65536 + x)); try reflexivity; exfalso.
  - assert (1 <= w / 65536)%Z by (apply Z.div_le_lower_bound; lia). lia.
  - assert (w / 65536 < 1)%Z by (apply Z.div_lt_upper_bound; lia). lia.
Qed.
Lemma with_status_nonneg : forall w x, (0 <= w)%Z -> (0 <= x)%Z -> (0 <= with_status w x)%Z.
Proof. intros w x Hw Hx. unfold with_status. assert (0 <= w / 65536)%Z by (apply Z.div_pos; lia). lia. Qed.
Lemma status_of_nonneg : forall w, (0 <= status_of w < 65536)%Z.
Proof. intro w. unfold status_of. apply Z.mod_pos_bound. lia. Qed.

Lemma wordat_set_word : forall s i w j, wordat (set_slots s (set_word i w (slots s))) j = if Nat.eqb j i then w else wordat s j.
Proof. intros. unfold wordat. cbn [slots set_slots]. rewrite get_set_word. destruct (Nat.eqb j i); reflexivity. Qed.

Lemma will_wake_range : forall j e i, Nat.leb j i && Nat.ltb i e = true <-> j <= i < e.
Proof. intros. rewrite andb_true_iff, Nat.leb_le, Nat.ltb_lt. tauto. Qed.


Lemma lw_status_store : forall s t th th1 i x, LW s -> nth_error (threads s) t = Some th -> (0 <= x < 65536)%Z ->
  (forall i', will_wake (tpc th) i' = will_wake (tpc th1) i') -> (forall i', at_wake_all (tpc th) i' = false) ->
  will_wake (tpc th) i = true -> lw_local th1 -> blocked_on th1 = None ->
  LW (upd_thread (set_slots s (set_word i (with_status (wordat s i) x) (slots s))) t th1).
Proof.
  intros s t th th1 i x HLW Hth Hx Hww Haw Hwi Hl Hb.
  set (s1 := set_slots s (set_word i (with_status (wordat s i) x) (slots s))).
  assert (Hw1 : forall j, wordat s1 j = if Nat.eqb j i then with_status (wordat s i) x else wordat s j) by (intro; apply wordat_set_word).
  assert (Hwb : forall j, waiter_bit s1 j = waiter_bit s j).
  { intro j. unfold waiter_bit. rewrite Hw1. destruct (Nat.eqb_spec j i) as [->|]; [apply waiter_with_status; exact Hx | reflexivity]. }
  eapply (lw_finish s _ t th th1 HLW Hth); [reflexivity | | exact Hl | intros i' Hi'; congruence |].
  - intro j. change (0 <= wordat s1 j)%Z. rewrite Hw1. destruct (Nat.eqb j i); [apply with_status_nonneg; [apply (proj1 HLW) | lia] | apply (proj1 HLW)].
  - intro i'. eapply (lw_step s _ t th th1 i' Hth); [reflexivity | | |].
    + change (waiter_bit s i' = true -> waiter_bit s1 i' = true). rewrite Hwb. auto.
    + change (wit s i' th = true -> wit s1 i' th1 = true). unfold wit. rewrite Hwb, <- Hww, Haw. cbn [orb].
      intro H. apply andb_true_iff in H as [A B]. rewrite A, B. cbn [andb]. apply orb_true_r.
    + change (stat s i' = INITIAL -> waiter_bit s i' = true -> stat s1 i' = INITIAL \/ wit s1 i' th1 = true).
      intros Hs Hwt. destruct (Nat.eq_dec i' i) as [->|N].
      * right. unfold wit. rewrite Hwb, <- Hww, Hwi, Hwt. cbn [andb]. apply orb_true_r.
      * left. unfold stat. rewrite Hw1. apply Nat.eqb_neq in N. rewrite N. exact Hs.
Qed.

Lemma wit_witness : forall s t th i, nth_error (threads s) t = Some th -> wit s i th = true -> lw_ok s i.
Proof. intros s t th i Ht Hw. right. unfold wake_in_flight. apply existsb_nth. eauto. Qed.

Ltac lw_open s HI HL M HLW HG HT :=
  intro M; change (misuse s = false) in M; pose proof (HL M) as HLW; destruct (HI M) as [HG HT].
Ltac nw Hpc := let j := fresh in intro j; rewrite Hpc; reflexivity.
(* shared words untouched, stepping thread is not a waker before the step *)
Ltac lw_simple s t th th1 HLW Hth Hpc :=
  eapply (lw_finish s _ t th th1 HLW Hth);
  [ reflexivity | exact (proj1 HLW) | | |
    eapply (lw_step_simple s _ t th th1 Hth); [reflexivity | intro; reflexivity | let i := fresh in intro i; apply not_waker_wit; nw Hpc ] ].

Lemma lw_start_consume : forall s t th k, LInv s -> nth_error (threads s) t = Some th -> tpc th = Idle -> LInv (start_consume s t th k).
Proof.
  intros s t th k HL Hth Hpc. unfold start_consume. cbv zeta.
  match goal with |- context [upd_thread ?x t _] => set (s1 := x) end.
  assert (Hgoal : forall th1, lw_local th1 -> (forall i, blocked_on th1 = Some i -> False) -> LInv (upd_thread s1 t th1)).
  { intros th1 Hl Hb M. change (misuse s || (Nat.eqb k 0 || negb (Nat.eqb (cepoch th) (epoch s))) = false) in M.
    apply orb_false_elim in M as [M _]. pose proof (HL M) as HLW.
    eapply (lw_finish s _ t th th1 HLW Hth); [reflexivity | exact (proj1 HLW) | exact Hl | intros i Hi; destruct (Hb i Hi) |].
    eapply (lw_step_simple s _ t th th1 Hth); [reflexivity | intro; reflexivity |]. intro i. apply not_waker_wit. nw Hpc. }
  destruct (Nat.eqb (cursor th) _); apply Hgoal; try exact I; intros i; discriminate.
Qed.

Lemma lw_step_inv : forall s t s', Inv s -> LInv s -> step s t = Some s' -> LInv s'.
Proof.
  intros s t s' HI HL Hs. unfold step in Hs. destruct (nth_error (threads s) t) as [th|] eqn:Hth; [|discriminate].
  unfold step_thread in Hs. destruct (tpc th) eqn:Hpc.
  - (* Idle *)
    destruct (cur_op th) as [o|] eqn:Hop; [|discriminate]. destruct o.
    + (* OPub *)
      cbv zeta in Hs.
      match type of Hs with context [upd_thread ?x t _] => set (s1 := x) in Hs end.
      assert (Hgoal : forall th1, lw_local th1 -> (forall i, blocked_on th1 = Some i -> False) -> LInv (upd_thread s1 t th1)).
      { intros th1 Hl Hb M. change (misuse s || match closed_at s with Some _ => true | None => false end = false) in M.
        apply orb_false_elim in M as [M _]. pose proof (HL M) as HLW.
        eapply (lw_finish s _ t th th1 HLW Hth); [reflexivity | exact (proj1 HLW) | exact Hl | intros i Hi; destruct (Hb i Hi) |].
        eapply (lw_step_simple s _ t th th1 Hth); [reflexivity | intro; reflexivity |]. intro i. apply not_waker_wit. nw Hpc. }
      destruct (Nat.eqb (nei s) _); injection Hs as <-; apply Hgoal; try exact I; intros i; discriminate.
    + injection Hs as <-. apply lw_start_consume; auto.
    + injection Hs as <-. apply lw_start_consume; auto.
    + (* OClose *)
      cbv zeta in Hs. injection Hs as <-. lw_open s HI HL M HLW HG HT.
      match goal with |- LW (upd_thread ?x t ?y) => set (s1 := x); set (th1 := y) end.
      eapply (lw_finish s _ t th th1 HLW Hth); [reflexivity | exact (proj1 HLW) | exact I | intros i; discriminate |].
      eapply (lw_step_simple s _ t th th1 Hth); [reflexivity | intro; reflexivity |]. intro i. apply not_waker_wit. nw Hpc.
    + (* OClear *)
      cbv zeta in Hs. injection Hs as <-. intro M. change (misuse s || negb (others_idle t (threads s)) = false) in M.
      apply orb_false_elim in M as [M Mo]. apply negb_false_iff in Mo. destruct consts_distinct as (_ & _ & _ & R1 & _).
      split.
      * intro j. unfold wordat. cbn [slots upd_thread set_threads]. rewrite get_map_reset. destruct (Nat.ltb _ _); cbn [word reset_slot slot0]; rewrite ?reset_word_spec; lia.
      * intros t' th' Hn. cbn [threads upd_thread set_threads] in Hn. apply nth_error_set_nth_inv in Hn as [[-> ->]|[N Hn]].
        -- split; [exact I | intros i; discriminate].
        -- pose proof (others_idle_spec _ _ _ _ Mo N Hn) as Hidle. unfold lw_local, blocked_on. rewrite Hidle. split; [exact I | intros i; discriminate].
    + (* OSub *)
      injection Hs as <-. lw_open s HI HL M HLW HG HT.
      match goal with |- LW (upd_thread s t ?y) => set (th1 := y) end.
      lw_simple s t th th1 HLW Hth Hpc; [exact I | intros i; discriminate].
    + (* OBarrier *)
      destruct (barrier_open s th); [|discriminate]. injection Hs as <-. lw_open s HI HL M HLW HG HT.
      match goal with |- LW (upd_thread s t ?y) => set (th1 := y) end.
      lw_simple s t th th1 HLW Hth Hpc; [exact I | intros i; discriminate].
  - (* PFill *)
    injection Hs as <-. lw_open s HI HL M HLW HG HT.
    eapply (lw_finish s _ t th (goto th (PStore b e b)) HLW Hth); [reflexivity | | exact I | intros i; discriminate |].
    + intro j. unfold wordat. cbn [slots upd_thread set_threads set_slots]. rewrite word_get_fill. apply (proj1 HLW).
    + eapply (lw_step_simple s _ t th (goto th (PStore b e b)) Hth); [reflexivity | |].
      * intro j. unfold wordat. cbn [slots upd_thread set_threads set_slots]. apply word_get_fill.
      * intro i. apply not_waker_wit. nw Hpc.
  - (* PStore *)
    cbv zeta in Hs. destruct consts_distinct as (_ & _ & _ & _ & R2 & _).
    assert (Hgoal : forall th1, (forall i', will_wake (tpc th) i' = will_wake (tpc th1) i') -> (b <= i < e -> lw_local th1) ->
       blocked_on th1 = None ->
       LInv (upd_thread (set_slots s (set_word i (with_status (wordat s i) published_status) (slots s))) t th1)).
    { intros th1 Hww Hl Hb. lw_open s HI HL M HLW HG HT. destruct (HT t th Hth) as [_ Hp]. unfold pc_inv in Hp. rewrite Hpc in Hp.
      destruct Hp as [Hbe _]. apply (lw_status_store s t th th1 i published_status HLW Hth).
      - rewrite published_status_spec. exact R2.
      - exact Hww.
      - intro i'. rewrite Hpc. reflexivity.
      - rewrite Hpc. cbn [will_wake]. apply will_wake_range. lia.
      - apply Hl. exact Hbe.
      - exact Hb. }
    destruct (Nat.eqb_spec (S i) e); injection Hs as <-; apply Hgoal; try reflexivity;
      try (intro i'; rewrite Hpc; reflexivity); intro Hbe; unfold lw_local; cbn [tpc goto]; try exact I; lia.
  - (* PWakeLoad *)
    cbv zeta in Hs. destruct (wake_fast (wordat s i)) eqn:Ef; injection Hs as <-; lw_open s HI HL M HLW HG HT;
      destruct (proj2 HLW t th Hth) as [Hl _]; unfold lw_local in Hl; rewrite Hpc in Hl.
    + eapply (lw_finish s _ t th (wake_next th i e) HLW Hth); [reflexivity | exact (proj1 HLW) | apply lw_local_wake_next; exact Hl
                                                                | intros j Hj; destruct (blocked_wake_next _ _ _ _ Hj) |].
      eapply (lw_step_simple s _ t th (wake_next th i e) Hth); [reflexivity | intro; reflexivity |].
      intros i' Hw. unfold wit in *. rewrite Hpc in Hw. cbn [will_wake at_wake_all orb] in Hw. apply andb_true_iff in Hw as [A B].
      apply will_wake_range in A. destruct (Nat.eq_dec i' i) as [->|N].
      * exfalso. apply wake_fast_spec in Ef. unfold waiter_bit in B. apply Z.leb_le in B. lia.
      * unfold wake_next. destruct (Nat.eqb_spec (S i) e); [lia|]. cbn [tpc goto will_wake at_wake_all orb]. rewrite B.
        rewrite andb_true_r. apply will_wake_range. lia.
    + eapply (lw_finish s _ t th (goto th (PWakeCas i e (wordat s i))) HLW Hth); [reflexivity | exact (proj1 HLW) | exact Hl | intros j; discriminate |].
      eapply (lw_step_simple s _ t th (goto th (PWakeCas i e (wordat s i))) Hth); [reflexivity | intro; reflexivity |].
      intros i' Hw. unfold wit in *. rewrite Hpc in Hw. cbn [tpc goto will_wake at_wake_all orb] in *. apply andb_true_iff in Hw as [A B].
      rewrite A, B. cbn [andb]. apply orb_true_r.
  - (* PWakeCas *)
    cbv zeta in Hs. injection Hs as <-. set (th1 := goto th (PWakeAll i e)).
    assert (Hwt : forall i', wit s i' th = true -> forall s', waiter_bit s' i' = waiter_bit s i' -> wit s' i' th1 = true).
    { intros i' Hw s' E. unfold wit in *. rewrite Hpc in Hw. unfold th1. cbn [tpc goto will_wake at_wake_all] in *. rewrite E. exact Hw. }
    destruct (Z.eqb_spec (wordat s i) cur) as [Ew|Ew]; lw_open s HI HL M HLW HG HT;
      destruct (proj2 HLW t th Hth) as [Hl _]; unfold lw_local in Hl; rewrite Hpc in Hl.
    + set (s1 := set_slots s (set_word i (status_of cur) (slots s))).
      assert (Hw1 : forall j, wordat s1 j = if Nat.eqb j i then status_of cur else wordat s j) by (intro; apply wordat_set_word).
      eapply (lw_finish s _ t th th1 HLW Hth); [reflexivity | | exact Hl | intros j; discriminate |].
      * intro j. change (0 <= wordat s1 j)%Z. rewrite Hw1. destruct (Nat.eqb j i); [apply status_of_nonneg | apply (proj1 HLW)].
      * intros i' Hok. destruct (Nat.eq_dec i' i) as [->|N].
        -- apply (wit_witness _ t th1); [cbn [threads upd_thread set_threads]; eapply nth_error_set_nth_eq; eauto|].
           unfold wit, th1. cbn [tpc goto will_wake at_wake_all]. rewrite Nat.eqb_refl. cbn [orb]. rewrite andb_true_r. apply will_wake_range. lia.
        -- apply Nat.eqb_neq in N. revert Hok. eapply (lw_step s _ t th th1 i' Hth); [reflexivity | | |].
           ++ change (waiter_bit s i' = true -> waiter_bit s1 i' = true). unfold waiter_bit. rewrite Hw1, N. auto.
           ++ intro Hw. apply (Hwt i' Hw). unfold waiter_bit. change (wordat (upd_thread s1 t th1) i') with (wordat s1 i'). rewrite Hw1, N. reflexivity.
           ++ intros Hs _. left. unfold stat. change (wordat (upd_thread s1 t th1) i') with (wordat s1 i'). rewrite Hw1, N. exact Hs.
    + eapply (lw_finish s _ t th th1 HLW Hth); [reflexivity | exact (proj1 HLW) | exact Hl | intros j; discriminate |].
      eapply (lw_step_simple s _ t th th1 Hth); [reflexivity | intro; reflexivity |]. intros i' Hw. apply (Hwt i' Hw). reflexivity.
  - (* PWakeAll *)
    injection Hs as <-. lw_open s HI HL M HLW HG HT.
    destruct (proj2 HLW t th Hth) as [Hl _]; unfold lw_local in Hl; rewrite Hpc in Hl.
    set (th1 := wake_next th i e).
    split; [exact (proj1 HLW)|].
    intros t' th' Hn. cbn [threads upd_thread set_threads] in Hn.
    apply nth_error_set_nth_inv in Hn as [[-> ->]|[N Hn]].
    + split; [apply lw_local_wake_next; exact Hl | intros j Hj; destruct (blocked_wake_next _ _ _ _ Hj)].
    + rewrite nth_error_map in Hn. destruct (nth_error (threads s) t') as [th0|] eqn:E0; [|discriminate]. injection Hn as <-.
      destruct (proj2 HLW t' th0 E0) as [Hl0 Hb0]. split.
      * unfold wake_thread. destruct (tpc th0) eqn:P0; try exact Hl0. destruct (Nat.eqb _ _); [|exact Hl0].
        unfold lw_local. cbn [tpc goto]. exact I.
      * intros i' Hi'.
        assert (Hb : blocked_on th0 = Some i' /\ i' <> i).
        { unfold wake_thread in Hi'. unfold blocked_on in *. destruct (tpc th0) eqn:P0; try (rewrite P0 in Hi'; discriminate).
          destruct (Nat.eqb_spec i0 i) as [->|Ne]; [cbn [tpc goto] in Hi'; discriminate|]. rewrite P0 in Hi'. injection Hi' as <-. auto. }
        destruct Hb as [Hb Ni]. destruct (Hb0 i' Hb) as [[A B]|F]; [left; split; [exact A | exact B]|].
        unfold wake_in_flight in F. apply existsb_nth in F as (tw & w & Hw & Hp).
        destruct (Nat.eq_dec tw t) as [->|Nt].
        -- rewrite Hth in Hw. injection Hw as <-. apply (wit_witness _ t th1).
           { cbn [threads upd_thread set_threads]. eapply nth_error_set_nth_eq. rewrite nth_error_map, Hth. reflexivity. }
           unfold wit in *. rewrite Hpc in Hp. cbn [will_wake at_wake_all] in Hp. apply andb_true_iff in Hp as [R W].
           apply will_wake_range in R. apply Nat.eqb_neq in Ni. rewrite Nat.eqb_sym, Ni in W. cbn [orb] in W. apply Nat.eqb_neq in Ni.
           unfold th1, wake_next. destruct (Nat.eqb_spec (S i) e); [lia|]. cbn [tpc goto will_wake at_wake_all orb].
           change (waiter_bit (upd_thread (set_threads s (map (wake_thread i) (threads s))) t (goto th (PWakeLoad (S i) e))) i') with (waiter_bit s i').
           rewrite W, andb_true_r. apply will_wake_range. lia.
        -- apply (wit_witness _ tw w); [|exact Hp].
           cbn [threads upd_thread set_threads]. rewrite nth_error_set_nth_neq by exact Nt. rewrite nth_error_map, Hw. cbn [option_map]. f_equal.
           unfold wit in Hp. apply andb_true_iff in Hp as [R _]. unfold wake_thread. destruct (tpc w); try reflexivity. discriminate R.
  - (* XStore *)
    cbv zeta in Hs. injection Hs as <-. destruct consts_distinct as (_ & _ & _ & _ & _ & R3).
    lw_open s HI HL M HLW HG HT. apply (lw_status_store s t th (goto th (PWakeLoad i (S i))) i closed_status HLW Hth).
    + rewrite closed_status_spec. exact R3.
    + intro i'. rewrite Hpc. cbn [will_wake tpc goto]. destruct (Nat.eqb_spec i i') as [->|N].
      * symmetry. apply will_wake_range. lia.
      * symmetry. apply not_true_iff_false. rewrite will_wake_range. lia.
    + intro i'. rewrite Hpc. reflexivity.
    + rewrite Hpc. cbn [will_wake]. apply Nat.eqb_refl.
    + unfold lw_local. cbn [tpc goto]. lia.
    + reflexivity.
  - (* CClosed *)
    cbv zeta in Hs. destruct (Z.eqb _ _); injection Hs as <-; lw_open s HI HL M HLW HG HT;
      match goal with |- LW (upd_thread s t ?y) => set (th1 := y) end;
      lw_simple s t th th1 HLW Hth Hpc; [exact I | intros j; discriminate | exact I | intros j; discriminate].
  - (* CPub *)
    cbv zeta in Hs. destruct (Z.eqb _ _); [destruct (Nat.eqb _ _)|]; injection Hs as <-; lw_open s HI HL M HLW HG HT;
      match goal with |- LW (upd_thread s t ?y) => set (th1 := y) end;
      lw_simple s t th th1 HLW Hth Hpc; try exact I; intros j; discriminate.
  - (* CReady *)
    cbv zeta in Hs. destruct (ready_fast _); injection Hs as <-; lw_open s HI HL M HLW HG HT;
      match goal with |- LW (upd_thread s t ?y) => set (th1 := y) end;
      lw_simple s t th th1 HLW Hth Hpc.
    + exact I.
    + intros j; discriminate.
    + apply lw_local_slow. apply (proj1 HLW).
    + intros j Hj. destruct (blocked_slow _ _ _ _ _ _ Hj).
  - (* CCas *)
    destruct (Z.eqb_spec (wordat s i) cur) as [Ew|Ew]; injection Hs as <-; lw_open s HI HL M HLW HG HT.
    + destruct (proj2 HLW t th Hth) as [Hl _]. unfold lw_local in Hl. rewrite Hpc in Hl. destruct Hl as [A B].
      set (s1 := set_slots s (set_word i (wait_word cur) (slots s))). set (th1 := goto th (CWait i e b (wait_word cur))).
      assert (Hw1 : forall j, wordat s1 j = if Nat.eqb j i then wait_word cur else wordat s j) by (intro; apply wordat_set_word).
      eapply (lw_finish s _ t th th1 HLW Hth); [reflexivity | | | intros j; discriminate |].
      * intro j. change (0 <= wordat s1 j)%Z. rewrite Hw1. destruct (Nat.eqb j i); [rewrite wait_word_spec; lia | apply (proj1 HLW)].
      * unfold lw_local, th1. cbn [tpc goto]. split; [rewrite wait_word_spec; lia | rewrite status_of_wait_word; exact B].
      * intro i'. eapply (lw_step s _ t th th1 i' Hth); [reflexivity | | |].
        -- change (waiter_bit s i' = true -> waiter_bit s1 i' = true). unfold waiter_bit. rewrite Hw1.
           destruct (Nat.eqb i' i); [intros _; apply Z.leb_le; rewrite wait_word_spec; lia | auto].
        -- apply not_waker_wit. nw Hpc.
        -- change (stat s i' = INITIAL -> waiter_bit s i' = true -> stat s1 i' = INITIAL \/ wit s1 i' th1 = true).
           intros Hs _. left. unfold stat. rewrite Hw1. destruct (Nat.eqb_spec i' i) as [->|]; [|exact Hs].
           rewrite status_of_wait_word, <- Ew. exact Hs.
    + match goal with |- LW (upd_thread s t ?y) => set (th1 := y) end. lw_simple s t th th1 HLW Hth Hpc; [exact I | intros j; discriminate].
  - (* CWait *)
    destruct (Z.eqb_spec (wordat s i) v) as [Ew|Ew]; injection Hs as <-; lw_open s HI HL M HLW HG HT;
      match goal with |- LW (upd_thread s t ?y) => set (th1 := y) end; lw_simple s t th th1 HLW Hth Hpc;
      try exact I; try (intros j; discriminate).
    intros j Hj. injection Hj as <-. left. destruct (proj2 HLW t th Hth) as [Hl _]. unfold lw_local in Hl. rewrite Hpc in Hl.
    destruct Hl as [A B]. split.
    + unfold waiter_bit. change (wordat (upd_thread s t th1) i) with (wordat s i). rewrite Ew. apply Z.leb_le. exact A.
    + unfold stat. change (wordat (upd_thread s t th1) i) with (wordat s i). rewrite Ew. exact B.
  - discriminate.
  - (* CReload *)
    injection Hs as <-. lw_open s HI HL M HLW HG HT.
    match goal with |- LW (upd_thread s t ?y) => set (th1 := y) end.
    lw_simple s t th th1 HLW Hth Hpc; [apply lw_local_slow; apply (proj1 HLW) | intros j Hj; destruct (blocked_slow _ _ _ _ _ _ Hj)].
  - (* CHand *)
    cbv zeta in Hs. injection Hs as <-. lw_open s HI HL M HLW HG HT.
    match goal with |- LW (upd_thread s t ?y) => set (th1 := y) end.
    lw_simple s t th th1 HLW Hth Hpc; [exact I | intros j; discriminate].
Qed.

Lemma linv_init : forall progs, LInv (init progs).
Proof.
  intros progs _. destruct consts_distinct as (_ & _ & _ & R1 & _). split.
  - intro j. unfold wordat, init. cbn [slots]. rewrite get_nil. cbn [word slot0]. lia.
  - intros t th Hn. cbn [threads init] in Hn. rewrite nth_error_map in Hn. destruct (nth_error progs t); [|discriminate].
    injection Hn as <-. split; [exact I | intros i; discriminate].
Qed.

Lemma tt_linv : forall progs s, Reach progs s -> Inv s /\ LInv s.
Proof.
  intros progs s H. apply (inv_reachable st step (fun s => Inv s /\ LInv s) (init progs)); [| |exact H].
  - split; [apply inv_init | apply linv_init].
  - intros s0 t s1 [A B] Hs. split; [eapply step_inv; eauto | eapply lw_step_inv; eauto].
Qed.

(* ---- no lost wake-up ---- *)
Lemma tt_no_lost_wakeup : forall progs s th i, Reach progs s -> misuse s = false -> In th (threads s) ->
  blocked_on th = Some i -> lw_ok s i.
Proof.
  intros progs s th i HR M Hin Hb. destruct (tt_linv _ _ HR) as [_ HL]. destruct (HL M) as [_ HT].
  destruct (In_nth_error _ _ Hin) as [t Ht]. destruct (HT t th Ht) as [_ B]. apply B. exact Hb.
Qed.

(* with no publisher / closer that still has to wake slot i, a parked consumer sits on an unpublished slot *)
Lemma tt_parked_only_on_unpublished : forall progs s th i, Reach progs s -> misuse s = false -> In th (threads s) ->
  blocked_on th = Some i -> (forall w, In w (threads s) -> will_wake (tpc w) i = false) -> stat s i = INITIAL /\ waiter_bit s i = true.
Proof.
  intros progs s th i HR M Hin Hb Hnw. destruct (tt_no_lost_wakeup _ _ _ _ HR M Hin Hb) as [[A B]|F]; [auto|].
  exfalso. unfold wake_in_flight in F. apply existsb_exists in F as (w & Hw & Hp). unfold wit in Hp. rewrite (Hnw w Hw) in Hp. discriminate.
Qed.

(* the futex word never goes negative and a consumer only parks with the waiter bit in its expected value *)
Lemma tt_wait_value_has_waiter_bit : forall progs s th i e b v, Reach progs s -> misuse s = false -> In th (threads s) ->
  tpc th = CWait i e b v -> (65536 <= v)%Z /\ status_of v = INITIAL.
Proof.
  intros progs s th i e b v HR M Hin Hpc. destruct (tt_linv _ _ HR) as [_ HL]. destruct (HL M) as [_ HT].
  destruct (In_nth_error _ _ Hin) as [t Ht]. destruct (HT t th Ht) as [A _]. unfold lw_local in A. rewrite Hpc in A. exact A.
Qed.

Lemma tt_reach_example :
  exists s, Reach [[OPub [7%Z; 8%Z]; OClose]; [OLoop 1]; [OLoop 3]] s /\ misuse s = false /\
            existsb parked (threads s) = true /\ wake_in_flight s 0 = true.
Proof.
  eexists. split; [exists [1; 1; 1; 1; 1; 1; 0; 0; 0]; reflexivity|]. vm_compute. repeat split; reflexivity.
Qed.
Lemma tt_end_example :
  exists s, Reach [[OPub [7%Z; 8%Z]; OClose]; [OLoop 3]] s /\ misuse s = false /\
            map ended (threads s) = [false; true] /\ map received (threads s) = [[]; [7%Z; 8%Z]].
Proof.
  eexists. split; [exists (repeat 0 12 ++ repeat 1 20); reflexivity|]. vm_compute. repeat split; reflexivity.
Qed.
