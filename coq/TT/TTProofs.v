(* Proofs about TTModel.  Statements are fixed by Properties_C15.v. *)
From Coq Require Import ZArith List Bool Lia Arith PeanoNat.
Require Import Verif.Base.Atomics Verif.Gen.Gen_topic Verif.Conc.Machine Verif.TT.TTModel.
Import ListNotations.
Local Open Scope nat_scope.

(* ---- vocabulary used by the statements (do not change) ---- *)
Definition Reach (progs : list (list op)) (s : st) : Prop := reachable st step (init progs) s.

Definition stat (s : st) (j : nat) : Z := status_of (wordat s j).
Definition valat (s : st) (j : nat) : Z := value (get j (slots s)).
(* the items in publication-index order *)
Definition items (s : st) : list Z := map fst (expected s).
Definition exp_val (s : st) (j : nat) : Z := nth j (items s) 0%Z.

Definition pub_range (p : pc) : option (nat * nat) :=
  match p with PFill b e _ => Some (b, e) | PStore _ e b => Some (b, e) | _ => None end.
Definition cons_pos (p : pc) : option (nat * nat * nat) :=
  match p with
  | CClosed i e b | CPub i e b | CReady i e b | CCas i e b _ | CWait i e b _ | CBlocked i e b | CReload i e b => Some (i, e, b)
  | _ => None
  end.
Definition blocked_on (th : thread) : option nat := match tpc th with CBlocked i _ _ => Some i | _ => None end.
(* thread w will still issue futex wake_all on slot i (or is about to decide whether to) *)
Definition will_wake (p : pc) (i : nat) : bool :=
  match p with
  | PStore _ e b => Nat.leb b i && Nat.ltb i e
  | XStore c => Nat.eqb c i
  | PWakeLoad j e | PWakeCas j e _ | PWakeAll j e => Nat.leb j i && Nat.ltb i e
  | _ => false
  end.
Definition at_wake_all (p : pc) (i : nat) : bool :=
  match p with PWakeAll j _ => Nat.eqb j i | PWakeCas j _ cur => Nat.eqb j i && Z.leb 65536 cur | _ => false end.
Definition waiter_bit (s : st) (i : nat) : bool := Z.leb 65536 (wordat s i).
Definition wake_in_flight (s : st) (i : nat) : bool :=
  existsb (fun w => will_wake (tpc w) i && (at_wake_all (tpc w) i || waiter_bit s i)) (threads s).

(* memory-order obligations on the regenerated site tables *)
Definition orders_ok : bool :=
  match sites_publish_n, sites_close, sites_consume, sites_set_published, sites_set_closed with
  | [(KFadd, _, _); (KLoad, _, _); (KStore, _, _); (KFence, o_rel, _); (KFence, o_sc, _)],
    [(KLoad, _, _); (KFence, o_csc, _)], [(KFence, o_acq, _)], [(KStore, _, _)], [(KStore, _, _)] =>
    has_release o_rel && is_seq_cst o_sc && is_seq_cst o_csc && has_acquire o_acq
  | _, _, _, _, _ => false
  end &&
  match sites_wakeup, sites_wakeup_slow, sites_wait, sites_wait_slow with
  | [(KLoad, _, _)], [(KCasW, _, _)], [(KLoad, _, _)], [(KCasW, _, _); (KLoad, _, _)] => true
  | _, _, _, _ => false
  end.

(* ======================================================================================== *)
(* Proofs                                                                                   *)
(* ======================================================================================== *)

(* ---- the generated definitions, restated (each proof breaks if the C++ expression changes) ---- *)
Lemma consts_distinct : PUBLISHED <> INITIAL /\ CLOSED <> INITIAL /\ PUBLISHED <> CLOSED /\
  (0 <= INITIAL < 65536)%Z /\ (0 <= PUBLISHED < 65536)%Z /\ (0 <= CLOSED < 65536)%Z.
Proof. vm_compute. repeat split; congruence. Qed.
Lemma published_status_spec : published_status = PUBLISHED. Proof. reflexivity. Qed.
Lemma closed_status_spec : closed_status = CLOSED. Proof. reflexivity. Qed.
Lemma published_test_spec : published_test = PUBLISHED. Proof. reflexivity. Qed.
Lemma closed_test_spec : closed_test = CLOSED. Proof. reflexivity. Qed.
Lemma reset_word_spec : reset_word = INITIAL. Proof. reflexivity. Qed.
Lemma clear_index_spec : Z.to_nat clear_index = 0. Proof. reflexivity. Qed.
Lemma pub_end_spec : forall b n, Z.to_nat (pub_end_index (Z.of_nat b) (Z.of_nat n)) = b + n.
Proof. intros. unfold pub_end_index. lia. Qed.
Lemma cons_end_spec : forall b n, Z.to_nat (cons_end_index (Z.of_nat b) (Z.of_nat n)) = b + n.
Proof. intros. unfold cons_end_index. lia. Qed.
Lemma wake_fast_spec : forall w, wake_fast w = true <-> (w < 65536)%Z.
Proof. intro w. unfold wake_fast. rewrite Z.leb_le. lia. Qed.
Lemma can_register_spec : forall w, can_register w = true <-> (w < 65536)%Z.
Proof. intro w. unfold can_register. rewrite Z.leb_le. lia. Qed.
Lemma wait_word_spec : forall w, wait_word w = (w + 65536)%Z.
Proof. intro w. unfold wait_word. lia. Qed.
Lemma ready_fast_spec : forall x, ready_fast x = true <-> x <> INITIAL.
Proof. intro x. unfold ready_fast. rewrite negb_true_iff, Z.eqb_neq. reflexivity. Qed.
Lemma wait_loop_spec : forall x, wait_loop x = true <-> x = INITIAL.
Proof. intro x. unfold wait_loop. apply Z.eqb_eq. Qed.

Lemma status_of_with_status : forall w x, (0 <= x < 65536)%Z -> status_of (with_status w x) = x.
Proof. intros w x H. unfold status_of, with_status. rewrite Z.add_comm, Z_mod_plus_full. apply Z.mod_small. exact H. Qed.
Lemma status_of_wait_word : forall w, status_of (wait_word w) = status_of w.
Proof. intro w. rewrite wait_word_spec. unfold status_of. replace (w + 65536)%Z with (w + 1 * 65536)%Z by lia. apply Z_mod_plus_full. Qed.
Lemma status_of_idem : forall w, status_of (status_of w) = status_of w.
Proof. intro w. unfold status_of. apply Z.mod_mod. lia. Qed.

(* ---- lists ---- *)
Lemma nth_error_set_nth_eq : forall A (l : list A) t x y, nth_error l t = Some y -> nth_error (set_nth t x l) t = Some x.
Proof. induction l as [|a l IH]; intros [|t] x y H; cbn in *; try discriminate; eauto. Qed.
Lemma nth_error_set_nth_neq : forall A (l : list A) t t' x, t' <> t -> nth_error (set_nth t x l) t' = nth_error l t'.
Proof. induction l as [|a l IH]; intros [|t] [|t'] x H; cbn in *; try reflexivity; try congruence. apply IH. congruence. Qed.
Lemma nth_error_set_nth_inv : forall A (l : list A) t t' x y, nth_error (set_nth t x l) t' = Some y ->
  (t' = t /\ y = x) \/ (t' <> t /\ nth_error l t' = Some y).
Proof.
  intros A l t t' x y H. destruct (Nat.eq_dec t' t) as [->|N].
  - left. split; [reflexivity|]. destruct (nth_error l t) eqn:E.
    + rewrite (nth_error_set_nth_eq _ _ _ _ _ E) in H. congruence.
    + exfalso. clear -H E. revert t H E. induction l as [|a l IH]; intros [|t] H E; cbn in *; try discriminate. eauto.
  - right. split; [exact N|]. rewrite nth_error_set_nth_neq in H; assumption.
Qed.

Lemma get_put_eq : forall i x l, get i (put i x l) = x.
Proof. unfold get. induction i as [|i IH]; intros x [|a l]; cbn; auto. Qed.
Lemma get_nil : forall i, get i [] = slot0.
Proof. unfold get. destruct i; reflexivity. Qed.
Lemma get_put_neq : forall i j x l, j <> i -> get j (put i x l) = get j l.
Proof.
  unfold get. induction i as [|i IH]; intros [|j] x [|a l] H; try congruence; try reflexivity.
  - cbn. destruct j; reflexivity.
  - cbn [put nth]. rewrite IH by congruence. destruct j; reflexivity.
  - cbn [put nth]. apply IH. congruence.
Qed.
Lemma get_set_word : forall i j w l, get j (set_word i w l) = if Nat.eqb j i then {| word := w; value := value (get i l) |} else get j l.
Proof. intros. unfold set_word. destruct (Nat.eqb_spec j i) as [->|N]; [apply get_put_eq | apply get_put_neq; exact N]. Qed.
Lemma get_set_value : forall i j v l, get j (set_value i v l) = if Nat.eqb j i then {| word := word (get i l); value := v |} else get j l.
Proof. intros. unfold set_value. destruct (Nat.eqb_spec j i) as [->|N]; [apply get_put_eq | apply get_put_neq; exact N]. Qed.
Lemma word_get_fill : forall vals b j l, word (get j (fill b vals l)) = word (get j l).
Proof.
  induction vals as [|v r IH]; intros b j l; cbn [fill]; [reflexivity|]. rewrite IH, get_set_value.
  destruct (Nat.eqb_spec j b) as [->|]; reflexivity.
Qed.
Lemma value_get_fill : forall vals b j l, value (get j (fill b vals l)) =
  if Nat.leb b j && Nat.ltb j (b + length vals) then nth (j - b) vals 0%Z else value (get j l).
Proof.
  induction vals as [|v r IH]; intros b j l; cbn [fill length].
  - replace (b + 0) with b by lia. destruct (Nat.leb_spec b j), (Nat.ltb_spec j b); cbn; try reflexivity; lia.
  - rewrite IH, get_set_value.
    destruct (Nat.eqb_spec j b) as [->|N].
    + replace (b - b) with 0 by lia. cbn [nth].
      destruct (Nat.leb_spec (S b) b); [lia|]. cbn [andb]. destruct (Nat.leb_spec b b); [|lia].
      destruct (Nat.ltb_spec b (b + S (length r))); [|lia]. reflexivity.
    + destruct (Nat.leb_spec (S b) j), (Nat.ltb_spec j (S b + length r)), (Nat.leb_spec b j), (Nat.ltb_spec j (b + S (length r)));
        cbn [andb]; try lia; try reflexivity.
      replace (j - b) with (S (j - S b)) by lia. reflexivity.
Qed.
Lemma get_map_reset : forall j l, get j (map reset_slot l) = if Nat.ltb j (length l) then reset_slot (get j l) else slot0.
Proof.
  unfold get. induction j as [|j IH]; intros [|a l]; cbn; try reflexivity.
  rewrite IH. reflexivity.
Qed.

Lemma nth_map_seq_firstn : forall (l : list Z) n, n <= length l -> map (fun j => nth j l 0%Z) (seq 0 n) = firstn n l.
Proof.
  intros l n. revert l. induction n as [|n IH]; intros l H; [reflexivity|].
  destruct l as [|a l]; [cbn in H; lia|]. cbn [seq map firstn nth]. f_equal.
  rewrite <- seq_shift, map_map. cbn [nth]. apply IH. cbn in H. lia.
Qed.

(* ---- theorems that need no invariant ---- *)
Lemma tt_orders_ok : orders_ok = true.
Proof. vm_compute. reflexivity. Qed.

Ltac split_goal_ifs :=
  repeat match goal with
  | |- context [if ?c then _ else _] => destruct c
  end.

(* every unfinished thread that is neither parked in the kernel nor waiting at a (harness) barrier can step *)
Lemma tt_unparked_enabled : forall progs s t th, Reach progs s ->
  nth_error (threads s) t = Some th -> thread_done th = false -> parked th = false -> at_barrier th = false ->
  step s t <> None.
Proof.
  intros progs s t th _ Hth Hd Hp Hb. unfold step. rewrite Hth. unfold step_thread, thread_done, parked, at_barrier in *.
  destruct (tpc th) eqn:Hpc; try discriminate Hp.
  1: { destruct (cur_op th) as [o|] eqn:Hop; [|discriminate Hd].
       destruct o; try discriminate Hb; unfold start_consume; cbv zeta; split_goal_ifs; discriminate. }
  all: cbv zeta; split_goal_ifs; discriminate.
Qed.

(* ======================================================================================== *)
(* The safety invariant                                                                     *)
(* ======================================================================================== *)
Definition req (th : thread) : nat := match cur_op th with Some (OConsume k) | Some (OLoop k) => k | _ => 0 end.

Definition G (s : st) : Prop :=
  length (expected s) = nei s /\
  (forall j, stat s j = PUBLISHED -> j < nei s /\ valat s j = exp_val s j) /\
  (forall c, closed_at s = Some c -> c = nei s) /\
  (forall j, stat s j = CLOSED -> closed_at s = Some j).

Definition cons_gen (s : st) (th : thread) : Prop :=
  cepoch th <= epoch s /\
  (cepoch th = epoch s ->
     received th = map (exp_val s) (seq 0 (cursor th)) /\
     (forall j, j < cursor th -> stat s j = PUBLISHED) /\
     (ended th = true -> closed_at s = Some (cursor th))).

Definition pc_inv (s : st) (t : nat) (th : thread) : Prop :=
  match tpc th with
  | PFill b e vals => b < e /\ e = b + length vals /\
      forall j, b <= j < e -> nth_error (expected s) j = Some (nth (j - b) vals 0%Z, (t, opi th))
  | PStore i e b => b <= i < e /\
      forall j, b <= j < e -> exists v, nth_error (expected s) j = Some (v, (t, opi th)) /\ valat s j = v
  | XStore i => closed_at s = Some i
  | CHand b n sawc e => e = b + req th /\ (cepoch th = epoch s -> b = cursor th /\ (forall j, j < b + n -> stat s j = PUBLISHED) /\
      (sawc = true -> closed_at s = Some (b + n)) /\ (sawc = false -> b + n = e /\ 0 < n))
  | p => match cons_pos p with
         | Some (i, e, b) => e = b + req th /\ (cepoch th = epoch s -> b = cursor th /\ b <= i < e /\ (forall j, j < i -> stat s j = PUBLISHED))
         | None => True
         end
  end.
Definition tinv (s : st) (t : nat) (th : thread) : Prop := cons_gen s th /\ pc_inv s t th.
Definition TI (s : st) : Prop := forall t th, nth_error (threads s) t = Some th -> tinv s t th.
Definition Inv (s : st) : Prop := misuse s = false -> G s /\ TI s.

Definition stable (t : nat) (s s' : st) : Prop :=
  epoch s' = epoch s /\
  (forall j x, nth_error (expected s) j = Some x -> nth_error (expected s') j = Some x) /\
  (forall j, stat s j = PUBLISHED -> stat s' j = PUBLISHED) /\
  (forall c, closed_at s = Some c -> closed_at s' = Some c) /\
  (forall j v o, nth_error (expected s) j = Some (v, o) -> fst o <> t -> valat s' j = valat s j).

Lemma exp_val_nth_error : forall s j x, nth_error (expected s) j = Some x -> exp_val s j = fst x.
Proof.
  intros s j x H. unfold exp_val, items. apply nth_error_nth. rewrite nth_error_map, H. reflexivity.
Qed.
Lemma nth_error_lt_some : forall A (l : list A) j, j < length l -> exists x, nth_error l j = Some x.
Proof. intros A l j H. destruct (nth_error l j) eqn:E; [eauto|]. apply nth_error_None in E. lia. Qed.

Lemma exp_val_stable : forall t s s' j, G s -> stable t s s' -> stat s j = PUBLISHED -> exp_val s' j = exp_val s j.
Proof.
  intros t s s' j (G1 & G2 & _) (_ & Hx & _) Hp. destruct (G2 j Hp) as [Hlt _]. rewrite <- G1 in Hlt.
  destruct (nth_error_lt_some _ _ _ Hlt) as [x Hx0]. rewrite (exp_val_nth_error _ _ _ Hx0), (exp_val_nth_error _ _ _ (Hx _ _ Hx0)). reflexivity.
Qed.

Lemma cons_gen_stable : forall t s s' th, G s -> stable t s s' -> cons_gen s th -> cons_gen s' th.
Proof.
  intros t s s' th HG Hst [Hle Hc]. pose proof Hst as (He & Hx & Hp & Hcl & _). split; [lia|].
  intro E. rewrite He in E. destruct (Hc E) as (Hr & Hpub & Hend). repeat split.
  - rewrite Hr. apply map_ext_in. intros j Hj. apply in_seq in Hj. symmetry. eapply exp_val_stable; eauto. apply Hpub. lia.
  - intros j Hj. apply Hp, Hpub, Hj.
  - intro Hen. apply Hcl, Hend, Hen.
Qed.

Lemma tinv_stable : forall t s s' t' th, G s -> stable t s s' -> t' <> t -> tinv s t' th -> tinv s' t' th.
Proof.
  intros t s s' t' th HG Hst N [Hc Hp]. split; [eapply cons_gen_stable; eauto|].
  destruct Hst as (He & Hx & Hpub & Hcl & Hv). unfold pc_inv in *. rewrite He.
  destruct (tpc th); cbn [cons_pos] in *; auto.
  - destruct Hp as (A & B & C). repeat split; auto.
  - destruct Hp as (A & C). split; auto. intros j Hj. destruct (C j Hj) as (v & E1 & E2). exists v. split; auto.
    rewrite (Hv j v _ E1); auto.
  - destruct Hp as (A & C). split; auto. intro E. destruct (C E) as (B1 & B2 & B3). auto.
  - destruct Hp as (A & C). split; auto. intro E. destruct (C E) as (B1 & B2 & B3). auto.
  - destruct Hp as (A & C). split; auto. intro E. destruct (C E) as (B1 & B2 & B3). auto.
  - destruct Hp as (A & C). split; auto. intro E. destruct (C E) as (B1 & B2 & B3). auto.
  - destruct Hp as (A & C). split; auto. intro E. destruct (C E) as (B1 & B2 & B3). auto.
  - destruct Hp as (A & C). split; auto. intro E. destruct (C E) as (B1 & B2 & B3). auto.
  - destruct Hp as (A & C). split; auto. intro E. destruct (C E) as (B1 & B2 & B3). auto.
  - destruct Hp as (A & C). split; auto. intro E. destruct (C E) as (B1 & B2 & B3 & B4). repeat split; auto; apply B4; auto.
Qed.

(* shared parts related by "same status and value everywhere" *)
Lemma equiv_stable : forall t s s1, nei s1 = nei s -> expected s1 = expected s -> closed_at s1 = closed_at s -> epoch s1 = epoch s ->
  (forall j, stat s1 j = stat s j) -> (forall j, valat s1 j = valat s j) -> stable t s s1 /\ (G s -> G s1).
Proof.
  intros t s s1 E1 E2 E3 E4 Hs Hv. split.
  - unfold stable. rewrite E2, E3, E4. repeat split; auto. intros j Hj. rewrite Hs. exact Hj.
  - intros (G1 & G2 & G3 & G4). unfold G, exp_val, items. rewrite E1, E2, E3. repeat split; auto.
    + apply G2. rewrite <- Hs. assumption.
    + rewrite Hv. apply G2. rewrite <- Hs. assumption.
    + intros j Hj. apply G4. rewrite <- Hs. assumption.
Qed.

Lemma finish_case : forall s s1 t th th1, G s -> TI s -> nth_error (threads s) t = Some th -> threads s1 = threads s ->
  stable t s s1 -> G s1 -> tinv s1 t th1 -> G (upd_thread s1 t th1) /\ TI (upd_thread s1 t th1).
Proof.
  intros s s1 t th th1 HG HT Hth Eth Hst HG1 Hnew. split; [exact HG1|].
  intros t' th' Hn. change (tinv s1 t' th'). cbn [threads upd_thread set_threads] in Hn. rewrite Eth in Hn.
  apply nth_error_set_nth_inv in Hn as [[-> ->]|[N Hn]]; [exact Hnew|]. exact (tinv_stable t s s1 t' th' HG Hst N (HT t' th' Hn)).
Qed.

Lemma others_idle_spec : forall l t t' th, others_idle t l = true -> t' <> t -> nth_error l t' = Some th -> tpc th = Idle.
Proof.
  induction l as [|a l IH]; intros t t' th H N Hn; [destruct t'; discriminate|].
  destruct t as [|t]; cbn [others_idle] in H.
  - destruct t' as [|t']; [congruence|]. cbn in Hn. rewrite forallb_forall in H. apply nth_error_In in Hn. apply H in Hn.
    unfold is_idle in Hn. destruct (tpc th); congruence.
  - apply andb_true_iff in H as [H1 H2]. destruct t' as [|t']; cbn in Hn.
    + injection Hn as <-. unfold is_idle in H1. destruct (tpc a); congruence.
    + apply (IH t t' th H2); [lia | exact Hn].
Qed.

Lemma status_of_initial : status_of INITIAL = INITIAL.
Proof. reflexivity. Qed.

Lemma stat_set_word : forall s i w j, stat (set_slots s (set_word i w (slots s))) j = if Nat.eqb j i then status_of w else stat s j.
Proof. intros. unfold stat, wordat. cbn [slots set_slots]. rewrite get_set_word. destruct (Nat.eqb j i); reflexivity. Qed.
Lemma valat_set_word : forall s i w j, valat (set_slots s (set_word i w (slots s))) j = valat s j.
Proof. intros. unfold valat. cbn [slots set_slots]. rewrite get_set_word. destruct (Nat.eqb_spec j i) as [->|]; reflexivity. Qed.

Lemma stable_refl : forall t s, stable t s s.
Proof. intros. unfold stable. repeat split; auto. Qed.

Lemma tinv_goto_cons : forall s t th p i e b, cons_gen s th -> cons_pos p = Some (i, e, b) ->
  (match p with CHand _ _ _ _ => False | _ => True end) ->
  e = b + req th -> (cepoch th = epoch s -> b = cursor th /\ b <= i < e /\ (forall j, j < i -> stat s j = PUBLISHED)) ->
  tinv s t (goto th p).
Proof.
  intros s t th p i e b Hc Hpos Hnh He H. split; [exact Hc|]. unfold pc_inv. cbn [tpc goto].
  destruct p; cbn [cons_pos] in *; try discriminate; try contradiction; injection Hpos as -> -> ->; (split; [exact He | exact H]).
Qed.

Lemma tinv_goto_slow : forall s t th i e b cur, cons_gen s th ->
  e = b + req th -> (cepoch th = epoch s -> b = cursor th /\ b <= i < e /\ (forall j, j < i -> stat s j = PUBLISHED)) ->
  tinv s t (goto th (slow i e b cur)).
Proof.
  intros. unfold slow. destruct (wait_loop _); [destruct (can_register _)|]; eapply tinv_goto_cons; eauto; reflexivity.
Qed.

Lemma tinv_idle : forall s t th1, cons_gen s th1 -> tpc th1 = Idle -> tinv s t th1.
Proof. intros s t th1 Hc Hpc. split; [exact Hc|]. unfold pc_inv. rewrite Hpc. exact I. Qed.

Lemma nth_error_app_map : forall (l : list (Z * (nat * nat))) (vals : list Z) o j, length l <= j < length l + length vals ->
  nth_error (l ++ map (fun v => (v, o)) vals) j = Some (nth (j - length l) vals 0%Z, o).
Proof.
  intros l vals o j H. rewrite nth_error_app2 by lia. rewrite nth_error_map.
  rewrite (nth_error_nth' vals 0%Z) by lia. reflexivity.
Qed.

Ltac open_case s HI Hown Hpc M HG HT Hc Hp :=
  intro M; change (misuse s = false) in M; destruct (HI M) as [HG HT]; destruct (Hown M) as [Hc Hp];
  unfold pc_inv in Hp; rewrite Hpc in Hp; cbn [cons_pos] in Hp.

Lemma step_inv : forall s t s', Inv s -> step s t = Some s' -> Inv s'.
Proof.
  intros s t s' HI Hs. unfold step in Hs. destruct (nth_error (threads s) t) as [th|] eqn:Hth; [|discriminate].
  assert (Hown : misuse s = false -> tinv s t th) by (intro M; destruct (HI M) as [_ HT]; exact (HT t th Hth)).
  unfold step_thread in Hs. destruct (tpc th) eqn:Hpc.
  - (* Idle *) admit.
  - (* PFill *) admit.
  - (* PStore *) admit.
  - (* PWakeLoad *) admit.
  - (* PWakeCas *) admit.
  - (* PWakeAll *) admit.
  - (* XStore *) admit.
  - (* CClosed *)
    cbv zeta in Hs. destruct (Z.eqb_spec (status_of (wordat s i)) closed_test) as [Ec|Ec]; injection Hs as <-;
      open_case s HI Hown Hpc M HG HT Hc Hp; destruct Hp as [He Hp];
      refine (finish_case s s t th _ HG HT Hth eq_refl (stable_refl _ _) HG _).
    + split; [exact Hc|]. unfold pc_inv. cbn [tpc goto]. split; [exact He|]. intro E. destruct (Hp E) as (B1 & B2 & B3).
      replace (b + (i - b)) with i by lia. repeat split; auto; try discriminate.
      intros _. destruct HG as (_ & _ & _ & G4). apply G4. exact Ec.
    + eapply tinv_goto_cons; eauto; reflexivity.
  - (* CPub *)
    cbv zeta in Hs. destruct (Z.eqb_spec (status_of (wordat s i)) published_test) as [Ec|Ec];
      [destruct (Nat.eqb_spec (S i) e) as [Ee|Ee]|]; injection Hs as <-;
      open_case s HI Hown Hpc M HG HT Hc Hp; destruct Hp as [He Hp];
      refine (finish_case s s t th _ HG HT Hth eq_refl (stable_refl _ _) HG _).
    + split; [exact Hc|]. unfold pc_inv. cbn [tpc goto]. split; [exact He|]. intro E. destruct (Hp E) as (B1 & B2 & B3).
      replace (b + (S i - b)) with (S i) by lia. repeat split; auto; try discriminate; try lia.
      intros j Hj. destruct (Nat.eq_dec j i) as [->|]; [exact Ec | apply B3; lia].
    + eapply tinv_goto_cons; eauto; try reflexivity. intro E. destruct (Hp E) as (B1 & B2 & B3). repeat split; auto; try lia.
      intros j Hj. destruct (Nat.eq_dec j i) as [->|]; [exact Ec | apply B3; lia].
    + eapply tinv_goto_cons; eauto; reflexivity.
  - (* CReady *)
    cbv zeta in Hs. destruct (ready_fast _); injection Hs as <-;
      open_case s HI Hown Hpc M HG HT Hc Hp; destruct Hp as [He Hp];
      refine (finish_case s s t th _ HG HT Hth eq_refl (stable_refl _ _) HG _).
    + eapply tinv_goto_cons; eauto; reflexivity.
    + apply tinv_goto_slow; auto.
  - (* CCas *) admit.
  - (* CWait *)
    destruct (Z.eqb _ _); injection Hs as <-;
      open_case s HI Hown Hpc M HG HT Hc Hp; destruct Hp as [He Hp];
      refine (finish_case s s t th _ HG HT Hth eq_refl (stable_refl _ _) HG _); eapply tinv_goto_cons; eauto; reflexivity.
  - (* CBlocked *) discriminate.
  - (* CReload *)
    injection Hs as <-. open_case s HI Hown Hpc M HG HT Hc Hp; destruct Hp as [He Hp].
    refine (finish_case s s t th _ HG HT Hth eq_refl (stable_refl _ _) HG _). apply tinv_goto_slow; auto.
  - (* CHand *) admit.
Admitted.
