(* Executable interleaving model of babylon::ConcurrentTransientTopic<T, S>
   (src/babylon/concurrent/transient_topic.{h,hpp}).  One step = one atomic operation (or futex call) of the
   C++ code plus the local computation up to the next one; `seq_cst`/`release`/`acquire` fences have no effect
   of their own in an interleaving semantics and are folded into the neighbouring step.  No proofs here.

   Shared state : _next_event_index, the slot array (32-bit futex word = status16 | waiter bits, value).
                  The ConcurrentVector underneath is abstracted to an unbounded array (its growth is C04).
   Ghost state  : expected  - the items in publication-index order with (thread, op) of the publisher,
                  closed_at - index read by the first close() of this epoch, epoch (bumped by clear()),
                  misuse    - a documented usage rule was broken (publish after close, consume(0), stale
                              consumer after clear(), clear() while another thread is inside an operation),
                  per thread: received, ended, cepoch (epoch of its subscription).
   Harness-level op OBarrier (all threads meet) lets client programs express "close after every publish
   returned" and "clear when nobody uses the topic"; it has no counterpart in the library. *)
From Coq Require Import ZArith List Bool Arith.
Require Import Verif.Gen.Gen_topic.
Import ListNotations.
Local Open Scope Z_scope.

Inductive op :=
| OPub (vals : list Z)     (* publish(v) = OPub [v]; publish_n(n, fill with vals) *)
| OConsume (k : nat)       (* one consumer.consume(k) *)
| OLoop (k : nat)          (* consume(k) until the end marker *)
| OClose
| OClear
| OSub                     (* consumer = topic.subscribe() *)
| OBarrier.

Inductive res := RDone | RGot (vs : list Z) | REnd.

Inductive pc :=
| Idle
(* publish_n: index range [b,e) claimed by the fetch_add *)
| PFill (b e : nat) (vals : list Z)       (* next: callback fills the range, release fence *)
| PStore (i e b : nat)                    (* next: set_published on slot i *)
(* wake-up loop over [i,e) shared by publish_n and close *)
| PWakeLoad (i e : nat)                   (* wakeup_waiters: load the word of slot i *)
| PWakeCas (i e : nat) (cur : Z)          (* wakeup_waiters_slow: CAS the waiter bits away *)
| PWakeAll (i e : nat)                    (* futex wake_all on slot i *)
(* close: index loaded *)
| XStore (i : nat)                        (* next: set_closed on slot i *)
(* consume(num): b = _next_consume_index at entry, e = b + num, walking at slot i (consumed = i - b) *)
| CClosed (i e b : nat)                   (* next: is_closed() load *)
| CPub (i e b : nat)                      (* next: is_published() load *)
| CReady (i e b : nat)                    (* wait_until_ready: load *)
| CCas (i e b : nat) (cur : Z)            (* slow path: CAS that registers the waiter bit *)
| CWait (i e b : nat) (v : Z)             (* futex_wait(v) about to be issued *)
| CBlocked (i e b : nat)                  (* parked in the kernel on slot i *)
| CReload (i e b : nat)                   (* woken / EAGAIN / CAS lost: reload the word *)
| CHand (b n : nat) (sawc : bool) (e : nat).   (* loop left with n items (sawc: at a CLOSED slot); next: advance, acquire fence, hand out *)

Record slot := { word : Z; value : Z }.
Definition slot0 : slot := {| word := INITIAL; value := 0 |}.     (* Futex<S> _futex {INITIAL} *)

Record thread := { prog : list op; opi : nat; tpc : pc; results : list (nat * res);
                   cursor : nat; cepoch : nat; received : list Z; ended : bool; bar : nat }.

Record st := { nei : nat; slots : list slot;
               expected : list (Z * (nat * nat)); closed_at : option nat; epoch : nat; misuse : bool;
               threads : list thread }.

Definition mk_thread (p : list op) : thread :=
  {| prog := p; opi := 0; tpc := Idle; results := []; cursor := 0; cepoch := 0; received := []; ended := false; bar := 0 |}.
Definition init (progs : list (list op)) : st :=
  {| nei := 0; slots := []; expected := []; closed_at := None; epoch := 0; misuse := false; threads := map mk_thread progs |}.

(* ---- the abstract unbounded slot array ---- *)
Definition get (i : nat) (l : list slot) : slot := nth i l slot0.
Fixpoint put (i : nat) (x : slot) (l : list slot) : list slot :=
  match i, l with
  | O, [] => [x]
  | O, _ :: r => x :: r
  | S i', [] => slot0 :: put i' x []
  | S i', y :: r => y :: put i' x r
  end.
Definition set_word (i : nat) (w : Z) (l : list slot) : list slot := put i {| word := w; value := value (get i l) |} l.
Definition set_value (i : nat) (v : Z) (l : list slot) : list slot := put i {| word := word (get i l); value := v |} l.
Fixpoint fill (b : nat) (vals : list Z) (l : list slot) : list slot :=
  match vals with [] => l | v :: r => fill (S b) r (set_value b v l) end.
Definition reset_slot (x : slot) : slot := {| word := reset_word; value := value x |}.

(* the futex word: low uint16_t half = status (reinterpret_cast<atomic<uint16_t>&>, little endian) *)
Definition status_of (w : Z) : Z := w mod 65536.
Definition with_status (w s : Z) : Z := (w / 65536) * 65536 + s.
Definition wordat (s : st) (i : nat) : Z := word (get i (slots s)).

Fixpoint set_nth {A} (n : nat) (x : A) (l : list A) : list A :=
  match l, n with
  | [], _ => []
  | _ :: r, O => x :: r
  | y :: r, S n' => y :: set_nth n' x r
  end.

(* ---- state updaters ---- *)
Definition set_threads (s : st) (ths : list thread) : st :=
  {| nei := nei s; slots := slots s; expected := expected s; closed_at := closed_at s; epoch := epoch s;
     misuse := misuse s; threads := ths |}.
Definition upd_thread (s : st) (t : nat) (th : thread) : st := set_threads s (set_nth t th (threads s)).
Definition set_slots (s : st) (sl : list slot) : st :=
  {| nei := nei s; slots := sl; expected := expected s; closed_at := closed_at s; epoch := epoch s;
     misuse := misuse s; threads := threads s |}.
Definition flag_misuse (s : st) (b : bool) : st :=
  {| nei := nei s; slots := slots s; expected := expected s; closed_at := closed_at s; epoch := epoch s;
     misuse := misuse s || b; threads := threads s |}.

Definition goto (th : thread) (p : pc) : thread :=
  {| prog := prog th; opi := opi th; tpc := p; results := results th; cursor := cursor th; cepoch := cepoch th;
     received := received th; ended := ended th; bar := bar th |}.
Definition finish_op (th : thread) (r : res) : thread :=
  {| prog := prog th; opi := S (opi th); tpc := Idle; results := results th ++ [(opi th, r)]; cursor := cursor th;
     cepoch := cepoch th; received := received th; ended := ended th; bar := bar th |}.

(* ---- publisher side ---- *)
Definition wake_next (th : thread) (i e : nat) : thread :=
  if Nat.eqb (S i) e then finish_op th RDone else goto th (PWakeLoad (S i) e).

Definition wake_thread (i : nat) (th : thread) : thread :=
  match tpc th with
  | CBlocked j e b => if Nat.eqb j i then goto th (CReload j e b) else th
  | _ => th
  end.

(* ---- consumer side ---- *)
(* wait_until_ready_slow: loop head with a freshly known word `cur` *)
Definition slow (i e b : nat) (cur : Z) : pc :=
  if wait_loop (status_of cur) then (if can_register cur then CCas i e b cur else CWait i e b cur)
  else CClosed i e b.

Definition start_consume (s : st) (t : nat) (th : thread) (k : nat) : st :=
  let b := cursor th in
  let e := Z.to_nat (cons_end_index (Z.of_nat b) (Z.of_nat k)) in
  let s1 := flag_misuse s (Nat.eqb k 0 || negb (Nat.eqb (cepoch th) (epoch s))) in
  if Nat.eqb b e then upd_thread s1 t (goto th (CHand b 0 false e))
  else upd_thread s1 t (goto th (CClosed b e b)).

Definition hand_out (s : st) (th : thread) (b n : nat) (looping : bool) : thread :=
  let vs := map (fun j => value (get j (slots s))) (seq b n) in
  let r := match n with O => REnd | _ => RGot vs end in
  let stay := looping && negb (Nat.eqb n 0) in
  {| prog := prog th; opi := if stay then opi th else S (opi th); tpc := Idle; results := results th ++ [(opi th, r)];
     cursor := b + n; cepoch := cepoch th; received := received th ++ vs;
     ended := ended th || Nat.eqb n 0; bar := bar th |}.

(* ---- barrier ---- *)
Definition cur_op (th : thread) : option op := nth_error (prog th) (opi th).
Definition thread_done (th : thread) : bool :=
  match tpc th, cur_op th with Idle, None => true | _, _ => false end.
Definition at_barrier (th : thread) : bool :=
  match tpc th, cur_op th with Idle, Some OBarrier => true | _, _ => false end.
Definition barrier_open (s : st) (me : thread) : bool :=
  forallb (fun th => Nat.ltb (bar me) (bar th) || (Nat.eqb (bar th) (bar me) && at_barrier th) || thread_done th) (threads s).

Definition is_idle (th : thread) : bool := match tpc th with Idle => true | _ => false end.
Fixpoint others_idle (t : nat) (l : list thread) : bool :=
  match l, t with
  | [], _ => true
  | _ :: r, O => forallb is_idle r
  | x :: r, S t' => is_idle x && others_idle t' r
  end.

Definition step_thread (s : st) (t : nat) (th : thread) : option st :=
  match tpc th with
  | Idle =>
    match cur_op th with
    | None => None                                      (* finished *)
    | Some (OPub vals) =>                               (* fetch_add(num, relaxed) *)
      let b := nei s in
      let e := Z.to_nat (pub_end_index (Z.of_nat b) (Z.of_nat (length vals))) in
      let s1 := {| nei := e; slots := slots s; expected := expected s ++ map (fun v => (v, (t, opi th))) vals;
                   closed_at := closed_at s; epoch := epoch s;
                   misuse := misuse s || match closed_at s with Some _ => true | None => false end;
                   threads := threads s |} in
      if Nat.eqb b e then Some (upd_thread s1 t (finish_op th RDone))      (* empty range: for_each calls nothing *)
      else Some (upd_thread s1 t (goto th (PFill b e vals)))
    | Some (OConsume k) => Some (start_consume s t th k)
    | Some (OLoop k) => Some (start_consume s t th k)
    | Some OClose =>                                    (* load _next_event_index (relaxed) *)
      let s1 := {| nei := nei s; slots := slots s; expected := expected s;
                   closed_at := match closed_at s with Some c => Some c | None => Some (nei s) end;
                   epoch := epoch s; misuse := misuse s; threads := threads s |} in
      Some (upd_thread s1 t (goto th (XStore (nei s))))
    | Some OClear =>                                    (* reset every slot, store index; needs quiescence *)
      let s1 := {| nei := Z.to_nat clear_index; slots := map reset_slot (slots s); expected := [];
                   closed_at := None; epoch := S (epoch s);
                   misuse := misuse s || negb (others_idle t (threads s)); threads := threads s |} in
      Some (upd_thread s1 t (finish_op th RDone))
    | Some OSub =>
      Some (upd_thread s t {| prog := prog th; opi := S (opi th); tpc := Idle; results := results th ++ [(opi th, RDone)];
                              cursor := 0; cepoch := epoch s; received := []; ended := false; bar := bar th |})
    | Some OBarrier =>
      if barrier_open s th then
        Some (upd_thread s t {| prog := prog th; opi := S (opi th); tpc := Idle; results := results th ++ [(opi th, RDone)];
                                cursor := cursor th; cepoch := cepoch th; received := received th; ended := ended th;
                                bar := S (bar th) |})
      else None
    end
  | PFill b e vals =>                                   (* callback(begin, end); release fence *)
    Some (upd_thread (set_slots s (fill b vals (slots s))) t (goto th (PStore b e b)))
  | PStore i e b =>                                     (* status.store(PUBLISHED, relaxed) on the low half *)
    let s1 := set_slots s (set_word i (with_status (wordat s i) published_status) (slots s)) in
    if Nat.eqb (S i) e then Some (upd_thread s1 t (goto th (PWakeLoad b e)))     (* seq_cst fence *)
    else Some (upd_thread s1 t (goto th (PStore (S i) e b)))
  | XStore i =>                                         (* status.store(CLOSED, relaxed); seq_cst fence *)
    let s1 := set_slots s (set_word i (with_status (wordat s i) closed_status) (slots s)) in
    Some (upd_thread s1 t (goto th (PWakeLoad i (S i))))
  | PWakeLoad i e =>                                    (* load (relaxed) *)
    let cur := wordat s i in
    if wake_fast cur then Some (upd_thread s t (wake_next th i e))
    else Some (upd_thread s t (goto th (PWakeCas i e cur)))
  | PWakeCas i e cur =>                                 (* compare_exchange_weak(cur, uint16_t(cur)); result ignored *)
    let s1 := if Z.eqb (wordat s i) cur then set_slots s (set_word i (status_of cur) (slots s)) else s in
    Some (upd_thread s1 t (goto th (PWakeAll i e)))
  | PWakeAll i e =>                                     (* futex wake_all *)
    Some (upd_thread (set_threads s (map (wake_thread i) (threads s))) t (wake_next th i e))
  | CClosed i e b =>                                    (* is_closed(): 16-bit load *)
    if Z.eqb (status_of (wordat s i)) closed_test then Some (upd_thread s t (goto th (CHand b (i - b) true e)))
    else Some (upd_thread s t (goto th (CPub i e b)))
  | CPub i e b =>                                       (* is_published(): 16-bit load *)
    if Z.eqb (status_of (wordat s i)) published_test then
      (if Nat.eqb (S i) e then Some (upd_thread s t (goto th (CHand b (S i - b) false e)))
       else Some (upd_thread s t (goto th (CClosed (S i) e b))))
    else Some (upd_thread s t (goto th (CReady i e b)))
  | CReady i e b =>                                     (* wait_until_ready(): load *)
    let cur := wordat s i in
    if ready_fast (status_of cur) then Some (upd_thread s t (goto th (CClosed i e b)))
    else Some (upd_thread s t (goto th (slow i e b cur)))
  | CCas i e b cur =>                                   (* compare_exchange_weak(cur, cur + 65536) *)
    if Z.eqb (wordat s i) cur then
      Some (upd_thread (set_slots s (set_word i (wait_word cur) (slots s))) t (goto th (CWait i e b (wait_word cur))))
    else Some (upd_thread s t (goto th (CReload i e b)))
  | CWait i e b v =>                                    (* futex_wait(v, nullptr): the kernel compares and parks *)
    if Z.eqb (wordat s i) v then Some (upd_thread s t (goto th (CBlocked i e b)))
    else Some (upd_thread s t (goto th (CReload i e b)))
  | CBlocked _ _ _ => None
  | CReload i e b => Some (upd_thread s t (goto th (slow i e b (wordat s i))))
  | CHand b n sawc e =>                                 (* _next_consume_index += consumed; acquire fence; range *)
    let looping := match cur_op th with Some (OLoop _) => true | _ => false end in
    Some (upd_thread s t (hand_out s th b n looping))
  end.

Definition step (s : st) (t : nat) : option st :=
  match nth_error (threads s) t with
  | Some th => step_thread s t th
  | None => None
  end.

Definition all_done (s : st) : bool := forallb thread_done (threads s).
Definition parked (th : thread) : bool := match tpc th with CBlocked _ _ _ => true | _ => false end.

(* observable outcome of an execution, as the implementation driver prints it *)
Definition outcome (s : st) : list (list (nat * res)) := map results (threads s).
