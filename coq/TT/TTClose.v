(* Where close() puts the end marker: the slot with index = number of items published, which may be the first slot of a
   block of the ConcurrentVector that nobody has touched yet (exactly when 128*k items were published).
   ConcurrentVector::ensure(i) makes the block holding slot i accessible; reserved_snapshot(n) only the slots [0, n).
   Which accessor close() uses is regenerated from transient_topic.hpp (Gen_topic.close_ensures_marker_slot). *)
From Coq Require Import ZArith Lia.
Require Import Verif.Gen.Gen_topic.
Local Open Scope Z_scope.

Definition block_size : Z := 128.
(* number of leading blocks guaranteed accessible *)
Definition blocks_after_ensure (i : Z) : Z := i / block_size + 1.
Definition blocks_after_snapshot (n : Z) : Z := (n + block_size - 1) / block_size.
Definition close_blocks (index : Z) : Z :=
  if close_ensures_marker_slot =? 1 then blocks_after_ensure index else blocks_after_snapshot (Z.max index 1).
Definition slot_accessible (blocks i : Z) : Prop := 0 <= i / block_size < blocks.

Lemma gen_close_ensures : close_ensures_marker_slot = 1.  Proof. reflexivity. Qed.
Lemma gen_close_index : close_marker_index_is_next_event = 1.  Proof. reflexivity. Qed.

Theorem close_marker_slot_accessible : forall published, 0 <= published ->
  slot_accessible (close_blocks published) published.
Proof.
  intros n Hn. unfold slot_accessible, close_blocks. rewrite gen_close_ensures. cbn [Z.eqb Pos.eqb].
  unfold blocks_after_ensure, block_size. split; [apply Z.div_pos; lia | lia].
Qed.

(* the accessor publish_n / consume use would not do: at every multiple of the block size the marker slot is outside *)
Example snapshot_accessor_misses_block_boundary : forall k, 1 <= k ->
  ~ slot_accessible (blocks_after_snapshot (Z.max (block_size * k) 1)) (block_size * k).
Proof.
  intros k Hk [_ H]. unfold blocks_after_snapshot, block_size in *. rewrite Z.max_l in H by lia.
  replace (128 * k + 128 - 1) with (127 + k * 128) in H by lia.
  rewrite Z.div_add in H by lia. replace (128 * k) with (k * 128) in H by lia. rewrite Z.div_mul in H by lia.
  change (127 / 128) with 0 in H. lia.
Qed.
