(* IdAllocator special members: move construction / move assignment at the level of the abstract allocator state.
   The regenerated counts say whether id_allocator.h declares both `= default` (member-wise move: head word, _next_value
   and the link table all carried over) and whether id_allocator.hpp defines a special member by hand.  A hand-written
   one is not interpreted: the model then takes the worst case the property cares about - the free list (head word) is
   not carried over, the new object starts with an empty stack at version 0 while nv and the link table are kept. *)
From Coq Require Import ZArith List Bool.
Require Import Verif.Gen.Gen_id_allocator Verif.ID.IDModel.
Import ListNotations.
Open Scope Z_scope.

Definition move_defaulted : bool :=
  (move_ctor_defaulted_count =? 1) && (move_assign_defaulted_count =? 1) && (move_user_defined_count =? 0).

Definition move_shared (c : cfg) (s : shared) : shared :=
  if move_defaulted then s else set_head s (tail c) 0 [].

Lemma gen_move_defaulted : move_defaulted = true.  Proof. reflexivity. Qed.

Lemma move_shared_id : forall c s, move_shared c s = s.
Proof. intros c s. unfold move_shared. rewrite gen_move_defaulted. reflexivity. Qed.

(* what a reader of the property wants: head value, head version, free list, minted count, links all survive the move *)
Lemma move_keeps_free_list : forall c s,
  hv (move_shared c s) = hv s /\ hk (move_shared c s) = hk s /\ fl (move_shared c s) = fl s /\
  nv (move_shared c s) = nv s /\ nxt (move_shared c s) = nxt s.
Proof. intros c s. rewrite move_shared_id. repeat split. Qed.
