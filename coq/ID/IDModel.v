(* Executable interleaving model of babylon::IdAllocator<T> (src/babylon/concurrent/id_allocator.hpp) and
   babylon::DepositBox<T> (src/babylon/concurrent/deposit_box.h).  One step = one atomic operation of the
   C++ code plus the local computation up to the next one.  No proofs here.

   Shared state : free-list head (value hv, version hk), the link array _free_next_value (nxt),
                  _next_value (nv), the deposit slots' version words (sver), the ids handed out by
                  emplace in order of return (ids: how client threads pass ids to each other).
   Ghost state  : fl (the values on the free list, top first), boxed (ids emplaced and not yet taken),
                  wins (ids for which a take succeeded), miss (a take of an issued id failed although
                  nobody had taken it).
   cfg          : tail = FREE_LIST_TAIL (numeric_limits<T>::max()); vmod = 2^(bits of T) is the modulus of
                  the version arithmetic, vmod = 0 stands for unbounded versions.
   Values (indices into nxt/sver) are unbounded Z: _next_value wrapping is not modelled; theorems carry the
   hypothesis nv <= ACTIVE_FLAG (fewer than 65534 / 2^32-2 values ever minted - the documented limit).
   A thread id (ThreadId) is the program [OAlloc; OFree 0]: allocate in the thread_local's constructor on
   first use, deallocate in its destructor at thread exit. *)
From Coq Require Import ZArith List Bool.
Require Import Verif.Gen.Gen_id_allocator.
Import ListNotations.
Local Open Scope Z_scope.

Record cfg := { tail : Z; vmod : Z }.
Definition wrapk (c : cfg) (k : Z) : Z := if vmod c =? 0 then k else k mod vmod c.

Definition id := (Z * Z)%type.          (* VersionedValue: (value, version) *)

Inductive op :=
| OAlloc               (* allocator.allocate(), the thread keeps the id *)
| OFree (i : nat)      (* allocator.deallocate(i-th id kept by this thread, newest = 0) *)
| OEmplace             (* box.emplace(item): the returned id is appended to the shared list ids *)
| OTake (k : nat)      (* box.take_released(k-th id of the shared list) *)
| OFinish              (* box.finish_released(oldest id this thread took and has not finished) *)
(* the RAII layer: every thread has Accessor objects ("holders", default-constructed empty), numbered 0,1,2,... *)
| OAcTake (h k : nat)  (* holder[h] = box.take(k-th id of the shared list)   (move assignment from the temporary,
                          then the temporary's destructor) *)
| OAcMove (h g : nat)  (* holder[h] = std::move(holder[g])                    (move assignment) *)
| OAcCtor (h g : nat)  (* construct holder[h] (destroyed / empty before) from std::move(holder[g])  (move constructor) *)
| OAcDrop (h : nat).   (* destroy holder[h]; construct it again empty *)

Inductive res := RId (v k : Z) | RFree | REmp (v k : Z) | RTake (ok : bool) | RFin | RSkip | RAcc.

(* an Accessor: (_object <> nullptr, _id); _box is always the one box of the model *)
Definition acc := (bool * id)%type.
Definition empty_acc : acc := (false, (0, 0)).

Inductive pc :=
| Idle
| ALoadNext (cv ck : Z)      (* allocate: head loaded = (cv,ck), cv <> TAIL; next: load _free_next_value[cv] *)
| ACas (cv ck nx : Z)        (* next: CAS head (cv,ck) -> (nx,ck) *)
| AMark (cv ck : Z)          (* CAS won; next: _free_next_value[cv] := ACTIVE_FLAG; return (cv,ck) *)
| AMint                      (* head value was TAIL; next: fetch_add on _next_value *)
| AMintMark (v : Z)          (* next: _free_next_value.ensure(v) := ACTIVE_FLAG; return (v,0) *)
| FStore (v cv ck : Z)       (* deallocate(v): head loaded = (cv,ck); next: _free_next_value[v] := cv *)
| FCas (v cv ck : Z)         (* next: CAS head (cv,ck) -> (v,ck+1) *)
| ESlot (v k : Z)            (* emplace: allocated (v,k); next: slot[v].version := k; construct; return *)
| DLoad (v : Z).             (* ~Accessor of the temporary of holder = take(id): finish_released; next: head load *)

(* prog: the operations still to run (head = current); results: newest first *)
Record thread := { prog : list op; tpc : pc; held : list id; taken : list id; accs : list acc; results : list res;
  fbase : Z (* deallocate: the version of the FIRST head it loaded (used only if the bump is hoisted out of the loop) *) }.

Record shared := {
  hv : Z; hk : Z; nxt : list Z; nv : Z; sver : list Z; ids : list id;
  fl : list Z; boxed : list id; wins : list id; miss : bool;
  nfin : Z (* ghost: number of finish_released calls made so far *) }.

Record st := { sh : shared; threads : list thread }.

Definition getz (l : list Z) (i : Z) : Z := nth (Z.to_nat i) l 0.
Fixpoint set_ext (n : nat) (x : Z) (l : list Z) : list Z :=
  match n, l with
  | O, [] => [x]
  | O, _ :: r => x :: r
  | S n', [] => 0 :: set_ext n' x []
  | S n', y :: r => y :: set_ext n' x r
  end.
Definition setz (l : list Z) (i x : Z) : list Z := set_ext (Z.to_nat i) x l.

Fixpoint set_nth {A} (n : nat) (x : A) (l : list A) : list A :=
  match l, n with
  | [], _ => []
  | _ :: r, O => x :: r
  | y :: r, S n' => y :: set_nth n' x r
  end.
Fixpoint remove_nth {A} (n : nat) (l : list A) : list A :=
  match l, n with
  | [], _ => []
  | _ :: r, O => r
  | y :: r, S n' => y :: remove_nth n' r
  end.
(* drop the first id whose value is v *)
Fixpoint remove_v (v : Z) (l : list id) : list id :=
  match l with
  | [] => []
  | x :: r => if fst x =? v then r else x :: remove_v v r
  end.
Definition id_eqb (a b : id) : bool := (fst a =? fst b) && (snd a =? snd b).
Definition mem_id (a : id) (l : list id) : bool := existsb (id_eqb a) l.

Definition mk_thread (p : list op) : thread :=
  {| prog := p; tpc := Idle; held := []; taken := []; accs := []; results := []; fbase := 0 |}.
Definition init_shared (c : cfg) : shared :=
  {| hv := tail c; hk := 0; nxt := []; nv := 0; sver := []; ids := []; fl := []; boxed := []; wins := []; miss := false; nfin := 0 |}.
Definition init (c : cfg) (progs : list (list op)) : st := {| sh := init_shared c; threads := map mk_thread progs |}.

Definition goto (th : thread) (p : pc) : thread :=
  {| prog := prog th; tpc := p; held := held th; taken := taken th; accs := accs th; results := results th; fbase := fbase th |}.
(* the current operation returns r *)
Definition ret (th : thread) (h t : list id) (r : res) : thread :=
  {| prog := tl (prog th); tpc := Idle; held := h; taken := t; accs := accs th; results := r :: results th; fbase := fbase th |}.
(* same operation goes on at pc p with these kept / taken lists *)
Definition cont (th : thread) (p : pc) (h t : list id) : thread :=
  {| prog := prog th; tpc := p; held := h; taken := t; accs := accs th; results := results th; fbase := fbase th |}.
(* deallocate() loaded the head for the first time: its version is k *)
Definition with_base (th : thread) (k : Z) : thread :=
  {| prog := prog th; tpc := tpc th; held := held th; taken := taken th; accs := accs th; results := results th;
     fbase := k |}.
Definition set_accs (th : thread) (a : list acc) : thread :=
  {| prog := prog th; tpc := tpc th; held := held th; taken := taken th; accs := a; results := results th; fbase := fbase th |}.
Definition push_res (th : thread) (r : res) : thread :=
  {| prog := prog th; tpc := tpc th; held := held th; taken := taken th; accs := accs th; results := r :: results th; fbase := fbase th |}.
(* the current operation is over, its result was recorded before *)
Definition pop_op (th : thread) : thread :=
  {| prog := tl (prog th); tpc := Idle; held := held th; taken := taken th; accs := accs th; results := results th; fbase := fbase th |}.

Definition set_head (s : shared) (v k : Z) (f : list Z) : shared :=
  {| hv := v; hk := k; nxt := nxt s; nv := nv s; sver := sver s; ids := ids s; fl := f; boxed := boxed s;
     wins := wins s; miss := miss s; nfin := nfin s |}.
Definition set_nxt (s : shared) (i x : Z) : shared :=
  {| hv := hv s; hk := hk s; nxt := setz (nxt s) i x; nv := nv s; sver := sver s; ids := ids s; fl := fl s;
     boxed := boxed s; wins := wins s; miss := miss s; nfin := nfin s |}.
Definition set_nv (s : shared) (n : Z) : shared :=
  {| hv := hv s; hk := hk s; nxt := nxt s; nv := n; sver := sver s; ids := ids s; fl := fl s; boxed := boxed s;
     wins := wins s; miss := miss s; nfin := nfin s |}.
Definition set_box (s : shared) (sv : list Z) (i b w : list id) (m : bool) : shared :=
  {| hv := hv s; hk := hk s; nxt := nxt s; nv := nv s; sver := sv; ids := i; fl := fl s; boxed := b; wins := w;
     miss := m; nfin := nfin s |}.
Definition inc_fin (s : shared) : shared :=
  {| hv := hv s; hk := hk s; nxt := nxt s; nv := nv s; sver := sver s; ids := ids s; fl := fl s; boxed := boxed s;
     wins := wins s; miss := miss s; nfin := nfin s + 1 |}.

(* ---- the Accessor's special members, interpreted from the regenerated source expressions.
   Members are named by codes: this->_box 1, this->_object 2, this->_id 3, other._box 4, other._object 5, other._id 6. *)
Definition get_acc (l : list acc) (h : nat) : acc := nth h l empty_acc.
Fixpoint set_acc (h : nat) (x : acc) (l : list acc) : list acc :=
  match h, l with
  | O, [] => [x]
  | O, _ :: r => x :: r
  | S h', [] => empty_acc :: set_acc h' x []
  | S h', y :: r => y :: set_acc h' x r
  end.
(* std::swap(a, b) on the pair (this, other) *)
Definition swap_members (a b : Z) (p : acc * acc) : acc * acc :=
  let '((t_o, t_i), (o_o, o_i)) := p in
  if ((a =? 2) && (b =? 5)) || ((a =? 5) && (b =? 2)) then ((o_o, t_i), (t_o, o_i))
  else if ((a =? 3) && (b =? 6)) || ((a =? 6) && (b =? 3)) then ((t_o, o_i), (o_o, t_i))
  else p.
(* operator=(Accessor&& other): the three swaps of the source, in source order *)
Definition acc_assign (p : acc * acc) : acc * acc :=
  swap_members (acc_swap2_lhs 1 2 3 4 5 6) (acc_swap2_rhs 1 2 3 4 5 6)
    (swap_members (acc_swap1_lhs 1 2 3 4 5 6) (acc_swap1_rhs 1 2 3 4 5 6)
       (swap_members (acc_swap0_lhs 1 2 3 4 5 6) (acc_swap0_rhs 1 2 3 4 5 6) p)).
(* Accessor(Accessor&& other) : Accessor {other._box, std::exchange(other._object, nullptr), other._id}
   -> (the new accessor, other afterwards) *)
Definition acc_ctor (o : acc) : acc * acc :=
  let '(o_o, o_i) := o in
  let src := acc_ctor_exchange_obj 1 2 3 4 5 6 in
  let new_o := if src =? 5 then o_o else false in
  let other_o := if src =? 5 then negb (acc_ctor_exchange_new 1 2 3 4 5 6 =? 0) && o_o else o_o in
  let new_i := if acc_ctor_id 1 2 3 4 5 6 =? 6 then o_i else (0, 0) in
  ((new_o, new_i), (other_o, o_i)).
(* ~Accessor: does it call finish_released? *)
Definition acc_dtor_fires (a : acc) : bool := acc_dtor_cond (if fst a then 1 else 0).

(* allocate(): the loop test after a head load / a failed CAS *)
Definition enter_alloc (c : cfg) (th : thread) (cv ck : Z) : thread :=
  if alloc_nonempty cv (tail c) then goto th (ALoadNext cv ck) else goto th AMint.
(* allocate() returns (v,k): OAlloc keeps the id; emplace goes on to the slot *)
Definition finish_alloc (th : thread) (v k : Z) : thread :=
  match prog th with
  | OEmplace :: _ => goto th (ESlot v k)
  | _ => ret th ((v, k) :: held th) (taken th) (RId v k)
  end.
(* values whose slot an armed accessor of the thread holds *)
Definition acc_values (l : list acc) : list Z := map (fun a => fst (snd a)) (filter fst l).
(* the move construction of OAcCtor h g *)
Definition do_ctor (th : thread) (h g : nat) : thread :=
  let '(n, o') := acc_ctor (get_acc (accs th) g) in
  ret (set_accs th (set_acc g o' (set_acc h n (accs th)))) (held th) (taken th) RAcc.
(* deallocate() returned *)
Definition finish_free (th : thread) : thread :=
  match prog th with
  | OFinish :: _ => ret th (held th) (taken th) RFin
  | OAcTake _ _ :: _ => pop_op th
  | OAcDrop _ :: _ => ret th (held th) (taken th) RAcc
  | _ => ret th (held th) (taken th) RFree
  end.
(* the value passed to deallocate by ~Accessor *)
Definition dtor_value (a : acc) : Z := finish_value (acc_dtor_arg (fst (snd a))).

Definition tstep (c : cfg) (s : shared) (th : thread) : option (shared * thread) :=
  match tpc th with
  | Idle =>
    match prog th with
    | [] => None
    | OAlloc :: _ | OEmplace :: _ => Some (s, enter_alloc c th (hv s) (hk s))         (* load head (acquire) *)
    | OFree i :: _ =>
      match nth_error (held th) i with
      | None => Some (s, ret th (held th) (taken th) RSkip)
      | Some (v, _) =>                                                              (* load head (acquire) *)
        Some (s, with_base (cont th (FStore v (hv s) (hk s)) (remove_nth i (held th)) (taken th)) (hk s))
      end
    | OFinish :: _ =>
      match taken th with
      | [] => Some (s, ret th (held th) (taken th) RSkip)
      | (v, _) :: r =>                                                              (* deallocate(id.value) *)
        Some (inc_fin s, with_base (cont th (FStore (finish_value v) (hv s) (hk s)) (held th) r) (hk s))
      end
    | OTake k :: _ =>
      match nth_error (ids s) k with
      | None => Some (s, ret th (held th) (taken th) RSkip)
      | Some (v, kk) =>                                  (* slot.version.compare_exchange_strong(k, k+1) *)
        if getz (sver s) (take_slot_index v) =? take_expected kk then
          Some (set_box s (setz (sver s) (take_slot_index v) (wrapk c (take_desired kk))) (ids s)
                        (remove_v v (boxed s)) ((v, kk) :: wins s) (miss s),
                ret th (held th) (taken th ++ [(v, kk)]) (RTake true))
        else
          Some (set_box s (sver s) (ids s) (boxed s) (wins s) (miss s || negb (mem_id (v, kk) (wins s))),
                ret th (held th) (taken th) (RTake false))
      end
        | OAcTake h k :: _ =>
      match nth_error (ids s) k with
      | None => Some (s, ret th (held th) (taken th) RSkip)
      | Some (v, kk) =>                                  (* take(): the same CAS; then the move assignment *)
        if getz (sver s) (take_slot_index v) =? take_expected kk then
          let s1 := set_box s (setz (sver s) (take_slot_index v) (wrapk c (take_desired kk))) (ids s)
                            (remove_v v (boxed s)) ((v, kk) :: wins s) (miss s) in
          let '(hnew, tmp) := acc_assign (get_acc (accs th) h, (true, (v, kk))) in
          let th1 := push_res (set_accs th (set_acc h hnew (accs th))) (RTake true) in
          if acc_dtor_fires tmp then Some (inc_fin s1, goto th1 (DLoad (dtor_value tmp))) else Some (s1, pop_op th1)
        else
          let s1 := set_box s (sver s) (ids s) (boxed s) (wins s) (miss s || negb (mem_id (v, kk) (wins s))) in
          let '(hnew, tmp) := acc_assign (get_acc (accs th) h, (false, (v, kk))) in
          let th1 := push_res (set_accs th (set_acc h hnew (accs th))) (RTake false) in
          if acc_dtor_fires tmp then Some (inc_fin s1, goto th1 (DLoad (dtor_value tmp))) else Some (s1, pop_op th1)
      end
    | OAcMove h g :: _ =>                                (* no atomic operation: one local step *)
      if Nat.eqb h g then Some (s, ret th (held th) (taken th) RAcc)
      else
        let '(a, b) := acc_assign (get_acc (accs th) h, get_acc (accs th) g) in
        Some (s, ret (set_accs th (set_acc g b (set_acc h a (accs th)))) (held th) (taken th) RAcc)
    | OAcCtor h g :: _ =>
      (* holder h must have been destroyed before (OAcDrop h): constructing over a live armed object is not done *)
      if Nat.eqb h g || fst (get_acc (accs th) h) then Some (s, ret th (held th) (taken th) RSkip)
      else Some (s, do_ctor th h g)                      (* no atomic operation: one local step *)
    | OAcDrop h :: _ =>
      let old := get_acc (accs th) h in
      if acc_dtor_fires old then
        Some (inc_fin s, with_base (cont (set_accs th (set_acc h empty_acc (accs th)))
                                         (FStore (dtor_value old) (hv s) (hk s)) (held th) (taken th)) (hk s))
      else Some (s, ret th (held th) (taken th) RAcc)
    end
  | DLoad v => Some (s, with_base (goto th (FStore v (hv s) (hk s))) (hk s))    (* deallocate: load head (acquire) *)
  | ALoadNext cv ck =>                                   (* _free_next_value[cv].load(relaxed) *)
    Some (s, goto th (ACas cv ck (getz (nxt s) (pop_link_index cv))))
  | ACas cv ck nx =>                                     (* free_head().compare_exchange_weak(cur, new) *)
    if (hv s =? cv) && (hk s =? ck) then
      Some (set_head s nx (wrapk c (pop_new_version ck)) (tl (fl s)), goto th (AMark cv ck))
    else Some (s, enter_alloc c th (hv s) (hk s))
  | AMark cv ck =>                                       (* _free_next_value[cv].store(ACTIVE_FLAG) *)
    Some (set_nxt s (pop_mark_index cv) (ACTIVE_FLAG (tail c)), finish_alloc th cv ck)
  | AMint =>                                             (* next_value().fetch_add(1) *)
    Some (set_nv s (nv s + mint_increment), goto th (AMintMark (nv s)))
  | AMintMark v =>                                       (* _free_next_value.ensure(v).store(ACTIVE_FLAG) *)
    Some (set_nxt s v (ACTIVE_FLAG (tail c)), finish_alloc th v 0)
  | FStore v cv ck =>                                    (* _free_next_value[v].store(cur.value) *)
    Some (set_nxt s (push_link_index v) (push_link_value cv), goto th (FCas v cv ck))
  | FCas v cv ck =>                                      (* free_head().compare_exchange_weak(cur, id) *)
    if (hv s =? cv) && (hk s =? ck) then
      (* id.version = <head>.version + 1: from the head compared in THIS iteration if the assignment sits inside the
         retry loop (push_bump_in_loop = 1), from the first head loaded if it was hoisted out of it *)
      Some (set_head s v (wrapk c (push_new_version (if push_bump_in_loop =? 1 then ck else fbase th))) (v :: fl s),
            finish_free th)
    else Some (s, goto th (FStore v (hv s) (hk s)))
  | ESlot v k =>                                         (* slot.version.store(id.version); object.emplace *)
    Some (set_box s (setz (sver s) (emplace_slot_index v) (emplace_version k)) (ids s ++ [(v, k)])
                  ((v, k) :: boxed s) (wins s) (miss s),
          ret th (held th) (taken th) (REmp v k))
  end.

Definition step (c : cfg) (s : st) (t : nat) : option st :=
  match nth_error (threads s) t with
  | None => None
  | Some th =>
    match tstep c (sh s) th with
    | None => None
    | Some (s', th') => Some {| sh := s'; threads := set_nth t th' (threads s) |}
    end
  end.

Definition thread_done (th : thread) : bool :=
  match tpc th, prog th with Idle, [] => true | _, _ => false end.
Definition all_done (s : st) : bool := forallb thread_done (threads s).
Definition thread_idle (th : thread) : bool := match tpc th with Idle => true | _ => false end.
Definition quiescent (s : st) : bool := forallb thread_idle (threads s).

(* for_each at quiescence: the scan covers [0, bound) where bound = min(<capacity operand>, _next_value) exactly as the
   source computes it (capacity = snapshot.size() of _free_next_value = whole blocks of FREE_BLOCK cells, grown by ensure;
   a static_cast<T> in the operand is a reduction mod tail + 1 = 2^bits), and reports the cells holding ACTIVE_FLAG.
   (The C++ reports them as maximal half-open ranges; the range grouping is checked on the implementation by the harness
   monitor, not modelled.) *)
Definition zseq (n : Z) : list Z := map Z.of_nat (seq 0 (Z.to_nat n)).
Definition capacity (s : shared) : Z := FREE_BLOCK * ((Z.of_nat (length (nxt s)) + FREE_BLOCK - 1) / FREE_BLOCK).
Definition foreach_bound (c : cfg) (s : shared) : Z := Z.min (foreach_cap_operand (capacity s) (tail c)) (nv s).
Definition live (c : cfg) (s : shared) : list Z :=
  filter (fun v => getz (nxt s) v =? ACTIVE_FLAG (tail c)) (zseq (foreach_bound c s)).

(* every value some client currently holds (kept by a thread, taken and not finished - raw or through an armed
   Accessor -, or sitting in the box) *)
Definition held_values (s : st) : list Z :=
  flat_map (fun th => map fst (held th) ++ map fst (taken th) ++ acc_values (accs th)) (threads s) ++
  map fst (boxed (sh s)).

(* observable outcome of a finished execution, as the implementation driver prints it *)
Definition outcome (c : cfg) (s : st) : list (list res) * list Z * Z :=
  (map (fun th => rev (results th)) (threads s), live c (sh s), nv (sh s)).
