(* DEFINITIONS ONLY (always compiles, also when the source orders were weakened).
   Publication obligations of IdAllocator / DepositBox on the release/acquire view machine (coq/WM/RA.v), with the
   memory orders regenerated from id_allocator.hpp / deposit_box.h (Gen_id_allocator site tables).

   IdAllocator.  location 0 = free-list head (0 = empty, 1 / 2 = value 1 / 2 on top), location 1 / 2 = the link cell
   _free_next_value[1] / [2] (an atomic accessed relaxed), location 3 = the resource the value stands for (plain data:
   the thread-local slot / the deposit item).
     link      deallocate stores the link (relaxed) and then publishes the value with its CAS on the head; an allocate
               that sees the value on top - through its first head load or through the reload done by a failed CAS -
               and then loads the link (relaxed) must read the link that was stored, not an older content of the
               cell (7 stands for "the link stored by this push").
     chain     the same through a second push on top and a pop in between (release sequence through the RMWs).
     handover  whatever the previous owner did to the resource before deallocate happens-before whatever the next owner
               does after allocate returned the value: no data race on the resource across a reuse.
   DepositBox.  location 0 = slot.version, 1 = the item (plain), 2 = the channel through which the CLIENT passes the id
   from the thread that called emplace to the takers.  emplace stores the version (relaxed) and then constructs the item;
   take is a relaxed CAS: the box itself orders nothing, the item is published by the client's channel - safe exactly
   when that channel is release/acquire, and then exactly one of two takers gets the item, race-free. *)
From Coq Require Import ZArith List Bool.
Require Import Verif.Base.Atomics Verif.Gen.Gen_id_allocator.
Require Import Verif.WM.RA Verif.WM.RALitmus.
Import ListNotations.
Local Open Scope Z_scope.

Definition site_o1 (tbl : list (akind * morder * morder)) (n : nat) : morder :=
  match nth_error tbl n with Some (_, o, _) => o | None => Relaxed end.
Definition site_o2 (tbl : list (akind * morder * morder)) (n : nat) : morder :=
  match nth_error tbl n with Some (_, _, o) => o | None => Relaxed end.

(* orders as found in the source *)
Definition o_alloc_head_load : morder := site_o1 sites_allocate 0.     (* free_head().load *)
Definition o_alloc_link_load : morder := site_o1 sites_allocate 1.     (* _free_next_value[..].load *)
Definition o_alloc_cas_fail : morder := site_o2 sites_allocate 2.      (* pop CAS: order of the reload on failure *)
Definition o_alloc_cas : morder := site_o1 sites_allocate 2.
Definition o_free_link_store : morder := site_o1 sites_deallocate 1.   (* _free_next_value[..].store *)
Definition o_free_cas : morder := site_o1 sites_deallocate 2.          (* push CAS, success *)
Definition o_emplace_version : morder := site_o1 sites_emplace 0.
Definition o_take_cas : morder := site_o1 sites_take_released 0.

(* ---- link ---- *)
Definition id_link_prog (o_lst o_push o_head o_lld : morder) : list (list instr) :=
  [ [ISt 1 7 o_lst; ICas 0 0 0 1 o_push];
    [ILd 0 0 o_head; IJmpIfNot 0 1 1; ILd 1 1 o_lld] ].
(* the consumer learns the head through a CAS that fails (expected value 9 is never there) *)
Definition id_link_casfail_prog (o_lst o_push o_cas o_lld : morder) : list (list instr) :=
  [ [ISt 1 7 o_lst; ICas 0 0 0 1 o_push];
    [ICas 0 0 9 9 o_cas; IJmpIfNot 0 1 1; ILd 1 1 o_lld] ].
Definition id_link_bad : outcome -> bool := saw_bad 1 1 7.
Definition id_link_safe (o_lst o_push o_head o_lld : morder) : bool :=
  forallb (fun o => negb (id_link_bad o)) (outcomes (id_link_prog o_lst o_push o_head o_lld)).
Definition id_link_casfail_safe (o_lst o_push o_cas o_lld : morder) : bool :=
  forallb (fun o => negb (id_link_bad o)) (outcomes (id_link_casfail_prog o_lst o_push o_cas o_lld)).

(* ---- chain: value 1 pushed, value 2 pushed on top, the consumer pops 2 and then reads the link of 1 ---- *)
Definition id_chain_prog (o_lst o_push o_head o_lld o_pop : morder) : list (list instr) :=
  [ [ISt 1 7 o_lst; ICas 0 0 0 1 o_push];
    [ISt 2 1 o_lst; ICas 0 0 1 2 o_push];
    [ILd 0 0 o_head; IJmpIfNot 0 2 3; ILd 2 2 o_lld; ICas 3 0 2 1 o_pop; ILd 1 1 o_lld] ].
Definition id_chain_bad : outcome -> bool := saw_bad 2 2 7.
Definition id_chain_safe (o_lst o_push o_head o_lld o_pop : morder) : bool :=
  forallb (fun o => negb (id_chain_bad o)) (outcomes (id_chain_prog o_lst o_push o_head o_lld o_pop)).

(* ---- handover of the resource from the old owner to the next one ---- *)
Definition id_handover_prog (o_lst o_push o_head : morder) : list (list instr) :=
  [ [IWna 3 5; ISt 1 7 o_lst; ICas 0 0 0 1 o_push];
    [ILd 0 0 o_head; IJmpIfNot 0 1 1; IWna 3 42] ].
Definition id_handover_casfail_prog (o_lst o_push o_cas : morder) : list (list instr) :=
  [ [IWna 3 5; ISt 1 7 o_lst; ICas 0 0 0 1 o_push];
    [ICas 0 0 9 9 o_cas; IJmpIfNot 0 1 1; IWna 3 42] ].
Definition id_handover_bad (o : outcome) : bool := Z.eqb (oreg o 1 0) 1 && oracy o.
Definition id_handover_safe (o_lst o_push o_head : morder) : bool :=
  forallb (fun o => negb (id_handover_bad o)) (outcomes (id_handover_prog o_lst o_push o_head)).
Definition id_handover_casfail_safe (o_lst o_push o_cas : morder) : bool :=
  forallb (fun o => negb (id_handover_bad o)) (outcomes (id_handover_casfail_prog o_lst o_push o_cas)).

(* ---- deposit box: emplace, client channel, two takers ---- *)
Definition box_taker (o_take o_cld : morder) : list instr :=
  [ILd 0 2 o_cld; IJmpIfNot 0 1 3; ICas 2 0 1 2 o_take; IJmpIfNot 2 1 1; IRna 1 1].
Definition box_take_prog (o_ver o_take o_cst o_cld : morder) : list (list instr) :=
  [ [ISt 0 1 o_ver; IWna 1 42; ISt 2 1 o_cst]; box_taker o_take o_cld; box_taker o_take o_cld ].
(* taker t got the id (r0 = 1); won (r2 = 1: its CAS found version 1) *)
Definition box_got (o : outcome) (t : nat) : bool := Z.eqb (oreg o t 0) 1.
Definition box_won (o : outcome) (t : nat) : bool := box_got o t && Z.eqb (oreg o t 2) 1.
Definition box_take_bad (o : outcome) : bool :=
  oracy o
  || (box_won o 1 && box_won o 2)                                            (* two winners *)
  || ((box_got o 1 || box_got o 2) && negb (box_won o 1) && negb (box_won o 2))   (* takers, no winner *)
  || (box_won o 1 && negb (Z.eqb (oreg o 1 1) 42)) || (box_won o 2 && negb (Z.eqb (oreg o 2 1) 42)).
Definition box_take_safe (o_ver o_take o_cst o_cld : morder) : bool :=
  forallb (fun o => negb (box_take_bad o)) (outcomes (box_take_prog o_ver o_take o_cst o_cld)).

(* ---- instantiated with the orders of the source ---- *)
Definition id_link_src := id_link_prog o_free_link_store o_free_cas o_alloc_head_load o_alloc_link_load.
Definition id_link_src_safe := id_link_safe o_free_link_store o_free_cas o_alloc_head_load o_alloc_link_load.
Definition id_link_casfail_src := id_link_casfail_prog o_free_link_store o_free_cas o_alloc_cas_fail o_alloc_link_load.
Definition id_link_casfail_src_safe := id_link_casfail_safe o_free_link_store o_free_cas o_alloc_cas_fail o_alloc_link_load.
Definition id_chain_src := id_chain_prog o_free_link_store o_free_cas o_alloc_head_load o_alloc_link_load o_alloc_cas.
Definition id_chain_src_safe := id_chain_safe o_free_link_store o_free_cas o_alloc_head_load o_alloc_link_load o_alloc_cas.
Definition id_handover_src := id_handover_prog o_free_link_store o_free_cas o_alloc_head_load.
Definition id_handover_src_safe := id_handover_safe o_free_link_store o_free_cas o_alloc_head_load.
Definition id_handover_casfail_src := id_handover_casfail_prog o_free_link_store o_free_cas o_alloc_cas_fail.
Definition id_handover_casfail_src_safe := id_handover_casfail_safe o_free_link_store o_free_cas o_alloc_cas_fail.
Definition box_take_src := box_take_prog o_emplace_version o_take_cas Release Acquire.
Definition box_take_src_safe := box_take_safe o_emplace_version o_take_cas Release Acquire.

(* ---- grouped for the check's search: the first skeleton of a group that is not safe ---- *)
Definition id_link_group_safe : bool := id_link_src_safe && id_link_casfail_src_safe && id_chain_src_safe.
Definition id_link_group_prog : list (list instr) :=
  if negb id_link_src_safe then id_link_src else if negb id_link_casfail_src_safe then id_link_casfail_src else id_chain_src.
Definition id_link_group_bad : outcome -> bool :=
  if negb id_link_src_safe then id_link_bad else if negb id_link_casfail_src_safe then id_link_bad else id_chain_bad.
Definition id_handover_group_safe : bool := id_handover_src_safe && id_handover_casfail_src_safe.
Definition id_handover_group_prog : list (list instr) :=
  if negb id_handover_src_safe then id_handover_src else id_handover_casfail_src.
