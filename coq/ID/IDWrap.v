(* The WRAPPED model (vmod c > 0: 16-bit head version of IdAllocator<uint16_t>, 32-bit versions of the deposit
   box) simulated by the unbounded one.  The execution of the unbounded model under the same schedule is the
   ghost instrumentation: its head version hk counts the pushes (successful deallocate CASes) so far, the version ck
   a thread keeps in its pc is the count at its head load, so hk - ck = "pushes since my head load"; its slot
   versions and id versions are the unwrapped ones.  As long as, whenever a CAS on the head is pending, fewer than
   vmod pushes happened since the load it compares against, and whenever a take is about to run, the slot version is
   fewer than vmod ahead of the id's version, the wrapped execution is step for step the image of the unbounded one
   under `W` (every version reduced mod vmod) - so everything proved in IDProofs.v for unbounded versions holds for
   the real widths inside those windows.  The boundary (exactly vmod pushes in a window) is the refuted witness. *)
From Coq Require Import ZArith List Bool Lia Arith.
Require Import Verif.Gen.Gen_id_allocator Verif.Conc.Machine Verif.ID.IDModel Verif.ID.IDProofs.
Import ListNotations.
Local Open Scope Z_scope.

Definition unb (c : cfg) : cfg := {| tail := tail c; vmod := 0 |}.

Definition Wid (c : cfg) (i : id) : id := (fst i, wrapk c (snd i)).
Definition Wres (c : cfg) (r : res) : res :=
  match r with RId v k => RId v (wrapk c k) | REmp v k => REmp v (wrapk c k) | x => x end.
Definition Wpc (c : cfg) (p : pc) : pc :=
  match p with
  | ALoadNext cv ck => ALoadNext cv (wrapk c ck)
  | ACas cv ck nx => ACas cv (wrapk c ck) nx
  | AMark cv ck => AMark cv (wrapk c ck)
  | FStore v cv ck => FStore v cv (wrapk c ck)
  | FCas v cv ck => FCas v cv (wrapk c ck)
  | ESlot v k => ESlot v (wrapk c k)
  | x => x
  end.
Definition Wacc (c : cfg) (a : acc) : acc := (fst a, Wid c (snd a)).
Definition Wth (c : cfg) (th : thread) : thread :=
  {| prog := prog th; tpc := Wpc c (tpc th); held := map (Wid c) (held th); taken := map (Wid c) (taken th);
     accs := map (Wacc c) (accs th); results := map (Wres c) (results th); fbase := wrapk c (fbase th) |}.
Definition Wsh (c : cfg) (s : shared) : shared :=
  {| hv := hv s; hk := wrapk c (hk s); nxt := nxt s; nv := nv s; sver := map (wrapk c) (sver s);
     ids := map (Wid c) (ids s); fl := fl s; boxed := map (Wid c) (boxed s); wins := map (Wid c) (wins s);
     miss := miss s; nfin := nfin s |}.
Definition Wst (c : cfg) (s : st) : st := {| sh := Wsh c (sh s); threads := map (Wth c) (threads s) |}.

(* the windows, read off the unbounded (ghost) state *)
Definition win_thb (c : cfg) (s : shared) (th : thread) : bool :=
  match tpc th with
  | ACas _ ck _ | FCas _ _ ck => hk s - ck <? vmod c          (* pushes since the head load of this CAS *)
  | Idle =>
    match prog th with
    | OTake k :: _ | OAcTake _ k :: _ =>
      match nth_error (ids s) k with
      | Some (v, kk) => getz (sver s) v - kk <? vmod c         (* how far the slot version ran ahead of the id *)
      | None => true
      end
    | _ => true
    end
  | _ => true
  end.
Definition win_stb (c : cfg) (s : st) : bool := forallb (win_thb c (sh s)) (threads s).
(* every state the unbounded execution of `sch` from s passes through is inside the windows *)
Fixpoint windowedb (c : cfg) (s : st) (sch : list nat) : bool :=
  win_stb c s &&
  match sch with
  | [] => true
  | t :: r => windowedb c (step_or_stay st (step (unb c)) s t) r
  end.

(* --------------------------------------------------------------------------------------------- arithmetic *)
Section Wrap.
Variable c : cfg.
Hypothesis HM : 0 < vmod c.

Lemma wrapk_mod : forall k, wrapk c k = k mod vmod c.
Proof. intros. unfold wrapk. destruct (vmod c =? 0) eqn:E; auto. apply Z.eqb_eq in E. lia. Qed.
Lemma wrapk_0 : wrapk c 0 = 0.
Proof. rewrite wrapk_mod. apply Z.mod_0_l. lia. Qed.
Lemma wrapk_idem : forall k, wrapk c (wrapk c k) = wrapk c k.
Proof. intros. rewrite !wrapk_mod. apply Z.mod_mod. lia. Qed.
Lemma wrapk_succ : forall k, wrapk c (wrapk c k + 1) = wrapk c (k + 1).
Proof. intros. rewrite !wrapk_mod. apply Zplus_mod_idemp_l. Qed.
Lemma wrapk_inj : forall a b, 0 <= a - b < vmod c -> wrapk c a = wrapk c b -> a = b.
Proof.
  intros a b H E. rewrite !wrapk_mod in E.
  assert (D : (a - b) mod vmod c = 0). { rewrite Zminus_mod, E, Z.sub_diag. apply Z.mod_0_l. lia. }
  rewrite Z.mod_small in D by lia. lia.
Qed.
Lemma wrapk_unb : forall k, wrapk (unb c) k = k.
Proof. reflexivity. Qed.

Lemma getz_map : forall l i, getz (map (wrapk c) l) i = wrapk c (getz l i).
Proof.
  intros l i. unfold getz. generalize (Z.to_nat i). induction l; intros n; destruct n; simpl; auto using wrapk_0;
    now rewrite wrapk_0.
Qed.
Lemma set_ext_map : forall n x l, set_ext n (wrapk c x) (map (wrapk c) l) = map (wrapk c) (set_ext n x l).
Proof.
  induction n; intros x l; destruct l; simpl; auto.
  - rewrite wrapk_0. f_equal. apply (IHn x []).
  - f_equal. apply IHn.
Qed.
Lemma setz_map : forall l i x, setz (map (wrapk c) l) i (wrapk c x) = map (wrapk c) (setz l i x).
Proof. intros. unfold setz. apply set_ext_map. Qed.

Lemma nth_error_map' : forall A B (f : A -> B) l n, nth_error (map f l) n = option_map f (nth_error l n).
Proof. induction l; intros n; destruct n; simpl; auto. Qed.
Lemma remove_nth_map : forall A B (f : A -> B) l n, remove_nth n (map f l) = map f (remove_nth n l).
Proof. induction l; intros n; destruct n; simpl; auto. now rewrite IHl. Qed.
Lemma set_nth_map : forall A B (f : A -> B) l n x, set_nth n (f x) (map f l) = map f (set_nth n x l).
Proof. induction l; intros n x; destruct n; simpl; auto. now rewrite IHl. Qed.
Lemma remove_v_map : forall v l, remove_v v (map (Wid c) l) = map (Wid c) (remove_v v l).
Proof. induction l; simpl; auto. destruct (fst a =? v); simpl; auto. now rewrite IHl. Qed.
Lemma mem_id_map : forall i l, In i l -> mem_id (Wid c i) (map (Wid c) l) = true.
Proof. intros. apply mem_id_in. now apply in_map. Qed.

Lemma wrapk_0'' : wrapk c 0 = 0.
Proof. unfold wrapk. destruct (vmod c =? 0); reflexivity. Qed.
Lemma Wacc_empty : Wacc c empty_acc = empty_acc.
Proof. unfold Wacc, Wid, empty_acc. simpl. now rewrite wrapk_0''. Qed.
Lemma get_acc_map : forall l h, get_acc (map (Wacc c) l) h = Wacc c (get_acc l h).
Proof.
  induction l; intros h; destruct h; unfold get_acc in *; simpl; auto; unfold Wacc, Wid, empty_acc; simpl;
    now rewrite wrapk_0''.
Qed.
Lemma set_acc_map : forall h x l, set_acc h (Wacc c x) (map (Wacc c) l) = map (Wacc c) (set_acc h x l).
Proof.
  induction h; intros x l; destruct l; simpl; auto.
  - f_equal; [unfold Wacc, Wid, empty_acc; simpl; now rewrite wrapk_0''|]. apply (IHh x []).
  - f_equal. apply IHh.
Qed.
Lemma acc_values_map : forall l, acc_values (map (Wacc c) l) = acc_values l.
Proof. induction l as [|[b [v k]] l IH]; unfold acc_values in *; simpl; auto. destruct b; simpl; now rewrite IH. Qed.

Lemma enter_alloc_comm : forall th v k,
  enter_alloc c (Wth c th) v (wrapk c k) = Wth c (enter_alloc (unb c) th v k).
Proof. intros. unfold enter_alloc. simpl. destruct (alloc_nonempty v (tail c)); reflexivity. Qed.
Lemma finish_alloc_comm : forall th v k, finish_alloc (Wth c th) v (wrapk c k) = Wth c (finish_alloc th v k).
Proof. intros. unfold finish_alloc. simpl. destruct (prog th) as [|[] ?]; reflexivity. Qed.
Lemma finish_free_comm : forall th, finish_free (Wth c th) = Wth c (finish_free th).
Proof. intros. unfold finish_free. simpl. destruct (prog th) as [|[] ?]; reflexivity. Qed.
End Wrap.


(* ------------------------------------------------------------------------------------- one step commutes *)
Section Comm.
Variable c : cfg.
Hypothesis HM : 0 < vmod c.

Definition Wres_pair (r : option (shared * thread)) : option (shared * thread) :=
  match r with Some (s', th') => Some (Wsh c s', Wth c th') | None => None end.

Lemma tstep_comm : forall su ths t th, Good (unb c) su ths -> nth_error ths t = Some th ->
  win_thb c su th = true ->
  tstep c (Wsh c su) (Wth c th) = Wres_pair (tstep (unb c) su th).
Proof.
  intros su ths t th G Hn Hw. pose proof (g_thr _ _ _ G _ _ Hn) as (TA & TB & TP & TQ).
  unfold win_thb in Hw. unfold tstep. destruct th as [pg p hd tk ac rs fb]. simpl in *.
  destruct p; simpl in *.
  - (* Idle *)
    destruct pg as [|o r]; [reflexivity|]. destruct o; simpl.
    + rewrite (enter_alloc_comm c). reflexivity.
    + rewrite nth_error_map'. destruct (nth_error hd i) as [[v k]|]; simpl; [|reflexivity].
      unfold Wth. simpl. now rewrite remove_nth_map.
    + rewrite (enter_alloc_comm c). reflexivity.
    + rewrite nth_error_map'. destruct (nth_error (ids su) k) as [[v kk]|] eqn:Hk; simpl; [|reflexivity].
      pose proof (nth_error_In _ _ Hk) as Hin. unfold take_slot_index, take_expected, take_desired.
      rewrite (getz_map c HM).
      assert (Hrel : 0 <= getz (sver su) v - kk /\ (getz (sver su) v <> kk -> In (v, kk) (wins su))).
      { destruct (g_ids _ _ _ G _ Hin) as [W|B].
        - destruct (g_wins _ _ _ G _ _ W). split; [lia|auto].
        - destruct (g_boxed _ _ _ G _ _ B) as (E & _). split; [lia|]. intros; congruence. }
      destruct Hrel as [Hge Hwin]. apply Z.ltb_lt in Hw.
      destruct (getz (sver su) v =? kk) eqn:E.
      * apply Z.eqb_eq in E. rewrite E, Z.eqb_refl. simpl. unfold Wsh, Wth, set_box. simpl.
        rewrite (wrapk_succ c HM), (setz_map c HM), (remove_v_map c), map_app. reflexivity.
      * apply Z.eqb_neq in E.
        assert (E' : (wrapk c (getz (sver su) v) =? wrapk c kk) = false).
        { apply Z.eqb_neq. intro X. apply E. apply (wrapk_inj c HM); auto; lia. }
        rewrite E'. simpl. unfold Wsh, Wth, set_box. simpl.
        assert (MM : mem_id (v, wrapk c kk) (map (Wid c) (wins su)) = true) by (apply (mem_id_map c (v, kk)); auto).
        rewrite (mem_id_in _ _ (Hwin E)), MM. reflexivity.
    + destruct tk as [|[v k] r']; simpl; reflexivity.
    + (* OAcTake *)
      rewrite nth_error_map'. destruct (nth_error (ids su) k) as [[v kk]|] eqn:Hk; simpl; [|reflexivity].
      pose proof (nth_error_In _ _ Hk) as Hin. unfold take_slot_index, take_expected, take_desired.
      rewrite (getz_map c HM), (get_acc_map c), !acc_assign_swaps, !acc_dtor_fires_spec.
      assert (Hrel : 0 <= getz (sver su) v - kk /\ (getz (sver su) v <> kk -> In (v, kk) (wins su))).
      { destruct (g_ids _ _ _ G _ Hin) as [W|B].
        - destruct (g_wins _ _ _ G _ _ W). split; [lia|auto].
        - destruct (g_boxed _ _ _ G _ _ B) as (E & _). split; [lia|]. intros; congruence. }
      destruct Hrel as [Hge Hwin]. apply Z.ltb_lt in Hw.
      destruct (getz (sver su) v =? kk) eqn:E.
      * apply Z.eqb_eq in E. rewrite E, Z.eqb_refl. simpl.
        change (true, (v, wrapk c kk)) with (Wacc c (true, (v, kk))). rewrite (set_acc_map c).
        destruct (fst (get_acc ac h)); simpl; unfold Wsh, Wth, set_box, inc_fin; simpl;
          rewrite (wrapk_succ c HM), (setz_map c HM), (remove_v_map c); reflexivity.
      * apply Z.eqb_neq in E.
        assert (E' : (wrapk c (getz (sver su) v) =? wrapk c kk) = false).
        { apply Z.eqb_neq. intro X. apply E. apply (wrapk_inj c HM); auto; lia. }
        rewrite E'. simpl.
        change (false, (v, wrapk c kk)) with (Wacc c (false, (v, kk))). rewrite (set_acc_map c).
        assert (MM : mem_id (v, wrapk c kk) (map (Wid c) (wins su)) = true) by (apply (mem_id_map c (v, kk)); auto).
        destruct (fst (get_acc ac h)); simpl; unfold Wsh, Wth, set_box, inc_fin; simpl;
          rewrite (mem_id_in _ _ (Hwin E)), MM; reflexivity.
    + (* OAcMove *)
      destruct (Nat.eqb h g); [reflexivity|]. rewrite !(get_acc_map c), !acc_assign_swaps.
      unfold Wth. simpl. now rewrite !(set_acc_map c).
    + (* OAcCtor *)
      rewrite (get_acc_map c). simpl. destruct (Nat.eqb h g || fst (get_acc ac h)); [reflexivity|].
      unfold do_ctor. simpl. rewrite (get_acc_map c), !acc_ctor_spec. unfold Wth. simpl.
      rewrite (set_acc_map c).
      change (false, Wid c (snd (get_acc ac g))) with (Wacc c (false, snd (get_acc ac g))).
      rewrite (set_acc_map c). reflexivity.
    + (* OAcDrop *)
      rewrite (get_acc_map c), !acc_dtor_fires_spec. simpl. destruct (fst (get_acc ac h)); [|reflexivity].
      unfold Wth, Wsh, inc_fin. simpl.
      rewrite <- (Wacc_empty c) at 1. rewrite (set_acc_map c). reflexivity.
  - reflexivity.
  - (* ACas *)
    destruct TP as (P1 & P2 & P3). apply Z.ltb_lt in Hw.
    destruct (hv su =? cv) eqn:E1; simpl.
    + destruct (hk su =? ck) eqn:E2.
      * apply Z.eqb_eq in E2. rewrite E2, Z.eqb_refl. simpl. unfold pop_new_version.
        unfold Wsh, Wth, set_head. simpl. now rewrite (wrapk_idem c HM).
      * apply Z.eqb_neq in E2.
        assert (E' : (wrapk c (hk su) =? wrapk c ck) = false).
        { apply Z.eqb_neq. intro X. apply E2. apply (wrapk_inj c HM); auto; lia. }
        rewrite E'. simpl. now rewrite (enter_alloc_comm c).
    + now rewrite (enter_alloc_comm c).
  - (* AMark *) unfold pop_mark_index. rewrite (finish_alloc_comm c). reflexivity.
  - reflexivity.
  - (* AMintMark *) rewrite <- (wrapk_0 c HM) at 1. rewrite (finish_alloc_comm c). reflexivity.
  - reflexivity.
  - (* FCas *)
    destruct TP as (P0 & P1 & P2). apply Z.ltb_lt in Hw.
    destruct (hv su =? cv) eqn:E1; simpl.
    + destruct (hk su =? ck) eqn:E2.
      * apply Z.eqb_eq in E2. rewrite E2, Z.eqb_refl. simpl. unfold push_new_version.
        rewrite (finish_free_comm c). unfold Wsh, set_head. simpl. now rewrite (wrapk_succ c HM).
      * apply Z.eqb_neq in E2.
        assert (E' : (wrapk c (hk su) =? wrapk c ck) = false).
        { apply Z.eqb_neq. intro X. apply E2. apply (wrapk_inj c HM); auto; lia. }
        rewrite E'. reflexivity.
    + reflexivity.
  - (* ESlot *) unfold emplace_slot_index, emplace_version. unfold Wsh, Wth, set_box. simpl.
    rewrite (setz_map c HM), map_app. reflexivity.
  - (* DLoad *) reflexivity.
Qed.
End Comm.

(* ------------------------------------------------------------------------------------------ whole runs *)
Section Sim.
Variable c : cfg.
Hypothesis HM : 0 < vmod c.

Lemma Wst_init : forall progs, Wst c (init (unb c) progs) = init c progs.
Proof.
  intros. unfold Wst, init. simpl. f_equal.
  - unfold Wsh, init_shared. simpl. now rewrite (wrapk_0 c HM).
  - rewrite map_map. apply map_ext. intros a. unfold Wth, mk_thread. simpl. now rewrite (wrapk_0 c HM).
Qed.

Lemma step_comm : forall su t, Good (unb c) (sh su) (threads su) -> win_stb c su = true ->
  step_or_stay st (step c) (Wst c su) t = Wst c (step_or_stay st (step (unb c)) su t).
Proof.
  intros su t G Hw. unfold step_or_stay, step. simpl. rewrite nth_error_map'.
  destruct (nth_error (threads su) t) as [th|] eqn:Hn; simpl; [|reflexivity].
  rewrite (tstep_comm c HM _ _ _ _ G Hn).
  - destruct (tstep (unb c) (sh su) th) as [[s' th']|]; simpl; [|reflexivity].
    unfold Wst. simpl. now rewrite set_nth_map.
  - unfold win_stb in Hw. rewrite forallb_forall in Hw. apply Hw. eapply nth_error_In; eauto.
Qed.

Lemma run_nv_mono : forall c0 sch s, nv (sh s) <= nv (sh (run st (step c0) s sch)).
Proof.
  intros c0 sch. induction sch as [|t r IH]; intros s; simpl; [lia|].
  eapply Z.le_trans; [|apply IH]. unfold step_or_stay. destruct (step c0 s t) eqn:E; [|lia].
  eapply step_nv_mono; eauto.
Qed.

Lemma reach_sos : forall c0 progs s t, Reach c0 progs s -> Reach c0 progs (step_or_stay st (step c0) s t).
Proof.
  intros c0 progs s t HR. unfold step_or_stay. destruct (step c0 s t) eqn:E; auto. eapply reachable_step; eauto.
Qed.

Theorem run_comm : forall progs sch su, Reach (unb c) progs su ->
  nv (sh (run st (step c) (Wst c su) sch)) <= ACTc c -> windowedb c su sch = true ->
  run st (step c) (Wst c su) sch = Wst c (run st (step (unb c)) su sch).
Proof.
  intros progs sch. induction sch as [|t r IH]; intros su HR Hnv Hw; simpl in *; [reflexivity|].
  apply andb_prop in Hw. destruct Hw as [Hw1 Hw2].
  assert (G : Good (unb c) (sh su) (threads su)).
  { apply (id_good (unb c) progs); auto. pose proof (run_nv_mono c (t :: r) (Wst c su)). simpl in H.
    unfold ACTc in *. simpl. lia. }
  rewrite (step_comm su t G Hw1) in *. apply IH; auto. apply reach_sos; auto.
Qed.
End Sim.

(* ------------------------------------------------------------------------- invariance of the observables *)
Lemma map_fst_Wid : forall c l, map fst (map (Wid c) l) = map fst l.
Proof. intros. rewrite map_map. apply map_ext. reflexivity. Qed.
Lemma owned_thread_W : forall c th, owned_thread (Wth c th) = owned_thread th.
Proof. intros. unfold owned_thread. simpl. rewrite !map_fst_Wid, acc_values_map. destruct (tpc th); reflexivity. Qed.
Lemma owners_W : forall c s, owners (Wst c s) = owners s.
Proof.
  intros. unfold owners. simpl. rewrite map_fst_Wid. f_equal.
  induction (threads s); simpl; auto. now rewrite owned_thread_W, IHl.
Qed.
Lemma held_values_W : forall c s, held_values (Wst c s) = held_values s.
Proof.
  intros. unfold held_values. simpl. rewrite map_fst_Wid. f_equal.
  induction (threads s); simpl; auto. now rewrite !map_fst_Wid, acc_values_map, IHl.
Qed.
Lemma quiescent_W : forall c s, quiescent (Wst c s) = quiescent s.
Proof.
  intros. unfold quiescent. simpl. induction (threads s); simpl; auto. rewrite IHl. f_equal.
  unfold thread_idle. simpl. destruct (tpc a); reflexivity.
Qed.
Lemma unb_eq : forall c, vmod c = 0 -> unb c = c.
Proof. intros [tl vm] H. simpl in H. subst. reflexivity. Qed.

(* ------------------------------------------------------------------------------- the hypothesis, and the lift *)
(* Either versions are unbounded, or along the execution of `sch` no CAS on the head is ever pending with vmod or
   more pushes since the head load it compares against, and no take_released ever runs on an id whose slot version has
   advanced by vmod or more since the id was issued (both read off the unbounded ghost execution). *)
Definition no_wrap_in_window (c : cfg) (progs : list (list op)) (sch : list nat) : Prop :=
  vmod c = 0 \/ (0 < vmod c /\ windowedb c (init (unb c) progs) sch = true).

Definition ghost_run (c : cfg) (progs : list (list op)) (sch : list nat) : st :=
  run st (step (unb c)) (init (unb c) progs) sch.

Lemma windowedb_last : forall c sch s, windowedb c s sch = true -> win_stb c (run st (step (unb c)) s sch) = true.
Proof.
  intros c sch. induction sch as [|t r IH]; intros s H; simpl in *; apply andb_prop in H; destruct H as [H1 H2]; auto.
Qed.

(* the real execution is the image of the ghost execution *)
Theorem wrapped_run_is_image : forall c progs sch, no_wrap_in_window c progs sch ->
  let sw := run st (step c) (init c progs) sch in
  nv (sh sw) <= ACTc c ->
  let su := ghost_run c progs sch in
  Reach (unb c) progs su /\ nv (sh su) <= ACTc (unb c) /\ sw = Wst c su /\ (0 < vmod c -> win_stb c su = true).
Proof.
  intros c progs sch [H0|[HM Hw]] sw Hnv su.
  - assert (Ec : unb c = c) by (apply unb_eq; auto). unfold su, ghost_run. rewrite Ec. fold sw.
    split; [exists sch; reflexivity|]. split; [exact Hnv|]. split; [|lia].
    assert (Wk : forall k, wrapk c k = k) by (intros; unfold wrapk; now rewrite H0, Z.eqb_refl).
    assert (Wi : forall l, map (Wid c) l = l).
    { induction l as [|[v k] l IH]; simpl; auto. unfold Wid at 1. simpl. now rewrite Wk, IH. }
    assert (Wm : forall l, map (wrapk c) l = l). { induction l; simpl; auto. now rewrite Wk, IHl. }
    assert (Wr : forall l, map (Wres c) l = l).
    { induction l as [|r l IH]; simpl; auto. rewrite IH. f_equal. destruct r; simpl; rewrite ?Wk; reflexivity. }
    assert (Wa : forall l, map (Wacc c) l = l).
    { induction l as [|[b [v k]] l IH]; simpl; auto. unfold Wacc at 1, Wid. simpl. now rewrite Wk, IH. }
    assert (Wt : forall l, map (Wth c) l = l).
    { induction l as [|th l IH]; simpl; auto. rewrite IH. f_equal. destruct th as [pg p hd tk ac rs fb]. unfold Wth. simpl.
      rewrite !Wi, Wr, Wa, Wk. f_equal. destruct p; simpl; rewrite ?Wk; reflexivity. }
    destruct sw as [s ths]. unfold Wst. simpl. rewrite Wt. f_equal. destruct s. unfold Wsh. simpl.
    now rewrite Wk, Wm, !Wi.
  - assert (E : sw = Wst c su).
    { unfold sw, su, ghost_run. rewrite <- (Wst_init c HM). apply (run_comm c HM progs); auto.
      - exists []. reflexivity.
      - rewrite (Wst_init c HM). exact Hnv. }
    assert (Hnu : nv (sh su) <= ACTc c) by (rewrite E in Hnv; exact Hnv).
    split; [exists sch; reflexivity|]. split; [exact Hnu|]. split; [exact E|]. intros _. apply windowedb_last. exact Hw.
Qed.

(* ------------------------------------------------------------------ the C14 statements for the real widths *)
Lemma wrapk_0' : forall c, wrapk c 0 = 0.
Proof. intros. unfold wrapk. destruct (vmod c =? 0); reflexivity. Qed.
Lemma getz_map' : forall c l i, getz (map (wrapk c) l) i = wrapk c (getz l i).
Proof.
  intros c l i. unfold getz. generalize (Z.to_nat i). induction l; intros n; destruct n; simpl; auto using wrapk_0';
    try (now rewrite wrapk_0').
Qed.
Lemma wrapk_inj' : forall c a b, vmod c = 0 \/ (0 < vmod c /\ 0 <= a - b < vmod c) -> wrapk c a = wrapk c b -> a = b.
Proof.
  intros c a b [H0|[HM H]] E.
  - unfold wrapk in E. now rewrite H0, Z.eqb_refl in E.
  - eapply wrapk_inj; eauto.
Qed.

Section Lifted.
Variables (c : cfg) (progs : list (list op)) (sch : list nat).
Hypothesis HW : no_wrap_in_window c progs sch.
Let s := run st (step c) (init c progs) sch.
Let su := ghost_run c progs sch.
Hypothesis Hnv : nv (sh s) <= ACTc c.

Lemma img : Reach (unb c) progs su /\ nv (sh su) <= ACTc (unb c) /\ s = Wst c su /\ (0 < vmod c -> win_stb c su = true).
Proof. exact (wrapped_run_is_image c progs sch HW Hnv). Qed.
Lemma ghost_good : Good (unb c) (sh su) (threads su).
Proof. destruct img as (HR & Hn & _). apply (id_good (unb c) progs); auto. Qed.

Theorem idw_unique_owner : NoDup (fl (sh s) ++ owners s).
Proof.
  destruct img as (HR & Hn & E & _). rewrite E, owners_W. simpl. apply (id_unique_owner (unb c) progs); auto.
Qed.

Theorem idw_held_unique : NoDup (held_values s) /\ (forall v, In v (held_values s) -> ~ In v (fl (sh s))).
Proof.
  destruct img as (HR & Hn & E & _). rewrite E, held_values_W. simpl. apply (id_held_unique (unb c) progs); auto.
Qed.

Theorem idw_threads_disjoint : forall t1 t2 th1 th2 v, t1 <> t2 ->
  nth_error (threads s) t1 = Some th1 -> nth_error (threads s) t2 = Some th2 ->
  In v (owned_thread th1) -> In v (owned_thread th2) -> False.
Proof.
  destruct img as (HR & Hn & E & _). intros t1 t2 th1 th2 v Hne H1 H2 I1 I2. rewrite E in H1, H2. simpl in H1, H2.
  rewrite nth_error_map' in H1, H2.
  destruct (nth_error (threads su) t1) as [u1|] eqn:N1; [|discriminate].
  destruct (nth_error (threads su) t2) as [u2|] eqn:N2; [|discriminate].
  simpl in H1, H2. inversion H1; inversion H2; subst th1 th2. rewrite owned_thread_W in I1, I2.
  eapply (id_threads_disjoint (unb c) progs su t1 t2 u1 u2 v); eauto.
Qed.

Theorem idw_pop_cas_current : forall t th cv ck nx, nth_error (threads s) t = Some th -> tpc th = ACas cv ck nx ->
  hv (sh s) = cv -> hk (sh s) = ck -> getz (nxt (sh s)) cv = nx /\ exists r, fl (sh s) = cv :: r.
Proof.
  pose proof ghost_good as G. destruct img as (HR & Hn & E & Hwin). intros t th cv ck nx H1 Hpc Ehv Ehk.
  rewrite E in H1, Ehv, Ehk |- *. simpl in *. rewrite nth_error_map' in H1.
  destruct (nth_error (threads su) t) as [u|] eqn:N1; [|discriminate]. simpl in H1. inversion H1; subst th. clear H1.
  simpl in Hpc. destruct (tpc u) eqn:Hu; simpl in Hpc; try discriminate. inversion Hpc; subst cv0 ck nx0. clear Hpc.
  destruct (g_thr _ _ _ G _ _ N1) as (_ & _ & P & _). rewrite Hu in P. simpl in P. destruct P as (P1 & P2 & P3).
  assert (Ek : hk (sh su) = ck0).
  { apply (wrapk_inj' c); auto. destruct HW as [H0|[HM _]]; [now left|right]. split; auto. split; [lia|].
    specialize (Hwin HM). unfold win_stb in Hwin. rewrite forallb_forall in Hwin.
    specialize (Hwin u (nth_error_In _ _ N1)). unfold win_thb in Hwin. rewrite Hu in Hwin. now apply Z.ltb_lt in Hwin. }
  eapply (id_pop_cas_current (unb c) progs su t u); eauto.
Qed.

Theorem idw_for_each_exact : quiescent s = true -> forall v, In v (live c (sh s)) <-> In v (held_values s).
Proof.
  destruct img as (HR & Hn & E & _). rewrite E, quiescent_W, held_values_W. intros Hq v.
  change (live c (sh (Wst c su))) with (live (unb c) (sh su)). apply (id_for_each_exact (unb c) progs); auto.
Qed.

Theorem idw_reuse_when_quiet : forall t th x rest r,
  nth_error (threads s) t = Some th -> tpc th = Idle -> prog th = OAlloc :: r -> fl (sh s) = x :: rest ->
  let s' := run st (step c) s [t; t; t; t] in
  nv (sh s') = nv (sh s) /\ fl (sh s') = rest /\
  exists th', nth_error (threads s') t = Some th' /\ tpc th' = Idle /\ prog th' = r /\
              held th' = (x, hk (sh s)) :: held th /\ results th' = RId x (hk (sh s)) :: results th.
Proof.
  pose proof ghost_good as G. destruct img as (HR & Hn & E & _). intros t th x rest r H1 Hpc Hp Hfl.
  assert (Hfu : fl (sh su) = x :: rest) by (rewrite E in Hfl; exact Hfl).
  assert (Ehv : hv (sh s) = x).
  { rewrite E. simpl. pose proof (g_chain _ _ _ G) as Hc. rewrite Hfu in Hc. simpl in Hc. tauto. }
  assert (Hx : (x =? tail c) = false).
  { apply Z.eqb_neq. pose proof (fl_range (unb c) _ _ G x) as R. rewrite Hfu in R. specialize (R (or_introl eq_refl)).
    pose proof (ACT_lt_tail (unb c)). unfold ACTc in *. simpl in *. lia. }
  eapply reuse_core; eauto.
Qed.

(* deposit box.  `wu` = the won ids with their unwrapped versions (one per emplace round) *)
Theorem idw_one_taker : exists wu, wu = wins (sh su) /\ wins (sh s) = map (Wid c) wu /\ NoDup wu /\ miss (sh s) = false.
Proof.
  pose proof ghost_good as G. destruct img as (HR & Hn & E & _). exists (wins (sh su)). split; auto.
  rewrite E. simpl. split; auto. split; [apply (g_nodup _ _ _ G)|apply (g_miss _ _ _ G)].
Qed.

Theorem idw_issued_won_or_boxed : forall i, In i (ids (sh s)) ->
  In i (wins (sh s)) \/ (In i (boxed (sh s)) /\ getz (sver (sh s)) (fst i) = snd i).
Proof.
  pose proof ghost_good as G. destruct img as (HR & Hn & E & _). intros i Hi. rewrite E in Hi |- *. simpl in *.
  apply in_map_iff in Hi. destruct Hi as ([v k] & <- & Hi).
  destruct (g_ids _ _ _ G _ Hi) as [W|B].
  - left. now apply in_map.
  - right. split; [now apply in_map|]. simpl. rewrite getz_map'. destruct (g_boxed _ _ _ G _ _ B) as (Eq & _). now rewrite Eq.
Qed.

(* an id that was won (unwrapped version ku) does not match its slot as long as the slot's unwrapped version is
   fewer than vmod ahead of ku *)
Theorem idw_stale_never_matches : forall v ku, In (v, ku) (wins (sh su)) ->
  (vmod c = 0 \/ getz (sver (sh su)) v - ku < vmod c) -> getz (sver (sh s)) v <> wrapk c ku.
Proof.
  pose proof ghost_good as G. destruct img as (HR & Hn & E & _). intros v ku Hw Hwin. rewrite E. simpl. rewrite getz_map'.
  destruct (g_wins _ _ _ G _ _ Hw) as [_ Hlt]. intro X. apply (wrapk_inj' c) in X; [lia|].
  destruct Hwin as [H0|Hd]; [now left|]. destruct HW as [H0|[HM _]]; [now left|]. right. split; auto. lia.
Qed.
End Lifted.

(* --------------------------------------------------------------- boundary: the refuted witness and its neighbour *)
Lemma wrap_witness_outside_window : windowedb c16 (init (unb c16) (wrap_progs (Z.to_nat 65535))) (wrap_sched (Z.to_nat 65535)) = false.
Proof. vm_compute. reflexivity. Qed.
Lemma wrap_control_inside_window : no_wrap_in_window c16 (wrap_progs (Z.to_nat 65534)) (wrap_sched (Z.to_nat 65534)).
Proof. right. split; [reflexivity|]. vm_compute. reflexivity. Qed.
