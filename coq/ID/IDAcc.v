(* The RAII layer of the deposit box (Accessor): every successful take is finished exactly once.
   Counting invariant, for every configuration (no hypothesis on versions), every program and every schedule:
       #successful takes  =  #finish_released calls made  +  #ids currently held (raw taken ids + armed accessors).
   So finish_released is never called more often than takes succeeded, and once no thread holds anything every
   won id has been finished.  (That no slot is finished twice while another is leaked is the unique-owner theorem:
   a second finish_released of a slot would put its value twice among free list + owners.)
   The move assignment / move constructor / destructor of the model are the ones interpreted from the regenerated
   source expressions (IDModel.acc_assign, acc_ctor, acc_dtor_fires): if operator= stops being a full swap or the move
   constructor stops disarming its source, acc_assign_swaps / acc_ctor_spec (IDProofs.v) and the lemmas below break. *)
From Coq Require Import ZArith List Bool Lia Arith.
Require Import Verif.Gen.Gen_id_allocator Verif.Conc.Machine Verif.ID.IDModel Verif.ID.IDProofs.
Import ListNotations.
Local Open Scope Z_scope.

Local Arguments Z.of_nat : simpl never.

Definition armed (l : list acc) : nat := length (filter fst l).
Definition acnt (th : thread) : nat := (length (taken th) + armed (accs th))%nat.
Definition b2n (b : bool) : nat := if b then 1%nat else 0%nat.

Lemma armed_set : forall h x l, (armed (set_acc h x l) + b2n (fst (get_acc l h)) = armed l + b2n (fst x))%nat.
Proof.
  induction h; intros x l; destruct l as [|y l]; unfold get_acc, armed in *; simpl.
  - destruct (fst x); simpl; lia.
  - destruct (fst x); destruct (fst y); simpl; lia.
  - specialize (IHh x []). simpl in IHh. destruct h; simpl in *; lia.
  - specialize (IHh x l). destruct (fst y); simpl; lia.
Qed.

Definition balance (s : shared) (th : thread) : Z := Z.of_nat (length (wins s)) - nfin s - Z.of_nat (acnt th).

Lemma tstep_balance : forall c s th s' th', tstep c s th = Some (s', th') ->
  Z.of_nat (length (wins s')) - nfin s' - Z.of_nat (acnt th') = Z.of_nat (length (wins s)) - nfin s - Z.of_nat (acnt th).
Proof.
  intros c s th s' th' Hs. unfold tstep in Hs.
  destruct (tpc th) eqn:Hpc.
  - destruct (prog th) as [|o r] eqn:Hp; [discriminate|]. destruct o.
    + inversion Hs; subst. unfold enter_alloc. destruct (alloc_nonempty _ _); reflexivity.
    + destruct (nth_error (held th) i) as [[v k]|]; inversion Hs; subst; reflexivity.
    + inversion Hs; subst. unfold enter_alloc. destruct (alloc_nonempty _ _); reflexivity.
    + destruct (nth_error (ids s) k) as [[v kk]|]; [|inversion Hs; subst; reflexivity].
      destruct (getz (sver s) (take_slot_index v) =? take_expected kk); inversion Hs; subst; unfold acnt; cbn -[Z.of_nat Z.add Z.sub Z.opp].
      * rewrite app_length. cbn -[Z.of_nat Z.add Z.sub Z.opp].  (unfold armed in *; lia).
      * (unfold armed in *; lia).
    + destruct (taken th) as [|[v k] r'] eqn:Ht; inversion Hs; subst; unfold acnt; cbn -[Z.of_nat Z.add Z.sub Z.opp]; rewrite ?Ht; cbn -[Z.of_nat Z.add Z.sub Z.opp]; (unfold armed in *; lia).
    + destruct (nth_error (ids s) k) as [[v kk]|]; [|inversion Hs; subst; reflexivity].
      rewrite !acc_assign_swaps, !acc_dtor_fires_spec in Hs.
      pose proof (armed_set h (true, (v, kk)) (accs th)) as E1. pose proof (armed_set h (false, (v, kk)) (accs th)) as E2.
      simpl in E1, E2. unfold b2n in *.
      destruct (getz (sver s) (take_slot_index v) =? take_expected kk);
        destruct (fst (get_acc (accs th) h)); inversion Hs; subst; unfold acnt; cbn -[Z.of_nat Z.add Z.sub Z.opp]; (unfold armed in *; lia).
    + destruct (Nat.eqb h g) eqn:Ehg; [inversion Hs; subst; reflexivity|]. apply Nat.eqb_neq in Ehg.
      rewrite acc_assign_swaps in Hs. inversion Hs; subst. unfold acnt. cbn -[Z.of_nat Z.add Z.sub Z.opp].
      pose proof (armed_set g (get_acc (accs th) h) (set_acc h (get_acc (accs th) g) (accs th))) as E1.
      rewrite get_set_acc_other in E1 by auto.
      pose proof (armed_set h (get_acc (accs th) g) (accs th)) as E2. (unfold armed in *; lia).
    + destruct (Nat.eqb h g) eqn:Ehg; simpl in Hs; [inversion Hs; subst; reflexivity|]. apply Nat.eqb_neq in Ehg.
      destruct (fst (get_acc (accs th) h)) eqn:Fo; inversion Hs; subst; [reflexivity|].
      unfold do_ctor. rewrite acc_ctor_spec. unfold acnt. cbn -[Z.of_nat Z.add Z.sub Z.opp].
      pose proof (armed_set g (false, snd (get_acc (accs th) g)) (set_acc h (get_acc (accs th) g) (accs th))) as E1.
      rewrite get_set_acc_other in E1 by auto.
      pose proof (armed_set h (get_acc (accs th) g) (accs th)) as E2. rewrite Fo in E2. simpl in E1. unfold b2n in *. (unfold armed in *; lia).
    + rewrite acc_dtor_fires_spec in Hs. pose proof (armed_set h empty_acc (accs th)) as E. simpl in E. unfold b2n in E.
      destruct (fst (get_acc (accs th) h)); inversion Hs; subst; unfold acnt; cbn -[Z.of_nat Z.add Z.sub Z.opp]; (unfold armed in *; lia).
  - inversion Hs; subst. reflexivity.
  - destruct ((hv s =? cv) && (hk s =? ck)); inversion Hs; subst; [reflexivity|].
    unfold enter_alloc. destruct (alloc_nonempty _ _); reflexivity.
  - inversion Hs; subst. unfold finish_alloc. destruct (prog th) as [|[] ?]; reflexivity.
  - inversion Hs; subst. reflexivity.
  - inversion Hs; subst. unfold finish_alloc. destruct (prog th) as [|[] ?]; reflexivity.
  - inversion Hs; subst. reflexivity.
  - destruct ((hv s =? cv) && (hk s =? ck)); inversion Hs; subst; [|reflexivity].
    destruct (finish_free_facts th) as (_ & _ & F3 & F4). unfold acnt. rewrite F3, F4. reflexivity.
  - inversion Hs; subst. reflexivity.
  - inversion Hs; subst. reflexivity.
Qed.

Definition held_count (s : st) : nat := sumf acnt (threads s).

Theorem id_accessor_balance : forall c progs s, Reach c progs s ->
  Z.of_nat (length (wins (sh s))) = nfin (sh s) + Z.of_nat (held_count s).
Proof.
  intros c progs.
  apply (inv_reachable st (step c) (fun s => Z.of_nat (length (wins (sh s))) = nfin (sh s) + Z.of_nat (held_count s))).
  - unfold held_count. simpl. rewrite sumf_map_zero by reflexivity. reflexivity.
  - intros s t s' IH Hs. unfold step in Hs.
    destruct (nth_error (threads s) t) as [th|] eqn:Hn; [|discriminate].
    destruct (tstep c (sh s) th) as [[s1 th1]|] eqn:E; [|discriminate]. inversion Hs; subst. simpl.
    pose proof (tstep_balance _ _ _ _ _ E) as B. unfold held_count in *. simpl.
    pose proof (sumf_set_nth _ acnt _ _ _ th1 Hn). lia.
Qed.

(* finish_released is never called more often than takes succeeded; when nobody holds an id any more (no raw taken id,
   every accessor disarmed or destroyed) every successful take has been finished *)
Theorem id_accessor_releases_once : forall c progs s, Reach c progs s ->
  nfin (sh s) <= Z.of_nat (length (wins (sh s))) /\
  ((forall th, In th (threads s) -> taken th = [] /\ filter fst (accs th) = []) ->
   nfin (sh s) = Z.of_nat (length (wins (sh s)))).
Proof.
  intros c progs s HR. pose proof (id_accessor_balance c progs s HR) as B. split; [lia|].
  intros Hall. assert (Z : held_count s = O).
  { unfold held_count. induction (threads s) as [|th l IH]; simpl; auto.
    destruct (Hall th (or_introl eq_refl)) as [E1 E2]. unfold acnt, armed. rewrite E1, E2. simpl.
    apply IH. intros th0 Hi. apply Hall. now right. }
  lia.
Qed.

(* the move assignment really is what the property needs: an exchange of the two accessors *)
Lemma id_accessor_assign_is_swap : forall a b, acc_assign (a, b) = (b, a).
Proof. exact acc_assign_swaps. Qed.
Lemma id_accessor_move_ctor_disarms_source : forall o, acc_ctor o = (o, (false, snd o)).
Proof. exact acc_ctor_spec. Qed.
