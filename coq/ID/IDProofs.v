(* Proofs about ID/IDModel.v: one inductive invariant (Good) over all schedules, and the C14 theorems derived
   from it.  Hypotheses used by the positive theorems: vmod c = 0 (unbounded versions) and nv <= ACTIVE_FLAG
   (fewer values minted than the value type can name besides the two sentinels). *)
From Coq Require Import ZArith List Bool Lia Arith.
Require Import Verif.Base.Atomics Verif.Gen.Gen_id_allocator Verif.Conc.Machine Verif.ID.IDModel.
Import ListNotations.
Local Open Scope Z_scope.

(* ------------------------------------------------------------------ memory orders (regenerated site tables) *)
Definition orders_ok : bool :=
  match sites_allocate, sites_deallocate, sites_take_released, sites_emplace with
  | [(KLoad, l1, _); (KLoad, _, _); (KCasW, c1, _); (KStore, _, _); (KFadd, _, _); (KStore, _, _)],
    [(KLoad, l2, _); (KStore, _, _); (KCasW, c2, f2)], [(KCasS, _, _)], [(KStore, _, _)] =>
    has_acquire l1 && has_acquire c1 && has_release c1 && has_acquire l2 && has_release c2 && has_acquire f2
  | _, _, _, _ => false
  end.
Lemma id_orders_ok : orders_ok = true.
Proof. vm_compute. reflexivity. Qed.

(* ------------------------------------------------------------------------------------------- list lemmas *)
Lemma nth_nil0 : forall m, nth m (@nil Z) 0 = 0.
Proof. destruct m; reflexivity. Qed.
Lemma nth_set_ext_same : forall n x l, nth n (set_ext n x l) 0 = x.
Proof. induction n; intros x l; destruct l; simpl; auto. Qed.
Lemma nth_set_ext_other : forall n m x l, n <> m -> nth m (set_ext n x l) 0 = nth m l 0.
Proof.
  induction n; intros m x l H; destruct l; destruct m; simpl; try congruence; auto.
  - destruct m; reflexivity.
  - rewrite IHn by congruence. destruct m; reflexivity.
Qed.
Lemma getz_setz_same : forall l i x, getz (setz l i x) i = x.
Proof. intros. unfold getz, setz. apply nth_set_ext_same. Qed.
Lemma getz_setz_other : forall l i j x, 0 <= i -> 0 <= j -> i <> j -> getz (setz l i x) j = getz l j.
Proof. intros. unfold getz, setz. apply nth_set_ext_other. intro E. apply H1. apply Z2Nat.inj; auto. Qed.

Lemma nth_error_set_nth_same : forall A (l : list A) t a b, nth_error l t = Some a -> nth_error (set_nth t b l) t = Some b.
Proof. induction l; intros t a0 b H; destruct t; simpl in *; try discriminate; eauto. Qed.
Lemma nth_error_set_nth_other : forall A (l : list A) t u b, t <> u -> nth_error (set_nth t b l) u = nth_error l u.
Proof. induction l; intros t u b H; destruct t; destruct u; simpl; try congruence; auto. Qed.
Lemma length_set_nth : forall A (l : list A) t b, length (set_nth t b l) = length l.
Proof. induction l; intros; destruct t; simpl; auto. Qed.

Section Sum.
Variable A : Type.
Variable f : A -> nat.
Fixpoint sumf (l : list A) : nat := match l with [] => O | x :: r => (f x + sumf r)%nat end.
Lemma sumf_set_nth : forall l t a b, nth_error l t = Some a -> (sumf (set_nth t b l) + f a = sumf l + f b)%nat.
Proof.
  induction l; intros t a0 b H; destruct t; simpl in *; try discriminate.
  - inversion H; subst. lia.
  - specialize (IHl _ _ b H). lia.
Qed.
Lemma sumf_ge : forall l t a, nth_error l t = Some a -> (f a <= sumf l)%nat.
Proof. induction l; intros t a0 H; destruct t; simpl in *; try discriminate. inversion H; subst; lia. specialize (IHl _ _ H). lia. Qed.
Lemma sumf_ge2 : forall l t u a b, t <> u -> nth_error l t = Some a -> nth_error l u = Some b -> (f a + f b <= sumf l)%nat.
Proof.
  induction l; intros t u a0 b Hn Ha Hb; destruct t; destruct u; simpl in *; try discriminate; try congruence.
  - inversion Ha; subst. pose proof (sumf_ge _ _ _ Hb). lia.
  - inversion Hb; subst. pose proof (sumf_ge _ _ _ Ha). lia.
  - assert (t <> u) by congruence. specialize (IHl _ _ _ _ H Ha Hb). lia.
Qed.
Lemma sumf_zero : forall l, sumf l = O -> forall a, In a l -> f a = O.
Proof. induction l; simpl; intros H a0 Hin; [tauto|]. destruct Hin as [E|Hin]; subst; try lia. apply IHl; auto; lia. Qed.
End Sum.
Arguments sumf {A} f l.

Definition cnt (v : Z) (l : list Z) : nat := count_occ Z.eq_dec l v.
Definition c1 (x v : Z) : nat := if Z.eq_dec x v then 1%nat else 0%nat.
Arguments cnt : simpl never.
Lemma cnt_cons : forall v x l, cnt v (x :: l) = (c1 x v + cnt v l)%nat.
Proof. intros. unfold cnt, c1. cbn [count_occ]. destruct (Z.eq_dec x v); lia. Qed.
Lemma cnt_app : forall v a b, cnt v (a ++ b) = (cnt v a + cnt v b)%nat.
Proof. intros. unfold cnt. apply count_occ_app. Qed.
Lemma cnt_nil : forall v, cnt v [] = O.
Proof. reflexivity. Qed.
Lemma cnt_in : forall v l, In v l <-> (cnt v l >= 1)%nat.
Proof. intros. unfold cnt. rewrite (count_occ_In Z.eq_dec). lia. Qed.
Lemma cnt_notin : forall v l, ~ In v l <-> cnt v l = O.
Proof. intros. unfold cnt. apply count_occ_not_In. Qed.
Lemma c1_same : forall x, c1 x x = 1%nat.
Proof. intros. unfold c1. destruct (Z.eq_dec x x); congruence. Qed.
Lemma c1_diff : forall x v, x <> v -> c1 x v = O.
Proof. intros. unfold c1. destruct (Z.eq_dec x v); congruence. Qed.

Lemma cnt_remove_nth : forall (l : list id) i v k w, nth_error l i = Some (v, k) ->
  cnt w (map fst l) = (c1 v w + cnt w (map fst (remove_nth i l)))%nat.
Proof.
  induction l; intros i v k w H; destruct i; simpl in *; try discriminate.
  - inversion H; subst. simpl. apply cnt_cons.
  - rewrite !cnt_cons. rewrite (IHl _ _ _ w H). lia.
Qed.
Lemma cnt_remove_v : forall (l : list id) v w, In v (map fst l) ->
  cnt w (map fst l) = (c1 v w + cnt w (map fst (remove_v v l)))%nat.
Proof.
  induction l; intros v w H; simpl in *; [tauto|].
  destruct (fst a =? v) eqn:E.
  - apply Z.eqb_eq in E. subst. apply cnt_cons.
  - apply Z.eqb_neq in E. destruct H as [H|H]; [congruence|]. simpl. rewrite !cnt_cons. rewrite (IHl _ w H). lia.
Qed.
Lemma in_remove_v : forall (l : list id) v x, In x (remove_v v l) -> In x l.
Proof. induction l; simpl; intros v x H; [tauto|]. destruct (fst a =? v); simpl in *; intuition eauto. Qed.
Lemma in_remove_v_other : forall (l : list id) v x, In x l -> fst x <> v -> In x (remove_v v l).
Proof.
  induction l; simpl; intros v x H Hn; [tauto|]. destruct (fst a =? v) eqn:E.
  - apply Z.eqb_eq in E. destruct H; [subst; congruence|auto].
  - destruct H; [left; auto|right; auto].
Qed.
Lemma in_remove_nth : forall A (l : list A) i x, In x (remove_nth i l) -> In x l.
Proof. induction l; intros i x H; destruct i; simpl in *; intuition eauto. Qed.
Lemma in_map_fst : forall (l : list id) v k, In (v, k) l -> In v (map fst l).
Proof. intros. change v with (fst (v, k)). now apply in_map. Qed.
Lemma mem_id_in : forall i l, In i l -> mem_id i l = true.
Proof.
  intros i l H. unfold mem_id. apply existsb_exists. exists i. split; auto. unfold id_eqb. now rewrite !Z.eqb_refl.
Qed.

(* ------------------------------------------------------------------------------------------ the invariant *)
Section Inv.
Variable c : cfg.
Hypothesis Hvm : vmod c = 0.
Notation ACT := (ACTIVE_FLAG (tail c)).

Lemma wrapk_id : forall k, wrapk c k = k.
Proof. intros. unfold wrapk. now rewrite Hvm. Qed.

Definition pc_owned (p : pc) : list Z :=
  match p with
  | AMark cv _ => [cv] | AMintMark v => [v] | FStore v _ _ => [v] | FCas v _ _ => [v] | ESlot v _ => [v]
  | DLoad v => [v]
  | _ => []
  end.
Definition owned_thread (th : thread) : list Z :=
  map fst (held th) ++ map fst (taken th) ++ pc_owned (tpc th) ++ acc_values (accs th).
Definition ocnt (v : Z) (th : thread) : nat := cnt v (owned_thread th).
Definition cntb (v : Z) (s : shared) : nat := cnt v (map fst (boxed s)).
Definition total (v : Z) (s : shared) (ths : list thread) : nat := (cnt v (fl s) + sumf (ocnt v) ths + cntb v s)%nat.
Definition inrange (s : shared) (v : Z) : nat := if (0 <=? v) && (v <? nv s) then 1%nat else 0%nat.

Fixpoint chain (nx : list Z) (h : Z) (l : list Z) : Prop :=
  match l with [] => h = tail c | x :: r => h = x /\ chain nx (getz nx x) r end.

Definition aba1 (s : shared) (cv ck : Z) : Prop := ck = hk s -> hv s = cv \/ ~ In cv (fl s).
Definition aba2 (s : shared) (cv ck nx : Z) : Prop := ck = hk s -> (hv s = cv /\ getz (nxt s) cv = nx) \/ ~ In cv (fl s).

Definition TIpc (s : shared) (p : pc) : Prop :=
  match p with
  | Idle | AMint => True
  | ALoadNext cv ck => cv <> tail c /\ ck <= hk s /\ aba1 s cv ck
  | ACas cv ck nx => cv <> tail c /\ ck <= hk s /\ aba2 s cv ck nx
  | AMark cv ck => ck <= hk s /\ getz (sver s) cv <= ck
  | AMintMark v => getz (sver s) v <= 0
  | FStore v cv ck => ck <= hk s /\ getz (sver s) v <= hk s + 1
  | FCas v cv ck => ck <= hk s /\ getz (sver s) v <= hk s + 1 /\ getz (nxt s) v = cv
  | ESlot v k => getz (sver s) v <= k /\ k <= hk s /\ getz (nxt s) v = ACT
  | DLoad v => getz (sver s) v <= hk s + 1
  end.
Definition TI (s : shared) (th : thread) : Prop :=
  (forall v k, In (v, k) (held th) -> getz (nxt s) v = ACT /\ getz (sver s) v <= hk s) /\
  (forall v k, In (v, k) (taken th) -> getz (nxt s) v = ACT /\ getz (sver s) v <= hk s + 1) /\
  TIpc s (tpc th) /\
  (forall v, In v (acc_values (accs th)) -> getz (nxt s) v = ACT /\ getz (sver s) v <= hk s + 1).

Record Good (s : shared) (ths : list thread) : Prop := {
  g_cnt : forall v, total v s ths = inrange s v;
  g_chain : chain (nxt s) (hv s) (fl s);
  g_pos : 0 <= hk s /\ 0 <= nv s;
  g_flver : forall v, In v (fl s) -> getz (sver s) v <= hk s;
  g_fresh : forall v, nv s <= v -> getz (sver s) v = 0;
  g_boxed : forall v k, In (v, k) (boxed s) -> getz (sver s) v = k /\ k <= hk s /\ getz (nxt s) v = ACT;
  g_wins : forall v k, In (v, k) (wins s) -> 0 <= v /\ k < getz (sver s) v;
  g_ids : forall i, In i (ids s) -> In i (wins s) \/ In i (boxed s);
  g_miss : miss s = false;
  g_nodup : NoDup (wins s);
  g_thr : forall t th, nth_error ths t = Some th -> TI s th }.

Lemma inrange_1 : forall s v, inrange s v = 1%nat <-> 0 <= v < nv s.
Proof. intros. unfold inrange. destruct (0 <=? v) eqn:A; destruct (v <? nv s) eqn:B; simpl; lia. Qed.
Lemma inrange_le1 : forall s v, (inrange s v <= 1)%nat.
Proof. intros. unfold inrange. destruct ((0 <=? v) && (v <? nv s)); lia. Qed.

(* exclusivity consequences of the counting invariant *)
Lemma excl_thread : forall s ths t th x, (forall v, total v s ths = inrange s v) -> nth_error ths t = Some th ->
  (ocnt x th >= 1)%nat ->
  0 <= x < nv s /\ ~ In x (fl s) /\ cntb x s = O /\ ocnt x th = 1%nat /\
  (forall t0 th0, t0 <> t -> nth_error ths t0 = Some th0 -> ocnt x th0 = O).
Proof.
  intros s ths t th x Hc Hn Ho. pose proof (Hc x) as E. unfold total in E.
  pose proof (sumf_ge _ (ocnt x) _ _ _ Hn). pose proof (inrange_le1 s x).
  assert (inrange s x = 1%nat) by lia. split; [now apply inrange_1|].
  split; [apply cnt_notin; lia|]. split; [lia|]. split; [lia|].
  intros t0 th0 Hne Hn0. pose proof (sumf_ge2 _ (ocnt x) _ _ _ _ _ Hne Hn0 Hn). lia.
Qed.
Lemma excl_fl : forall s ths x, (forall v, total v s ths = inrange s v) -> In x (fl s) ->
  0 <= x < nv s /\ cnt x (fl s) = 1%nat /\ cntb x s = O /\ (forall t0 th0, nth_error ths t0 = Some th0 -> ocnt x th0 = O).
Proof.
  intros s ths x Hc Hi. pose proof (Hc x) as E. unfold total in E. apply cnt_in in Hi. pose proof (inrange_le1 s x).
  assert (inrange s x = 1%nat) by lia. split; [now apply inrange_1|]. split; [lia|]. split; [lia|].
  intros t0 th0 Hn0. pose proof (sumf_ge _ (ocnt x) _ _ _ Hn0). lia.
Qed.
Lemma excl_box : forall s ths x k, (forall v, total v s ths = inrange s v) -> In (x, k) (boxed s) ->
  0 <= x < nv s /\ ~ In x (fl s) /\ cntb x s = 1%nat /\ (forall t0 th0, nth_error ths t0 = Some th0 -> ocnt x th0 = O).
Proof.
  intros s ths x k Hc Hi. pose proof (Hc x) as E. unfold total in E. apply in_map_fst in Hi. apply cnt_in in Hi.
  fold (cntb x s) in Hi. pose proof (inrange_le1 s x).
  assert (inrange s x = 1%nat) by lia. split; [now apply inrange_1|]. split; [apply cnt_notin; lia|]. split; [lia|].
  intros t0 th0 Hn0. pose proof (sumf_ge _ (ocnt x) _ _ _ Hn0). lia.
Qed.
Lemma nodup_fl : forall s ths, (forall v, total v s ths = inrange s v) -> NoDup (fl s).
Proof.
  intros s ths Hc. apply (NoDup_count_occ Z.eq_dec). intros x. pose proof (Hc x) as E. unfold total, cnt in E.
  pose proof (inrange_le1 s x). lia.
Qed.

Lemma owned_in : forall th v, In v (owned_thread th) <-> (ocnt v th >= 1)%nat.
Proof. intros. unfold ocnt. apply cnt_in. Qed.
Lemma held_owned : forall th v k, In (v, k) (held th) -> In v (owned_thread th).
Proof. intros. unfold owned_thread. apply in_or_app. left. eapply in_map_fst; eauto. Qed.
Lemma taken_owned : forall th v k, In (v, k) (taken th) -> In v (owned_thread th).
Proof. intros. unfold owned_thread. apply in_or_app. right. apply in_or_app. left. eapply in_map_fst; eauto. Qed.
Lemma pc_owned_in : forall th v, In v (pc_owned (tpc th)) -> In v (owned_thread th).
Proof. intros. unfold owned_thread. apply in_or_app. right. apply in_or_app. right. apply in_or_app. now left. Qed.
Lemma acc_owned : forall th v, In v (acc_values (accs th)) -> In v (owned_thread th).
Proof. intros. unfold owned_thread. apply in_or_app. right. apply in_or_app. right. apply in_or_app. now right. Qed.

(* a thread's invariant survives a change of the shared state that leaves its own cells alone *)
Lemma TI_frame : forall s s' th0,
  TI s th0 ->
  (forall v, In v (owned_thread th0) -> getz (nxt s') v = getz (nxt s) v /\ getz (sver s') v = getz (sver s) v) ->
  hk s <= hk s' ->
  (forall cv ck, cv <> tail c -> ck <= hk s -> aba1 s cv ck -> aba1 s' cv ck) ->
  (forall cv ck nx, cv <> tail c -> ck <= hk s -> aba2 s cv ck nx -> aba2 s' cv ck nx) ->
  TI s' th0.
Proof.
  intros s s' th0 (Hh & Ht & Hp & Hq) Hown Hk A1 A2. split; [|split; [|split]].
  4:{ intros v Hi. destruct (Hown v (acc_owned _ _ Hi)) as [E1 E2]. destruct (Hq _ Hi). rewrite E1, E2. split; auto; lia. }
  - intros v k Hi. destruct (Hown v (held_owned _ _ _ Hi)) as [E1 E2]. destruct (Hh _ _ Hi). rewrite E1, E2. split; auto; lia.
  - intros v k Hi. destruct (Hown v (taken_owned _ _ _ Hi)) as [E1 E2]. destruct (Ht _ _ Hi). rewrite E1, E2. split; auto; lia.
  - pose proof (fun v H => Hown v (pc_owned_in th0 v H)) as Hpc. destruct (tpc th0); simpl in *; auto.
    + destruct Hp as (P1 & P2 & P3). repeat split; auto; try lia.
    + destruct Hp as (P1 & P2 & P3). repeat split; auto; try lia.
    + destruct (Hpc cv (or_introl eq_refl)) as [E1 E2]. rewrite E2. lia.
    + destruct (Hpc v (or_introl eq_refl)) as [E1 E2]. rewrite E2. lia.
    + destruct (Hpc v (or_introl eq_refl)) as [E1 E2]. rewrite E2. lia.
    + destruct (Hpc v (or_introl eq_refl)) as [E1 E2]. rewrite E1, E2. destruct Hp. split; auto; lia.
    + destruct (Hpc v (or_introl eq_refl)) as [E1 E2]. rewrite E1, E2. destruct Hp as (?&?&?). repeat split; auto; lia.
    + destruct (Hpc v (or_introl eq_refl)) as [E1 E2]. rewrite E2. lia.
Qed.

Lemma chain_setz : forall nx x y l h, 0 <= x -> ~ In x l -> (forall z, In z l -> 0 <= z) ->
  chain nx h l -> chain (setz nx x y) h l.
Proof.
  intros nx x y l. induction l; intros h Hx Hn Hp Hc; simpl in *; auto.
  destruct Hc as [E Hc]. split; auto.
  rewrite getz_setz_other; [apply IHl; auto | auto | auto | intro; subst; auto].
Qed.
Lemma chain_head : forall nx h l, chain nx h l -> h <> tail c -> exists r, l = h :: r /\ chain nx (getz nx h) r.
Proof. intros nx h l Hc Hn. destruct l; simpl in Hc; [congruence|]. destruct Hc; subst. eauto. Qed.

(* assembling Good for the successor state *)
Lemma good_intro : forall s ths t th s' th',
  Good s ths -> nth_error ths t = Some th ->
  (forall v, (cnt v (fl s') + ocnt v th' + cntb v s' + inrange s v = cnt v (fl s) + ocnt v th + cntb v s + inrange s' v)%nat) ->
  chain (nxt s') (hv s') (fl s') ->
  (0 <= hk s' /\ 0 <= nv s') ->
  (forall v, In v (fl s') -> getz (sver s') v <= hk s') ->
  (forall v, nv s' <= v -> getz (sver s') v = 0) ->
  (forall v k, In (v, k) (boxed s') -> getz (sver s') v = k /\ k <= hk s' /\ getz (nxt s') v = ACT) ->
  (forall v k, In (v, k) (wins s') -> 0 <= v /\ k < getz (sver s') v) ->
  (forall i, In i (ids s') -> In i (wins s') \/ In i (boxed s')) ->
  miss s' = false -> NoDup (wins s') ->
  TI s' th' ->
  (forall t0 th0, t0 <> t -> nth_error ths t0 = Some th0 -> TI s' th0) ->
  Good s' (set_nth t th' ths).
Proof.
  intros s ths t th s' th' G Hn Hc. intros. constructor; auto.
  - intros v. pose proof (g_cnt _ _ G v) as E. unfold total in *. pose proof (sumf_set_nth _ (ocnt v) _ _ _ th' Hn).
    specialize (Hc v). lia.
  - intros t0 th0 Hn0. destruct (Nat.eq_dec t t0) as [->|Hne].
    + rewrite (nth_error_set_nth_same _ _ _ _ _ Hn) in Hn0. inversion Hn0; subst; auto.
    + rewrite nth_error_set_nth_other in Hn0 by auto. eauto.
Qed.

(* the stepping thread changed only itself *)
Lemma good_local : forall s ths t th th',
  Good s ths -> nth_error ths t = Some th -> (forall v, ocnt v th' = ocnt v th) -> TI s th' ->
  Good s (set_nth t th' ths).
Proof.
  intros s ths t th th' G Hn Hc HT. pose proof G as G0. destruct G0.
  apply (good_intro s ths t th s th'); auto; try (intros v; rewrite Hc; lia).
  intros t0 th0 _ Hn0. eauto.
Qed.

Lemma ACT_lt_tail : ACT < tail c.
Proof. unfold ACTIVE_FLAG. lia. Qed.

Lemma fl_range : forall s ths, Good s ths -> forall z, In z (fl s) -> 0 <= z < nv s.
Proof. intros s ths G z Hz. destruct (excl_fl s ths z (g_cnt _ _ G) Hz) as (R & _). exact R. Qed.

(* another thread's invariant when head, version and free list are untouched *)
Lemma others_frame : forall s s' ths t0 th0, Good s ths -> nth_error ths t0 = Some th0 ->
  hv s' = hv s -> hk s' = hk s -> fl s' = fl s ->
  (forall v, In v (owned_thread th0) \/ In v (fl s) -> getz (nxt s') v = getz (nxt s) v) ->
  (forall v, In v (owned_thread th0) -> getz (sver s') v = getz (sver s) v) ->
  TI s' th0.
Proof.
  intros s s' ths t0 th0 G Hn Ehv Ehk Efl Hnx Hsv. apply (TI_frame s); auto.
  - eapply g_thr; eauto.
  - lia.
  - intros cv ck _ _ A. unfold aba1 in *. rewrite Ehv, Ehk, Efl. exact A.
  - intros cv ck nx _ _ A. unfold aba2 in *. rewrite Ehv, Ehk, Efl. intros E. destruct (A E) as [[A1 A2]|A1]; auto.
    destruct (In_dec Z.eq_dec cv (fl s)) as [Hin|Hnin]; auto. left. split; auto. rewrite Hnx; auto.
Qed.

Ltac ocnt_tac :=
  unfold ocnt, owned_thread, cntb; simpl;
  repeat (rewrite ?cnt_app, ?cnt_cons, ?cnt_nil, ?map_app; simpl); try lia.

(* the stepping thread stores into the link cell of a value it owns *)
Lemma good_set_nxt : forall s ths t th th' x y,
  Good s ths -> nth_error ths t = Some th -> In x (owned_thread th) ->
  (forall w, ocnt w th' = ocnt w th) -> TI (set_nxt s x y) th' ->
  Good (set_nxt s x y) (set_nth t th' ths).
Proof.
  intros s ths t th th' x y G Hn Hx Hc HT. pose proof G as G0. destruct G0.
  destruct (excl_thread s ths t th x g_cnt0 Hn (proj1 (owned_in _ _) Hx)) as (Rx & Nfl & Nb & O1 & Oth).
  apply (good_intro s ths t th); auto; simpl; auto.
  - apply chain_setz; auto; try lia. intros z Hz. pose proof (fl_range _ _ G z Hz). lia.
  - intros v k Hi. destruct (g_boxed0 _ _ Hi) as (A & B & C). repeat split; auto.
    destruct (excl_box s ths v k g_cnt0 Hi) as (Rv & _). rewrite getz_setz_other; auto; try lia.
    intro; subst. apply in_map_fst in Hi. apply cnt_in in Hi. unfold cntb in Nb. lia.
  - intros t0 th0 Hne Hn0. apply (others_frame s _ ths t0); auto. simpl. intros v Hv.
    assert (0 <= v /\ v <> x) as [P Q].
    { destruct Hv as [Hv|Hv].
      - destruct (excl_thread s ths t0 th0 v g_cnt0 Hn0 (proj1 (owned_in _ _) Hv)) as (Rv & _). split; [lia|].
        intro; subst. pose proof (Oth t0 th0 Hne Hn0). apply owned_in in Hv. lia.
      - pose proof (fl_range _ _ G v Hv). split; [lia|]. intro; subst; auto. }
    rewrite getz_setz_other; auto; lia.
Qed.

(* ---- accessors: the special members as regenerated from the source ---- *)
Lemma acc_assign_swaps : forall a b, acc_assign (a, b) = (b, a).
Proof. intros [ao [av ak]] [bo [bv bk]]. reflexivity. Qed.
Lemma acc_ctor_spec : forall o, acc_ctor o = (o, (false, snd o)).
Proof. intros [oo [ov ok]]. unfold acc_ctor. simpl. destruct oo; reflexivity. Qed.
Lemma acc_dtor_fires_spec : forall a, acc_dtor_fires a = fst a.
Proof. intros [[|] i]; reflexivity. Qed.
Lemma dtor_value_spec : forall a, dtor_value a = fst (snd a).
Proof. reflexivity. Qed.

Definition cav (w : Z) (a : acc) : nat := if fst a then c1 (fst (snd a)) w else O.
Lemma cnt_acc_values_cons : forall w a l, cnt w (acc_values (a :: l)) = (cav w a + cnt w (acc_values l))%nat.
Proof. intros w [[|] i] l; unfold acc_values, cav; simpl; [apply cnt_cons|reflexivity]. Qed.
Lemma cnt_acc_set : forall w h x l,
  (cnt w (acc_values (set_acc h x l)) + cav w (get_acc l h) = cnt w (acc_values l) + cav w x)%nat.
Proof.
  intros w. induction h; intros x l; destruct l as [|y l]; unfold get_acc; simpl.
  - rewrite cnt_acc_values_cons. unfold acc_values, cav. simpl. rewrite cnt_nil. lia.
  - rewrite !cnt_acc_values_cons. lia.
  - rewrite cnt_acc_values_cons. specialize (IHh x []). unfold get_acc in IHh. destruct h; simpl in *; unfold cav in *; simpl in *; lia.
  - rewrite !cnt_acc_values_cons. specialize (IHh x l). unfold get_acc in IHh. lia.
Qed.
Lemma get_set_acc_same : forall h x l, get_acc (set_acc h x l) h = x.
Proof. induction h; intros x l; destruct l; unfold get_acc in *; simpl; auto. Qed.
Lemma get_set_acc_other : forall h g x l, h <> g -> get_acc (set_acc h x l) g = get_acc l g.
Proof.
  induction h; intros g x l Hne; destruct l; destruct g; unfold get_acc in *; simpl; try congruence; auto.
  - destruct g; reflexivity.
  - rewrite IHh by congruence. destruct g; reflexivity.
Qed.
Lemma armed_in_values : forall l h, fst (get_acc l h) = true -> In (fst (snd (get_acc l h))) (acc_values l).
Proof.
  induction l as [|a l IH]; intros h H; unfold get_acc in *.
  - destruct h; simpl in H; discriminate.
  - destruct h; simpl in *.
    + unfold acc_values. simpl. rewrite H. now left.
    + specialize (IH h H). unfold acc_values in *. simpl. destruct (fst a); [right|]; auto.
Qed.

Lemma TI_goto_same : forall s th p, TI s th -> TIpc s p -> TI s (goto th p).
Proof. intros s th p (A & B & _ & Qa) P. split; [|split; [|split]]; auto. Qed.

Lemma enter_alloc_good : forall s ths t th, Good s ths -> nth_error ths t = Some th ->
  pc_owned (tpc th) = [] -> Good s (set_nth t (enter_alloc c th (hv s) (hk s)) ths).
Proof.
  intros s ths t th G Hn Hpc. unfold enter_alloc, alloc_nonempty.
  pose proof (g_thr _ _ G _ _ Hn) as HT.
  destruct (hv s =? tail c) eqn:E; simpl.
  - apply (good_local s ths t th); auto.
    + intros v. unfold ocnt, owned_thread. simpl. now rewrite Hpc.
    + apply TI_goto_same; simpl; auto.
  - apply Z.eqb_neq in E. apply (good_local s ths t th); auto.
    + intros v. unfold ocnt, owned_thread. simpl. now rewrite Hpc.
    + apply TI_goto_same; simpl; auto. repeat split; auto; try lia. intros _. now left.
Qed.

Lemma skip_good : forall s ths t th r, Good s ths -> nth_error ths t = Some th -> tpc th = Idle ->
  Good s (set_nth t (ret th (held th) (taken th) r) ths).
Proof.
  intros s ths t th r G Hn Hpc. apply (good_local s ths t th); auto.
  - intros v. unfold ocnt, owned_thread. simpl. now rewrite Hpc.
  - destruct (g_thr _ _ G _ _ Hn) as (A & B & _ & Qa). split; [|split; [|split]]; simpl; auto.
Qed.

(* the cells of the values a thread keeps in its lists are different from the cell of the value in its pc *)
Lemma lists_other_than_pc : forall s ths t th x, Good s ths -> nth_error ths t = Some th -> In x (pc_owned (tpc th)) ->
  forall v, In v (map fst (held th)) \/ In v (map fst (taken th)) \/ In v (acc_values (accs th)) -> 0 <= v /\ 0 <= x /\ v <> x.
Proof.
  intros s ths t th x G Hn Hx v Hv.
  assert (Ox : In x (owned_thread th)) by (apply pc_owned_in; auto).
  destruct (excl_thread s ths t th x (g_cnt _ _ G) Hn (proj1 (owned_in _ _) Ox)) as (Rx & _ & _ & O1 & _).
  assert (Ov : In v (owned_thread th)).
  { unfold owned_thread. destruct Hv as [H|[H|H]]; apply in_or_app; [left; auto|right|right]; apply in_or_app;
      [left; auto|right]. apply in_or_app. now right. }
  destruct (excl_thread s ths t th v (g_cnt _ _ G) Hn (proj1 (owned_in _ _) Ov)) as (Rv & _).
  split; [lia|]. split; [lia|]. intro; subst v.
  unfold ocnt, owned_thread in O1. rewrite !cnt_app in O1. apply cnt_in in Hx.
  destruct Hv as [H|[H|H]]; apply cnt_in in H; lia.
Qed.
Lemma TI_lists_set_nxt : forall s ths t th x y, Good s ths -> nth_error ths t = Some th -> In x (pc_owned (tpc th)) ->
  (forall v k, In (v, k) (held th) -> getz (setz (nxt s) x y) v = ACT /\ getz (sver s) v <= hk s) /\
  (forall v k, In (v, k) (taken th) -> getz (setz (nxt s) x y) v = ACT /\ getz (sver s) v <= hk s + 1) /\
  (forall v, In v (acc_values (accs th)) -> getz (setz (nxt s) x y) v = ACT /\ getz (sver s) v <= hk s + 1).
Proof.
  intros s ths t th x y G Hn Hx. destruct (g_thr _ _ G _ _ Hn) as (A & B & _ & Qa).
  pose proof (lists_other_than_pc s ths t th x G Hn Hx) as L. split; [|split].
  - intros v k Hi. destruct (A _ _ Hi). destruct (L v) as (?&?&?); [left; eapply in_map_fst; eauto|].
    rewrite getz_setz_other; auto.
  - intros v k Hi. destruct (B _ _ Hi). destruct (L v) as (?&?&?); [right; left; eapply in_map_fst; eauto|].
    rewrite getz_setz_other; auto.
  - intros v Hi. destruct (Qa _ Hi). destruct (L v) as (?&?&?); [right; right; auto|]. rewrite getz_setz_other; auto.
Qed.

(* finish_alloc after the store of ACTIVE_FLAG into the cell of the value just obtained *)
Lemma finish_alloc_good : forall s ths t th v k,
  Good s ths -> nth_error ths t = Some th -> pc_owned (tpc th) = [v] ->
  k <= hk s -> getz (sver s) v <= k ->
  Good (set_nxt s v ACT) (set_nth t (finish_alloc th v k) ths).
Proof.
  intros s ths t th v k G Hn Hpc Hk Hs.
  assert (Hv : In v (owned_thread th)). { apply pc_owned_in. rewrite Hpc. now left. }
  destruct (excl_thread s ths t th v (g_cnt _ _ G) Hn (proj1 (owned_in _ _) Hv)) as (Rv & Nfl & Nb & O1 & Oth).
  destruct (g_thr _ _ G _ _ Hn) as (A & B & _ & Qa).
  assert (Hx : In v (pc_owned (tpc th))) by (rewrite Hpc; now left).
  destruct (TI_lists_set_nxt s ths t th v ACT G Hn Hx) as (Hheld & Htaken & Hacc).
  apply (good_set_nxt s ths t th); auto.
  - intros w. unfold finish_alloc. unfold ocnt, owned_thread. rewrite Hpc.
    destruct (prog th) as [|[] ?]; simpl; repeat (rewrite ?cnt_app, ?cnt_cons, ?cnt_nil); lia.
  - unfold finish_alloc.
    assert (Hret : TI (set_nxt s v ACT) (ret th ((v, k) :: held th) (taken th) (RId v k))).
    { split; [|split; [|split]]; simpl; auto. intros x kx [E|Hi]; eauto. inversion E; subst. rewrite getz_setz_same. split; auto; lia. }
    destruct (prog th) as [|[] ?]; auto.
    split; [|split; [|split]]; simpl; auto. rewrite getz_setz_same. repeat split; auto.
Qed.

Lemma good_inc_fin : forall s ths, Good s ths -> Good (inc_fin s) ths.
Proof. intros s ths G. destruct G. constructor; auto. Qed.

Lemma free_start_good : forall s ths t th i v k, Good s ths -> nth_error ths t = Some th -> tpc th = Idle ->
  nth_error (held th) i = Some (v, k) ->
  Good s (set_nth t (with_base (cont th (FStore v (hv s) (hk s)) (remove_nth i (held th)) (taken th)) (hk s)) ths).
Proof.
  intros s ths t th i v k G Hn Hpc Hi. destruct (g_thr _ _ G _ _ Hn) as (A & B & _ & Qa).
  apply (good_local s ths t th); auto.
  - intros w. unfold ocnt, owned_thread. simpl. rewrite Hpc. simpl.
    repeat (rewrite ?cnt_app, ?cnt_cons, ?cnt_nil). rewrite (cnt_remove_nth _ _ _ _ w Hi). lia.
  - split; [|split; [|split]]; simpl; auto.
    + intros x kx Hx. apply A with kx. eapply in_remove_nth; eauto.
    + destruct (A v k (nth_error_In _ _ Hi)). lia.
Qed.

Lemma finish_start_good : forall s ths t th v k r, Good s ths -> nth_error ths t = Some th -> tpc th = Idle ->
  taken th = (v, k) :: r ->
  Good (inc_fin s) (set_nth t (with_base (cont th (FStore (finish_value v) (hv s) (hk s)) (held th) r) (hk s)) ths).
Proof.
  intros s ths t th v k r G Hn Hpc Ht. destruct (g_thr _ _ G _ _ Hn) as (A & B & _ & Qa).
  apply good_inc_fin. apply (good_local s ths t th); auto.
  - intros w. unfold ocnt, owned_thread, finish_value. simpl. rewrite Hpc, Ht. simpl.
    repeat (rewrite ?cnt_app, ?cnt_cons, ?cnt_nil). lia.
  - split; [|split; [|split]]; simpl; auto.
    + intros x kx Hx. apply B with kx. rewrite Ht. now right.
    + unfold finish_value. destruct (B v k). { rewrite Ht. now left. } lia.
Qed.

Lemma loadnext_good : forall s ths t th cv ck, Good s ths -> nth_error ths t = Some th -> tpc th = ALoadNext cv ck ->
  Good s (set_nth t (goto th (ACas cv ck (getz (nxt s) (pop_link_index cv)))) ths).
Proof.
  intros s ths t th cv ck G Hn Hpc. pose proof (g_thr _ _ G _ _ Hn) as HT. pose proof HT as (A & B & P & Qa).
  rewrite Hpc in P. simpl in P. destruct P as (P1 & P2 & P3).
  apply (good_local s ths t th); auto.
  - intros w. unfold ocnt, owned_thread. simpl. now rewrite Hpc.
  - apply TI_goto_same; auto. simpl. repeat split; auto. unfold aba2, aba1, pop_link_index in *. intros E.
    destruct (P3 E); auto.
Qed.

Lemma fstore_good : forall s ths t th v cv ck, Good s ths -> nth_error ths t = Some th -> tpc th = FStore v cv ck ->
  Good (set_nxt s (push_link_index v) (push_link_value cv)) (set_nth t (goto th (FCas v cv ck)) ths).
Proof.
  intros s ths t th v cv ck G Hn Hpc. unfold push_link_index, push_link_value.
  assert (Hx : In v (pc_owned (tpc th))) by (rewrite Hpc; now left).
  assert (Hv : In v (owned_thread th)) by (apply pc_owned_in; auto).
  destruct (TI_lists_set_nxt s ths t th v cv G Hn Hx) as (Hheld & Htaken & Hacc).
  destruct (g_thr _ _ G _ _ Hn) as (A & B & P & Qa). rewrite Hpc in P. simpl in P.
  apply (good_set_nxt s ths t th); auto.
  - intros w. unfold ocnt, owned_thread. simpl. now rewrite Hpc.
  - split; [|split; [|split]]; simpl; auto. destruct P. repeat split; auto. apply getz_setz_same.
Qed.

Lemma fcas_fail_good : forall s ths t th v cv ck, Good s ths -> nth_error ths t = Some th -> tpc th = FCas v cv ck ->
  Good s (set_nth t (goto th (FStore v (hv s) (hk s))) ths).
Proof.
  intros s ths t th v cv ck G Hn Hpc. pose proof (g_thr _ _ G _ _ Hn) as HT. pose proof HT as (A & B & P & Qa).
  rewrite Hpc in P. simpl in P. apply (good_local s ths t th); auto.
  - intros w. unfold ocnt, owned_thread. simpl. now rewrite Hpc.
  - apply TI_goto_same; auto. simpl. split; [lia|tauto].
Qed.

Lemma mint_good : forall s ths t th, Good s ths -> nth_error ths t = Some th -> tpc th = AMint ->
  Good (set_nv s (nv s + mint_increment)) (set_nth t (goto th (AMintMark (nv s))) ths).
Proof.
  intros s ths t th G Hn Hpc. pose proof G as G0. destruct G0. unfold mint_increment.
  destruct (g_thr0 _ _ Hn) as (A & B & _ & Qa).
  refine (good_intro s ths t th _ _ G Hn _ _ _ _ _ _ _ _ _ _ _ _); simpl; auto.
  - intros w. unfold ocnt, owned_thread, cntb, inrange. simpl. rewrite Hpc. simpl. repeat (rewrite ?cnt_app, ?cnt_cons, ?cnt_nil).
    unfold c1. destruct (Z.eq_dec (nv s) w).
    + subst. replace (0 <=? nv s) with true by (symmetry; apply Z.leb_le; lia).
      replace (nv s <? nv s) with false by (symmetry; apply Z.ltb_ge; lia).
      replace (nv s <? nv s + 1) with true by (symmetry; apply Z.ltb_lt; lia). simpl. lia.
    + destruct (0 <=? w) eqn:E1; simpl; try lia.
      destruct (w <? nv s) eqn:E2; destruct (w <? nv s + 1) eqn:E3; lia.
  - lia.
  - intros v Hv. apply g_fresh0. lia.
  - split; [|split; [|split]]; simpl; auto. rewrite g_fresh0; lia.
  - intros t0 th0 Hne Hn0. apply (others_frame s _ ths t0); auto.
Qed.

Lemma acas_ok_good : forall s ths t th cv ck nx, Good s ths -> nth_error ths t = Some th ->
  tpc th = ACas cv ck nx -> hv s = cv -> hk s = ck ->
  Good (set_head s nx (wrapk c (pop_new_version ck)) (tl (fl s))) (set_nth t (goto th (AMark cv ck)) ths).
Proof.
  intros s ths t th cv ck nx G Hn Hpc Ehv Ehk. rewrite wrapk_id. unfold pop_new_version. subst cv ck.
  pose proof G as G0. destruct G0.
  destruct (g_thr0 _ _ Hn) as (A & B & P & Qa). rewrite Hpc in P. simpl in P. destruct P as (P1 & P2 & P3).
  destruct (chain_head _ _ _ g_chain0 P1) as (r & Efl & Hch).
  assert (Hin : In (hv s) (fl s)) by (rewrite Efl; now left).
  assert (Enx : getz (nxt s) (hv s) = nx). { destruct (P3 eq_refl) as [[_ E]|N]; [auto|contradiction]. }
  pose proof (nodup_fl s ths g_cnt0) as ND. rewrite Efl in ND. inversion ND as [|? ? Nr NDr]. subst x l.
  refine (good_intro s ths t th _ _ G Hn _ _ _ _ _ _ _ _ _ _ _ _); simpl.
  - intros w. rewrite Efl. simpl. unfold ocnt, owned_thread, cntb, inrange. simpl. rewrite Hpc. simpl.
    repeat (rewrite ?cnt_app, ?cnt_cons, ?cnt_nil). lia.
  - rewrite Efl. simpl. rewrite <- Enx. exact Hch.
  - auto.
  - intros v Hv. apply g_flver0. rewrite Efl in *. now right.
  - auto.
  - auto.
  - auto.
  - auto.
  - auto.
  - auto.
  - split; [exact A | split; [exact B | split; [|exact Qa]]]. simpl. split; [lia | apply g_flver0; exact Hin].
  - intros t0 th0 Hne Hn0. apply (TI_frame s); simpl; auto; try lia.
    + eapply g_thr0; eauto.
    + intros cv ck Hcv Hck Ab. unfold aba1 in *. simpl. intros E. rewrite Efl. simpl. right.
      destruct (Ab E) as [E1|N1].
      * subst cv. auto.
      * intro Hr. apply N1. rewrite Efl. now right.
    + intros cv ck nx0 Hcv Hck Ab. unfold aba2 in *. simpl. intros E. rewrite Efl. simpl. right.
      destruct (Ab E) as [[E1 _]|N1].
      * subst cv. auto.
      * intro Hr. apply N1. rewrite Efl. now right.
Qed.

Lemma finish_free_facts : forall th, tpc (finish_free th) = Idle /\ held (finish_free th) = held th /\
  taken (finish_free th) = taken th /\ accs (finish_free th) = accs th.
Proof. intros th. unfold finish_free. destruct (prog th) as [|[] ?]; simpl; auto. Qed.

Lemma fcas_ok_good : forall s ths t th v cv ck, Good s ths -> nv s <= ACT -> nth_error ths t = Some th ->
  tpc th = FCas v cv ck -> hv s = cv -> hk s = ck ->
  Good (set_head s v (wrapk c (push_new_version ck)) (v :: fl s)) (set_nth t (finish_free th) ths).
Proof.
  intros s ths t th v cv ck G Hnv Hn Hpc Ehv Ehk. rewrite wrapk_id. unfold push_new_version. subst cv ck.
  pose proof G as G0. destruct G0.
  destruct (g_thr0 _ _ Hn) as (A & B & P & Qa). rewrite Hpc in P. simpl in P. destruct P as (P0 & P1 & P2).
  assert (Hv : In v (owned_thread th)). { apply pc_owned_in. rewrite Hpc. now left. }
  destruct (excl_thread s ths t th v g_cnt0 Hn (proj1 (owned_in _ _) Hv)) as (Rv & Nfl & Nb & O1 & Oth).
  refine (good_intro s ths t th _ _ G Hn _ _ _ _ _ _ _ _ _ _ _ _); simpl.
  - intros w. destruct (finish_free_facts th) as (F1 & F2 & F3 & F4).
    unfold ocnt, owned_thread, cntb, inrange. rewrite F1, F2, F3, F4, Hpc. simpl.
    repeat (rewrite ?cnt_app, ?cnt_cons, ?cnt_nil). lia.
  - split; auto. rewrite P2. exact g_chain0.
  - lia.
  - intros x [E|Hx]; [subst; lia|]. specialize (g_flver0 _ Hx). lia.
  - auto.
  - intros x k Hi. destruct (g_boxed0 _ _ Hi) as (?&?&?). repeat split; auto. lia.
  - auto.
  - auto.
  - auto.
  - auto.
  - destruct (finish_free_facts th) as (F1 & F2 & F3 & F4). unfold TI. rewrite F1, F2, F3, F4.
    split; [|split; [|split]]; simpl; auto.
    + intros x k Hi. destruct (A _ _ Hi). split; auto. lia.
    + intros x k Hi. destruct (B _ _ Hi). split; auto. lia.
    + intros x Hi. destruct (Qa _ Hi). split; auto. lia.
  - intros t0 th0 Hne Hn0. apply (TI_frame s); simpl; auto; try lia.
    + eapply g_thr0; eauto.
    + intros cv ck Hcv Hck Ab. unfold aba1. simpl. intros E. lia.
    + intros cv ck nx0 Hcv Hck Ab. unfold aba2. simpl. intros E. lia.
Qed.

Lemma eslot_good : forall s ths t th v k, Good s ths -> nth_error ths t = Some th -> tpc th = ESlot v k ->
  Good (set_box s (setz (sver s) (emplace_slot_index v) (emplace_version k)) (ids s ++ [(v, k)])
                ((v, k) :: boxed s) (wins s) (miss s))
       (set_nth t (ret th (held th) (taken th) (REmp v k)) ths).
Proof.
  intros s ths t th v k G Hn Hpc. unfold emplace_slot_index, emplace_version.
  pose proof G as G0. destruct G0.
  destruct (g_thr0 _ _ Hn) as (A & B & P & Qa). rewrite Hpc in P. simpl in P. destruct P as (P1 & P2 & P3).
  assert (Hv : In v (owned_thread th)). { apply pc_owned_in. rewrite Hpc. now left. }
  destruct (excl_thread s ths t th v g_cnt0 Hn (proj1 (owned_in _ _) Hv)) as (Rv & Nfl & Nb & O1 & Oth).
  unfold ocnt, owned_thread in O1. rewrite Hpc in O1. simpl in O1. rewrite !cnt_app, cnt_cons, c1_same in O1.
  refine (good_intro s ths t th _ _ G Hn _ _ _ _ _ _ _ _ _ _ _ _); simpl.
  - intros w. unfold ocnt, owned_thread, cntb, inrange. simpl. rewrite Hpc. simpl.
    repeat (rewrite ?cnt_app, ?cnt_cons, ?cnt_nil). lia.
  - exact g_chain0.
  - auto.
  - intros x Hx. pose proof (fl_range _ _ G x Hx). rewrite getz_setz_other; auto; try lia. intro; subst; auto.
  - intros x Hx. rewrite getz_setz_other; auto; try lia.
  - intros x kx [E|Hi].
    + inversion E; subst. rewrite getz_setz_same. auto.
    + destruct (excl_box s ths x kx g_cnt0 Hi) as (Rx & _). destruct (g_boxed0 _ _ Hi) as (?&?&?).
      rewrite getz_setz_other; auto; try lia. intro; subst. apply in_map_fst in Hi. apply cnt_in in Hi. unfold cntb in Nb. lia.
  - intros x kx Hi. destruct (g_wins0 _ _ Hi) as [W0 W1]. split; auto. destruct (Z.eq_dec x v).
    + subst. rewrite getz_setz_same. lia.
    + rewrite getz_setz_other; auto; lia.
  - intros i Hi. apply in_app_or in Hi. destruct Hi as [Hi|[E|[]]].
    + destruct (g_ids0 _ Hi); auto.
    + subst. right. now left.
  - auto.
  - auto.
  - assert (Hx : In v (pc_owned (tpc th))) by (rewrite Hpc; now left).
    pose proof (lists_other_than_pc s ths t th v G Hn Hx) as L. split; [|split; [|split]]; simpl; auto.
    + intros x kx Hi. destruct (A _ _ Hi). destruct (L x) as (?&?&?); [left; eapply in_map_fst; eauto|].
      rewrite getz_setz_other; auto.
    + intros x kx Hi. destruct (B _ _ Hi). destruct (L x) as (?&?&?); [right; left; eapply in_map_fst; eauto|].
      rewrite getz_setz_other; auto.
    + intros x Hi. destruct (Qa _ Hi). destruct (L x) as (?&?&?); [right; right; auto|]. rewrite getz_setz_other; auto.
  - intros t0 th0 Hne Hn0. apply (others_frame s _ ths t0); auto. simpl. intros x Hx.
    destruct (excl_thread s ths t0 th0 x g_cnt0 Hn0 (proj1 (owned_in _ _) Hx)) as (Rx & _).
    rewrite getz_setz_other; auto; try lia. intro; subst. pose proof (Oth t0 th0 Hne Hn0). apply owned_in in Hx. lia.
Qed.

Lemma in_acc_values_set : forall h x l v, In v (acc_values (set_acc h x l)) ->
  (fst x = true /\ v = fst (snd x)) \/ In v (acc_values l).
Proof.
  intros h x l v Hi. apply cnt_in in Hi. pose proof (cnt_acc_set v h x l) as E.
  destruct (fst x) eqn:Fx.
  - destruct (Z.eq_dec (fst (snd x)) v); [left; split; auto|]. right. apply cnt_in. unfold cav in E. rewrite Fx in E.
    rewrite (c1_diff (fst (snd x)) v) in E by auto. lia.
  - right. apply cnt_in. unfold cav in E. rewrite Fx in E. lia.
Qed.

(* a successful take_released CAS on (v,kk): the shared part, for any way the taking thread keeps the slot *)
Lemma take_ok_gen : forall s ths t th v kk, Good s ths -> nth_error ths t = Some th ->
  In (v, kk) (ids s) -> getz (sver s) (take_slot_index v) = take_expected kk ->
  let s' := set_box s (setz (sver s) (take_slot_index v) (wrapk c (take_desired kk))) (ids s)
                    (remove_v v (boxed s)) ((v, kk) :: wins s) (miss s) in
  (* what the thread's lists look like in the new shared state *)
  ((forall x kx, In (x, kx) (held th) -> getz (nxt s') x = ACT /\ getz (sver s') x <= hk s') /\
   (forall x kx, In (x, kx) (taken th) -> getz (nxt s') x = ACT /\ getz (sver s') x <= hk s' + 1) /\
   (forall x, In x (acc_values (accs th)) -> getz (nxt s') x = ACT /\ getz (sver s') x <= hk s' + 1) /\
   (getz (nxt s') v = ACT /\ getz (sver s') v <= hk s' + 1)) /\
  (forall th', (forall w, ocnt w th' = (ocnt w th + c1 v w)%nat) -> TI s' th' -> Good s' (set_nth t th' ths)).
Proof.
  intros s ths t th v kk G Hn Hid Hcas s'. unfold s'. clear s'. rewrite wrapk_id.
  unfold take_slot_index, take_expected, take_desired in *.
  pose proof G as G0. destruct G0.
  destruct (g_thr0 _ _ Hn) as (A & B & _ & Qa).
  assert (Hb : In (v, kk) (boxed s)).
  { destruct (g_ids0 _ Hid) as [W|Bx]; auto. destruct (g_wins0 _ _ W). lia. }
  destruct (excl_box s ths v kk g_cnt0 Hb) as (Rv & Nfl & Cb & Oall).
  destruct (g_boxed0 _ _ Hb) as (B1 & B2 & B3).
  pose proof (cnt_remove_v (boxed s) v) as CR. specialize (fun w => CR w (in_map_fst _ _ _ Hb)).
  assert (Nrem : forall x kx, In (x, kx) (remove_v v (boxed s)) -> x <> v).
  { intros x kx Hi Ex. subst x. apply in_map_fst in Hi. apply cnt_in in Hi. specialize (CR v). rewrite c1_same in CR.
    unfold cntb in Cb. lia. }
  assert (Hown : forall t0 th0 x, nth_error ths t0 = Some th0 -> In x (owned_thread th0) -> 0 <= x /\ x <> v).
  { intros t0 th0 x Hn0 Hx. destruct (excl_thread s ths t0 th0 x g_cnt0 Hn0 (proj1 (owned_in _ _) Hx)) as (Rx & _).
    split; [lia|]. intro; subst. pose proof (Oall t0 th0 Hn0). apply owned_in in Hx. lia. }
  split.
  { simpl. split; [|split; [|split]].
    - intros x kx Hi. destruct (A _ _ Hi). destruct (Hown t th x Hn (held_owned _ _ _ Hi)). split; auto.
      rewrite getz_setz_other; auto; lia.
    - intros x kx Hi. destruct (B _ _ Hi). destruct (Hown t th x Hn (taken_owned _ _ _ Hi)). split; auto.
      rewrite getz_setz_other; auto; lia.
    - intros x Hi. destruct (Qa _ Hi). destruct (Hown t th x Hn (acc_owned _ _ Hi)). split; auto.
      rewrite getz_setz_other; auto; lia.
    - rewrite getz_setz_same. split; auto. lia. }
  intros th' Hc HT.
  refine (good_intro s ths t th _ _ G Hn _ _ _ _ _ _ _ _ _ _ _ _); simpl.
  - intros w. rewrite Hc. unfold cntb, inrange. simpl. specialize (CR w). unfold id in *. lia.
  - exact g_chain0.
  - auto.
  - intros x Hx. pose proof (fl_range _ _ G x Hx). rewrite getz_setz_other; auto; try lia. intro; subst; auto.
  - intros x Hx. rewrite getz_setz_other; auto; try lia.
  - intros x kx Hi. pose proof (Nrem _ _ Hi). apply in_remove_v in Hi.
    destruct (excl_box s ths x kx g_cnt0 Hi) as (Rx & _). rewrite getz_setz_other; auto; try lia.
  - intros x kx [E|Hi].
    + inversion E; subst. rewrite getz_setz_same. lia.
    + destruct (g_wins0 _ _ Hi) as [W0 W1]. split; auto. destruct (Z.eq_dec x v).
      * subst. rewrite getz_setz_same. lia.
      * rewrite getz_setz_other; auto; lia.
  - intros [x kx] Hi. destruct (g_ids0 _ Hi) as [W|Bx]; [left; now right|].
    destruct (Z.eq_dec x v).
    + subst. destruct (g_boxed0 _ _ Bx) as (E & _). left. left. f_equal. lia.
    + right. apply in_remove_v_other; auto.
  - auto.
  - constructor; auto. intro W. destruct (g_wins0 _ _ W). lia.
  - exact HT.
  - intros t0 th0 Hne Hn0. apply (others_frame s _ ths t0); auto. simpl. intros x Hx.
    destruct (Hown t0 th0 x Hn0 Hx). rewrite getz_setz_other; auto; lia.
Qed.

Lemma take_ok_good : forall s ths t th v kk, Good s ths -> nth_error ths t = Some th -> tpc th = Idle ->
  In (v, kk) (ids s) -> getz (sver s) (take_slot_index v) = take_expected kk ->
  Good (set_box s (setz (sver s) (take_slot_index v) (wrapk c (take_desired kk))) (ids s)
                (remove_v v (boxed s)) ((v, kk) :: wins s) (miss s))
       (set_nth t (ret th (held th) (taken th ++ [(v, kk)]) (RTake true)) ths).
Proof.
  intros s ths t th v kk G Hn Hpc Hid Hcas.
  destruct (take_ok_gen s ths t th v kk G Hn Hid Hcas) as ((L1 & L2 & L3 & L4) & Hgen). apply Hgen.
  - intros w. unfold ocnt, owned_thread. simpl. rewrite Hpc. simpl.
    repeat (rewrite ?map_app, ?cnt_app, ?cnt_cons, ?cnt_nil). simpl. repeat (rewrite ?cnt_cons, ?cnt_nil). unfold id in *. lia.
  - split; [|split; [|split]]; simpl; auto.
    intros x kx Hi. apply in_app_or in Hi. destruct Hi as [Hi|[E|[]]]; eauto. inversion E; subst. exact L4.
Qed.

(* a failed take_released CAS: only the ghost flag may change *)
Lemma take_fail_gen : forall s ths t th v kk, Good s ths -> nth_error ths t = Some th ->
  In (v, kk) (ids s) -> getz (sver s) (take_slot_index v) <> take_expected kk ->
  let s' := set_box s (sver s) (ids s) (boxed s) (wins s) (miss s || negb (mem_id (v, kk) (wins s))) in
  forall th', (forall w, ocnt w th' = ocnt w th) -> TI s th' -> Good s' (set_nth t th' ths).
Proof.
  intros s ths t th v kk G Hn Hid Hcas s' th' Hc HT. unfold s'. unfold take_slot_index, take_expected in *.
  pose proof G as G0. destruct G0. destruct (g_thr0 _ _ Hn) as (A & B & _ & Qa).
  assert (W : In (v, kk) (wins s)).
  { destruct (g_ids0 _ Hid) as [W|Bx]; auto. destruct (g_boxed0 _ _ Bx). congruence. }
  refine (good_intro s ths t th _ _ G Hn _ _ _ _ _ _ _ _ _ _ _ _); simpl; auto;
    try (intros w; rewrite Hc; unfold cntb, inrange; simpl; lia);
    try (rewrite g_miss0, (mem_id_in _ _ W); reflexivity).
  intros t0 th0 Hne Hn0. apply (others_frame s _ ths t0); auto.
Qed.

Lemma take_fail_good : forall s ths t th v kk, Good s ths -> nth_error ths t = Some th -> tpc th = Idle ->
  In (v, kk) (ids s) -> getz (sver s) (take_slot_index v) <> take_expected kk ->
  Good (set_box s (sver s) (ids s) (boxed s) (wins s) (miss s || negb (mem_id (v, kk) (wins s))))
       (set_nth t (ret th (held th) (taken th) (RTake false)) ths).
Proof.
  intros s ths t th v kk G Hn Hpc Hid Hcas. destruct (g_thr _ _ G _ _ Hn) as (A & B & _ & Qa).
  apply (take_fail_gen s ths t th v kk); auto.
  - intros w. unfold ocnt, owned_thread. simpl. now rewrite Hpc.
  - split; [|split; [|split]]; simpl; auto.
Qed.

(* ---- accessor operations ---- *)
Lemma acc_values_sub_set2 : forall h g a b l v, fst a = true -> In (fst (snd a)) (acc_values l) \/ True ->
  In v (acc_values (set_acc g b (set_acc h a l))) ->
  (fst b = true /\ v = fst (snd b)) \/ (fst a = true /\ v = fst (snd a)) \/ In v (acc_values l).
Proof.
  intros h g a b l v _ _ Hi. apply in_acc_values_set in Hi. destruct Hi as [Hb|Hi]; [now left|].
  apply in_acc_values_set in Hi. destruct Hi as [Ha|Hi]; auto.
Qed.

Lemma TI_local : forall s th p a', TI s th -> TIpc s p ->
  (forall v, In v (acc_values a') -> In v (acc_values (accs th))) ->
  forall pg rs fb, TI s {| prog := pg; tpc := p; held := held th; taken := taken th; accs := a'; results := rs; fbase := fb |}.
Proof.
  intros s th p a' (A & B & _ & Qa) P Hsub pg rs fb. split; [|split; [|split]]; simpl; auto.
Qed.

(* the part of an OAcTake step after the CAS: holder h := (ok, id), the temporary = old content of holder h dies *)
Definition after_take (th : thread) (h : nat) (ok : bool) (i : id) : thread :=
  push_res (set_accs th (set_acc h (ok, i) (accs th))) (RTake ok).

Lemma acctake_thread : forall s' th h ok v kk, tpc th = Idle ->
  let old := get_acc (accs th) h in
  let th1 := after_take th h ok (v, kk) in
  let th' := if fst old then goto th1 (DLoad (fst (snd old))) else pop_op th1 in
  (* the thread's lists are fine in s' *)
  (forall x kx, In (x, kx) (held th) -> getz (nxt s') x = ACT /\ getz (sver s') x <= hk s') ->
  (forall x kx, In (x, kx) (taken th) -> getz (nxt s') x = ACT /\ getz (sver s') x <= hk s' + 1) ->
  (forall x, In x (acc_values (accs th)) -> getz (nxt s') x = ACT /\ getz (sver s') x <= hk s' + 1) ->
  (ok = true -> getz (nxt s') v = ACT /\ getz (sver s') v <= hk s' + 1) ->
  (forall w, ocnt w th' = (ocnt w th + (if ok then c1 v w else O))%nat) /\ TI s' th'.
Proof.
  intros s' th h ok v kk Hpc old th1 th' L1 L2 L3 L4.
  assert (Hval : forall x, In x (acc_values (set_acc h (ok, (v, kk)) (accs th))) ->
                 getz (nxt s') x = ACT /\ getz (sver s') x <= hk s' + 1).
  { intros x Hi. apply in_acc_values_set in Hi. destruct Hi as [[Eo Ex]|Hi]; auto. simpl in *. subst. auto. }
  split.
  - intros w. pose proof (cnt_acc_set w h (ok, (v, kk)) (accs th)) as E. fold old in E.
    unfold th', th1, after_take, ocnt, owned_thread. unfold cav in E. simpl in E.
    destruct (fst old) eqn:Fo; simpl; rewrite Hpc; simpl; repeat (rewrite ?cnt_app, ?cnt_cons, ?cnt_nil).
    + unfold acc, id in *. destruct ok; lia.
    + unfold acc, id in *. destruct ok; lia.
  - unfold th'. destruct (fst old) eqn:Fo.
    + split; [|split; [|split]]; simpl; auto. apply L3. unfold old. apply armed_in_values. exact Fo.
    + split; [|split; [|split]]; simpl; auto.
Qed.

Lemma accmove_good : forall s ths t th h g, Good s ths -> nth_error ths t = Some th -> tpc th = Idle -> h <> g ->
  Good s (set_nth t (ret (set_accs th (set_acc g (get_acc (accs th) h) (set_acc h (get_acc (accs th) g) (accs th))))
                         (held th) (taken th) RAcc) ths).
Proof.
  intros s ths t th h g G Hn Hpc Hne. pose proof (g_thr _ _ G _ _ Hn) as HT. pose proof HT as (A & B & _ & Qa).
  apply (good_local s ths t th); auto.
  - intros w. unfold ocnt, owned_thread. simpl. rewrite Hpc. simpl.
    pose proof (cnt_acc_set w g (get_acc (accs th) h) (set_acc h (get_acc (accs th) g) (accs th))) as E1.
    rewrite get_set_acc_other in E1 by auto.
    pose proof (cnt_acc_set w h (get_acc (accs th) g) (accs th)) as E2.
    repeat (rewrite ?cnt_app, ?cnt_cons, ?cnt_nil). lia.
  - apply (TI_local s th Idle); simpl; auto. intros v Hi.
    apply in_acc_values_set in Hi. destruct Hi as [[F E]|Hi]; [subst; now apply armed_in_values|].
    apply in_acc_values_set in Hi. destruct Hi as [[F E]|Hi]; [subst; now apply armed_in_values|auto].
Qed.

Lemma accctor_good : forall s ths t th h g, Good s ths -> nth_error ths t = Some th -> tpc th = Idle -> h <> g ->
  fst (get_acc (accs th) h) = false ->
  Good s (set_nth t (do_ctor th h g) ths).
Proof.
  intros s ths t th h g G Hn Hpc Hne Hempty. pose proof (g_thr _ _ G _ _ Hn) as HT. pose proof HT as (A & B & _ & Qa).
  unfold do_ctor. rewrite acc_ctor_spec. apply (good_local s ths t th); auto.
  - intros w. unfold ocnt, owned_thread. simpl. rewrite Hpc. simpl.
    pose proof (cnt_acc_set w g (false, snd (get_acc (accs th) g)) (set_acc h (get_acc (accs th) g) (accs th))) as E1.
    rewrite get_set_acc_other in E1 by auto.
    pose proof (cnt_acc_set w h (get_acc (accs th) g) (accs th)) as E2.
    unfold cav in *. rewrite Hempty in E2. simpl in E1.
    repeat (rewrite ?cnt_app, ?cnt_cons, ?cnt_nil). lia.
  - apply (TI_local s th Idle); simpl; auto. intros v Hi.
    apply in_acc_values_set in Hi. destruct Hi as [[F E]|Hi]; [simpl in F; discriminate|].
    apply in_acc_values_set in Hi. destruct Hi as [[F E]|Hi]; [subst; now apply armed_in_values|auto].
Qed.

Lemma accdrop_good : forall s ths t th h, Good s ths -> nth_error ths t = Some th -> tpc th = Idle ->
  fst (get_acc (accs th) h) = true ->
  Good (inc_fin s) (set_nth t (with_base (cont (set_accs th (set_acc h empty_acc (accs th)))
                                   (FStore (fst (snd (get_acc (accs th) h))) (hv s) (hk s)) (held th) (taken th)) (hk s)) ths).
Proof.
  intros s ths t th h G Hn Hpc Harm. pose proof (g_thr _ _ G _ _ Hn) as HT. pose proof HT as (A & B & _ & Qa).
  apply good_inc_fin. apply (good_local s ths t th); auto.
  - intros w. unfold ocnt, owned_thread. simpl. rewrite Hpc. simpl.
    pose proof (cnt_acc_set w h empty_acc (accs th)) as E. unfold cav in E. rewrite Harm in E. simpl in E.
    repeat (rewrite ?cnt_app, ?cnt_cons, ?cnt_nil). lia.
  - apply (TI_local s th); simpl; auto.
    + split; [lia|]. apply Qa. now apply armed_in_values.
    + intros v Hi. apply in_acc_values_set in Hi. destruct Hi as [[F E]|Hi]; [simpl in F; discriminate|auto].
Qed.

Lemma dload_good : forall s ths t th v, Good s ths -> nth_error ths t = Some th -> tpc th = DLoad v ->
  Good s (set_nth t (with_base (goto th (FStore v (hv s) (hk s))) (hk s)) ths).
Proof.
  intros s ths t th v G Hn Hpc. pose proof (g_thr _ _ G _ _ Hn) as HT. pose proof HT as (A & B & P & Qa).
  rewrite Hpc in P. simpl in P. apply (good_local s ths t th); auto.
  - intros w. unfold ocnt, owned_thread. simpl. now rewrite Hpc.
  - apply TI_goto_same; auto. simpl. split; [lia|auto].
Qed.

Lemma tstep_good : forall s ths t th s' th', Good s ths -> nv s <= ACT -> nth_error ths t = Some th ->
  tstep c s th = Some (s', th') -> Good s' (set_nth t th' ths).
Proof.
  intros s ths t th s' th' G Hnv Hn Hs. unfold tstep in Hs.
  pose proof (g_thr _ _ G _ _ Hn) as (TA & TB & TP & TQ).
  destruct (tpc th) eqn:Hpc; simpl in TP.
  - destruct (prog th) as [|o r] eqn:Hp; [discriminate|]. destruct o.
    + inversion Hs; subst. apply enter_alloc_good; auto. now rewrite Hpc.
    + destruct (nth_error (held th) i) as [[v k]|] eqn:Hi; inversion Hs; subst.
      * eapply free_start_good; eauto.
      * apply skip_good; auto.
    + inversion Hs; subst. apply enter_alloc_good; auto. now rewrite Hpc.
    + destruct (nth_error (ids s) k) as [[v kk]|] eqn:Hk.
      * pose proof (nth_error_In _ _ Hk) as Hin.
        destruct (getz (sver s) (take_slot_index v) =? take_expected kk) eqn:E; inversion Hs; subst.
        -- apply Z.eqb_eq in E. apply take_ok_good; auto.
        -- apply Z.eqb_neq in E. apply take_fail_good; auto.
      * inversion Hs; subst. apply skip_good; auto.
    + destruct (taken th) as [|[v k] r'] eqn:Ht; inversion Hs; subst.
      * rewrite <- Ht. apply skip_good; auto.
      * eapply finish_start_good; eauto.
    + (* OAcTake *)
      destruct (nth_error (ids s) k) as [[v kk]|] eqn:Hk; [|inversion Hs; subst; apply skip_good; auto].
      pose proof (nth_error_In _ _ Hk) as Hin. rewrite !acc_assign_swaps in Hs. rewrite !acc_dtor_fires_spec in Hs.
      unfold dtor_value, finish_value, acc_dtor_arg in Hs.
      destruct (getz (sver s) (take_slot_index v) =? take_expected kk) eqn:E.
      * apply Z.eqb_eq in E.
        destruct (take_ok_gen s ths t th v kk G Hn Hin E) as ((L1 & L2 & L3 & L4) & Hgen).
        destruct (acctake_thread _ th h true v kk Hpc L1 L2 L3 (fun _ => L4)) as [Hc HT].
        destruct (fst (get_acc (accs th) h)) eqn:Fo; inversion Hs; subst.
        -- apply good_inc_fin. apply Hgen; auto.
        -- apply Hgen; auto.
      * apply Z.eqb_neq in E.
        destruct (acctake_thread s th h false v kk Hpc TA TB TQ) as [Hc HT]; [discriminate|].
        destruct (fst (get_acc (accs th) h)) eqn:Fo; inversion Hs; subst.
        -- apply good_inc_fin. apply (take_fail_gen s ths t th v kk); auto. intros w. rewrite Hc. lia.
        -- apply (take_fail_gen s ths t th v kk); auto. intros w. rewrite Hc. lia.
    + (* OAcMove *)
      destruct (Nat.eqb h g) eqn:Ehg.
      * inversion Hs; subst. apply skip_good; auto.
      * apply Nat.eqb_neq in Ehg. rewrite acc_assign_swaps in Hs. inversion Hs; subst. apply accmove_good; auto.
    + (* OAcCtor *)
      destruct (Nat.eqb h g) eqn:Ehg; simpl in Hs; [inversion Hs; subst; apply skip_good; auto|].
      apply Nat.eqb_neq in Ehg.
      destruct (fst (get_acc (accs th) h)) eqn:Fo; inversion Hs; subst; [apply skip_good; auto|].
      apply accctor_good; auto.
    + (* OAcDrop *)
      rewrite acc_dtor_fires_spec in Hs. unfold dtor_value, finish_value, acc_dtor_arg in Hs.
      destruct (fst (get_acc (accs th) h)) eqn:Fo; inversion Hs; subst; [|apply skip_good; auto].
      apply accdrop_good; auto.
  - inversion Hs; subst. eapply loadnext_good; eauto.
  - destruct ((hv s =? cv) && (hk s =? ck)) eqn:E; inversion Hs; subst.
    + apply andb_prop in E. destruct E as [E1 E2]. apply Z.eqb_eq in E1. apply Z.eqb_eq in E2. eapply acas_ok_good; eauto.
    + apply enter_alloc_good; auto. now rewrite Hpc.
  - inversion Hs; subst. unfold pop_mark_index. destruct TP. apply finish_alloc_good; auto. now rewrite Hpc.
  - inversion Hs; subst. apply mint_good; auto.
  - inversion Hs; subst. pose proof (g_pos _ _ G). apply finish_alloc_good; auto; try lia. now rewrite Hpc.
  - inversion Hs; subst. eapply fstore_good; eauto.
  - destruct ((hv s =? cv) && (hk s =? ck)) eqn:E; inversion Hs; subst.
    + apply andb_prop in E. destruct E as [E1 E2]. apply Z.eqb_eq in E1. apply Z.eqb_eq in E2. eapply fcas_ok_good; eauto.
    + eapply fcas_fail_good; eauto.
  - inversion Hs; subst. eapply eslot_good; eauto.
  - inversion Hs; subst. eapply dload_good; eauto.
Qed.

Lemma tstep_nv_mono : forall s th s' th', tstep c s th = Some (s', th') -> nv s <= nv s'.
Proof.
  intros s th s' th' Hs. unfold tstep in Hs.
  destruct (tpc th); repeat match type of Hs with
    | context [match ?x with _ => _ end] => destruct x
    end; inversion Hs; subst; simpl; unfold mint_increment; lia.
Qed.
End Inv.

(* ------------------------------------------------------------------------------- reachability and theorems *)
Definition ACTc (c : cfg) : Z := ACTIVE_FLAG (tail c).
Definition Reach (c : cfg) (progs : list (list op)) (s : st) : Prop := reachable st (step c) (init c progs) s.

Lemma sumf_map_zero : forall A B (g : A -> B) (f : B -> nat) l, (forall a, f (g a) = O) -> sumf f (map g l) = O.
Proof. induction l; simpl; intros H; auto. rewrite H, IHl; auto. Qed.

Lemma init_good : forall c progs, Good c (init_shared c) (map mk_thread progs).
Proof.
  intros c progs. constructor; simpl; auto; try lia; try tauto.
  - intros v. unfold total, cntb, inrange. simpl. rewrite sumf_map_zero by reflexivity.
    destruct (0 <=? v) eqn:A; destruct (v <? 0) eqn:B; simpl; try reflexivity; lia.
  - intros v _. unfold getz. destruct (Z.to_nat v); reflexivity.
  - constructor.
  - intros t th Hn. apply nth_error_In in Hn. apply in_map_iff in Hn. destruct Hn as (p & <- & _).
    split; [|split; [|split]]; simpl; tauto.
Qed.

Lemma step_nv_mono : forall c s t s', step c s t = Some s' -> nv (sh s) <= nv (sh s').
Proof.
  intros c s t s' H. unfold step in H. destruct (nth_error (threads s) t) as [th|]; [|discriminate].
  destruct (tstep c (sh s) th) as [[s1 th1]|] eqn:E; [|discriminate]. inversion H; subst. simpl.
  eapply tstep_nv_mono; eauto.
Qed.

Theorem id_good : forall c progs s, vmod c = 0 -> Reach c progs s -> nv (sh s) <= ACTc c -> Good c (sh s) (threads s).
Proof.
  intros c progs s Hvm HR. revert s HR.
  apply (inv_reachable st (step c) (fun s => nv (sh s) <= ACTc c -> Good c (sh s) (threads s))).
  - intros _. apply init_good.
  - intros s t s' IH Hs Hnv. pose proof (step_nv_mono _ _ _ _ Hs) as Hm. unfold step in Hs.
    destruct (nth_error (threads s) t) as [th|] eqn:Hn; [|discriminate].
    destruct (tstep c (sh s) th) as [[s1 th1]|] eqn:E; [|discriminate]. inversion Hs; subst. simpl in *.
    apply (tstep_good c Hvm (sh s) (threads s) t th s1 th1); auto.
    + apply IH. lia.
    + unfold ACTc in *. lia.
Qed.

(* every value that is on the free list or owned (kept, taken, boxed, or in transit inside allocate/deallocate/emplace) *)
Definition owners (s : st) : list Z := flat_map owned_thread (threads s) ++ map fst (boxed (sh s)).

Lemma cnt_flat_map : forall v ths, cnt v (flat_map owned_thread ths) = sumf (ocnt v) ths.
Proof. induction ths; simpl; auto. rewrite cnt_app, IHths. reflexivity. Qed.

Theorem id_unique_owner : forall c progs s, vmod c = 0 -> Reach c progs s -> nv (sh s) <= ACTc c ->
  NoDup (fl (sh s) ++ owners s).
Proof.
  intros c progs s Hvm HR Hnv. pose proof (id_good c progs s Hvm HR Hnv) as G.
  apply (NoDup_count_occ Z.eq_dec). intros x. pose proof (g_cnt _ _ _ G x) as E. unfold total, cntb in E.
  fold (cnt x (fl (sh s) ++ owners s)). unfold owners. rewrite !cnt_app, cnt_flat_map.
  pose proof (inrange_le1 (sh s) x). lia.
Qed.

Lemma held_values_incl : forall s v, (cnt v (held_values s) <= cnt v (owners s))%nat.
Proof.
  intros s v. unfold held_values, owners. rewrite !cnt_app. apply Nat.add_le_mono_r.
  induction (threads s); simpl; auto. rewrite !cnt_app. unfold owned_thread at 1. rewrite !cnt_app. lia.
Qed.

Theorem id_held_unique : forall c progs s, vmod c = 0 -> Reach c progs s -> nv (sh s) <= ACTc c ->
  NoDup (held_values s) /\ (forall v, In v (held_values s) -> ~ In v (fl (sh s))).
Proof.
  intros c progs s Hvm HR Hnv. pose proof (id_unique_owner c progs s Hvm HR Hnv) as ND.
  rewrite (NoDup_count_occ Z.eq_dec) in ND. split.
  - apply (NoDup_count_occ Z.eq_dec). intros x. specialize (ND x). fold (cnt x (fl (sh s) ++ owners s)) in ND.
    rewrite cnt_app in ND. pose proof (held_values_incl s x). fold (cnt x (held_values s)). lia.
  - intros v Hv Hf. specialize (ND v). fold (cnt v (fl (sh s) ++ owners s)) in ND. rewrite cnt_app in ND.
    apply cnt_in in Hv. apply cnt_in in Hf. pose proof (held_values_incl s v). lia.
Qed.

(* two different threads never own the same value (thread ids of simultaneously live threads differ) *)
Theorem id_threads_disjoint : forall c progs s t1 t2 th1 th2 v, vmod c = 0 -> Reach c progs s -> nv (sh s) <= ACTc c ->
  t1 <> t2 -> nth_error (threads s) t1 = Some th1 -> nth_error (threads s) t2 = Some th2 ->
  In v (owned_thread th1) -> In v (owned_thread th2) -> False.
Proof.
  intros c progs s t1 t2 th1 th2 v Hvm HR Hnv Hne H1 H2 I1 I2. pose proof (id_good c progs s Hvm HR Hnv) as G.
  destruct (excl_thread (sh s) (threads s) t1 th1 v (g_cnt _ _ _ G) H1 (proj1 (owned_in _ _) I1)) as (_ & _ & _ & _ & O).
  specialize (O t2 th2 (not_eq_sym Hne) H2). apply owned_in in I2. lia.
Qed.

(* ABA: whenever the pop CAS of a thread would succeed, the link it read earlier is the current link of the top *)
Theorem id_pop_cas_current : forall c progs s t th cv ck nx, vmod c = 0 -> Reach c progs s -> nv (sh s) <= ACTc c ->
  nth_error (threads s) t = Some th -> tpc th = ACas cv ck nx -> hv (sh s) = cv -> hk (sh s) = ck ->
  getz (nxt (sh s)) cv = nx /\ exists r, fl (sh s) = cv :: r.
Proof.
  intros c progs s t th cv ck nx Hvm HR Hnv Hn Hpc Ehv Ehk. pose proof (id_good c progs s Hvm HR Hnv) as G.
  destruct (g_thr _ _ _ G _ _ Hn) as (_ & _ & P & _). rewrite Hpc in P. simpl in P. destruct P as (P1 & P2 & P3).
  destruct (chain_head c _ _ _ (g_chain _ _ _ G)) as (r & Efl & _). { rewrite Ehv. exact P1. }
  rewrite Ehv in Efl. split; [|eauto]. destruct (P3 (eq_sym Ehk)) as [[_ E]|N]; auto.
  exfalso. apply N. rewrite Efl. now left.
Qed.

(* deposit box *)
Theorem id_one_taker : forall c progs s, vmod c = 0 -> Reach c progs s -> nv (sh s) <= ACTc c ->
  NoDup (wins (sh s)) /\ miss (sh s) = false.
Proof.
  intros c progs s Hvm HR Hnv. pose proof (id_good c progs s Hvm HR Hnv) as G. split; [apply (g_nodup _ _ _ G)|apply (g_miss _ _ _ G)].
Qed.

Theorem id_issued_won_or_boxed : forall c progs s i, vmod c = 0 -> Reach c progs s -> nv (sh s) <= ACTc c ->
  In i (ids (sh s)) -> In i (wins (sh s)) \/ (In i (boxed (sh s)) /\ getz (sver (sh s)) (fst i) = snd i).
Proof.
  intros c progs s [v k] Hvm HR Hnv Hi. pose proof (id_good c progs s Hvm HR Hnv) as G.
  destruct (g_ids _ _ _ G _ Hi) as [W|B]; auto. right. split; auto. simpl. destruct (g_boxed _ _ _ G _ _ B). auto.
Qed.

Lemma tstep_wins_mono : forall c s th s' th', tstep c s th = Some (s', th') -> incl (wins s) (wins s').
Proof.
  intros c s th s' th' Hs. unfold tstep in Hs.
  destruct (tpc th); repeat match type of Hs with
    | context [match ?x with _ => _ end] => destruct x
    end; inversion Hs; subst; simpl; try apply incl_refl; try (apply incl_tl, incl_refl).
Qed.
Lemma run_wins_mono : forall c sch s, incl (wins (sh s)) (wins (sh (run st (step c) s sch))).
Proof.
  intros c sch. induction sch as [|t r IH]; intros s; simpl; [apply incl_refl|].
  eapply incl_tran; [|apply IH]. unfold step_or_stay, step.
  destruct (nth_error (threads s) t) as [th|]; [|apply incl_refl].
  destruct (tstep c (sh s) th) as [[s1 th1]|] eqn:E; [|apply incl_refl]. simpl. eapply tstep_wins_mono; eauto.
Qed.

Lemma reach_run : forall c progs s sch, Reach c progs s -> Reach c progs (run st (step c) s sch).
Proof. intros c progs s sch [sch0 <-]. exists (sch0 ++ sch). apply run_app. Qed.

(* an id whose item was taken never matches its slot again, whatever happens afterwards *)
Theorem id_stale_never_matches : forall c progs s v k sch, vmod c = 0 -> Reach c progs s -> In (v, k) (wins (sh s)) ->
  let s2 := run st (step c) s sch in nv (sh s2) <= ACTc c -> k < getz (sver (sh s2)) v.
Proof.
  intros c progs s v k sch Hvm HR Hw s2 Hnv. pose proof (reach_run c progs s sch HR) as HR2. fold s2 in HR2.
  pose proof (id_good c progs s2 Hvm HR2 Hnv) as G. apply (g_wins _ _ _ G). apply (run_wins_mono c sch s). exact Hw.
Qed.

(* ------------------------------------------------------------------ every minted value has its link cell (ensure) *)
Lemma length_set_ext : forall n x l, (n < length (set_ext n x l))%nat /\ (length l <= length (set_ext n x l))%nat.
Proof. induction n; intros x l; destruct l; simpl; try lia; destruct (IHn x []); try destruct (IHn x l); simpl in *; lia. Qed.

Definition mint_pending (ths : list thread) (v : Z) : Prop :=
  exists t th, nth_error ths t = Some th /\ tpc th = AMintMark v.
Definition LenInv (s : shared) (ths : list thread) : Prop :=
  forall v, 0 <= v < nv s -> (Z.to_nat v < length (nxt s))%nat \/ mint_pending ths v.

Lemma tstep_shape : forall c s th s' th', tstep c s th = Some (s', th') ->
  (length (nxt s) <= length (nxt s'))%nat /\
  (forall v0, tpc th = AMintMark v0 -> (Z.to_nat v0 < length (nxt s'))%nat) /\
  ((tpc th = AMint /\ nv s' = nv s + 1 /\ tpc th' = AMintMark (nv s)) \/ (tpc th <> AMint /\ nv s' = nv s)).
Proof.
  intros c s th s' th' Hs. unfold tstep in Hs.
  destruct (tpc th) eqn:Hpc;
    repeat match type of Hs with
           | context [match ?x with _ => _ end] => destruct x
           end; inversion Hs; subst; simpl; unfold setz, mint_increment;
    (split; [first [apply Nat.le_refl | apply length_set_ext] |
     split; [intros v0 E; first [discriminate E | inversion E; subst; apply length_set_ext] |
             first [left; repeat split; reflexivity | right; split; [discriminate | reflexivity]]]]).
Qed.

Lemma tstep_len : forall c s ths t th s' th', LenInv s ths -> nth_error ths t = Some th ->
  tstep c s th = Some (s', th') -> LenInv s' (set_nth t th' ths).
Proof.
  intros c s ths t th s' th' I Hn Hs v Hv. destruct (tstep_shape _ _ _ _ _ Hs) as (L1 & L2 & L3).
  assert (Keep : forall w, mint_pending ths w ->
                 (Z.to_nat w < length (nxt s'))%nat \/ mint_pending (set_nth t th' ths) w).
  { intros w (t0 & th0 & N0 & P0). destruct (Nat.eq_dec t0 t) as [->|Hne].
    - rewrite Hn in N0. inversion N0; subst th0. left. apply L2; auto.
    - right. exists t0, th0. split; auto. rewrite nth_error_set_nth_other; auto. }
  destruct L3 as [(Pm & Env & Pm')|(Pm & Env)].
  - destruct (Z.eq_dec v (nv s)) as [->|Hne].
    + right. exists t, th'. split; auto. eapply nth_error_set_nth_same; eauto.
    + destruct (I v) as [Hl|Hp]; [lia|left; lia|]. apply Keep; auto.
  - destruct (I v) as [Hl|Hp]; [lia|left; lia|]. apply Keep; auto.
Qed.

Theorem id_len_inv : forall c progs s, Reach c progs s -> LenInv (sh s) (threads s).
Proof.
  intros c progs. apply (inv_reachable st (step c) (fun s => LenInv (sh s) (threads s))).
  - intros v Hv. simpl in Hv. lia.
  - intros s t s' IH Hs. unfold step in Hs.
    destruct (nth_error (threads s) t) as [th|] eqn:Hn; [|discriminate].
    destruct (tstep c (sh s) th) as [[s1 th1]|] eqn:E; [|discriminate]. inversion Hs; subst. simpl.
    eapply tstep_len; eauto.
Qed.

(* at quiescence the table covers every minted value, so the scan bound of for_each is _next_value *)
Lemma FREE_BLOCK_pos : 0 < FREE_BLOCK.
Proof. reflexivity. Qed.
Lemma capacity_ge_length : forall s, Z.of_nat (length (nxt s)) <= capacity s.
Proof.
  intros s. unfold capacity. pose proof FREE_BLOCK_pos as B. set (n := Z.of_nat (length (nxt s))). set (b := FREE_BLOCK) in *.
  pose proof (Z.mul_succ_div_gt (n + b - 1) b B). lia.
Qed.
Lemma quiescent_bound : forall c progs s, Reach c progs s -> quiescent s = true -> foreach_bound c (sh s) = nv (sh s).
Proof.
  intros c progs s HR Hq. pose proof (id_len_inv c progs s HR) as I.
  assert (Hlen : nv (sh s) <= Z.of_nat (length (nxt (sh s)))).
  { destruct (Z_le_gt_dec (nv (sh s)) 0) as [|Hpos]; [lia|].
    destruct (I (nv (sh s) - 1)) as [Hl|(t & th & N & P)]; [lia|lia|].
    unfold quiescent in Hq. rewrite forallb_forall in Hq. specialize (Hq th (nth_error_In _ _ N)).
    unfold thread_idle in Hq. rewrite P in Hq. discriminate. }
  pose proof (capacity_ge_length (sh s)). unfold foreach_bound, foreach_cap_operand. lia.
Qed.

(* ------------------------------------------------------------------------------------ for_each at quiescence *)
Lemma in_zseq : forall n v, In v (zseq n) <-> 0 <= v < n.
Proof.
  unfold zseq. intros n v. rewrite in_map_iff. split.
  - intros (k & <- & Hk). apply in_seq in Hk. lia.
  - intros H. exists (Z.to_nat v). split; [lia|]. apply in_seq. lia.
Qed.
Lemma chain_next : forall c nx l h, chain c nx h l -> forall x, In x l -> getz nx x = tail c \/ In (getz nx x) l.
Proof.
  induction l; simpl; intros h Hc x Hx; [tauto|]. destruct Hc as [-> Hc]. destruct Hx as [->|Hx].
  - destruct l; simpl in Hc; [now left|]. destruct Hc as [E _]. right. right. left. symmetry. exact E.
  - destruct (IHl _ Hc x Hx); auto.
Qed.
Lemma sumf_pos : forall A (f : A -> nat) l, (sumf f l >= 1)%nat -> exists a, In a l /\ (f a >= 1)%nat.
Proof.
  induction l; simpl; intros H; [lia|]. destruct (f a) eqn:E.
  - destruct IHl as (b & Hb & Hf); [lia|]. exists b. split; auto.
  - exists a. split; auto. lia.
Qed.
Lemma forallb_nth : forall A (p : A -> bool) l t a, forallb p l = true -> nth_error l t = Some a -> p a = true.
Proof. intros A p l t a H Hn. rewrite forallb_forall in H. apply H. eapply nth_error_In; eauto. Qed.

Theorem id_for_each_exact : forall c progs s, vmod c = 0 -> Reach c progs s -> nv (sh s) <= ACTc c ->
  quiescent s = true -> forall v, In v (live c (sh s)) <-> In v (held_values s).
Proof.
  intros c progs s Hvm HR Hnv Hq v. pose proof (id_good c progs s Hvm HR Hnv) as G. unfold live, held_values.
  rewrite (quiescent_bound c progs s HR Hq). rewrite filter_In, in_zseq, Z.eqb_eq. split.
  - intros [Hr Ha]. pose proof (g_cnt _ _ _ G v) as E. rewrite (proj2 (inrange_1 _ _) Hr) in E. unfold total in E.
    destruct (In_dec Z.eq_dec v (fl (sh s))) as [Hf|Hf].
    { exfalso. pose proof ACT_lt_tail c. unfold ACTc in *.
      destruct (chain_next c _ _ _ (g_chain _ _ _ G) v Hf) as [T|I]; [lia|].
      pose proof (fl_range c _ _ G _ I). lia. }
    apply in_or_app. destruct (In_dec Z.eq_dec v (map fst (boxed (sh s)))) as [Hb|Hb]; [now right|]. left.
    apply cnt_notin in Hf. apply cnt_notin in Hb. unfold cntb in E.
    destruct (sumf_pos _ (ocnt v) (threads s)) as (th & Hth & Ho); [lia|].
    apply in_flat_map. exists th. split; auto. apply owned_in in Ho. unfold owned_thread in Ho.
    unfold quiescent in Hq. rewrite forallb_forall in Hq. specialize (Hq th Hth). unfold thread_idle in Hq.
    destruct (tpc th); try discriminate. simpl in Ho. exact Ho.
  - intros Hi. apply in_app_or in Hi. destruct Hi as [Hi|Hi].
    + apply in_flat_map in Hi. destruct Hi as (th & Hth & Hv). destruct (In_nth_error _ _ Hth) as (t & Hn).
      destruct (g_thr _ _ _ G _ _ Hn) as (A & B & _ & Qa).
      assert (Ho : In v (owned_thread th)).
      { unfold owned_thread. apply in_app_or in Hv. destruct Hv as [Hv|Hv]; [apply in_or_app; left; auto|].
        apply in_app_or in Hv. apply in_or_app. right. apply in_or_app. destruct Hv; [left; auto|right].
        apply in_or_app. now right. }
      destruct (excl_thread (sh s) (threads s) t th v (g_cnt _ _ _ G) Hn (proj1 (owned_in _ _) Ho)) as (R & _).
      split; auto. apply in_app_or in Hv. destruct Hv as [Hv|Hv].
      * apply in_map_iff in Hv. destruct Hv as ([x k] & <- & Hxk). simpl. destruct (A _ _ Hxk); auto.
      * apply in_app_or in Hv. destruct Hv as [Hv|Hv].
        -- apply in_map_iff in Hv. destruct Hv as ([x k] & <- & Hxk). simpl. destruct (B _ _ Hxk); auto.
        -- destruct (Qa _ Hv); auto.
    + apply in_map_iff in Hi. destruct Hi as ([x k] & <- & Hxk). simpl.
      destruct (excl_box (sh s) (threads s) x k (g_cnt _ _ _ G) Hxk) as (R & _). split; auto.
      destruct (g_boxed _ _ _ G _ _ Hxk) as (_ & _ & E). exact E.
Qed.

(* --------------------------------------------------------------------------------------- reuse when quiet *)
Lemma set_nth_set_nth : forall A (l : list A) t a b, set_nth t b (set_nth t a l) = set_nth t b l.
Proof. induction l; intros t a0 b; destruct t; simpl; auto. now rewrite IHl. Qed.

Lemma step_eq : forall c s t th s1 th1, nth_error (threads s) t = Some th -> tstep c (sh s) th = Some (s1, th1) ->
  step_or_stay st (step c) s t = {| sh := s1; threads := set_nth t th1 (threads s) |}.
Proof. intros c s t th s1 th1 Hn Hs. unfold step_or_stay, step. now rewrite Hn, Hs. Qed.

Lemma reuse_core : forall c s t th x rest r,
  hv (sh s) = x -> (x =? tail c) = false ->
  nth_error (threads s) t = Some th -> tpc th = Idle -> prog th = OAlloc :: r -> fl (sh s) = x :: rest ->
  let s' := run st (step c) s [t; t; t; t] in
  nv (sh s') = nv (sh s) /\ fl (sh s') = rest /\
  exists th', nth_error (threads s') t = Some th' /\ tpc th' = Idle /\ prog th' = r /\
              held th' = (x, hk (sh s)) :: held th /\ results th' = RId x (hk (sh s)) :: results th.
Proof.
  intros c s t th x rest r Ehv Hx Hn Hpc Hp Hfl.
  set (k0 := hk (sh s)). set (nx := getz (nxt (sh s)) x).
  set (s1 := {| sh := sh s; threads := set_nth t (goto th (ALoadNext x k0)) (threads s) |}).
  set (s2 := {| sh := sh s; threads := set_nth t (goto th (ACas x k0 nx)) (threads s) |}).
  set (sh3 := set_head (sh s) nx (wrapk c k0) (tl (fl (sh s)))).
  set (s3 := {| sh := sh3; threads := set_nth t (goto th (AMark x k0)) (threads s) |}).
  set (s4 := {| sh := set_nxt sh3 x (ACTIVE_FLAG (tail c));
                threads := set_nth t (ret th ((x, k0) :: held th) (taken th) (RId x k0)) (threads s) |}).
  assert (E1 : step_or_stay st (step c) s t = s1).
  { apply (step_eq c s t th). auto. unfold tstep. rewrite Hpc, Hp. unfold enter_alloc, alloc_nonempty. rewrite Ehv, Hx. reflexivity. }
  assert (E2 : step_or_stay st (step c) s1 t = s2).
  { rewrite (step_eq c s1 t (goto th (ALoadNext x k0)) (sh s) (goto th (ACas x k0 nx))).
    - unfold s2, s1. simpl. now rewrite set_nth_set_nth.
    - simpl. eapply nth_error_set_nth_same; eauto.
    - reflexivity. }
  assert (E3 : step_or_stay st (step c) s2 t = s3).
  { rewrite (step_eq c s2 t (goto th (ACas x k0 nx)) sh3 (goto th (AMark x k0))).
    - unfold s3, s2. simpl. now rewrite set_nth_set_nth.
    - simpl. eapply nth_error_set_nth_same; eauto.
    - unfold tstep. simpl. rewrite Ehv. unfold k0. rewrite !Z.eqb_refl. reflexivity. }
  assert (E4 : step_or_stay st (step c) s3 t = s4).
  { rewrite (step_eq c s3 t (goto th (AMark x k0)) (set_nxt sh3 x (ACTIVE_FLAG (tail c)))
                     (ret th ((x, k0) :: held th) (taken th) (RId x k0))).
    - unfold s4, s3. simpl. now rewrite set_nth_set_nth.
    - simpl. eapply nth_error_set_nth_same; eauto.
    - unfold tstep. simpl. unfold finish_alloc, pop_mark_index. simpl. rewrite Hp. reflexivity. }
  cbn [run]. rewrite E1, E2, E3, E4. simpl. rewrite Hfl. simpl. split; [reflexivity|]. split; [reflexivity|].
  eexists. split; [eapply nth_error_set_nth_same; eauto|]. simpl. rewrite Hp. repeat split.
Qed.

Theorem id_reuse_when_quiet : forall c progs s t th x rest r, vmod c = 0 -> Reach c progs s -> nv (sh s) <= ACTc c ->
  nth_error (threads s) t = Some th -> tpc th = Idle -> prog th = OAlloc :: r -> fl (sh s) = x :: rest ->
  let s' := run st (step c) s [t; t; t; t] in
  nv (sh s') = nv (sh s) /\ fl (sh s') = rest /\
  exists th', nth_error (threads s') t = Some th' /\ tpc th' = Idle /\ prog th' = r /\
              held th' = (x, hk (sh s)) :: held th /\ results th' = RId x (hk (sh s)) :: results th.
Proof.
  intros c progs s t th x rest r Hvm HR Hnv Hn Hpc Hp Hfl. pose proof (id_good c progs s Hvm HR Hnv) as G.
  assert (Ehv : hv (sh s) = x). { pose proof (g_chain _ _ _ G) as Hc. rewrite Hfl in Hc. simpl in Hc. tauto. }
  assert (Hx : (x =? tail c) = false).
  { apply Z.eqb_neq. pose proof (fl_range c _ _ G x). rewrite Hfl in H. specialize (H (or_introl eq_refl)).
    pose proof (ACT_lt_tail c). unfold ACTc in *. lia. }
  eapply reuse_core; eauto.
Qed.

(* ---------------------------------------------------------------- the real 16-bit version: ABA after 2^16 pushes *)
Fixpoint nodupb (l : list Z) : bool :=
  match l with [] => true | x :: r => negb (existsb (Z.eqb x) r) && nodupb r end.
Lemma nodupb_complete : forall l, NoDup l -> nodupb l = true.
Proof.
  induction 1 as [|x l Hn ND IH]; simpl; auto. rewrite IH, andb_true_r. apply negb_true_iff.
  destruct (existsb (Z.eqb x) l) eqn:E; auto. apply existsb_exists in E. destruct E as (y & Hy & Exy).
  apply Z.eqb_eq in Exy. subst. contradiction.
Qed.

Definition c16 : cfg := {| tail := 65535; vmod := 65536 |}.
(* thread 0 prepares free list [0;1] with head version 2; thread 1 is the allocate that stalls between its two
   loads and its CAS; thread 2 takes 0 and 1, gives 0 back and then cycles allocate/deallocate n times *)
Definition wrap_progs (n : nat) : list (list op) :=
  [ [OAlloc; OAlloc; OFree 0; OFree 0]; [OAlloc; OAlloc];
    OAlloc :: OAlloc :: OFree 1 :: concat (repeat [OAlloc; OFree 0] n) ].
Definition wrap_sched (n : nat) : list nat :=
  repeat 0%nat 20 ++ [1%nat; 1%nat] ++ repeat 2%nat (7 * (n + 2)) ++ repeat 1%nat 12.
Definition wrap_final (n : nat) : st := run st (step c16) (init c16 (wrap_progs n)) (wrap_sched n).

Lemma id_unique_owner_refuted :
  exists progs sch, let s := run st (step c16) (init c16 progs) sch in
    nv (sh s) <= ACTc c16 /\ ~ NoDup (held_values s).
Proof.
  exists (wrap_progs (Z.to_nat 65535)), (wrap_sched (Z.to_nat 65535)). cbv zeta. split.
  - vm_compute. discriminate.
  - intro ND. apply nodupb_complete in ND. revert ND. vm_compute. discriminate.
Qed.
(* one push fewer: nothing happens - the window has to be hit exactly *)
Lemma id_wrap_control : nodupb (held_values (wrap_final (Z.to_nat 65534))) = true.
Proof. vm_compute. reflexivity. Qed.

(* ------------------------------------------------------------------------------------------- non-vacuity *)
Definition cU : cfg := {| tail := 65535; vmod := 0 |}.
Definition ex_progs : list (list op) :=
  [ [OAlloc; OAlloc; OFree 0; OFree 0]; [OAlloc]; [OAlloc; OAlloc; OFree 1] ].
(* a pop whose CAS is pending while head (value, version) still match *)
Lemma id_example_cas_pending : exists s th, Reach cU ex_progs s /\ nv (sh s) <= ACTc cU /\
  nth_error (threads s) 1 = Some th /\ tpc th = ACas 0 2 1 /\ hv (sh s) = 0 /\ hk (sh s) = 2 /\ fl (sh s) = [0; 1].
Proof.
  eexists. eexists. split; [exists (repeat 0%nat 20 ++ [1%nat; 1%nat]); reflexivity|]. vm_compute.
  repeat split; try reflexivity. discriminate.
Qed.
(* the ABA situation: same head value 0 as the stalled pop read, other version, other link *)
Lemma id_example_aba : exists s th, Reach cU ex_progs s /\
  nth_error (threads s) 1 = Some th /\ tpc th = ACas 0 2 1 /\ hv (sh s) = 0 /\ hk (sh s) = 3 /\
  getz (nxt (sh s)) 0 = 65535 /\ held_values s = [1].
Proof.
  eexists. eexists. split; [exists (repeat 0%nat 20 ++ [1%nat; 1%nat] ++ repeat 2%nat 11); reflexivity|]. vm_compute.
  repeat split; reflexivity.
Qed.
Definition ex_box : list (list op) := [ [OEmplace; OTake 0; OFinish; OEmplace]; [OTake 0; OTake 1] ].
(* a reused slot: two ids with value 0, the first one won, the second one in the box *)
Lemma id_example_box : exists s, Reach cU ex_box s /\ nv (sh s) <= ACTc cU /\ quiescent s = true /\
  ids (sh s) = [(0, 0); (0, 1)] /\ wins (sh s) = [(0, 0)] /\ boxed (sh s) = [(0, 1)] /\ live cU (sh s) = [0].
Proof.
  eexists. split; [exists (repeat 0%nat 30); reflexivity|]. vm_compute. repeat split; try reflexivity. discriminate.
Qed.

(* ---------------------------------------------------------------- the head version is a push counter (unbounded) *)
(* every step either leaves the head version alone (and the free list unchanged or popped) or is a successful push and
   bumps it by exactly one - this is where the position of `id.version = current_head.version + 1` INSIDE the CAS retry
   loop (Gen: push_bump_in_loop) is used: the bump is relative to the head the successful CAS compared against *)
Lemma tstep_hk : forall c s th s' th', vmod c = 0 -> tstep c s th = Some (s', th') ->
  (hk s' = hk s /\ (fl s' = fl s \/ fl s' = tl (fl s))) \/ (hk s' = hk s + 1 /\ exists v, fl s' = v :: fl s).
Proof.
  intros c s th s' th' Hvm Hs. unfold tstep in Hs.
  assert (Wk : forall k, wrapk c k = k) by (intros; unfold wrapk; now rewrite Hvm).
  destruct (tpc th) eqn:Hpc.
  - destruct (prog th) as [|o r]; [discriminate|].
    destruct o; repeat match type of Hs with
                       | context [match ?x with _ => _ end] => destruct x
                       end; inversion Hs; subst; simpl; auto.
  - inversion Hs; subst; auto.
  - destruct ((hv s =? cv) && (hk s =? ck)) eqn:E; inversion Hs; subst; simpl; auto.
    apply andb_prop in E. destruct E as [_ E2]. apply Z.eqb_eq in E2. rewrite Wk. unfold pop_new_version. left. auto.
  - inversion Hs; subst; simpl; auto.
  - inversion Hs; subst; simpl; auto.
  - inversion Hs; subst; simpl; auto.
  - inversion Hs; subst; simpl; auto.
  - destruct ((hv s =? cv) && (hk s =? ck)) eqn:E; inversion Hs; subst; simpl; auto.
    apply andb_prop in E. destruct E as [_ E2]. apply Z.eqb_eq in E2. rewrite Wk. unfold push_new_version. simpl.
    right. split; [lia|eauto].
  - inversion Hs; subst; simpl; auto.
  - inversion Hs; subst; simpl; auto.
Qed.

Theorem id_push_bumps_version : forall c s t s', vmod c = 0 -> step c s t = Some s' ->
  (hk (sh s') = hk (sh s) /\ (fl (sh s') = fl (sh s) \/ fl (sh s') = tl (fl (sh s)))) \/
  (hk (sh s') = hk (sh s) + 1 /\ exists v, fl (sh s') = v :: fl (sh s)).
Proof.
  intros c s t s' Hvm Hs. unfold step in Hs. destruct (nth_error (threads s) t) as [th|]; [|discriminate].
  destruct (tstep c (sh s) th) as [[s1 th1]|] eqn:E; [|discriminate]. inversion Hs; subst. simpl.
  eapply tstep_hk; eauto.
Qed.

(* along any execution the head version never decreases *)
Theorem id_head_version_monotone : forall c sch s, vmod c = 0 -> hk (sh s) <= hk (sh (run st (step c) s sch)).
Proof.
  intros c sch. induction sch as [|t r IH]; intros s Hvm; simpl; [lia|].
  eapply Z.le_trans; [|apply IH; auto]. unfold step_or_stay. destruct (step c s t) eqn:E; [|lia].
  destruct (id_push_bumps_version c s t s0 Hvm E) as [[H _]|[H _]]; lia.
Qed.
