(* Proofs about ID/IDModel.v: one inductive invariant (Good) over all schedules, and the C14 theorems derived
   from it.  Hypotheses used by the positive theorems: vmod c = 0 (unbounded versions) and nv <= ACTIVE_FLAG
   (fewer values minted than the value type can name besides the two sentinels). *)
From Coq Require Import ZArith List Bool Lia Arith.
Require Import Verif.Base.Atomics Verif.Gen.Gen_id_allocator Verif.Conc.Machine Verif.ID.IDModel.
Import ListNotations.
Local Open Scope Z_scope.

(* ------------------------------------------------------------------ memory orders (regenerated site tables) *)
Definition orders_ok : bool :=
  match sites_allocate, sites_deallocate, sites_take_released, sites_emplace with
  | [(KLoad, l1, _); (KLoad, _, _); (KCasW, c1, _); (KStore, _, _); (KFadd, _, _); (KStore, _, _)],
    [(KLoad, l2, _); (KStore, _, _); (KCasW, c2, f2)], [(KCasS, _, _)], [(KStore, _, _)] =>
    has_acquire l1 && has_acquire c1 && has_release c1 && has_acquire l2 && has_release c2 && has_acquire f2
  | _, _, _, _ => false
  end.
Lemma id_orders_ok : orders_ok = true.
Proof. vm_compute. reflexivity. Qed.

(* ------------------------------------------------------------------------------------------- list lemmas *)
Lemma nth_nil0 : forall m, nth m (@nil Z) 0 = 0.
Proof. destruct m; reflexivity. Qed.
Lemma nth_set_ext_same : forall n x l, nth n (set_ext n x l) 0 = x.
Proof. induction n; intros x l; destruct l; simpl; auto. Qed.
Lemma nth_set_ext_other : forall n m x l, n <> m -> nth m (set_ext n x l) 0 = nth m l 0.
Proof.
  induction n; intros m x l H; destruct l; destruct m; simpl; try congruence; auto.
  - destruct m; reflexivity.
  - rewrite IHn by congruence. destruct m; reflexivity.
Qed.
Lemma getz_setz_same : forall l i x, getz (setz l i x) i = x.
Proof. intros. unfold getz, setz. apply nth_set_ext_same. Qed.
Lemma getz_setz_other : forall l i j x, 0 <= i -> 0 <= j -> i <> j -> getz (setz l i x) j = getz l j.
Proof. intros. unfold getz, setz. apply nth_set_ext_other. intro E. apply H1. apply Z2Nat.inj; auto. Qed.

Lemma nth_error_set_nth_same : forall A (l : list A) t a b, nth_error l t = Some a -> nth_error (set_nth t b l) t = Some b.
Proof. induction l; intros t a0 b H; destruct t; simpl in *; try discriminate; eauto. Qed.
Lemma nth_error_set_nth_other : forall A (l : list A) t u b, t <> u -> nth_error (set_nth t b l) u = nth_error l u.
Proof. induction l; intros t u b H; destruct t; destruct u; simpl; try congruence; auto. Qed.
Lemma length_set_nth : forall A (l : list A) t b, length (set_nth t b l) = length l.
Proof. induction l; intros; destruct t; simpl; auto. Qed.

Section Sum.
Variable A : Type.
Variable f : A -> nat.
Fixpoint sumf (l : list A) : nat := match l with [] => O | x :: r => (f x + sumf r)%nat end.
Lemma sumf_set_nth : forall l t a b, nth_error l t = Some a -> (sumf (set_nth t b l) + f a = sumf l + f b)%nat.
Proof.
  induction l; intros t a0 b H; destruct t; simpl in *; try discriminate.
  - inversion H; subst. lia.
  - specialize (IHl _ _ b H). lia.
Qed.
Lemma sumf_ge : forall l t a, nth_error l t = Some a -> (f a <= sumf l)%nat.
Proof. induction l; intros t a0 H; destruct t; simpl in *; try discriminate. inversion H; subst; lia. specialize (IHl _ _ H). lia. Qed.
Lemma sumf_ge2 : forall l t u a b, t <> u -> nth_error l t = Some a -> nth_error l u = Some b -> (f a + f b <= sumf l)%nat.
Proof.
  induction l; intros t u a0 b Hn Ha Hb; destruct t; destruct u; simpl in *; try discriminate; try congruence.
  - inversion Ha; subst. pose proof (sumf_ge _ _ _ Hb). lia.
  - inversion Hb; subst. pose proof (sumf_ge _ _ _ Ha). lia.
  - assert (t <> u) by congruence. specialize (IHl _ _ _ _ H Ha Hb). lia.
Qed.
Lemma sumf_zero : forall l, sumf l = O -> forall a, In a l -> f a = O.
Proof. induction l; simpl; intros H a0 Hin; [tauto|]. destruct Hin as [E|Hin]; subst; try lia. apply IHl; auto; lia. Qed.
End Sum.
Arguments sumf {A} f l.

Definition cnt (v : Z) (l : list Z) : nat := count_occ Z.eq_dec l v.
Definition c1 (x v : Z) : nat := if Z.eq_dec x v then 1%nat else 0%nat.
Arguments cnt : simpl never.
Lemma cnt_cons : forall v x l, cnt v (x :: l) = (c1 x v + cnt v l)%nat.
Proof. intros. unfold cnt, c1. cbn [count_occ]. destruct (Z.eq_dec x v); lia. Qed.
Lemma cnt_app : forall v a b, cnt v (a ++ b) = (cnt v a + cnt v b)%nat.
Proof. intros. unfold cnt. apply count_occ_app. Qed.
Lemma cnt_nil : forall v, cnt v [] = O.
Proof. reflexivity. Qed.
Lemma cnt_in : forall v l, In v l <-> (cnt v l >= 1)%nat.
Proof. intros. unfold cnt. rewrite (count_occ_In Z.eq_dec). lia. Qed.
Lemma cnt_notin : forall v l, ~ In v l <-> cnt v l = O.
Proof. intros. unfold cnt. apply count_occ_not_In. Qed.
Lemma c1_same : forall x, c1 x x = 1%nat.
Proof. intros. unfold c1. destruct (Z.eq_dec x x); congruence. Qed.
Lemma c1_diff : forall x v, x <> v -> c1 x v = O.
Proof. intros. unfold c1. destruct (Z.eq_dec x v); congruence. Qed.

Lemma cnt_remove_nth : forall (l : list id) i v k w, nth_error l i = Some (v, k) ->
  cnt w (map fst l) = (c1 v w + cnt w (map fst (remove_nth i l)))%nat.
Proof.
  induction l; intros i v k w H; destruct i; simpl in *; try discriminate.
  - inversion H; subst. simpl. apply cnt_cons.
  - rewrite !cnt_cons. rewrite (IHl _ _ _ w H). lia.
Qed.
Lemma cnt_remove_v : forall (l : list id) v w, In v (map fst l) ->
  cnt w (map fst l) = (c1 v w + cnt w (map fst (remove_v v l)))%nat.
Proof.
  induction l; intros v w H; simpl in *; [tauto|].
  destruct (fst a =? v) eqn:E.
  - apply Z.eqb_eq in E. subst. apply cnt_cons.
  - apply Z.eqb_neq in E. destruct H as [H|H]; [congruence|]. simpl. rewrite !cnt_cons. rewrite (IHl _ w H). lia.
Qed.
Lemma in_remove_v : forall (l : list id) v x, In x (remove_v v l) -> In x l.
Proof. induction l; simpl; intros v x H; [tauto|]. destruct (fst a =? v); simpl in *; intuition eauto. Qed.
Lemma in_remove_v_other : forall (l : list id) v x, In x l -> fst x <> v -> In x (remove_v v l).
Proof.
  induction l; simpl; intros v x H Hn; [tauto|]. destruct (fst a =? v) eqn:E.
  - apply Z.eqb_eq in E. destruct H; [subst; congruence|auto].
  - destruct H; [left; auto|right; auto].
Qed.
Lemma in_remove_nth : forall A (l : list A) i x, In x (remove_nth i l) -> In x l.
Proof. induction l; intros i x H; destruct i; simpl in *; intuition eauto. Qed.
Lemma in_map_fst : forall (l : list id) v k, In (v, k) l -> In v (map fst l).
Proof. intros. change v with (fst (v, k)). now apply in_map. Qed.
Lemma mem_id_in : forall i l, In i l -> mem_id i l = true.
Proof.
  intros i l H. unfold mem_id. apply existsb_exists. exists i. split; auto. unfold id_eqb. now rewrite !Z.eqb_refl.
Qed.
