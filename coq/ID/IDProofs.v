(* Proofs about ID/IDModel.v: one inductive invariant (Good) over all schedules, and the C14 theorems derived
   from it.  Hypotheses used by the positive theorems: vmod c = 0 (unbounded versions) and nv <= ACTIVE_FLAG
   (fewer values minted than the value type can name besides the two sentinels). *)
From Coq Require Import ZArith List Bool Lia Arith.
Require Import Verif.Base.Atomics Verif.Gen.Gen_id_allocator Verif.Conc.Machine Verif.ID.IDModel.
Import ListNotations.
Local Open Scope Z_scope.

(* ------------------------------------------------------------------ memory orders (regenerated site tables) *)
Definition orders_ok : bool :=
  match sites_allocate, sites_deallocate, sites_take_released, sites_emplace with
  | [(KLoad, l1, _); (KLoad, _, _); (KCasW, c1, _); (KStore, _, _); (KFadd, _, _); (KStore, _, _)],
    [(KLoad, l2, _); (KStore, _, _); (KCasW, c2, f2)], [(KCasS, _, _)], [(KStore, _, _)] =>
    has_acquire l1 && has_acquire c1 && has_release c1 && has_acquire l2 && has_release c2 && has_acquire f2
  | _, _, _, _ => false
  end.
Lemma id_orders_ok : orders_ok = true.
Proof. vm_compute. reflexivity. Qed.

(* ------------------------------------------------------------------------------------------- list lemmas *)
Lemma nth_nil0 : forall m, nth m (@nil Z) 0 = 0.
Proof. destruct m; reflexivity. Qed.
Lemma nth_set_ext_same : forall n x l, nth n (set_ext n x l) 0 = x.
Proof. induction n; intros x l; destruct l; simpl; auto. Qed.
Lemma nth_set_ext_other : forall n m x l, n <> m -> nth m (set_ext n x l) 0 = nth m l 0.
Proof.
  induction n; intros m x l H; destruct l; destruct m; simpl; try congruence; auto.
  - destruct m; reflexivity.
  - rewrite IHn by congruence. destruct m; reflexivity.
Qed.
Lemma getz_setz_same : forall l i x, getz (setz l i x) i = x.
Proof. intros. unfold getz, setz. apply nth_set_ext_same. Qed.
Lemma getz_setz_other : forall l i j x, 0 <= i -> 0 <= j -> i <> j -> getz (setz l i x) j = getz l j.
Proof. intros. unfold getz, setz. apply nth_set_ext_other. intro E. apply H1. apply Z2Nat.inj; auto. Qed.

Lemma nth_error_set_nth_same : forall A (l : list A) t a b, nth_error l t = Some a -> nth_error (set_nth t b l) t = Some b.
Proof. induction l; intros t a0 b H; destruct t; simpl in *; try discriminate; eauto. Qed.
Lemma nth_error_set_nth_other : forall A (l : list A) t u b, t <> u -> nth_error (set_nth t b l) u = nth_error l u.
Proof. induction l; intros t u b H; destruct t; destruct u; simpl; try congruence; auto. Qed.
Lemma length_set_nth : forall A (l : list A) t b, length (set_nth t b l) = length l.
Proof. induction l; intros; destruct t; simpl; auto. Qed.

Section Sum.
Variable A : Type.
Variable f : A -> nat.
Fixpoint sumf (l : list A) : nat := match l with [] => O | x :: r => (f x + sumf r)%nat end.
Lemma sumf_set_nth : forall l t a b, nth_error l t = Some a -> (sumf (set_nth t b l) + f a = sumf l + f b)%nat.
Proof.
  induction l; intros t a0 b H; destruct t; simpl in *; try discriminate.
  - inversion H; subst. lia.
  - specialize (IHl _ _ b H). lia.
Qed.
Lemma sumf_ge : forall l t a, nth_error l t = Some a -> (f a <= sumf l)%nat.
Proof. induction l; intros t a0 H; destruct t; simpl in *; try discriminate. inversion H; subst; lia. specialize (IHl _ _ H). lia. Qed.
Lemma sumf_ge2 : forall l t u a b, t <> u -> nth_error l t = Some a -> nth_error l u = Some b -> (f a + f b <= sumf l)%nat.
Proof.
  induction l; intros t u a0 b Hn Ha Hb; destruct t; destruct u; simpl in *; try discriminate; try congruence.
  - inversion Ha; subst. pose proof (sumf_ge _ _ _ Hb). lia.
  - inversion Hb; subst. pose proof (sumf_ge _ _ _ Ha). lia.
  - assert (t <> u) by congruence. specialize (IHl _ _ _ _ H Ha Hb). lia.
Qed.
Lemma sumf_zero : forall l, sumf l = O -> forall a, In a l -> f a = O.
Proof. induction l; simpl; intros H a0 Hin; [tauto|]. destruct Hin as [E|Hin]; subst; try lia. apply IHl; auto; lia. Qed.
End Sum.
Arguments sumf {A} f l.

Definition cnt (v : Z) (l : list Z) : nat := count_occ Z.eq_dec l v.
Definition c1 (x v : Z) : nat := if Z.eq_dec x v then 1%nat else 0%nat.
Arguments cnt : simpl never.
Lemma cnt_cons : forall v x l, cnt v (x :: l) = (c1 x v + cnt v l)%nat.
Proof. intros. unfold cnt, c1. cbn [count_occ]. destruct (Z.eq_dec x v); lia. Qed.
Lemma cnt_app : forall v a b, cnt v (a ++ b) = (cnt v a + cnt v b)%nat.
Proof. intros. unfold cnt. apply count_occ_app. Qed.
Lemma cnt_nil : forall v, cnt v [] = O.
Proof. reflexivity. Qed.
Lemma cnt_in : forall v l, In v l <-> (cnt v l >= 1)%nat.
Proof. intros. unfold cnt. rewrite (count_occ_In Z.eq_dec). lia. Qed.
Lemma cnt_notin : forall v l, ~ In v l <-> cnt v l = O.
Proof. intros. unfold cnt. apply count_occ_not_In. Qed.
Lemma c1_same : forall x, c1 x x = 1%nat.
Proof. intros. unfold c1. destruct (Z.eq_dec x x); congruence. Qed.
Lemma c1_diff : forall x v, x <> v -> c1 x v = O.
Proof. intros. unfold c1. destruct (Z.eq_dec x v); congruence. Qed.

Lemma cnt_remove_nth : forall (l : list id) i v k w, nth_error l i = Some (v, k) ->
  cnt w (map fst l) = (c1 v w + cnt w (map fst (remove_nth i l)))%nat.
Proof.
  induction l; intros i v k w H; destruct i; simpl in *; try discriminate.
  - inversion H; subst. simpl. apply cnt_cons.
  - rewrite !cnt_cons. rewrite (IHl _ _ _ w H). lia.
Qed.
Lemma cnt_remove_v : forall (l : list id) v w, In v (map fst l) ->
  cnt w (map fst l) = (c1 v w + cnt w (map fst (remove_v v l)))%nat.
Proof.
  induction l; intros v w H; simpl in *; [tauto|].
  destruct (fst a =? v) eqn:E.
  - apply Z.eqb_eq in E. subst. apply cnt_cons.
  - apply Z.eqb_neq in E. destruct H as [H|H]; [congruence|]. simpl. rewrite !cnt_cons. rewrite (IHl _ w H). lia.
Qed.
Lemma in_remove_v : forall (l : list id) v x, In x (remove_v v l) -> In x l.
Proof. induction l; simpl; intros v x H; [tauto|]. destruct (fst a =? v); simpl in *; intuition eauto. Qed.
Lemma in_remove_v_other : forall (l : list id) v x, In x l -> fst x <> v -> In x (remove_v v l).
Proof.
  induction l; simpl; intros v x H Hn; [tauto|]. destruct (fst a =? v) eqn:E.
  - apply Z.eqb_eq in E. destruct H; [subst; congruence|auto].
  - destruct H; [left; auto|right; auto].
Qed.
Lemma in_remove_nth : forall A (l : list A) i x, In x (remove_nth i l) -> In x l.
Proof. induction l; intros i x H; destruct i; simpl in *; intuition eauto. Qed.
Lemma in_map_fst : forall (l : list id) v k, In (v, k) l -> In v (map fst l).
Proof. intros. change v with (fst (v, k)). now apply in_map. Qed.
Lemma mem_id_in : forall i l, In i l -> mem_id i l = true.
Proof.
  intros i l H. unfold mem_id. apply existsb_exists. exists i. split; auto. unfold id_eqb. now rewrite !Z.eqb_refl.
Qed.

(* ------------------------------------------------------------------------------------------ the invariant *)
Section Inv.
Variable c : cfg.
Hypothesis Hvm : vmod c = 0.
Notation ACT := (ACTIVE_FLAG (tail c)).

Lemma wrapk_id : forall k, wrapk c k = k.
Proof. intros. unfold wrapk. now rewrite Hvm. Qed.

Definition pc_owned (p : pc) : list Z :=
  match p with
  | AMark cv _ => [cv] | AMintMark v => [v] | FStore v _ _ => [v] | FCas v _ _ => [v] | ESlot v _ => [v]
  | _ => []
  end.
Definition owned_thread (th : thread) : list Z := map fst (held th) ++ map fst (taken th) ++ pc_owned (tpc th).
Definition ocnt (v : Z) (th : thread) : nat := cnt v (owned_thread th).
Definition cntb (v : Z) (s : shared) : nat := cnt v (map fst (boxed s)).
Definition total (v : Z) (s : shared) (ths : list thread) : nat := (cnt v (fl s) + sumf (ocnt v) ths + cntb v s)%nat.
Definition inrange (s : shared) (v : Z) : nat := if (0 <=? v) && (v <? nv s) then 1%nat else 0%nat.

Fixpoint chain (nx : list Z) (h : Z) (l : list Z) : Prop :=
  match l with [] => h = tail c | x :: r => h = x /\ chain nx (getz nx x) r end.

Definition aba1 (s : shared) (cv ck : Z) : Prop := ck = hk s -> hv s = cv \/ ~ In cv (fl s).
Definition aba2 (s : shared) (cv ck nx : Z) : Prop := ck = hk s -> (hv s = cv /\ getz (nxt s) cv = nx) \/ ~ In cv (fl s).

Definition TIpc (s : shared) (p : pc) : Prop :=
  match p with
  | Idle | AMint => True
  | ALoadNext cv ck => cv <> tail c /\ ck <= hk s /\ aba1 s cv ck
  | ACas cv ck nx => cv <> tail c /\ ck <= hk s /\ aba2 s cv ck nx
  | AMark cv ck => ck <= hk s /\ getz (sver s) cv <= ck
  | AMintMark v => getz (sver s) v <= 0
  | FStore v cv ck => getz (sver s) v <= hk s + 1
  | FCas v cv ck => getz (sver s) v <= hk s + 1 /\ getz (nxt s) v = cv
  | ESlot v k => getz (sver s) v <= k /\ k <= hk s /\ getz (nxt s) v = ACT
  end.
Definition TI (s : shared) (th : thread) : Prop :=
  (forall v k, In (v, k) (held th) -> getz (nxt s) v = ACT /\ getz (sver s) v <= hk s) /\
  (forall v k, In (v, k) (taken th) -> getz (nxt s) v = ACT /\ getz (sver s) v <= hk s + 1) /\
  TIpc s (tpc th).

Record Good (s : shared) (ths : list thread) : Prop := {
  g_cnt : forall v, total v s ths = inrange s v;
  g_chain : chain (nxt s) (hv s) (fl s);
  g_pos : 0 <= hk s /\ 0 <= nv s;
  g_flver : forall v, In v (fl s) -> getz (sver s) v <= hk s;
  g_fresh : forall v, nv s <= v -> getz (sver s) v = 0;
  g_boxed : forall v k, In (v, k) (boxed s) -> getz (sver s) v = k /\ k <= hk s /\ getz (nxt s) v = ACT;
  g_wins : forall v k, In (v, k) (wins s) -> k < getz (sver s) v;
  g_ids : forall i, In i (ids s) -> In i (wins s) \/ In i (boxed s);
  g_miss : miss s = false;
  g_nodup : NoDup (wins s);
  g_thr : forall t th, nth_error ths t = Some th -> TI s th }.

Lemma inrange_1 : forall s v, inrange s v = 1%nat <-> 0 <= v < nv s.
Proof. intros. unfold inrange. destruct (0 <=? v) eqn:A; destruct (v <? nv s) eqn:B; simpl; lia. Qed.
Lemma inrange_le1 : forall s v, (inrange s v <= 1)%nat.
Proof. intros. unfold inrange. destruct ((0 <=? v) && (v <? nv s)); lia. Qed.

(* exclusivity consequences of the counting invariant *)
Lemma excl_thread : forall s ths t th x, (forall v, total v s ths = inrange s v) -> nth_error ths t = Some th ->
  (ocnt x th >= 1)%nat ->
  0 <= x < nv s /\ ~ In x (fl s) /\ cntb x s = O /\ ocnt x th = 1%nat /\
  (forall t0 th0, t0 <> t -> nth_error ths t0 = Some th0 -> ocnt x th0 = O).
Proof.
  intros s ths t th x Hc Hn Ho. pose proof (Hc x) as E. unfold total in E.
  pose proof (sumf_ge _ (ocnt x) _ _ _ Hn). pose proof (inrange_le1 s x).
  assert (inrange s x = 1%nat) by lia. split; [now apply inrange_1|].
  split; [apply cnt_notin; lia|]. split; [lia|]. split; [lia|].
  intros t0 th0 Hne Hn0. pose proof (sumf_ge2 _ (ocnt x) _ _ _ _ _ Hne Hn0 Hn). lia.
Qed.
Lemma excl_fl : forall s ths x, (forall v, total v s ths = inrange s v) -> In x (fl s) ->
  0 <= x < nv s /\ cnt x (fl s) = 1%nat /\ cntb x s = O /\ (forall t0 th0, nth_error ths t0 = Some th0 -> ocnt x th0 = O).
Proof.
  intros s ths x Hc Hi. pose proof (Hc x) as E. unfold total in E. apply cnt_in in Hi. pose proof (inrange_le1 s x).
  assert (inrange s x = 1%nat) by lia. split; [now apply inrange_1|]. split; [lia|]. split; [lia|].
  intros t0 th0 Hn0. pose proof (sumf_ge _ (ocnt x) _ _ _ Hn0). lia.
Qed.
Lemma excl_box : forall s ths x k, (forall v, total v s ths = inrange s v) -> In (x, k) (boxed s) ->
  0 <= x < nv s /\ ~ In x (fl s) /\ cntb x s = 1%nat /\ (forall t0 th0, nth_error ths t0 = Some th0 -> ocnt x th0 = O).
Proof.
  intros s ths x k Hc Hi. pose proof (Hc x) as E. unfold total in E. apply in_map_fst in Hi. apply cnt_in in Hi.
  fold (cntb x s) in Hi. pose proof (inrange_le1 s x).
  assert (inrange s x = 1%nat) by lia. split; [now apply inrange_1|]. split; [apply cnt_notin; lia|]. split; [lia|].
  intros t0 th0 Hn0. pose proof (sumf_ge _ (ocnt x) _ _ _ Hn0). lia.
Qed.
Lemma nodup_fl : forall s ths, (forall v, total v s ths = inrange s v) -> NoDup (fl s).
Proof.
  intros s ths Hc. apply (NoDup_count_occ Z.eq_dec). intros x. pose proof (Hc x) as E. unfold total, cnt in E.
  pose proof (inrange_le1 s x). lia.
Qed.

Lemma owned_in : forall th v, In v (owned_thread th) <-> (ocnt v th >= 1)%nat.
Proof. intros. unfold ocnt. apply cnt_in. Qed.
Lemma held_owned : forall th v k, In (v, k) (held th) -> In v (owned_thread th).
Proof. intros. unfold owned_thread. apply in_or_app. left. eapply in_map_fst; eauto. Qed.
Lemma taken_owned : forall th v k, In (v, k) (taken th) -> In v (owned_thread th).
Proof. intros. unfold owned_thread. apply in_or_app. right. apply in_or_app. left. eapply in_map_fst; eauto. Qed.
Lemma pc_owned_in : forall th v, In v (pc_owned (tpc th)) -> In v (owned_thread th).
Proof. intros. unfold owned_thread. apply in_or_app. right. apply in_or_app. now right. Qed.

(* a thread's invariant survives a change of the shared state that leaves its own cells alone *)
Lemma TI_frame : forall s s' th0,
  TI s th0 ->
  (forall v, In v (owned_thread th0) -> getz (nxt s') v = getz (nxt s) v /\ getz (sver s') v = getz (sver s) v) ->
  hk s <= hk s' ->
  (forall cv ck, cv <> tail c -> ck <= hk s -> aba1 s cv ck -> aba1 s' cv ck) ->
  (forall cv ck nx, cv <> tail c -> ck <= hk s -> aba2 s cv ck nx -> aba2 s' cv ck nx) ->
  TI s' th0.
Proof.
  intros s s' th0 (Hh & Ht & Hp) Hown Hk A1 A2. split; [|split].
  - intros v k Hi. destruct (Hown v (held_owned _ _ _ Hi)) as [E1 E2]. destruct (Hh _ _ Hi). rewrite E1, E2. split; auto; lia.
  - intros v k Hi. destruct (Hown v (taken_owned _ _ _ Hi)) as [E1 E2]. destruct (Ht _ _ Hi). rewrite E1, E2. split; auto; lia.
  - pose proof (fun v H => Hown v (pc_owned_in th0 v H)) as Hpc. destruct (tpc th0); simpl in *; auto.
    + destruct Hp as (P1 & P2 & P3). repeat split; auto; try lia.
    + destruct Hp as (P1 & P2 & P3). repeat split; auto; try lia.
    + destruct (Hpc cv (or_introl eq_refl)) as [E1 E2]. rewrite E2. lia.
    + destruct (Hpc v (or_introl eq_refl)) as [E1 E2]. rewrite E2. lia.
    + destruct (Hpc v (or_introl eq_refl)) as [E1 E2]. rewrite E2. lia.
    + destruct (Hpc v (or_introl eq_refl)) as [E1 E2]. rewrite E1, E2. destruct Hp. split; auto; lia.
    + destruct (Hpc v (or_introl eq_refl)) as [E1 E2]. rewrite E1, E2. destruct Hp as (?&?&?). repeat split; auto; lia.
Qed.

Lemma chain_setz : forall nx x y l h, 0 <= x -> ~ In x l -> (forall z, In z l -> 0 <= z) ->
  chain nx h l -> chain (setz nx x y) h l.
Proof.
  intros nx x y l. induction l; intros h Hx Hn Hp Hc; simpl in *; auto.
  destruct Hc as [E Hc]. split; auto.
  rewrite getz_setz_other; [apply IHl; auto | auto | auto | intro; subst; auto].
Qed.
Lemma chain_head : forall nx h l, chain nx h l -> h <> tail c -> exists r, l = h :: r /\ chain nx (getz nx h) r.
Proof. intros nx h l Hc Hn. destruct l; simpl in Hc; [congruence|]. destruct Hc; subst. eauto. Qed.

(* assembling Good for the successor state *)
Lemma good_intro : forall s ths t th s' th',
  Good s ths -> nth_error ths t = Some th ->
  (forall v, (cnt v (fl s') + ocnt v th' + cntb v s' + inrange s v = cnt v (fl s) + ocnt v th + cntb v s + inrange s' v)%nat) ->
  chain (nxt s') (hv s') (fl s') ->
  (0 <= hk s' /\ 0 <= nv s') ->
  (forall v, In v (fl s') -> getz (sver s') v <= hk s') ->
  (forall v, nv s' <= v -> getz (sver s') v = 0) ->
  (forall v k, In (v, k) (boxed s') -> getz (sver s') v = k /\ k <= hk s' /\ getz (nxt s') v = ACT) ->
  (forall v k, In (v, k) (wins s') -> k < getz (sver s') v) ->
  (forall i, In i (ids s') -> In i (wins s') \/ In i (boxed s')) ->
  miss s' = false -> NoDup (wins s') ->
  TI s' th' ->
  (forall t0 th0, t0 <> t -> nth_error ths t0 = Some th0 -> TI s' th0) ->
  Good s' (set_nth t th' ths).
Proof.
  intros s ths t th s' th' G Hn Hc. intros. constructor; auto.
  - intros v. pose proof (g_cnt _ _ G v) as E. unfold total in *. pose proof (sumf_set_nth _ (ocnt v) _ _ _ th' Hn).
    specialize (Hc v). lia.
  - intros t0 th0 Hn0. destruct (Nat.eq_dec t t0) as [->|Hne].
    + rewrite (nth_error_set_nth_same _ _ _ _ _ Hn) in Hn0. inversion Hn0; subst; auto.
    + rewrite nth_error_set_nth_other in Hn0 by auto. eauto.
Qed.

(* the stepping thread changed only itself *)
Lemma good_local : forall s ths t th th',
  Good s ths -> nth_error ths t = Some th -> (forall v, ocnt v th' = ocnt v th) -> TI s th' ->
  Good s (set_nth t th' ths).
Proof.
  intros s ths t th th' G Hn Hc HT. pose proof G as G0. destruct G0.
  apply (good_intro s ths t th s th'); auto; try (intros v; rewrite Hc; lia).
  intros t0 th0 _ Hn0. eauto.
Qed.
End Inv.
