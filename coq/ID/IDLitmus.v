(* The litmus checks of ID/IDLitmusDefs.v lifted to statements about every execution of the release/acquire view
   machine (any schedule, any admissible message choice of every load): WM/RAProofs.v proves the explorer complete. *)
From Coq Require Import ZArith List Bool.
Require Import Verif.Base.Atomics Verif.Gen.Gen_id_allocator.
Require Import Verif.WM.RA Verif.WM.RAProofs Verif.WM.RALitmus Verif.WM.RALitmusProofs Verif.ID.IDLitmusDefs.
Import ListNotations.

Lemma id_link_all : forall sch, final (run (init id_link_src) sch) = true ->
  id_link_bad (result (run (init id_link_src) sch)) = false.
Proof. apply lift_safe. vm_compute. reflexivity. Qed.
Lemma id_link_casfail_all : forall sch, final (run (init id_link_casfail_src) sch) = true ->
  id_link_bad (result (run (init id_link_casfail_src) sch)) = false.
Proof. apply lift_safe. vm_compute. reflexivity. Qed.
Lemma id_chain_all : forall sch, final (run (init id_chain_src) sch) = true ->
  id_chain_bad (result (run (init id_chain_src) sch)) = false.
Proof. apply lift_safe. vm_compute. reflexivity. Qed.
Lemma id_handover_all : forall sch, final (run (init id_handover_src) sch) = true ->
  id_handover_bad (result (run (init id_handover_src) sch)) = false.
Proof. apply lift_safe. vm_compute. reflexivity. Qed.
Lemma id_handover_casfail_all : forall sch, final (run (init id_handover_casfail_src) sch) = true ->
  id_handover_bad (result (run (init id_handover_casfail_src) sch)) = false.
Proof. apply lift_safe. vm_compute. reflexivity. Qed.
Lemma box_take_all : forall sch, final (run (init box_take_src) sch) = true ->
  box_take_bad (result (run (init box_take_src) sch)) = false.
Proof. apply lift_safe. vm_compute. reflexivity. Qed.

(* spelled out for the link: a consumer that saw value 1 on top read the link stored by that push *)
Lemma id_link_spelled : forall sch, let s := run (init id_link_src) sch in
  final s = true -> oreg (result s) 1 0 = 1%Z -> oreg (result s) 1 1 = 7%Z.
Proof.
  intros sch s Hf Hflag. pose proof (id_link_all sch Hf) as B. fold s in B.
  unfold id_link_bad, saw_bad in B. rewrite Hflag in B. rewrite Z.eqb_refl in B. cbn [andb] in B.
  apply orb_false_elim in B. destruct B as [_ Bv]. apply negb_false_iff in Bv. now apply Z.eqb_eq in Bv.
Qed.

(* exactly which orders carry the obligations (all 5x5 / 5x5x5 combinations evaluated) *)
Lemma id_link_safe_iff : forall o_push o_head, id_link_safe Relaxed o_push o_head Relaxed = has_release o_push && has_acquire o_head.
Proof. intros o1 o2. destruct o1, o2; vm_compute; reflexivity. Qed.
Lemma id_link_casfail_safe_iff : forall o_push o_cas,
  id_link_casfail_safe Relaxed o_push o_cas Relaxed = has_release o_push && has_acquire o_cas.
Proof. intros o1 o2. destruct o1, o2; vm_compute; reflexivity. Qed.
Lemma id_handover_safe_iff : forall o_push o_head, id_handover_safe Relaxed o_push o_head = has_release o_push && has_acquire o_head.
Proof. intros o1 o2. destruct o1, o2; vm_compute; reflexivity. Qed.
(* the pop CAS in the middle of a chain may even be relaxed: an RMW continues the release sequence *)
Lemma id_chain_relaxed_pop_safe : id_chain_safe Relaxed Release Acquire Relaxed Relaxed = true.
Proof. vm_compute. reflexivity. Qed.
(* the box orders nothing by itself: safe iff the CLIENT's channel is release/acquire, whatever the box's own orders *)
Lemma box_take_safe_iff : forall o_cst o_cld,
  box_take_safe o_emplace_version o_take_cas o_cst o_cld = has_release o_cst && has_acquire o_cld.
Proof. intros o3 o4. destruct o3, o4; vm_compute; reflexivity. Qed.
Lemma box_take_own_orders_do_not_help : box_take_safe SeqCst SeqCst Relaxed Relaxed = false.
Proof. vm_compute. reflexivity. Qed.

(* refutations are real executions *)
Lemma id_link_relaxed_push_witness :
  exists sch, final (run (init (id_link_prog Relaxed Relaxed Acquire Relaxed)) sch) = true /\
              id_link_bad (result (run (init (id_link_prog Relaxed Relaxed Acquire Relaxed)) sch)) = true.
Proof.
  exists (match witness (id_link_prog Relaxed Relaxed Acquire Relaxed) id_link_bad with Some p => p | None => [] end).
  vm_compute. split; reflexivity.
Qed.
Lemma id_handover_relaxed_load_witness :
  exists sch, final (run (init (id_handover_prog Relaxed Release Relaxed)) sch) = true /\
              id_handover_bad (result (run (init (id_handover_prog Relaxed Release Relaxed)) sch)) = true.
Proof.
  exists (match witness (id_handover_prog Relaxed Release Relaxed) id_handover_bad with Some p => p | None => [] end).
  vm_compute. split; reflexivity.
Qed.
Lemma box_take_relaxed_channel_witness :
  exists sch, final (run (init (box_take_prog Relaxed Relaxed Relaxed Relaxed)) sch) = true /\
              box_take_bad (result (run (init (box_take_prog Relaxed Relaxed Relaxed Relaxed)) sch)) = true.
Proof.
  exists (match witness (box_take_prog Relaxed Relaxed Relaxed Relaxed) box_take_bad with Some p => p | None => [] end).
  vm_compute. split; reflexivity.
Qed.
