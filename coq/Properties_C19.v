(* C19 - counters / thread-locals: aggregates exact across thread and instance churn.
   Only statements here; every proof is `exact <lemma of CT/CTProofs.v>`.

   Model: CT/CTModel.v (one world of EnumerableThreadLocal / CompactEnumerableThreadLocal / counter cells; history =
   list of op: thread Spawn/Exit, instance CNew/CDel/CMove/CMoveCtor, CAdd/CRead/CReset, CForEach/CAlive).
   `run cf (start cf) h` is the state after ANY history h (ill-formed operations are no-ops, as in the harness);
   a read in such a state is a read at a quiescent point.  g_sum/g_cnt/g_per/g_used are ghost fields recording what
   the client contributed to the counter now held by a handle (they travel with the counter on moves).

   Hypothesis `threads_small`: fewer than 2^16 - 128 thread ids were ever handed out.  It is needed: for_each casts
   snapshot.size() to uint16_t, which is 0 once the storage has 65536 lines (not replayed on the real code).
   Hypothesis of c19_extreme_exact: the history is shorter than SIZE_MAX operations (a period version never reaches
   the Slot sentinel SIZE_MAX).

   Proved for all histories: c19_sum_exact, c19_extreme_exact, c19_fresh_is_zero, c19_local_private,
   c19_local_stable, c19_for_each_all_used, c19_for_each_alive_in_bounds, c19_for_each_alive_exact; for all
   schedules of the interleaving machines: c19_reader_bounds (on the real classes: concurrent stress monitor) and
   c19_recycle_race_exact (destructor of one instance racing with construction of / counting into another; on the real
   classes: directed schedules under the deterministic scheduler + stress).  The destructor's statement order (zeroing
   sweep, then release of the id) is the regenerated flag dtor_zero_before_release: CTModel.step CDel and the
   machine dstep read it, so a flipped order re-opens c19_sum_exact / c19_fresh_is_zero (inv_del) and
   c19_recycle_race_exact (g_dtor_order).

   History: two statements were refuted on the model of the code as it was and reproduced on the real classes -
   non-const for_each_alive read out of bounds (fixed in /repo 31db6ff) and a maxer/miner whose only sample was
   numeric_limits min/max reported an empty period (fixed in 37f7c2a).  The clamps and the `!has_result ||` disjunct
   are regenerated from the source (alive_nc_begin/end, read_accept): reverting either fix re-opens
   c19_for_each_alive_in_bounds / c19_extreme_exact. *)
From Coq Require Import ZArith List Bool Arith Lia.
Require Import Verif.Conc.Machine.
Require Import Verif.Gen.Gen_counter Verif.CT.CTModel Verif.CT.CTProofs.
Import ListNotations.

(* At any quiescent point an adder reports exactly the sum of everything added and a summer the exact sum and
   count - both components, through both public overloads: CAdd = `<< value` (counts {value, 1}) and CAdd2 =
   `<< Summary{s, n}` with arbitrary s and n (either may be zero or negative) - for every history of thread
   birth/death and instance construction/destruction/move.  The summer's reader adds every visited slot: the
   regenerated flag summer_reader_unfiltered (no condition / early exit inside ConcurrentSummer::value) is used by
   the proof (g_summer_unfiltered). *)
Theorem c19_sum_exact : forall cf h c i, cfg_ok cf -> ck cf = KAdder \/ ck cf = KSummer ->
  let x := run cf (start cf) h in
  threads_small cf x -> chnd x c = Some i ->
  step cf x (CRead c) = (x, OVal (g_sum x c) (if is_summer (ck cf) then g_cnt x c else 0%Z)).
Proof. exact ct_sum_exact. Qed.
Print Assumptions c19_sum_exact.

(* A newly created counter starts from zero, whatever was done to the instance id / cache-line offset it recycles. *)
Theorem c19_fresh_is_zero : forall cf h c, cfg_ok cf -> ck cf = KAdder \/ ck cf = KSummer ->
  let x := run cf (start cf) (h ++ [CNew c]) in
  threads_small cf x -> chnd (run cf (start cf) h) c = None ->
  exists i, chnd x c = Some i /\ step cf x (CRead c) = (x, OVal 0%Z 0%Z).
Proof. exact ct_fresh_is_zero. Qed.
Print Assumptions c19_fresh_is_zero.

(* local() is private: two distinct live threads get distinct lines of the storage they asked for. *)
Theorem c19_local_private : forall cf h t u s x1 s1 k1 x2 s2 k2, cfg_ok cf ->
  let x := run cf (start cf) h in
  threads_small cf x2 -> t <> u -> t_alive (thr x t) = true -> t_alive (thr x u) = true ->
  local cf x t s = (x1, (s1, k1)) -> local cf x1 u s = (x2, (s2, k2)) ->
  s1 = s /\ s2 = s /\ k1 <> k2.
Proof. exact ct_local_private. Qed.
Print Assumptions c19_local_private.

(* local() is stable: once a thread has its line k, after any further history in which it does not exit (other
   threads come and go, instances are created, destroyed, moved) local() on any storage still returns line k. *)
Theorem c19_local_stable : forall cf h h2 t s k x2 s2 k2, cfg_ok cf ->
  let x := run cf (start cf) h in let x' := run cf x h2 in
  threads_small cf x2 -> t_tid (thr x t) = Some k -> Forall (no_exit t) h2 ->
  local cf x' t s = (x2, (s2, k2)) -> s2 = s /\ k2 = k.
Proof. exact ct_local_stable. Qed.
Print Assumptions c19_local_stable.

(* for_each visits every line that local() ever returned for the storage (threads that exited included). *)
Theorem c19_for_each_all_used : forall cf h s k, cfg_ok cf ->
  let x := run cf (start cf) h in
  threads_small cf x -> In k (g_used x s) -> (k < each_bound x s)%nat.
Proof. exact ct_for_each_all_used. Qed.
Print Assumptions c19_for_each_all_used.

(* for_each_alive, both overloads (cst = true: const; false: the non-const one CompactEnumerableThreadLocal
   reaches): never reads outside the storage, in any state. *)
Theorem c19_for_each_alive_in_bounds : forall x cst s, for_each_alive x cst s <> None.
Proof. exact ct_alive_in_bounds. Qed.
Print Assumptions c19_for_each_alive_in_bounds.

(* for_each_alive visits exactly the lines of the live threads this storage has room for, each once. *)
Theorem c19_for_each_alive_exact : forall cf h cst s, cfg_ok cf ->
  let x := run cf (start cf) h in
  threads_small cf x ->
  exists L, for_each_alive x cst s = Some L /\ NoDup L /\
    forall k, In k L <-> (k < csize x s)%nat /\ exists t, t_alive (thr x t) = true /\ t_tid (thr x t) = Some k.
Proof. exact ct_for_each_alive_exact. Qed.
Print Assumptions c19_for_each_alive_exact.

(* A maxer / miner reports the extreme of the current period: a sample of the period such that no sample is
   strictly more extreme - for every sample value, numeric_limits min/max included - and "none" for an empty
   period; across thread exit/slot reuse, instance recycling and resets. *)
Theorem c19_extreme_exact : forall cf h c i, cfg_ok cf -> ck cf = KMaxer \/ ck cf = KMiner ->
  let x := run cf (start cf) h in
  threads_small cf x -> (Z.of_nat (length h) < slot_init_version)%Z -> chnd x c = Some i ->
  (g_per x c = [] -> step cf x (CRead c) = (x, OVal 0%Z 0%Z)) /\
  (g_per x c <> [] -> exists m, is_extreme (ck cf) m (g_per x c) /\ step cf x (CRead c) = (x, OVal m 1%Z)).
Proof. exact ct_extreme_exact. Qed.
Print Assumptions c19_extreme_exact.

(* All interleavings of counting threads with a reading thread: n single-writer slots (each writer adds the values
   of its program, non-negative, one aligned store per addition), one reader that loads the slots in order; a
   schedule is any list of thread ids.  Whenever the reader has loaded every slot its sum is at least the total at
   the moment it started (everything completed before the read) and at most the total now (everything started
   before the read ended). *)
Theorem c19_reader_bounds : forall slots prog x, length prog = length slots -> nonneg prog ->
  reachable rst rstep (rinit slots prog) x -> r_started x = true -> r_pos x = length (r_slots x) ->
  (r_lo x <= r_acc x <= SZ (r_slots x))%Z.
Proof. exact ct_reader_bounds. Qed.
Print Assumptions c19_reader_bounds.

(* Destruction of one counter racing with the construction of ANOTHER one: every interleaving of
   ~CompactEnumerableThreadLocal of instance xid (zeroing sweep over n lines one store at a time, then release of the
   id - the order of the source) with a thread that constructs a new instance (pop of the LIFO allocator) and counts
   into its own line: at every moment the new instance holds exactly what its owner counted, whether or not it
   recycled xid, for every content of xid's column and every free list. *)
Theorem c19_recycle_race_exact : forall n xid kb m0 a vs x, (kb < n)%nat -> dstart_ok n xid m0 a ->
  reachable dst (dstep n xid kb) (dinit m0 a vs) x ->
  forall y, d_y x = Some y -> csum (dm x y) n = d_added x.
Proof. exact ct_recycle_exact. Qed.
Print Assumptions c19_recycle_race_exact.

(* ---- non-vacuity ---- *)
(* summer: thread 1 contributes a sum-only correction {-5, 0} and exits; thread 2 reuses its line with a count-only {0, 4} *)
Example c19_summer_sum_only :
  let h := [Spawn 0; Spawn 1; CNew 0; CAdd 0 0 10; CAdd2 1 0 (-5) 0; Exit 1; Spawn 2; CAdd2 2 0 0 4]%Z in
  let x := run cfg_summer (start cfg_summer) h in
  threads_small cfg_summer x /\ (g_sum x 0, g_cnt x 0) = (5, 5)%Z /\ t_tid (thr x 2) = Some 1%nat /\
  snd (step cfg_summer x (CRead 0)) = OVal 5 5.
Proof. cbv zeta. split; [vm_compute; discriminate|]. repeat split; vm_compute; reflexivity. Qed.

(* 3 lines, dirty column of instance 0, the other thread owns line 2: it constructs after the release and recycles id 0 *)
Example c19_recycle_run :
  let m0 := fun j k => if Nat.eqb j 0 && Nat.ltb k 3 then 7%Z else 0%Z in
  let a := {| nxt := 1; fre := [] |} in
  let x := Machine.run dst (dstep 3 0 2) (dinit m0 a [5; 6]%Z) [0; 0; 0; 0; 1; 1; 1]%nat in
  dstart_ok 3 0 m0 a /\ d_y x = Some 0%nat /\ d_rel x = true /\ (d_added x, csum (dm x 0) 3) = (11, 11)%Z.
Proof.
  cbv zeta. split; [|vm_compute; repeat split].
  unfold dstart_ok; cbn [nxt fre In]. split; [intros ? []|]. split; [constructor|]. split; [lia|]. split; [tauto|]. split.
  - intros i [[]|H] k. destruct i; [lia|reflexivity].
  - intros i k H. destruct i; [|reflexivity]. cbn [Nat.eqb andb]. destruct (Nat.ltb_spec k 3); [lia|reflexivity].
Qed.

Example c19_reader_run :
  let x := Machine.run rst rstep (rinit [0; 0]%Z [[1; 2]; [5]]%Z) [2; 0; 1; 2; 0]%nat in
  r_started x = true /\ r_pos x = length (r_slots x) /\ (r_lo x, r_acc x, SZ (r_slots x)) = (0, 5, 8)%Z.
Proof. vm_compute. repeat split. Qed.

(* the former refutation witnesses now satisfy the theorems: the 17th instance (second storage, never touched) with a
   live thread that used the first; a maxer whose only sample is INT64_MIN *)
Example c19_former_oob_witness :
  let x := run cfg_compact16 (start cfg_compact16) (Spawn 0 :: map CNew (seq 0 17) ++ [CAdd 0 0 5%Z]) in
  chnd x 16 = Some {| i_iid := 16; i_off := 0; i_sto := 1 |} /\ csize x 1 = 0%nat /\
  for_each_alive x false 1 = Some [] /\ for_each_alive x false 0 = Some [0%nat].
Proof. vm_compute. repeat split. Qed.
Example c19_former_sentinel_witness :
  let x := run cfg_maxer (start cfg_maxer) [Spawn 0; CNew 0; CAdd 0 0 int64_min] in
  g_per x 0 = [int64_min] /\ snd (step cfg_maxer x (CRead 0)) = OVal int64_min 1.
Proof. cbv zeta. split; vm_compute; reflexivity. Qed.

Example c19_real_configurations_ok :
  cfg_ok cfg_compact16 /\ cfg_ok cfg_adder /\ cfg_ok cfg_summer /\ cfg_ok cfg_maxer /\ cfg_ok cfg_miner.
Proof. exact cfgs_ok. Qed.

(* thread 1 exits, thread 2 reuses its line; the counter at handle 0 is destroyed and its id recycled by handle 1 *)
Definition c19_example_history : list op :=
  [Spawn 0; Spawn 1; CNew 0; CAdd 0 0 5; CAdd 1 0 7; Exit 1; Spawn 2; CAdd 2 0 1; CDel 0; CNew 1; CAdd 2 1 4]%Z.
Example c19_example_meets_hypotheses :
  let x := run cfg_adder (start cfg_adder) c19_example_history in
  threads_small cfg_adder x /\ chnd x 1 = Some {| i_iid := 0; i_off := 0; i_sto := 0 |} /\
  t_tid (thr x 2) = Some 1 /\ g_used x 0 = [1; 1; 0] /\
  snd (step cfg_adder x (CRead 1)) = OVal 4 0.
Proof. cbv zeta. split; [vm_compute; discriminate|]. repeat split; vm_compute; reflexivity. Qed.
