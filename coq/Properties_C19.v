(* C19 - counters / thread-locals. Only statements here. *)
From Coq Require Import ZArith List.
Require Import Verif.Gen.Gen_counter Verif.CT.CTModel Verif.CT.CTProofs.
Import ListNotations.

Theorem c19_stub : block_size = block_size.
Proof. exact ct_stub. Qed.
Print Assumptions c19_stub.
