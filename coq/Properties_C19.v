(* C19 - counters / thread-locals: aggregates exact across thread and instance churn.
   Only statements here; every proof is `exact <lemma of CT/CTProofs.v>`.

   Model: CT/CTModel.v (one world of EnumerableThreadLocal / CompactEnumerableThreadLocal / counter cells; history =
   list of op: thread Spawn/Exit, instance CNew/CDel/CMove/CMoveCtor, CAdd/CRead/CReset, CForEach/CAlive).
   `run cf (start cf) h` is the state after ANY history h (ill-formed operations are no-ops, as in the harness);
   a read in such a state is a read at a quiescent point.  g_sum/g_cnt/g_per/g_used are ghost fields recording what
   the client contributed to the counter now held by a handle (they travel with the counter on moves).

   Hypothesis `threads_small`: fewer than 2^16 - 128 thread ids were ever handed out.  It is needed: for_each casts
   snapshot.size() to uint16_t, which is 0 once the storage has 65536 lines (not replayed on the real code).

   Proved for all histories:  c19_sum_exact, c19_fresh_is_zero, c19_local_private, c19_local_stable,
   c19_for_each_all_used, c19_for_each_alive_const_in_bounds.
   Refuted on the faithful model, witnesses replayed on the real classes by checks/c19.py (KNOWN_FINDINGS):
   c19_for_each_alive_refuted (non-const overload reads out of bounds, DESIGN F6) and c19_extreme_refuted (a
   maxer/miner whose only sample equals the sentinel numeric_limits min/max reports an empty period).
   NOT proved (stated in the header only, checked by monitors on the implementation):
   - for_each_alive (const) visits EXACTLY the lines of live threads below the storage size (only in-bounds proved);
   - maxer/miner: value() = extreme of the current period when no sample equals the sentinel;
   Reader bounds (c19_reader_bounds) are proved for an interleaving machine of single-writer slots and one reader
   (one step = one plain load/store of the real code, sequentially consistent); on the real classes they are checked
   by the concurrent stress monitor. *)
From Coq Require Import ZArith List.
Require Import Verif.Conc.Machine.
Require Import Verif.Gen.Gen_counter Verif.CT.CTModel Verif.CT.CTProofs.
Import ListNotations.

(* At any quiescent point an adder reports exactly the sum of everything added and a summer the exact sum and
   count, for every history of thread birth/death and instance construction/destruction/move. *)
Theorem c19_sum_exact : forall cf h c i, cfg_ok cf -> ck cf = KAdder \/ ck cf = KSummer ->
  let x := run cf (start cf) h in
  threads_small cf x -> chnd x c = Some i ->
  step cf x (CRead c) = (x, OVal (g_sum x c) (if is_summer (ck cf) then g_cnt x c else 0%Z)).
Proof. exact ct_sum_exact. Qed.
Print Assumptions c19_sum_exact.

(* A newly created counter starts from zero, whatever was done to the instance id / cache-line offset it recycles. *)
Theorem c19_fresh_is_zero : forall cf h c, cfg_ok cf -> ck cf = KAdder \/ ck cf = KSummer ->
  let x := run cf (start cf) (h ++ [CNew c]) in
  threads_small cf x -> chnd (run cf (start cf) h) c = None ->
  exists i, chnd x c = Some i /\ step cf x (CRead c) = (x, OVal 0%Z 0%Z).
Proof. exact ct_fresh_is_zero. Qed.
Print Assumptions c19_fresh_is_zero.

(* local() is private: two distinct live threads get distinct lines of the storage they asked for. *)
Theorem c19_local_private : forall cf h t u s x1 s1 k1 x2 s2 k2, cfg_ok cf ->
  let x := run cf (start cf) h in
  threads_small cf x2 -> t <> u -> t_alive (thr x t) = true -> t_alive (thr x u) = true ->
  local cf x t s = (x1, (s1, k1)) -> local cf x1 u s = (x2, (s2, k2)) ->
  s1 = s /\ s2 = s /\ k1 <> k2.
Proof. exact ct_local_private. Qed.
Print Assumptions c19_local_private.

(* local() is stable: once a thread has its line k, after any further history in which it does not exit (other
   threads come and go, instances are created, destroyed, moved) local() on any storage still returns line k. *)
Theorem c19_local_stable : forall cf h h2 t s k x2 s2 k2, cfg_ok cf ->
  let x := run cf (start cf) h in let x' := run cf x h2 in
  threads_small cf x2 -> t_tid (thr x t) = Some k -> Forall (no_exit t) h2 ->
  local cf x' t s = (x2, (s2, k2)) -> s2 = s /\ k2 = k.
Proof. exact ct_local_stable. Qed.
Print Assumptions c19_local_stable.

(* for_each visits every line that local() ever returned for the storage (threads that exited included). *)
Theorem c19_for_each_all_used : forall cf h s k, cfg_ok cf ->
  let x := run cf (start cf) h in
  threads_small cf x -> In k (g_used x s) -> (k < each_bound x s)%nat.
Proof. exact ct_for_each_all_used. Qed.
Print Assumptions c19_for_each_all_used.

(* for_each_alive, const overload: never reads outside the storage (any state). *)
Theorem c19_for_each_alive_const_in_bounds_partial : forall x s, for_each_alive x true s <> None.
Proof. exact ct_alive_const_in_bounds. Qed.
Print Assumptions c19_for_each_alive_const_in_bounds_partial.

(* for_each_alive, non-const overload (the one CompactEnumerableThreadLocal uses): reads out of bounds when a live
   thread's id is beyond this storage's size. *)
Theorem c19_for_each_alive_refuted :
  exists cf h c, cfg_ok cf /\ threads_small cf (run cf (start cf) h) /\ chnd (run cf (start cf) h) c <> None /\
    snd (step cf (run cf (start cf) h) (CAlive c false)) = OList None.
Proof. exact ct_alive_nonconst_refuted. Qed.
Print Assumptions c19_for_each_alive_refuted.

(* maxer: the only sample of the period is numeric_limits<ssize_t>::min(): value() reports no sample. *)
Theorem c19_extreme_refuted :
  exists h c, let x := run cfg_maxer (start cfg_maxer) h in
    g_per x c = [int64_min] /\ chnd x c <> None /\ step cfg_maxer x (CRead c) = (x, OVal 0%Z 0%Z).
Proof. exact ct_extreme_refuted. Qed.
Print Assumptions c19_extreme_refuted.

(* All interleavings of counting threads with a reading thread: n single-writer slots (each writer adds the values
   of its program, non-negative, one aligned store per addition), one reader that loads the slots in order; a
   schedule is any list of thread ids.  Whenever the reader has loaded every slot its sum is at least the total at
   the moment it started (everything completed before the read) and at most the total now (everything started
   before the read ended). *)
Theorem c19_reader_bounds : forall slots prog x, length prog = length slots -> nonneg prog ->
  reachable rst rstep (rinit slots prog) x -> r_started x = true -> r_pos x = length (r_slots x) ->
  (r_lo x <= r_acc x <= SZ (r_slots x))%Z.
Proof. exact ct_reader_bounds. Qed.
Print Assumptions c19_reader_bounds.

(* ---- stated, not proved (monitors only) ----
   c19_for_each_alive_exact : for every history h, storage s: for_each_alive x true s = Some (the ids k < csize x s
     that are allocated and not on the free list, in increasing order).
   c19_extreme_exact : for kinds KMaxer/KMiner, every history without moves and with fewer than 2^64-1 resets, live
     handle c whose current period g_per x c is non-empty and contains no sample equal to extremum k:
     step cf x (CRead c) = (x, OVal m 1) with m in g_per x c and no sample of the period more extreme than m;
     empty period: OVal 0 0. *)

(* ---- non-vacuity ---- *)
Example c19_reader_run :
  let x := Machine.run rst rstep (rinit [0; 0]%Z [[1; 2]; [5]]%Z) [2; 0; 1; 2; 0]%nat in
  r_started x = true /\ r_pos x = length (r_slots x) /\ (r_lo x, r_acc x, SZ (r_slots x)) = (0, 5, 8)%Z.
Proof. vm_compute. repeat split. Qed.

Example c19_real_configurations_ok :
  cfg_ok cfg_compact16 /\ cfg_ok cfg_adder /\ cfg_ok cfg_summer /\ cfg_ok cfg_maxer /\ cfg_ok cfg_miner.
Proof. exact cfgs_ok. Qed.

(* thread 1 exits, thread 2 reuses its line; the counter at handle 0 is destroyed and its id recycled by handle 1 *)
Definition c19_example_history : list op :=
  [Spawn 0; Spawn 1; CNew 0; CAdd 0 0 5; CAdd 1 0 7; Exit 1; Spawn 2; CAdd 2 0 1; CDel 0; CNew 1; CAdd 2 1 4]%Z.
Example c19_example_meets_hypotheses :
  let x := run cfg_adder (start cfg_adder) c19_example_history in
  threads_small cfg_adder x /\ chnd x 1 = Some {| i_iid := 0; i_off := 0; i_sto := 0 |} /\
  t_tid (thr x 2) = Some 1 /\ g_used x 0 = [1; 1; 0] /\
  snd (step cfg_adder x (CRead 1)) = OVal 4 0.
Proof. cbv zeta. split; [vm_compute; discriminate|]. repeat split; vm_compute; reflexivity. Qed.
