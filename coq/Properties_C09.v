(* C09 - Epoch: nothing becomes reclaimable while a reader that may see it is in a region.
   Only statements; proofs are `exact <lemma of EP/EPProofs.v>`.

   Reach tl ext owners anext0 afree0 vsize0 progs s = "s is reachable from the initial state of the client
   programs `progs` under SOME schedule" (EP/EPModel.v: one step = one atomic operation of epoch.h or of the
   client's pointer cell / freed flag).  Every theorem is therefore quantified over all schedules, all client
   programs, any number of threads and accessor handles, thread-local (tl = true) and Accessor style, any
   allocator history (anext0, afree0, vsize0 subject to wf_init), nested locks (hdepth), Accessor objects handed
   between threads (OGive), accessors created/released while a scan is in progress.
   no_overflow s = fewer than 2^64-1 ticks so far (the global version has not reached the IDLE sentinel).

   What is proved (sequentially consistent interleavings):
     c09_safety_sc               no reader ever dereferences a reclaimed object (the observable of the property)
     c09_held_not_freed          an object read inside a still open region is not in the freed set
     c09_reader_holds_mark       the property text: the reader's slot is published with a version below the tick of
                                 every unlink of what it holds, every running scan either already has a minimum below
                                 that tick or still has the reader's slot ahead of it inside its bound, and no
                                 finished scan allows reclaiming it
     c09_open_region_published   nesting + move: whenever the client's depth is >= 1 (inner unlocks included, whoever
                                 owns the Accessor now) and lock() is not in its entry window, the slot is published
     c09_unlocked_slot_idle      a slot with lock_times = 0 never holds the mark back
     c09_released_never_blocks   a slot whose accessor is unlocked (depth 0), released or never bound has
                                 lock_times = 0 and is idle: it does not hold the mark back (full strength since the
                                 fix 053c9bd of Epoch::unregister_accessor; before it the statement was refuted by
                                 C0,L0,X0, see KNOWN_FINDINGS `fixed:` release-while-locked-holds-mark)
     c09_reused_slot_clean       a slot handed out by create_accessor() (fresh or reused) starts with lock_times = 0, idle
     c09_lock_times_is_depth     lock_times of a live accessor's slot is exactly the client's nesting depth
     c09_slots_exclusive         model sanity: live accessors never share a slot, an operation in progress belongs to
                                 the handle's owner
     c09_memory_order_obligations, c09_tick_*, c09_idle_is_max    regenerated orders / constants
   Store-buffer half of the quantifier (PARTIAL): two explicit store-buffer machines for the ONE-slot skeleton
   (reader: store slot; [fence]; load cell  ||  writer: store cell; tick; load slot), all schedules of thread steps
   and buffer flushes, parameterised by facts computed from the regenerated site tables (entry fence present, after
   the slot store, seq_cst; x86 tick = seq_cst RMW):
     c09_tso_entry_fence_skeleton / c09_tso_without_fence_refuted          EP/EPTsoModel.v (also carries versions:
                                 the reader publishes the version it loaded, the writer compares with its tick value)
     c09_litmus_epoch_safe, c09_litmus_all_executions, c09_litmus_*_refuted   generic machine WM/TSO.v + WM/Litmus.v,
                                 lifted by the explorer-completeness theorem TSOProofs.outcomes_sound
   The composition of the skeleton with the full algorithm (many slots/readers, nesting, allocator) and the non-x86
   tick branch (relaxed RMW + seq_cst fence) are covered only by c09_memory_order_obligations, not mechanised. *)
From Coq Require Import ZArith List Bool.
Require Import Verif.Base.Atomics Verif.Gen.Gen_epoch Verif.Conc.Machine Verif.EP.EPModel Verif.EP.EPBase Verif.EP.EPInvB
               Verif.EP.EPProofs Verif.EP.EPTsoModel Verif.EP.EPTso.
Require Verif.WM.TSO Verif.WM.Litmus Verif.EP.EPLitmus.
Import ListNotations.
Local Open Scope Z_scope.

Theorem c09_safety_sc : forall tlm e owners anext0 afree0 vsize0 progs s, wf_init anext0 afree0 ->
  Reach tlm e owners anext0 afree0 vsize0 progs s -> no_overflow s -> uaf s = false.
Proof. exact ep_safety_sc. Qed.
Print Assumptions c09_safety_sc.

Theorem c09_held_not_freed : forall tlm e owners anext0 afree0 vsize0 progs s h o, wf_init anext0 afree0 ->
  Reach tlm e owners anext0 afree0 vsize0 progs s -> no_overflow s ->
  hheld (get_h s h) = Some o -> ~ In o (freed s).
Proof. exact ep_held_not_freed. Qed.
Print Assumptions c09_held_not_freed.

Theorem c09_reader_holds_mark : forall tlm e owners anext0 afree0 vsize0 progs s h o i, wf_init anext0 afree0 ->
  Reach tlm e owners anext0 afree0 vsize0 progs s -> no_overflow s ->
  hheld (get_h s h) = Some o -> hidx (get_h s h) = Some i ->
  ver (get_slot s i) <> SLOT_IDLE /\ ver (get_slot s i) <= gver s /\
  (forall t th T, thr s t th -> In (o, T) (retired th) -> ver (get_slot s i) < T) /\
  (forall t th n k mn T, thr s t th -> tpc th = CScan n k mn -> In (o, T) (retired th) -> mn < T \/ (k <= i < n)%nat) /\
  (forall t th m todo all T, thr s t th -> tpc th = CFree m todo all -> ~ In (o, T) todo).
Proof. exact ep_reader_holds_mark. Qed.
Print Assumptions c09_reader_holds_mark.

Theorem c09_open_region_published : forall tlm e owners anext0 afree0 vsize0 progs s h i, wf_init anext0 afree0 ->
  Reach tlm e owners anext0 afree0 vsize0 progs s -> no_overflow s ->
  hidx (get_h s h) = Some i -> 1 <= hdepth (get_h s h) -> ~ entering s i ->
  ver (get_slot s i) <> SLOT_IDLE /\ ver (get_slot s i) <= gver s.
Proof. exact ep_open_region_published. Qed.
Print Assumptions c09_open_region_published.

Theorem c09_unlocked_slot_idle : forall tlm e owners anext0 afree0 vsize0 progs s i, wf_init anext0 afree0 ->
  Reach tlm e owners anext0 afree0 vsize0 progs s -> no_overflow s ->
  lt (get_slot s i) = 0 -> ver (get_slot s i) = SLOT_IDLE.
Proof. exact ep_unlocked_slot_idle. Qed.
Print Assumptions c09_unlocked_slot_idle.

Theorem c09_released_never_blocks : forall tlm e owners anext0 afree0 vsize0 progs s i, wf_init anext0 afree0 ->
  Reach tlm e owners anext0 afree0 vsize0 progs s -> no_overflow s ->
  (forall h, hidx (get_h s h) = Some i -> hdepth (get_h s h) = 0) ->
  lt (get_slot s i) = 0 /\ ver (get_slot s i) = SLOT_IDLE.
Proof. exact ep_released_never_blocks. Qed.
Print Assumptions c09_released_never_blocks.

Theorem c09_reused_slot_clean : forall tlm e owners anext0 afree0 vsize0 progs s t th h i, wf_init anext0 afree0 ->
  Reach tlm e owners anext0 afree0 vsize0 progs s -> no_overflow s ->
  thr s t th -> tpc th = CrEnsure h i -> lt (get_slot s i) = 0 /\ ver (get_slot s i) = SLOT_IDLE.
Proof. exact ep_reused_slot_clean. Qed.
Print Assumptions c09_reused_slot_clean.

Theorem c09_lock_times_is_depth : forall tlm e owners anext0 afree0 vsize0 progs s h i, wf_init anext0 afree0 ->
  Reach tlm e owners anext0 afree0 vsize0 progs s -> no_overflow s ->
  hidx (get_h s h) = Some i -> lt (get_slot s i) = hdepth (get_h s h).
Proof. exact ep_lock_times_is_depth. Qed.
Print Assumptions c09_lock_times_is_depth.

(* non-vacuity of the release-while-locked case: after C0,L0,X0 everything is released and slot 0 is idle again *)
Example c09_release_while_locked_example :
  exists s, Reach false 0 [0%nat] 0 [] 0 [[OCreate 0; OLock 0; ORelease 0]] s /\ all_done s = true /\
            (forall h, hidx (get_h s h) = None) /\ ver (get_slot s 0) = SLOT_IDLE /\ lt (get_slot s 0) = 0 /\ afree s = [0%nat].
Proof. exact ep_release_while_locked_example. Qed.

Theorem c09_slots_exclusive : forall tlm e owners anext0 afree0 vsize0 progs s, wf_init anext0 afree0 ->
  Reach tlm e owners anext0 afree0 vsize0 progs s ->
  (forall h h' i, hidx (get_h s h) = Some i -> hidx (get_h s h') = Some i -> h = h') /\
  (forall h i, hidx (get_h s h) = Some i -> (i < anext s)%nat /\ (i < vsize s)%nat /\ ~ In i (afree s)) /\
  (forall t th h i, thr s t th -> pc_bound (tpc th) = Some (h, i) -> howner (get_h s h) = t /\ hidx (get_h s h) = Some i).
Proof. exact ep_slots_exclusive. Qed.
Print Assumptions c09_slots_exclusive.

(* the memory orders the argument relies on are the ones in the source (regenerated site tables): entry = store THEN
   seq_cst fence, tick = seq_cst RMW / relaxed RMW + seq_cst fence, scan = acquire loads, exit = release store,
   release() of a locked accessor = release store *)
Theorem c09_memory_order_obligations : orders_ok = true.
Proof. exact ep_orders_ok. Qed.
Print Assumptions c09_memory_order_obligations.

(* tick() returns the incremented value, the idle sentinel is the largest 64-bit value and is what the scan starts from *)
Theorem c09_tick_returns_new_version : tick_ret = tick_inc /\ tick_inc = 1.
Proof. exact ep_tick_spec. Qed.
Print Assumptions c09_tick_returns_new_version.
Theorem c09_idle_is_max : SLOT_IDLE = 2 ^ 64 - 1 /\ lwm_init = SLOT_IDLE /\ unlock_value = SLOT_IDLE.
Proof. exact ep_idle_spec. Qed.
Print Assumptions c09_idle_is_max.

(* store-buffer half, one-slot skeleton (EP/EPTsoModel.v): reader = load version; store slot; FENCE; load cell,
   writer = store cell; RMW tick; load slot, store buffers flushed by the memory system at arbitrary moments.
   entry_fence = 'the regenerated site table of Epoch::lock has a seq_cst fence after the slot store'.
   With the fence, under every schedule, it never happens that the reader got the old object while the writer's
   scan allows the reclaim; without the fence it does happen. *)
Theorem c09_tso_entry_fence_skeleton : forall sch, tso_bad (run tso (tso_step entry_fence) tso_init sch) = false.
Proof. exact tso_fence_safe. Qed.
Print Assumptions c09_tso_entry_fence_skeleton.
Theorem c09_tso_without_fence_refuted : exists sch, tso_bad (run tso (tso_step false) tso_init sch) = true.
Proof. exact tso_nofence_refuted. Qed.
Print Assumptions c09_tso_without_fence_refuted.
Example c09_tso_finishes : exists sch, let s := run tso (tso_step entry_fence) tso_init sch in pc_r s = 4%nat /\ pc_w s = 3%nat.
Proof. exact tso_fence_finishes. Qed.

(* the same skeleton on the generic store-buffer machine WM/TSO.v (WM/Litmus.v epoch_reader / epoch_writer), with
   entry_fence and tick_seq_cst computed from the regenerated site tables sites_lock / sites_tick: the explorer finds
   no bad outcome, and by its completeness (TSOProofs.outcomes_sound) every terminated execution under any schedule
   of thread steps and buffer flushes is not bad; without the entry fence, or with the tick weakened to a plain
   store, a bad terminated execution exists *)
Theorem c09_litmus_epoch_safe : Verif.WM.Litmus.epoch_safe entry_fence Verif.EP.EPLitmus.tick_seq_cst = true.
Proof. exact Verif.EP.EPLitmus.litmus_epoch_safe. Qed.
Print Assumptions c09_litmus_epoch_safe.
Theorem c09_litmus_all_executions : forall sch,
  Verif.WM.TSO.final (Verif.EP.EPLitmus.litmus_state entry_fence Verif.EP.EPLitmus.tick_seq_cst sch) = true ->
  Verif.WM.Litmus.epoch_bad (Verif.WM.TSO.result (Verif.EP.EPLitmus.litmus_state entry_fence Verif.EP.EPLitmus.tick_seq_cst sch)) = false.
Proof. exact Verif.EP.EPLitmus.litmus_all_executions. Qed.
Print Assumptions c09_litmus_all_executions.
Theorem c09_litmus_no_entry_fence_refuted :
  Verif.WM.Litmus.epoch_safe false true = false /\
  exists sch, Verif.WM.TSO.final (Verif.EP.EPLitmus.litmus_state false true sch) = true /\
              Verif.WM.Litmus.epoch_bad (Verif.WM.TSO.result (Verif.EP.EPLitmus.litmus_state false true sch)) = true.
Proof. exact Verif.EP.EPLitmus.litmus_no_entry_fence_refuted. Qed.
Print Assumptions c09_litmus_no_entry_fence_refuted.
Theorem c09_litmus_tick_relaxed_refuted :
  Verif.WM.Litmus.epoch_safe true false = false /\
  exists sch, Verif.WM.TSO.final (Verif.EP.EPLitmus.litmus_state true false sch) = true /\
              Verif.WM.Litmus.epoch_bad (Verif.WM.TSO.result (Verif.EP.EPLitmus.litmus_state true false sch)) = true.
Proof. exact Verif.EP.EPLitmus.litmus_tick_relaxed_refuted. Qed.
Print Assumptions c09_litmus_tick_relaxed_refuted.

(* non-vacuity: a well-formed initial allocator; a reachable state with a reader holding object 0 inside its region
   while a collector that retired (0, tick 1) is scanning *)
Example c09_wf_init_example : wf_init 0 [].
Proof. exact ep_wf_init_example. Qed.
Example c09_reach_example :
  exists s, Reach false 0 [0%nat] 0 [] 0 [[OCreate 0; OLock 0; ORead 0]; [OUnlink; OCollect]] s /\
            hheld (get_h s 0) = Some 0%nat /\ hidx (get_h s 0) = Some 0%nat /\ no_overflow s /\
            exists th, thr s 1 th /\ tpc th = CScan 1 0 SLOT_IDLE /\ In (0%nat, 1) (retired th).
Proof. exact ep_reach_example. Qed.
