(* C09 - Epoch: nothing becomes reclaimable while a reader that may see it is in a region. *)
From Coq Require Import ZArith List Bool.
Require Import Verif.Gen.Gen_epoch Verif.Conc.Machine Verif.EP.EPModel Verif.EP.EPProofs.
Import ListNotations.
Local Open Scope Z_scope.

Theorem c09_memory_order_obligations : orders_ok = true.
Proof. exact ep_orders_ok. Qed.
Print Assumptions c09_memory_order_obligations.
