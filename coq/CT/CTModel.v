(* Executable model of babylon's counters and enumerable thread-locals
   (src/babylon/concurrent/counter.h, thread_local.h; thread/instance ids through the LIFO free list of
   id_allocator.hpp; storage growth in blocks as concurrent/vector.hpp does).  No proofs in this file.

   One "world" = one cell type T: a thread-id allocator, the per-thread one-entry cache of
   EnumerableThreadLocal<CacheLine> (keyed by the never reused EnumerableThreadLocal::_id), the static vector of
   storages (storage s = EnumerableThreadLocal number s, id first_id + s, a growing array of cache lines indexed by
   thread id), the instance-id allocator of CompactEnumerableThreadLocal and the instances
   (_instance_id, _cacheline_offset, _storage) held by client handles.  A cache line is [offset -> cell]; a cell is
   a pair of integers: (value, -) adder, (sum, num) summer, (value, version) maxer/miner.

   Every comparison / offset formula comes from Gen_counter (regenerated from the source on every run).  The
   history alphabet [op] is the one the harness replays on the real classes (harness/seq/c19_counter.cpp). *)
From Coq Require Import ZArith List Bool Arith.
Require Import Verif.Gen.Gen_counter.
Import ListNotations.

Definition cell := (Z * Z)%type.
Inductive kind := KAdder | KSummer | KMaxer | KMiner.

Record cfg := { cK : nat;        (* NUM_PER_CACHELINE *)
                cB : nat;        (* block size of the per-storage ConcurrentVector *)
                ck : kind }.

(* NUM_PER_CACHELINE = BABYLON_CACHELINE_SIZE * CACHE_LINE_NUM / sizeof(T) *)
Definition num_per_line (cache_line_num sizeof_t : nat) : nat :=
  Z.to_nat (line_bytes (Z.of_nat cache_line_num) / Z.of_nat sizeof_t).
Definition block_size : nat := Z.to_nat etl_block.

(* ---------------------------------------------------------------- IdAllocator (sequential behaviour): LIFO free list *)
Record ids := { nxt : nat; fre : list nat }.
Definition ids0 : ids := {| nxt := 0; fre := [] |}.
Definition id_alloc (a : ids) : nat * ids :=
  match fre a with
  | x :: r => (x, {| nxt := nxt a; fre := r |})
  | [] => (nxt a, {| nxt := S (nxt a); fre := [] |})
  end.
Definition id_free (a : ids) (k : nat) : ids := {| nxt := nxt a; fre := k :: fre a |}.

(* ---------------------------------------------------------------------------------------------------------- state *)
Record thread := { t_alive : bool;
                   t_tid : option nat;           (* thread_local ThreadId, allocated at the first slow local() *)
                   t_cid : nat;                  (* _s_cache.id *)
                   t_item : nat * nat }.         (* _s_cache.item = &storage[s].line[k] *)
Definition thread0 : thread :=
  {| t_alive := false; t_tid := None; t_cid := Z.to_nat cache_init_id; t_item := (0, 0) |}.

Record inst := { i_iid : nat; i_off : nat; i_sto : nat }.

Record st := {
  tids : ids;
  thr : nat -> thread;
  iids : ids;
  csize : nat -> nat;                 (* storage s: number of constructed lines (ConcurrentVector size) *)
  cmem : nat -> nat -> nat -> cell;   (* storage, line (= thread id), offset *)
  chnd : nat -> option inst;          (* client handle -> live instance *)
  cver : nat -> Z;                    (* ConcurrentComparer::_version of the counter at the handle *)
  (* ghost: what the client contributed *)
  g_sum : nat -> Z;                   (* handle -> sum added since construction / reset *)
  g_cnt : nat -> Z;                   (* handle -> number of additions *)
  g_per : nat -> list Z;              (* handle -> values of the current period *)
  g_used : nat -> list nat            (* storage -> lines local() ever returned *)
}.

Definition czero (k : kind) : cell :=
  match k with KAdder | KSummer => (0, 0)%Z | _ => (0%Z, slot_init_version) end.

(* memory a block constructor produces: memset 0 (adder, summer) / Slot{version SIZE_MAX} (maxer, miner) *)
Definition init_for (k : kind) : st :=
  {| tids := ids0; thr := fun _ => thread0; iids := ids0; csize := fun _ => 0;
     cmem := fun _ _ _ => czero k; chnd := fun _ => None; cver := fun _ => 0%Z;
     g_sum := fun _ => 0%Z; g_cnt := fun _ => 0%Z; g_per := fun _ => []; g_used := fun _ => [] |}.

Definition upd {A} (f : nat -> A) (k : nat) (v : A) : nat -> A := fun x => if Nat.eqb x k then v else f x.
Definition upd3 (m : nat -> nat -> nat -> cell) (s k o : nat) (v : cell) : nat -> nat -> nat -> cell :=
  fun s' k' o' => if Nat.eqb s' s && Nat.eqb k' k && Nat.eqb o' o then v else m s' k' o'.
(* write v at offset o of lines [0, n) of storage s *)
Definition fill (m : nat -> nat -> nat -> cell) (s n o : nat) (v : cell) : nat -> nat -> nat -> cell :=
  fun s' k' o' => if Nat.eqb s' s && Nat.ltb k' n && Nat.eqb o' o then v else m s' k' o'.

Definition set_tids (x : st) v := {| tids := v; thr := thr x; iids := iids x; csize := csize x; cmem := cmem x; chnd := chnd x;
  cver := cver x; g_sum := g_sum x; g_cnt := g_cnt x; g_per := g_per x; g_used := g_used x |}.
Definition set_thr (x : st) v := {| tids := tids x; thr := v; iids := iids x; csize := csize x; cmem := cmem x; chnd := chnd x;
  cver := cver x; g_sum := g_sum x; g_cnt := g_cnt x; g_per := g_per x; g_used := g_used x |}.
Definition set_iids (x : st) v := {| tids := tids x; thr := thr x; iids := v; csize := csize x; cmem := cmem x; chnd := chnd x;
  cver := cver x; g_sum := g_sum x; g_cnt := g_cnt x; g_per := g_per x; g_used := g_used x |}.
Definition set_csize (x : st) v := {| tids := tids x; thr := thr x; iids := iids x; csize := v; cmem := cmem x; chnd := chnd x;
  cver := cver x; g_sum := g_sum x; g_cnt := g_cnt x; g_per := g_per x; g_used := g_used x |}.
Definition set_cmem (x : st) v := {| tids := tids x; thr := thr x; iids := iids x; csize := csize x; cmem := v; chnd := chnd x;
  cver := cver x; g_sum := g_sum x; g_cnt := g_cnt x; g_per := g_per x; g_used := g_used x |}.
Definition set_chnd (x : st) v := {| tids := tids x; thr := thr x; iids := iids x; csize := csize x; cmem := cmem x; chnd := v;
  cver := cver x; g_sum := g_sum x; g_cnt := g_cnt x; g_per := g_per x; g_used := g_used x |}.
Definition set_cver (x : st) v := {| tids := tids x; thr := thr x; iids := iids x; csize := csize x; cmem := cmem x; chnd := chnd x;
  cver := v; g_sum := g_sum x; g_cnt := g_cnt x; g_per := g_per x; g_used := g_used x |}.
Definition set_ghost (x : st) s c p := {| tids := tids x; thr := thr x; iids := iids x; csize := csize x; cmem := cmem x;
  chnd := chnd x; cver := cver x; g_sum := s; g_cnt := c; g_per := p; g_used := g_used x |}.
Definition set_used (x : st) u := {| tids := tids x; thr := thr x; iids := iids x; csize := csize x; cmem := cmem x;
  chnd := chnd x; cver := cver x; g_sum := g_sum x; g_cnt := g_cnt x; g_per := g_per x; g_used := u |}.

(* EnumerableThreadLocal::_id of storage s (fetch_add_id in construction order of the static storage vector) *)
Definition sto_id (s : nat) : nat := Z.to_nat first_id + s.

(* ConcurrentVector::ensure(k): at least the block holding k exists *)
Definition ensure_size (B size k : nat) : nat := Nat.max size (B * (k / B + 1)).

(* EnumerableThreadLocal::local() of storage s called by thread t -> (state, the line it returns) *)
Definition local (cf : cfg) (x : st) (t s : nat) : st * (nat * nat) :=
  let th := thr x t in
  if local_fast_hit (Z.of_nat (t_cid th)) (Z.of_nat (sto_id s)) then (x, t_item th)
  else
    let '(k, a) := match t_tid th with
                   | Some k => (k, tids x)
                   | None => id_alloc (tids x)
                   end in
    let th' := {| t_alive := t_alive th; t_tid := Some k; t_cid := sto_id s; t_item := (s, k) |} in
    let x1 := set_thr (set_tids x a) (upd (thr x) t th') in
    let x2 := set_csize x1 (upd (csize x1) s (ensure_size (cB cf) (csize x1 s) k)) in
    (set_used x2 (upd (g_used x2) s (k :: g_used x2 s)), (s, k)).

(* EnumerableThreadLocal::for_each visits lines [0, min(ThreadId::end, uint16(size))) *)
Definition each_bound (x : st) (s : nat) : nat :=
  Z.to_nat (Z.min (Z.of_nat (nxt (tids x))) (for_each_size_arg (Z.of_nat (csize x s)))).

(* IdAllocator::for_each: maximal runs [b, e) of ids in [0, next) that are not on the free list *)
Fixpoint runs_from (alive : list bool) (pos : nat) (cur : option nat) : list (nat * nat) :=
  match alive with
  | [] => match cur with Some b => [(b, pos)] | None => [] end
  | true :: r => runs_from r (S pos) (match cur with Some b => Some b | None => Some pos end)
  | false :: r => match cur with
                  | Some b => (b, pos) :: runs_from r (S pos) None
                  | None => runs_from r (S pos) None
                  end
  end.
Definition alive_ids (a : ids) : list bool := map (fun k => negb (existsb (Nat.eqb k) (fre a))) (seq 0 (nxt a)).
Definition alive_runs (a : ids) : list (nat * nat) := runs_from (alive_ids a) 0 None.

(* for_each_alive of storage s: const overload (clamps) or non-const; None = a range passed to
   Snapshot::for_each reaches beyond the block table (out-of-bounds read) *)
Definition alive_range (cst : bool) (size : nat) (r : nat * nat) : option (list nat) :=
  let b := Z.of_nat (fst r) in let e := Z.of_nat (snd r) in let sz := Z.of_nat size in
  let b' := if cst then alive_c_begin b sz else alive_nc_begin b sz in
  let e' := if cst then alive_c_end e sz else alive_nc_end e sz in
  if (b' <? e')%Z && (sz <? e')%Z then None
  else Some (seq (Z.to_nat b') (Z.to_nat e' - Z.to_nat b')).
Fixpoint alive_lines (cst : bool) (size : nat) (rs : list (nat * nat)) : option (list nat) :=
  match rs with
  | [] => Some []
  | r :: q => match alive_range cst size r, alive_lines cst size q with
              | Some a, Some b => Some (a ++ b)
              | _, _ => None
              end
  end.
Definition for_each_alive (x : st) (cst : bool) (s : nat) : option (list nat) :=
  alive_lines cst (csize x s) (alive_runs (tids x)).

(* ------------------------------------------------------------------------------------------------ counter cells *)
Definition cmp_of (k : kind) (l r : Z) : bool := match k with KMiner => min_cmp l r | _ => max_cmp l r end.
Definition int64_min : Z := (- 2 ^ 63)%Z.
Definition int64_max : Z := (2 ^ 63 - 1)%Z.
(* EXTREMUM = Max ? numeric_limits<T>::min() : numeric_limits<T>::max() *)
Definition extremum (k : kind) : Z :=
  if Z.eqb (extremum_is_min_for (match k with KMiner => 0 | _ => 1 end)%Z) 0 then int64_max else int64_min.

(* ConcurrentSummer::operator<<(Summary{s, n}): local (sum, num) += (s, n), both halves (_mm_add_epi64) *)
Definition cell_add2 (s n : Z) (c : cell) : cell := ((fst c + s)%Z, (snd c + n)%Z).

Definition cell_add (k : kind) (ver : Z) (v : Z) (c : cell) : cell :=
  match k with
  | KAdder => (adder_step (fst c) v, snd c)
  | KSummer => cell_add2 v summer_unit c          (* operator<<(ssize_t v) = operator<<({v, 1}) *)
  | _ => if cmp_new_period ver (snd c) then (v, ver)
         else if cmp_of k (cmp_upd_lhs v (fst c)) (cmp_upd_rhs v (fst c)) then (v, snd c) else c
  end.

(* ConcurrentComparer::value(T&) over the visited slots -> (has_result, result).  The inner condition is the
   regenerated boolean structure read_accept(has_result, outcome of _comparer(lhs, rhs) as 0/1, 0): the translator
   prints `_comparer(a, b)` as `a - b` (non-zero = true), so passing (outcome, 0) plugs the comparer's verdict in. *)
Definition b2z (b : bool) : Z := if b then 1%Z else 0%Z.
Definition cmp_visit (k : kind) (ver : Z) (acc : bool * Z) (c : cell) : bool * Z :=
  if read_version_match (snd c) ver
  then if read_accept (b2z (fst acc))
                      (b2z (cmp_of k (read_cmp_lhs (fst c) (snd acc)) (read_cmp_rhs (fst c) (snd acc)))) 0%Z
       then (true, fst c) else acc
  else acc.
Definition cmp_fold (k : kind) (ver : Z) (cells : list cell) : bool * Z :=
  fold_left (cmp_visit k ver) cells (false, extremum k).

Definition cells_of (x : st) (i : inst) : list cell :=
  map (fun k => cmem x (i_sto i) k (i_off i)) (seq 0 (each_bound x (i_sto i))).

Definition sumZ (l : list Z) : Z := fold_right Z.add adder_sum_init l.

(* ConcurrentSummer::value(): the for_each callback adds EVERY visited slot, both halves; regenerated: the function
   contains no condition / early exit (summer_read_conditions = 0, summer_read_returns = 1: the final one).  If it ever
   does, the model makes no claim about which slots are kept (it keeps none): correspondence and read_sum re-open. *)
Definition summer_reader_unfiltered : bool := Z.eqb summer_read_conditions 0 && Z.eqb summer_read_returns 1.
Definition summer_cells (cs : list cell) : list cell := filter (fun _ => summer_reader_unfiltered) cs.

(* value() -> (a, b): adder (sum, 0); summer (sum, num); maxer/miner (value(), has_result) *)
Definition read (cf : cfg) (x : st) (c : nat) (i : inst) : Z * Z :=
  let cs := cells_of x i in
  match ck cf with
  | KAdder => (sumZ (map fst cs), 0%Z)
  | KSummer => (sumZ (map fst (summer_cells cs)), sumZ (map snd (summer_cells cs)))
  | k => let r := cmp_fold k (cver x c) cs in (if fst r then snd r else 0%Z, if fst r then 1%Z else 0%Z)
  end.

(* ------------------------------------------------------------------------------------------------------ history *)
Inductive op :=
| Spawn (t : nat) | Exit (t : nat)
| CNew (c : nat) | CDel (c : nat) | CMove (c d : nat) | CMoveCtor (c d : nat)
| CAdd (t c : nat) (v : Z) | CRead (c : nat) | CReset (c : nat)
| CForEach (c : nat) | CAlive (c : nat) (cst : bool)
| CAdd2 (t c : nat) (s n : Z).     (* ConcurrentSummer << Summary{s, n} *)

Inductive out :=
| ONone | OSkip | OId (n : nat) | OSlot (k : nat) | OVal (a b : Z) | OList (l : option (list Z)).

(* the destructor zeroes its column before it releases the instance id (statement order, regenerated) *)
Definition dtor_zero_first : bool := negb (Z.eqb dtor_zero_before_release 0).

Definition new_inst (cf : cfg) (x : st) (c : nat) : st * nat :=
  let '(iid, a) := id_alloc (iids x) in
  let i := {| i_iid := iid;
              i_off := Z.to_nat (cacheline_offset (Z.of_nat iid) (Z.of_nat (cK cf)));
              i_sto := Z.to_nat (storage_index (Z.of_nat iid) (Z.of_nat (cK cf))) |} in
  let x1 := set_chnd (set_iids x a) (upd (chnd x) c (Some i)) in
  let x2 := set_cver x1 (upd (cver x1) c cmp_initial_version) in
  (set_ghost x2 (upd (g_sum x2) c 0%Z) (upd (g_cnt x2) c 0%Z) (upd (g_per x2) c []), iid).

Definition swap_inst (x : st) (c d : nat) : st :=
  let hc := chnd x c in let hd := chnd x d in
  let x0 := set_chnd x (upd (upd (chnd x) c hd) d hc) in
  (* the counter object (with its _version) travels with the instance; only adders are movable in C++ *)
  let x1 := set_cver x0 (upd (upd (cver x0) c (cver x0 d)) d (cver x0 c)) in
  set_ghost x1 (upd (upd (g_sum x1) c (g_sum x1 d)) d (g_sum x1 c))
               (upd (upd (g_cnt x1) c (g_cnt x1 d)) d (g_cnt x1 c))
               (upd (upd (g_per x1) c (g_per x1 d)) d (g_per x1 c)).

Definition step (cf : cfg) (x : st) (o : op) : st * out :=
  match o with
  | Spawn t =>
      if t_alive (thr x t) then (x, OSkip)
      else (set_thr x (upd (thr x) t {| t_alive := true; t_tid := None; t_cid := Z.to_nat cache_init_id; t_item := (0, 0) |}), ONone)
  | Exit t =>
      if t_alive (thr x t)
      then let x1 := match t_tid (thr x t) with
                     | Some k => set_tids x (id_free (tids x) k)    (* ~ThreadId *)
                     | None => x
                     end in
           (set_thr x1 (upd (thr x1) t thread0), ONone)
      else (x, OSkip)
  | CNew c =>
      match chnd x c with
      | Some _ => (x, OSkip)
      | None => let '(x', iid) := new_inst cf x c in (x', OId iid)
      end
  | CDel c =>
      match chnd x c with
      | None => (x, OSkip)
      | Some i =>
          (* ~CompactEnumerableThreadLocal: value[offset] = T() in every visited line and release of the id, in the
             order of the source (sequentially both orders give the same state; concurrently see dstep below) *)
          let zero := fun x0 : st => set_cmem x0 (fill (cmem x0) (i_sto i) (each_bound x0 (i_sto i)) (Z.to_nat (dtor_zero_index (Z.of_nat (i_off i)))) (czero (ck cf))) in
          let rel := fun x0 : st => set_chnd (set_iids x0 (id_free (iids x0) (i_iid i))) (upd (chnd x0) c None) in
          (if dtor_zero_first then rel (zero x) else zero (rel x), ONone)
      end
  | CMove c d =>
      match chnd x c, chnd x d with
      | Some _, Some _ => (swap_inst x c d, ONone)
      | _, _ => (x, OSkip)
      end
  | CMoveCtor c d =>
      match chnd x c, chnd x d with
      | None, Some _ => let '(x', iid) := new_inst cf x c in (swap_inst x' c d, OId iid)
      | _, _ => (x, OSkip)
      end
  | CAdd t c v =>
      match chnd x c with
      | Some i =>
          if t_alive (thr x t) then
            let '(x1, (s, k)) := local cf x t (i_sto i) in
            let old := cmem x1 s k (i_off i) in
            let x2 := set_cmem x1 (upd3 (cmem x1) s k (i_off i) (cell_add (ck cf) (cver x1 c) v old)) in
            (set_ghost x2 (upd (g_sum x2) c (g_sum x2 c + v)%Z) (upd (g_cnt x2) c (g_cnt x2 c + 1)%Z)
                       (upd (g_per x2) c (v :: g_per x2 c)), OSlot k)
          else (x, OSkip)
      | None => (x, OSkip)
      end
  | CRead c =>
      match chnd x c with
      | Some i => let r := read cf x c i in (x, OVal (fst r) (snd r))
      | None => (x, OSkip)
      end
  | CReset c =>
      match chnd x c with
      | Some i =>
          match ck cf with
          | KAdder =>
              let x1 := set_cmem x (fill (cmem x) (i_sto i) (each_bound x (i_sto i)) (i_off i) (adder_reset_value, 0%Z)) in
              (set_ghost x1 (upd (g_sum x1) c 0%Z) (upd (g_cnt x1) c 0%Z) (upd (g_per x1) c []), ONone)
          | KSummer => (x, ONone)
          | _ =>
              let x1 := set_cver x (upd (cver x) c (cmp_reset_incr_target (cver x c) + 1)%Z) in
              (set_ghost x1 (g_sum x1) (g_cnt x1) (upd (g_per x1) c []), ONone)
          end
      | None => (x, OSkip)
      end
  | CForEach c =>
      match chnd x c with
      | Some i => (x, OList (Some (map fst (cells_of x i))))
      | None => (x, OSkip)
      end
  | CAlive c cst =>
      match chnd x c with
      | Some i => (x, OList (option_map (map (fun k => fst (cmem x (i_sto i) k (i_off i)))) (for_each_alive x cst (i_sto i))))
      | None => (x, OSkip)
      end
  | CAdd2 t c s n =>
      match ck cf, chnd x c with
      | KSummer, Some i =>
          if t_alive (thr x t) then
            let '(x1, (so, k)) := local cf x t (i_sto i) in
            let old := cmem x1 so k (i_off i) in
            let x2 := set_cmem x1 (upd3 (cmem x1) so k (i_off i) (cell_add2 s n old)) in
            (set_ghost x2 (upd (g_sum x2) c (g_sum x2 c + s)%Z) (upd (g_cnt x2) c (g_cnt x2 c + n)%Z) (g_per x2), OSlot k)
          else (x, OSkip)
      | _, _ => (x, OSkip)
      end
  end.

Fixpoint run (cf : cfg) (x : st) (h : list op) : st :=
  match h with
  | [] => x
  | o :: r => run cf (fst (step cf x o)) r
  end.

Fixpoint run_out (cf : cfg) (x : st) (h : list op) : list out :=
  match h with
  | [] => []
  | o :: r => let '(x', u) := step cf x o in u :: run_out cf x' r
  end.

(* ------------------------------------------------------------------------------ concurrent reader (interleaving) *)
(* Writers w = 0..n-1 each own one slot and add the next value of their program with one plain store (single
   writer, aligned store: atomic); the reader (pseudo thread id n) walks the slots in order, one load per step.
   One step = one memory access of the real code. *)
Record rst := {
  r_slots : list Z;              (* current slot contents *)
  r_prog : list (list Z);        (* per writer: values still to add *)
  r_pos : nat;                   (* next slot the reader loads *)
  r_acc : Z;                     (* reader's partial sum *)
  r_lo : Z;                      (* ghost: total of all slots when the reader started *)
  r_started : bool
}.
Definition nth_upd (l : list Z) (k : nat) (v : Z) : list Z := firstn k l ++ v :: skipn (S k) l.
Definition rstep (x : rst) (t : nat) : option rst :=
  if Nat.ltb t (length (r_slots x)) then
    match nth t (r_prog x) [] with
    | [] => None
    | v :: rest =>
        Some {| r_slots := nth_upd (r_slots x) t (adder_step (nth t (r_slots x) 0%Z) v);
                r_prog := firstn t (r_prog x) ++ rest :: skipn (S t) (r_prog x);
                r_pos := r_pos x; r_acc := r_acc x; r_lo := r_lo x; r_started := r_started x |}
    end
  else if Nat.eqb t (length (r_slots x)) then
    if Nat.ltb (r_pos x) (length (r_slots x)) then
      Some {| r_slots := r_slots x; r_prog := r_prog x; r_pos := S (r_pos x);
              r_acc := (r_acc x + nth (r_pos x) (r_slots x) 0)%Z;
              r_lo := if r_started x then r_lo x else fold_right Z.add 0%Z (r_slots x);
              r_started := true |}
    else None
  else None.
Definition rinit (slots : list Z) (prog : list (list Z)) : rst :=
  {| r_slots := slots; r_prog := prog; r_pos := 0; r_acc := 0%Z; r_lo := 0%Z; r_started := false |}.

(* ------------------------------------------- destructor of X racing with constructor + counting of another instance *)
(* Thread 0 runs ~CompactEnumerableThreadLocal of the instance with id xid: the zeroing sweep over the n lines (one
   store per step) and the release of the id, in the ORDER the source has them (dtor_zero_before_release, regenerated).
   Thread 1 constructs a new instance (one pop of the LIFO allocator) and counts the values of its program into its
   own line kb (one store per step).  dm j k = content of line k at the (storage, offset) of instance id j. *)
Record dst := {
  dm : nat -> nat -> Z;
  d_ids : ids;
  d_pos : nat;            (* lines [0, d_pos) swept *)
  d_rel : bool;           (* id released *)
  d_y : option nat;       (* id the new instance got *)
  d_todo : list Z;        (* values still to count *)
  d_added : Z             (* ghost: what the new instance's owner has counted so far *)
}.
Definition upd2 (m : nat -> nat -> Z) (j k : nat) (v : Z) : nat -> nat -> Z :=
  fun j' k' => if Nat.eqb j' j && Nat.eqb k' k then v else m j' k'.
Definition d_sweep (n xid : nat) (x : dst) : option dst :=
  if Nat.ltb (d_pos x) n
  then Some {| dm := upd2 (dm x) xid (d_pos x) adder_reset_value; d_ids := d_ids x; d_pos := S (d_pos x); d_rel := d_rel x;
               d_y := d_y x; d_todo := d_todo x; d_added := d_added x |}
  else None.
Definition d_release (xid : nat) (x : dst) : option dst :=
  if d_rel x then None
  else Some {| dm := dm x; d_ids := id_free (d_ids x) xid; d_pos := d_pos x; d_rel := true;
               d_y := d_y x; d_todo := d_todo x; d_added := d_added x |}.
Definition dstep (n xid kb : nat) (x : dst) (t : nat) : option dst :=
  match t with
  | 0 => if dtor_zero_first
         then (if Nat.ltb (d_pos x) n then d_sweep n xid x else d_release xid x)
         else (if d_rel x then d_sweep n xid x else d_release xid x)
  | 1 => match d_y x with
         | None => let '(y, a) := id_alloc (d_ids x) in
                   Some {| dm := dm x; d_ids := a; d_pos := d_pos x; d_rel := d_rel x;
                           d_y := Some y; d_todo := d_todo x; d_added := d_added x |}
         | Some y => match d_todo x with
                     | [] => None
                     | v :: r => Some {| dm := upd2 (dm x) y kb (adder_step (dm x y kb) v); d_ids := d_ids x;
                                         d_pos := d_pos x; d_rel := d_rel x; d_y := Some y; d_todo := r;
                                         d_added := (d_added x + v)%Z |}
                     end
         end
  | _ => None
  end.
Definition dinit (m0 : nat -> nat -> Z) (a : ids) (vs : list Z) : dst :=
  {| dm := m0; d_ids := a; d_pos := 0; d_rel := false; d_y := None; d_todo := vs; d_added := 0%Z |}.
