(* Proofs about CTModel.  Statements are fixed by Properties_C19.v. *)
From Coq Require Import ZArith List Bool Arith Lia.
Require Import Verif.Gen.Gen_counter Verif.CT.CTModel.
Import ListNotations.

(* ------------------------------------------------------------------------------------------------------------ *)
(* Facts about the regenerated expressions (the only places where Gen_counter is unfolded).                       *)
Lemma g_hit : forall a b, local_fast_hit a b = true -> a = b.
Proof. intros a b. unfold local_fast_hit. apply Z.eqb_eq. Qed.
Lemma g_hit_refl : forall a, local_fast_hit a a = true.
Proof. intros a. unfold local_fast_hit. apply Z.eqb_refl. Qed.
Lemma g_cache_init : (Z.to_nat cache_init_id < Z.to_nat first_id)%nat.
Proof. vm_compute. lia. Qed.
Lemma g_off : forall i K, cacheline_offset i K = (i mod K)%Z.
Proof. reflexivity. Qed.
Lemma g_sto : forall i K, storage_index i K = (i / K)%Z.
Proof. reflexivity. Qed.
Lemma g_dtor : forall o, dtor_zero_index o = o.
Proof. reflexivity. Qed.
Lemma g_size_arg : forall z, (0 <= z < 2 ^ 16)%Z -> for_each_size_arg z = z.
Proof. intros z H. unfold for_each_size_arg. apply Z.mod_small. exact H. Qed.
Lemma g_adder_step : forall a v, adder_step a v = (a + v)%Z.
Proof. reflexivity. Qed.
Lemma g_sum_init : adder_sum_init = 0%Z.
Proof. reflexivity. Qed.
Lemma g_reset_value : adder_reset_value = 0%Z.
Proof. reflexivity. Qed.
Lemma g_unit : summer_unit = 1%Z.
Proof. reflexivity. Qed.
Lemma g_alive_c : forall b e sz, alive_c_begin b sz = Z.min b sz /\ alive_c_end e sz = Z.min e sz.
Proof. intros. split; reflexivity. Qed.

Lemma sto_id_inj : forall a b, sto_id a = sto_id b -> a = b.
Proof. unfold sto_id. intros. lia. Qed.
Lemma sto_id_not_init : forall s, Z.to_nat cache_init_id <> sto_id s.
Proof. intros s. unfold sto_id. pose proof g_cache_init. lia. Qed.

(* ------------------------------------------------------------------------------------------------------------ *)
Fixpoint colsum (f : cell -> Z) (m : nat -> nat -> nat -> cell) (s o n : nat) : Z :=
  match n with
  | O => 0%Z
  | S n' => (colsum f m s o n' + f (m s n' o))%Z
  end.

Lemma sumZ_map_seq : forall (g : nat -> Z) n a,
  sumZ (map g (seq a n)) = fold_right Z.add 0%Z (map g (seq a n)).
Proof. intros. unfold sumZ. rewrite g_sum_init. reflexivity. Qed.

Lemma fold_seq_S : forall (g : nat -> Z) n a,
  fold_right Z.add 0%Z (map g (seq a (S n))) = (fold_right Z.add 0%Z (map g (seq a n)) + g (a + n)%nat)%Z.
Proof.
  intros g n. induction n as [|n IH]; intros a.
  - cbn. rewrite Nat.add_0_r. lia.
  - change (seq a (S (S n))) with (a :: seq (S a) (S n)). cbn [map fold_right].
    rewrite IH. cbn [seq map fold_right]. replace (S a + n)%nat with (a + S n)%nat by lia. lia.
Qed.

Lemma colsum_seq : forall f m s o n,
  fold_right Z.add 0%Z (map (fun k => f (m s k o)) (seq 0 n)) = colsum f m s o n.
Proof.
  intros f m s o n. induction n as [|n IH]; [reflexivity|].
  rewrite fold_seq_S, IH. reflexivity.
Qed.

Lemma colsum_ext : forall f m m' s o n, (forall k, (k < n)%nat -> m' s k o = m s k o) -> colsum f m' s o n = colsum f m s o n.
Proof.
  intros f m m' s o n. induction n as [|n IH]; intros H; [reflexivity|].
  cbn. rewrite IH by (intros; apply H; lia). rewrite H by lia. reflexivity.
Qed.

Lemma colsum_zero : forall f m s o n, (forall k, (k < n)%nat -> f (m s k o) = 0%Z) -> colsum f m s o n = 0%Z.
Proof.
  intros f m s o n. induction n as [|n IH]; intros H; [reflexivity|].
  cbn. rewrite IH by (intros; apply H; lia). rewrite H by lia. reflexivity.
Qed.

Lemma colsum_upd3 : forall f m s o n k v, (k < n)%nat ->
  colsum f (upd3 m s k o v) s o n = (colsum f m s o n + f v - f (m s k o))%Z.
Proof.
  intros f m s o n k v. induction n as [|n IH]; intros Hk; [lia|].
  cbn [colsum]. destruct (Nat.eq_dec k n) as [->|Hne].
  - rewrite (colsum_ext f m) by (intros j Hj; unfold upd3; rewrite Nat.eqb_refl;
      destruct (Nat.eqb_spec j n); [lia|reflexivity]).
    unfold upd3 at 1. rewrite !Nat.eqb_refl. cbn. lia.
  - rewrite IH by lia. unfold upd3. destruct (Nat.eqb_spec n k); [lia|].
    rewrite andb_false_r. cbn. lia.
Qed.

Lemma colsum_tail : forall f m s o n n', (n <= n')%nat ->
  (forall k, (n <= k)%nat -> f (m s k o) = 0%Z) -> colsum f m s o n' = colsum f m s o n.
Proof.
  intros f m s o n n' Hle Hz. induction Hle as [|n' Hle IH]; [reflexivity|].
  cbn. rewrite IH, Hz by lia. lia.
Qed.

(* ------------------------------------------------------------------------------------------------------------ *)
Section Inv.
Variable cf : cfg.
Hypothesis HK : (1 <= cK cf)%nat.
Hypothesis HB : (1 <= cB cf)%nat.

Definition off_of (j : nat) : nat := Z.to_nat (cacheline_offset (Z.of_nat j) (Z.of_nat (cK cf))).
Definition sto_of (j : nat) : nat := Z.to_nat (storage_index (Z.of_nat j) (Z.of_nat (cK cf))).

Lemma slot_inj : forall i j, off_of i = off_of j -> sto_of i = sto_of j -> i = j.
Proof.
  intros i j. unfold off_of, sto_of, cacheline_offset, storage_index. intros Ho Hs.
  assert (HKz : (0 < Z.of_nat (cK cf))%Z) by lia.
  pose proof (Z.mod_pos_bound (Z.of_nat i) _ HKz). pose proof (Z.mod_pos_bound (Z.of_nat j) _ HKz).
  assert (0 <= Z.of_nat i / Z.of_nat (cK cf))%Z by (apply Z.div_pos; lia).
  assert (0 <= Z.of_nat j / Z.of_nat (cK cf))%Z by (apply Z.div_pos; lia).
  apply Z2Nat.inj in Ho; try lia. apply Z2Nat.inj in Hs; try lia.
  pose proof (Z.div_mod (Z.of_nat i) (Z.of_nat (cK cf)) ltac:(lia)) as Di.
  pose proof (Z.div_mod (Z.of_nat j) (Z.of_nat (cK cf)) ltac:(lia)) as Dj.
  rewrite Ho, Hs in Di. lia.
Qed.

Definition summing : Prop := ck cf = KAdder \/ ck cf = KSummer.
Lemma czero_summing : summing -> czero (ck cf) = (0%Z, 0%Z).
Proof. intros [H|H]; rewrite H; reflexivity. Qed.

Record inv (x : st) : Prop := {
  i_fre : forall k, In k (fre (tids x)) -> (k < nxt (tids x))%nat;
  i_fre_nd : NoDup (fre (tids x));
  i_tid : forall t k, t_tid (thr x t) = Some k ->
          (k < nxt (tids x))%nat /\ ~ In k (fre (tids x)) /\ t_alive (thr x t) = true;
  i_tid_inj : forall t u k, t_tid (thr x t) = Some k -> t_tid (thr x u) = Some k -> t = u;
  i_cache : forall t s, t_cid (thr x t) = sto_id s ->
          fst (t_item (thr x t)) = s /\ t_tid (thr x t) = Some (snd (t_item (thr x t))) /\
          (snd (t_item (thr x t)) < csize x s)%nat;
  i_mem : forall s k o, (nxt (tids x) <= k \/ csize x s <= k)%nat -> cmem x s k o = czero (ck cf);
  i_size : forall s, (csize x s < nxt (tids x) + cB cf)%nat;
  i_inst : forall c i, chnd x c = Some i ->
          (i_iid i < nxt (iids x))%nat /\ ~ In (i_iid i) (fre (iids x)) /\
          i_off i = off_of (i_iid i) /\ i_sto i = sto_of (i_iid i);
  i_inst_inj : forall c d i j, chnd x c = Some i -> chnd x d = Some j -> i_iid i = i_iid j -> c = d;
  i_ifre : forall j, In j (fre (iids x)) -> (j < nxt (iids x))%nat;
  i_ifre_nd : NoDup (fre (iids x));
  i_freez : forall j, (In j (fre (iids x)) \/ nxt (iids x) <= j)%nat ->
          forall k, cmem x (sto_of j) k (off_of j) = czero (ck cf);
  i_sum : summing -> forall c i, chnd x c = Some i ->
          colsum fst (cmem x) (i_sto i) (i_off i) (nxt (tids x)) = g_sum x c /\
          (ck cf = KSummer -> colsum snd (cmem x) (i_sto i) (i_off i) (nxt (tids x)) = g_cnt x c);
  i_used : forall s k, In k (g_used x s) -> (k < nxt (tids x))%nat /\ (k < csize x s)%nat
}.

Lemma inv_init : inv (init_for (ck cf)).
Proof.
  constructor; cbn; intros; try contradiction; try discriminate; try constructor; try reflexivity; try lia.
Qed.

(* ---------------------------------------------------------------------------------------------- id allocator *)
Lemma alloc_spec : forall a k0 a',
  (forall k, In k (fre a) -> (k < nxt a)%nat) -> NoDup (fre a) -> id_alloc a = (k0, a') ->
  (nxt a <= nxt a')%nat /\ (k0 < nxt a')%nat /\ ~ In k0 (fre a') /\ NoDup (fre a') /\
  (forall k, In k (fre a') -> In k (fre a)) /\
  (forall k, In k (fre a) -> k <> k0 -> In k (fre a')) /\
  ((In k0 (fre a) /\ nxt a' = nxt a) \/ (k0 = nxt a /\ nxt a' = S (nxt a) /\ fre a = [])).
Proof.
  intros a k0 a' Hlt Hnd. unfold id_alloc. destruct (fre a) as [|y r] eqn:E; intros H; inversion H; subst; clear H; cbn.
  - split; [lia|]. split; [lia|]. split; [tauto|]. split; [constructor|]. split; [tauto|]. split; [tauto|]. right. auto.
  - inversion Hnd; subst. split; [lia|]. split; [apply Hlt; left; reflexivity|]. split; [assumption|]. split; [assumption|].
    split; [intros; right; assumption|]. split; [intros k [->|Hk] Hne; [congruence|exact Hk]|].
    left. split; [left; reflexivity|reflexivity].
Qed.

Lemma ensure_gt : forall B sz k, (1 <= B)%nat -> (k < ensure_size B sz k)%nat.
Proof.
  intros B sz k HB1. unfold ensure_size.
  pose proof (Nat.div_mod k B ltac:(lia)). pose proof (Nat.mod_upper_bound k B ltac:(lia)).
  assert (k < B * (k / B + 1))%nat by nia. lia.
Qed.
Lemma ensure_ge : forall B sz k, (sz <= ensure_size B sz k)%nat.
Proof. intros. unfold ensure_size. lia. Qed.
Lemma ensure_le : forall B sz k n, (1 <= B)%nat -> (sz < n + B)%nat -> (k < n)%nat -> (ensure_size B sz k < n + B)%nat.
Proof.
  intros B sz k n HB1 Hsz Hk. unfold ensure_size.
  pose proof (Nat.div_mod k B ltac:(lia)). pose proof (Nat.mod_upper_bound k B ltac:(lia)).
  assert (B * (k / B + 1) <= k + B)%nat by nia. lia.
Qed.

Ltac upd_tac := unfold upd in *; repeat match goal with
  | |- context [Nat.eqb ?a ?b] => destruct (Nat.eqb_spec a b); subst
  | H : context [Nat.eqb ?a ?b] |- _ => destruct (Nat.eqb_spec a b); subst end.

Arguments sto_id : simpl never.
Arguments ensure_size : simpl never.
Arguments czero : simpl never.
Arguments off_of : simpl never.
Arguments sto_of : simpl never.

Definition miss_state (x : st) (t s k0 : nat) (a' : ids) : st :=
  let th := thr x t in
  let th' := {| t_alive := t_alive th; t_tid := Some k0; t_cid := sto_id s; t_item := (s, k0) |} in
  let x1 := set_thr (set_tids x a') (upd (thr x) t th') in
  let x2 := set_csize x1 (upd (csize x1) s (ensure_size (cB cf) (csize x1 s) k0)) in
  set_used x2 (upd (g_used x2) s (k0 :: g_used x2 s)).

Lemma miss_inv : forall x t s k0 a', inv x -> t_alive (thr x t) = true ->
  (nxt (tids x) <= nxt a')%nat -> (k0 < nxt a')%nat -> ~ In k0 (fre a') -> NoDup (fre a') ->
  (forall k, In k (fre a') -> In k (fre (tids x))) ->
  (forall u k, u <> t -> t_tid (thr x u) = Some k -> k <> k0) ->
  (nxt a' = nxt (tids x) \/ nxt a' = S (nxt (tids x))) ->
  inv (miss_state x t s k0 a').
Proof.
  intros x t s k0 a' I Hal Hn Hk0 Hnf Hnd Hsub Hoth Hgrow.
  unfold miss_state. constructor; cbn.
  - intros k Hk. apply Hsub in Hk. apply (i_fre _ I) in Hk. lia.
  - exact Hnd.
  - intros u k. upd_tac; cbn.
    + intros E; inversion E; subst. auto.
    + intros E. destruct (i_tid _ I _ _ E) as (A & B & C). repeat split; [lia| |exact C]. intros F; apply B, Hsub, F.
  - intros u v k. upd_tac; cbn; intros E1 E2; try reflexivity.
    + inversion E1; subst. exfalso. eapply Hoth; eauto.
    + inversion E2; subst. exfalso. eapply Hoth; eauto.
    + eapply (i_tid_inj _ I); eauto.
  - intros u s0. unfold upd. destruct (Nat.eqb_spec u t) as [->|Hu]; cbn.
    + intros E. apply sto_id_inj in E. subst s0. rewrite Nat.eqb_refl. repeat split. apply (ensure_gt (cB cf) (csize x s) k0 HB).
    + intros E. destruct (i_cache _ I _ _ E) as (A & B & C). repeat split; auto.
      destruct (Nat.eqb_spec s0 s) as [e|]; [rewrite e in C|exact C]. pose proof (ensure_ge (cB cf) (csize x s) k0). lia.
  - intros s0 k o Hk. apply (i_mem _ I). destruct Hk as [Hk|Hk]; [left; lia|]. right.
    revert Hk. upd_tac; [|auto]. pose proof (ensure_ge (cB cf) (csize x s) k0). lia.
  - intros s0. upd_tac.
    + apply ensure_le; [exact HB| |exact Hk0]. pose proof (i_size _ I s). lia.
    + pose proof (i_size _ I s0). lia.
  - exact (i_inst _ I).
  - exact (i_inst_inj _ I).
  - exact (i_ifre _ I).
  - exact (i_ifre_nd _ I).
  - exact (i_freez _ I).
  - intros Hs c i Hc. destruct (i_sum _ I Hs c i Hc) as [A B].
    destruct Hgrow as [->| ->]; [split; assumption|].
    cbn [colsum]. rewrite (i_mem _ I) by (left; lia). rewrite (czero_summing Hs). cbn.
    split; [lia|]. intros Hk. rewrite (B Hk). lia.
  - intros s0 k. upd_tac.
    + intros [<-|Hk]; [split; [exact Hk0|apply ensure_gt; exact HB]|].
      destruct (i_used _ I _ _ Hk). pose proof (ensure_ge (cB cf) (csize x s) k0). split; lia.
    + intros Hk. destruct (i_used _ I _ _ Hk). split; lia.
Qed.

Definition same_but_threads (x x' : st) : Prop :=
  cmem x' = cmem x /\ chnd x' = chnd x /\ iids x' = iids x /\ cver x' = cver x /\
  g_sum x' = g_sum x /\ g_cnt x' = g_cnt x /\ g_per x' = g_per x.

Lemma local_spec : forall x t s x' s' k, inv x -> t_alive (thr x t) = true -> local cf x t s = (x', (s', k)) ->
  inv x' /\ s' = s /\ t_tid (thr x' t) = Some k /\ (k < csize x' s)%nat /\ (k < nxt (tids x'))%nat /\
  same_but_threads x x' /\ (nxt (tids x) <= nxt (tids x'))%nat /\
  (forall u, u <> t -> thr x' u = thr x u) /\ t_alive (thr x' t) = true /\
  (forall k0, t_tid (thr x t) = Some k0 -> k = k0).
Proof.
  intros x t s x' s' k I Hal. unfold local.
  destruct (local_fast_hit _ _) eqn:Eh.
  - intros H; inversion H; subst; clear H. apply g_hit, Nat2Z.inj in Eh.
    destruct (i_cache _ I _ _ Eh) as (A & B & C). destruct (i_tid _ I _ _ B) as (D & _ & _).
    Show. unfold same_but_threads. rewrite <- H2 in *. cbn in *. subst s'. repeat split; auto. intros k0 E. congruence.
  - destruct (t_tid (thr x t)) as [k0|] eqn:Et.
    + intros H; inversion H; subst; clear H. fold (miss_state x t s k (tids x)).
      destruct (i_tid _ I _ _ Et) as (A & B & C).
      split; [apply miss_inv; auto|].
      * apply (i_fre_nd _ I).
      * intros u k1 Hu E F. subst k1. apply Hu. eapply (i_tid_inj _ I); eauto.
      * unfold miss_state, same_but_threads; cbn. unfold upd. rewrite !Nat.eqb_refl. cbn.
        repeat split; auto; try (apply (ensure_gt (cB cf) (csize x s) k HB)).
        -- intros u Hu. destruct (Nat.eqb_spec u t); [contradiction|reflexivity].
        -- intros k0 E. congruence.
    + destruct (id_alloc (tids x)) as [k0 a'] eqn:Ea. intros H; inversion H; subst; clear H.
      fold (miss_state x t s k a').
      destruct (alloc_spec _ _ _ (i_fre _ I) (i_fre_nd _ I) Ea) as (A1 & A2 & A3 & A4 & A5 & A6 & A7).
      split; [apply miss_inv; auto|].
      * intros u k1 Hu E F. subst k1. destruct (i_tid _ I _ _ E) as (B1 & B2 & B3).
        destruct A7 as [[A7 _]|[A7 _]]; [contradiction|lia].
      * destruct A7 as [[_ ->]|[_ [-> _]]]; auto.
      * unfold miss_state, same_but_threads; cbn. unfold upd. rewrite !Nat.eqb_refl. cbn.
        repeat split; auto; try (apply (ensure_gt (cB cf) (csize x s) k HB)).
        -- intros u Hu. destruct (Nat.eqb_spec u t); [contradiction|reflexivity].
        -- intros k0 E. congruence.
Qed.

End Inv.
