(* Proofs about CTModel.  Statements are fixed by Properties_C19.v. *)
From Coq Require Import ZArith List Bool Arith Lia.
Require Import Verif.Conc.Machine.
Require Import Verif.Gen.Gen_counter Verif.CT.CTModel.
Import ListNotations.

(* ------------------------------------------------------------------------------------------------------------ *)
(* Facts about the regenerated expressions (the only places where Gen_counter is unfolded).                       *)
Lemma g_hit : forall a b, local_fast_hit a b = true -> a = b.
Proof. intros a b. unfold local_fast_hit. apply Z.eqb_eq. Qed.
Lemma g_hit_refl : forall a, local_fast_hit a a = true.
Proof. intros a. unfold local_fast_hit. apply Z.eqb_refl. Qed.
Lemma g_cache_init : (Z.to_nat cache_init_id < Z.to_nat first_id)%nat.
Proof. vm_compute. lia. Qed.
Lemma g_off : forall i K, cacheline_offset i K = (i mod K)%Z.
Proof. reflexivity. Qed.
Lemma g_sto : forall i K, storage_index i K = (i / K)%Z.
Proof. reflexivity. Qed.
Lemma g_dtor : forall o, dtor_zero_index o = o.
Proof. reflexivity. Qed.
Lemma g_size_arg : forall z, (0 <= z < 2 ^ 16)%Z -> for_each_size_arg z = z.
Proof. intros z H. unfold for_each_size_arg. apply Z.mod_small. exact H. Qed.
Lemma g_adder_step : forall a v, adder_step a v = (a + v)%Z.
Proof. reflexivity. Qed.
Lemma g_sum_init : adder_sum_init = 0%Z.
Proof. reflexivity. Qed.
Lemma g_reset_value : adder_reset_value = 0%Z.
Proof. reflexivity. Qed.
Lemma g_unit : summer_unit = 1%Z.
Proof. reflexivity. Qed.
Lemma g_alive_c : forall b e sz, alive_c_begin b sz = Z.min b sz /\ alive_c_end e sz = Z.min e sz.
Proof. intros. split; reflexivity. Qed.

Lemma sto_id_inj : forall a b, sto_id a = sto_id b -> a = b.
Proof. unfold sto_id. intros. lia. Qed.
Lemma sto_id_not_init : forall s, Z.to_nat cache_init_id <> sto_id s.
Proof. intros s. unfold sto_id. pose proof g_cache_init. lia. Qed.

(* ------------------------------------------------------------------------------------------------------------ *)
(* the summer's reader adds every visited slot: no condition, no early exit in ConcurrentSummer::value *)
Lemma g_summer_unfiltered : summer_reader_unfiltered = true.
Proof. reflexivity. Qed.
Lemma summer_cells_all : forall cs, summer_cells cs = cs.
Proof.
  intros cs. unfold summer_cells. rewrite g_summer_unfiltered. induction cs as [|c cs IH]; cbn; [reflexivity|rewrite IH; reflexivity].
Qed.

Fixpoint colsum (f : cell -> Z) (m : nat -> nat -> nat -> cell) (s o n : nat) : Z :=
  match n with
  | O => 0%Z
  | S n' => (colsum f m s o n' + f (m s n' o))%Z
  end.

Lemma sumZ_map_seq : forall (g : nat -> Z) n a,
  sumZ (map g (seq a n)) = fold_right Z.add 0%Z (map g (seq a n)).
Proof. intros. unfold sumZ. rewrite g_sum_init. reflexivity. Qed.

Lemma fold_seq_S : forall (g : nat -> Z) n a,
  fold_right Z.add 0%Z (map g (seq a (S n))) = (fold_right Z.add 0%Z (map g (seq a n)) + g (a + n)%nat)%Z.
Proof.
  intros g n. induction n as [|n IH]; intros a.
  - cbn. rewrite Nat.add_0_r. lia.
  - change (seq a (S (S n))) with (a :: seq (S a) (S n)). cbn [map fold_right].
    rewrite IH. cbn [seq map fold_right]. replace (S a + n)%nat with (a + S n)%nat by lia. lia.
Qed.

Lemma colsum_seq : forall f m s o n,
  fold_right Z.add 0%Z (map (fun k => f (m s k o)) (seq 0 n)) = colsum f m s o n.
Proof.
  intros f m s o n. induction n as [|n IH]; [reflexivity|].
  rewrite fold_seq_S, IH. reflexivity.
Qed.

Lemma colsum_ext : forall f m m' s o n, (forall k, (k < n)%nat -> m' s k o = m s k o) -> colsum f m' s o n = colsum f m s o n.
Proof.
  intros f m m' s o n. induction n as [|n IH]; intros H; [reflexivity|].
  cbn. rewrite IH by (intros; apply H; lia). rewrite H by lia. reflexivity.
Qed.

Lemma colsum_zero : forall f m s o n, (forall k, (k < n)%nat -> f (m s k o) = 0%Z) -> colsum f m s o n = 0%Z.
Proof.
  intros f m s o n. induction n as [|n IH]; intros H; [reflexivity|].
  cbn. rewrite IH by (intros; apply H; lia). rewrite H by lia. reflexivity.
Qed.

Lemma colsum_upd3 : forall f m s o n k v, (k < n)%nat ->
  colsum f (upd3 m s k o v) s o n = (colsum f m s o n + f v - f (m s k o))%Z.
Proof.
  intros f m s o n k v. induction n as [|n IH]; intros Hk; [lia|].
  cbn [colsum]. destruct (Nat.eq_dec k n) as [->|Hne].
  - rewrite (colsum_ext f m) by (intros j Hj; unfold upd3; rewrite Nat.eqb_refl;
      destruct (Nat.eqb_spec j n); [lia|reflexivity]).
    unfold upd3 at 1. rewrite !Nat.eqb_refl. cbn. lia.
  - rewrite IH by lia. unfold upd3. destruct (Nat.eqb_spec n k); [lia|].
    rewrite andb_false_r. cbn. lia.
Qed.

Lemma colsum_tail : forall f m s o n n', (n <= n')%nat ->
  (forall k, (n <= k)%nat -> f (m s k o) = 0%Z) -> colsum f m s o n' = colsum f m s o n.
Proof.
  intros f m s o n n' Hle Hz. induction Hle as [|n' Hle IH]; [reflexivity|].
  cbn. rewrite IH, Hz by lia. lia.
Qed.

(* ------------------------------------------------------------------------------------------------------------ *)
Section Inv.
Variable cf : cfg.
Hypothesis HK : (1 <= cK cf)%nat.
Hypothesis HB : (1 <= cB cf)%nat.

Definition off_of (j : nat) : nat := Z.to_nat (cacheline_offset (Z.of_nat j) (Z.of_nat (cK cf))).
Definition sto_of (j : nat) : nat := Z.to_nat (storage_index (Z.of_nat j) (Z.of_nat (cK cf))).

Lemma slot_inj : forall i j, off_of i = off_of j -> sto_of i = sto_of j -> i = j.
Proof.
  intros i j. unfold off_of, sto_of, cacheline_offset, storage_index. intros Ho Hs.
  assert (HKz : (0 < Z.of_nat (cK cf))%Z) by lia.
  pose proof (Z.mod_pos_bound (Z.of_nat i) _ HKz). pose proof (Z.mod_pos_bound (Z.of_nat j) _ HKz).
  assert (0 <= Z.of_nat i / Z.of_nat (cK cf))%Z by (apply Z.div_pos; lia).
  assert (0 <= Z.of_nat j / Z.of_nat (cK cf))%Z by (apply Z.div_pos; lia).
  apply Z2Nat.inj in Ho; try lia. apply Z2Nat.inj in Hs; try lia.
  pose proof (Z.div_mod (Z.of_nat i) (Z.of_nat (cK cf)) ltac:(lia)) as Di.
  pose proof (Z.div_mod (Z.of_nat j) (Z.of_nat (cK cf)) ltac:(lia)) as Dj.
  rewrite Ho, Hs in Di. lia.
Qed.

Definition summing : Prop := ck cf = KAdder \/ ck cf = KSummer.
Lemma czero_summing : summing -> czero (ck cf) = (0%Z, 0%Z).
Proof. intros [H|H]; rewrite H; reflexivity. Qed.

Record inv (x : st) : Prop := {
  i_fre : forall k, In k (fre (tids x)) -> (k < nxt (tids x))%nat;
  i_fre_nd : NoDup (fre (tids x));
  i_tid : forall t k, t_tid (thr x t) = Some k ->
          (k < nxt (tids x))%nat /\ ~ In k (fre (tids x)) /\ t_alive (thr x t) = true;
  i_tid_inj : forall t u k, t_tid (thr x t) = Some k -> t_tid (thr x u) = Some k -> t = u;
  i_cache : forall t s, t_cid (thr x t) = sto_id s ->
          fst (t_item (thr x t)) = s /\ t_tid (thr x t) = Some (snd (t_item (thr x t))) /\
          (snd (t_item (thr x t)) < csize x s)%nat;
  i_mem : forall s k o, (nxt (tids x) <= k \/ csize x s <= k)%nat -> cmem x s k o = czero (ck cf);
  i_size : forall s, (csize x s < nxt (tids x) + cB cf)%nat;
  i_inst : forall c i, chnd x c = Some i ->
          (i_iid i < nxt (iids x))%nat /\ ~ In (i_iid i) (fre (iids x)) /\
          i_off i = off_of (i_iid i) /\ i_sto i = sto_of (i_iid i);
  i_inst_inj : forall c d i j, chnd x c = Some i -> chnd x d = Some j -> i_iid i = i_iid j -> c = d;
  i_ifre : forall j, In j (fre (iids x)) -> (j < nxt (iids x))%nat;
  i_ifre_nd : NoDup (fre (iids x));
  i_freez : forall j, (In j (fre (iids x)) \/ nxt (iids x) <= j)%nat ->
          forall k, cmem x (sto_of j) k (off_of j) = czero (ck cf);
  i_sum : summing -> forall c i, chnd x c = Some i ->
          colsum fst (cmem x) (i_sto i) (i_off i) (nxt (tids x)) = g_sum x c /\
          (ck cf = KSummer -> colsum snd (cmem x) (i_sto i) (i_off i) (nxt (tids x)) = g_cnt x c);
  i_used : forall s k, In k (g_used x s) -> (k < nxt (tids x))%nat /\ (k < csize x s)%nat;
  i_held : forall k, (k < nxt (tids x))%nat -> ~ In k (fre (tids x)) -> exists t, t_tid (thr x t) = Some k
}.

Lemma inv_init : inv (init_for (ck cf)).
Proof.
  constructor; cbn; intros; try contradiction; try discriminate; try constructor; try reflexivity; try lia.
Qed.

(* ---------------------------------------------------------------------------------------------- id allocator *)
Lemma alloc_spec : forall a k0 a',
  (forall k, In k (fre a) -> (k < nxt a)%nat) -> NoDup (fre a) -> id_alloc a = (k0, a') ->
  (nxt a <= nxt a')%nat /\ (k0 < nxt a')%nat /\ ~ In k0 (fre a') /\ NoDup (fre a') /\
  (forall k, In k (fre a') -> In k (fre a)) /\
  (forall k, In k (fre a) -> k <> k0 -> In k (fre a')) /\
  ((In k0 (fre a) /\ nxt a' = nxt a) \/ (k0 = nxt a /\ nxt a' = S (nxt a) /\ fre a = [])).
Proof.
  intros a k0 a' Hlt Hnd. unfold id_alloc. destruct (fre a) as [|y r] eqn:E; intros H; inversion H; subst; clear H; cbn.
  - split; [lia|]. split; [lia|]. split; [tauto|]. split; [constructor|]. split; [tauto|]. split; [tauto|]. right. auto.
  - inversion Hnd; subst. split; [lia|]. split; [apply Hlt; left; reflexivity|]. split; [assumption|]. split; [assumption|].
    split; [intros; right; assumption|]. split; [intros k [->|Hk] Hne; [congruence|exact Hk]|].
    left. split; [left; reflexivity|reflexivity].
Qed.

Lemma ensure_gt : forall B sz k, (1 <= B)%nat -> (k < ensure_size B sz k)%nat.
Proof.
  intros B sz k HB1. unfold ensure_size.
  pose proof (Nat.div_mod k B ltac:(lia)). pose proof (Nat.mod_upper_bound k B ltac:(lia)).
  assert (k < B * (k / B + 1))%nat by nia. lia.
Qed.
Lemma ensure_ge : forall B sz k, (sz <= ensure_size B sz k)%nat.
Proof. intros. unfold ensure_size. lia. Qed.
Lemma ensure_le : forall B sz k n, (1 <= B)%nat -> (sz < n + B)%nat -> (k < n)%nat -> (ensure_size B sz k < n + B)%nat.
Proof.
  intros B sz k n HB1 Hsz Hk. unfold ensure_size.
  pose proof (Nat.div_mod k B ltac:(lia)). pose proof (Nat.mod_upper_bound k B ltac:(lia)).
  assert (B * (k / B + 1) <= k + B)%nat by nia. lia.
Qed.

Ltac upd_tac := unfold upd in *; repeat match goal with
  | |- context [Nat.eqb ?a ?b] => destruct (Nat.eqb_spec a b); subst
  | H : context [Nat.eqb ?a ?b] |- _ => destruct (Nat.eqb_spec a b); subst end.

Arguments sto_id : simpl never.
Arguments ensure_size : simpl never.
Arguments czero : simpl never.
Arguments off_of : simpl never.
Arguments sto_of : simpl never.

Definition miss_state (x : st) (t s k0 : nat) (a' : ids) : st :=
  let th := thr x t in
  let th' := {| t_alive := t_alive th; t_tid := Some k0; t_cid := sto_id s; t_item := (s, k0) |} in
  let x1 := set_thr (set_tids x a') (upd (thr x) t th') in
  let x2 := set_csize x1 (upd (csize x1) s (ensure_size (cB cf) (csize x1 s) k0)) in
  set_used x2 (upd (g_used x2) s (k0 :: g_used x2 s)).

Lemma miss_inv : forall x t s k0 a', inv x -> t_alive (thr x t) = true ->
  (nxt (tids x) <= nxt a')%nat -> (k0 < nxt a')%nat -> ~ In k0 (fre a') -> NoDup (fre a') ->
  (forall k, In k (fre a') -> In k (fre (tids x))) ->
  (forall u k, u <> t -> t_tid (thr x u) = Some k -> k <> k0) ->
  (nxt a' = nxt (tids x) \/ nxt a' = S (nxt (tids x))) ->
  (forall k, t_tid (thr x t) = Some k -> k = k0) ->
  (forall k, (k < nxt a')%nat -> ~ In k (fre a') -> k = k0 \/ ((k < nxt (tids x))%nat /\ ~ In k (fre (tids x)))) ->
  inv (miss_state x t s k0 a').
Proof.
  intros x t s k0 a' I Hal Hn Hk0 Hnf Hnd Hsub Hoth Hgrow Hself Hheld.
  unfold miss_state. constructor; cbn.
  - intros k Hk. apply Hsub in Hk. apply (i_fre _ I) in Hk. lia.
  - exact Hnd.
  - intros u k. upd_tac; cbn.
    + intros E; inversion E; subst. auto.
    + intros E. destruct (i_tid _ I _ _ E) as (A & B & C). repeat split; [lia| |exact C]. intros F; apply B, Hsub, F.
  - intros u v k. upd_tac; cbn; intros E1 E2; try reflexivity.
    + inversion E1; subst. exfalso. eapply Hoth; eauto.
    + inversion E2; subst. exfalso. eapply Hoth; eauto.
    + eapply (i_tid_inj _ I); eauto.
  - intros u s0. unfold upd. destruct (Nat.eqb_spec u t) as [->|Hu]; cbn.
    + intros E. apply sto_id_inj in E. subst s0. rewrite Nat.eqb_refl. repeat split. apply (ensure_gt (cB cf) (csize x s) k0 HB).
    + intros E. destruct (i_cache _ I _ _ E) as (A & B & C). repeat split; auto.
      destruct (Nat.eqb_spec s0 s) as [e|]; [rewrite e in C|exact C]. pose proof (ensure_ge (cB cf) (csize x s) k0). lia.
  - intros s0 k o Hk. apply (i_mem _ I). destruct Hk as [Hk|Hk]; [left; lia|]. right.
    revert Hk. upd_tac; [|auto]. pose proof (ensure_ge (cB cf) (csize x s) k0). lia.
  - intros s0. upd_tac.
    + apply ensure_le; [exact HB| |exact Hk0]. pose proof (i_size _ I s). lia.
    + pose proof (i_size _ I s0). lia.
  - exact (i_inst _ I).
  - exact (i_inst_inj _ I).
  - exact (i_ifre _ I).
  - exact (i_ifre_nd _ I).
  - exact (i_freez _ I).
  - intros Hs c i Hc. destruct (i_sum _ I Hs c i Hc) as [A B].
    destruct Hgrow as [->| ->]; [split; assumption|].
    cbn [colsum]. rewrite (i_mem _ I) by (left; lia). rewrite (czero_summing Hs). cbn.
    split; [lia|]. intros Hk. rewrite (B Hk). lia.
  - intros s0 k. upd_tac.
    + intros [<-|Hk]; [split; [exact Hk0|apply ensure_gt; exact HB]|].
      destruct (i_used _ I _ _ Hk). pose proof (ensure_ge (cB cf) (csize x s) k0). split; lia.
    + intros Hk. destruct (i_used _ I _ _ Hk). split; lia.
  - intros k Hk Hf. destruct (Hheld k Hk Hf) as [->|[A B]].
    + exists t. unfold upd. rewrite Nat.eqb_refl. reflexivity.
    + destruct (i_held _ I k A B) as [u Eu]. exists u. unfold upd. destruct (Nat.eqb_spec u t); [|exact Eu].
      subst u. cbn. f_equal. symmetry. apply Hself. exact Eu.
Qed.

Definition same_but_threads (x x' : st) : Prop :=
  cmem x' = cmem x /\ chnd x' = chnd x /\ iids x' = iids x /\ cver x' = cver x /\
  g_sum x' = g_sum x /\ g_cnt x' = g_cnt x /\ g_per x' = g_per x.

Lemma local_spec : forall x t s x' s' k, inv x -> t_alive (thr x t) = true -> local cf x t s = (x', (s', k)) ->
  inv x' /\ s' = s /\ t_tid (thr x' t) = Some k /\ (k < csize x' s)%nat /\ (k < nxt (tids x'))%nat /\
  same_but_threads x x' /\ (nxt (tids x) <= nxt (tids x'))%nat /\
  (forall u, u <> t -> thr x' u = thr x u) /\ t_alive (thr x' t) = true /\
  (forall k0, t_tid (thr x t) = Some k0 -> k = k0).
Proof.
  intros x t s x' s' k I Hal. unfold local.
  destruct (local_fast_hit _ _) eqn:Eh.
  - intros H; inversion H; subst; clear H. apply g_hit, Nat2Z.inj in Eh.
    destruct (i_cache _ I _ _ Eh) as (A & B & C). destruct (i_tid _ I _ _ B) as (D & _ & _).
    unfold same_but_threads. rewrite H2 in *. cbn in *. subst s'. split; [exact I|]. repeat split; auto; try (intros; congruence).
  - destruct (t_tid (thr x t)) as [k0|] eqn:Et.
    + intros H; injection H as Hx Hs Hk; subst x' s' k. fold (miss_state x t s k0 (tids x)).
      destruct (i_tid _ I _ _ Et) as (A & B & C). set (k := k0) in *.
      split; [apply miss_inv; auto|].
      * apply (i_fre_nd _ I).
      * intros u k1 Hu E F. subst k1. apply Hu. eapply (i_tid_inj _ I); eauto.
      * intros k1 E. congruence.
      * unfold miss_state, same_but_threads; cbn. unfold upd. rewrite !Nat.eqb_refl. cbn.
        repeat split; auto; try (apply (ensure_gt (cB cf) (csize x s) k HB)).
        -- intros u Hu. destruct (Nat.eqb_spec u t); [contradiction|reflexivity].
        -- intros k1 E. subst k. congruence.
    + destruct (id_alloc (tids x)) as [k0 a'] eqn:Ea. intros H; injection H as Hx Hs Hk; subst x' s' k.
      fold (miss_state x t s k0 a'). set (k := k0) in *.
      destruct (alloc_spec _ _ _ (i_fre _ I) (i_fre_nd _ I) Ea) as (A1 & A2 & A3 & A4 & A5 & A6 & A7).
      split; [apply miss_inv; auto|].
      * intros u k1 Hu E F. subst k1. destruct (i_tid _ I _ _ E) as (B1 & B2 & B3).
        destruct A7 as [[A7 _]|[A7 _]]; [contradiction|lia].
      * destruct A7 as [[_ ->]|[_ [-> _]]]; auto.
      * intros k1 E. congruence.
      * intros k1 P Q. destruct (Nat.eq_dec k1 k) as [->|Hne]; [left; reflexivity|right].
        assert (Hnf : ~ In k1 (fre (tids x))) by (intros F; apply Q, A6; assumption).
        split; [|exact Hnf]. destruct A7 as [[_ E]|[E1 [E2 _]]]; [rewrite E in P; exact P|]. subst k. rewrite E2 in P. lia.
      * unfold miss_state, same_but_threads; cbn. unfold upd. rewrite !Nat.eqb_refl. cbn.
        repeat split; auto; try (apply (ensure_gt (cB cf) (csize x s) k HB)).
        -- intros u Hu. destruct (Nat.eqb_spec u t); [contradiction|reflexivity].
        -- intros k1 E. subst k. congruence.
Qed.

Definition small (x : st) : Prop := (Z.of_nat (nxt (tids x)) + Z.of_nat (cB cf) <= 2 ^ 16)%Z.

Lemma each_bound_eq : forall x s, inv x -> small x -> each_bound x s = Nat.min (nxt (tids x)) (csize x s).
Proof.
  intros x s I Hs. unfold each_bound. pose proof (i_size _ I s). unfold small in Hs.
  rewrite g_size_arg by lia. lia.
Qed.

Lemma inv_spawn : forall x t, inv x -> t_alive (thr x t) = false ->
  inv (set_thr x (upd (thr x) t {| t_alive := true; t_tid := None; t_cid := Z.to_nat cache_init_id; t_item := (0, 0) |})).
Proof.
  intros x t I Hd. constructor; cbn.
  - exact (i_fre _ I).
  - exact (i_fre_nd _ I).
  - intros u k. unfold upd. destruct (Nat.eqb_spec u t); cbn; [discriminate|apply (i_tid _ I)].
  - intros u v k. unfold upd. destruct (Nat.eqb_spec u t); destruct (Nat.eqb_spec v t); cbn; try discriminate.
    apply (i_tid_inj _ I).
  - intros u s. unfold upd. destruct (Nat.eqb_spec u t); cbn; [|apply (i_cache _ I)].
    intros E. exfalso. eapply sto_id_not_init; eauto.
  - exact (i_mem _ I).
  - exact (i_size _ I).
  - exact (i_inst _ I).
  - exact (i_inst_inj _ I).
  - exact (i_ifre _ I).
  - exact (i_ifre_nd _ I).
  - exact (i_freez _ I).
  - exact (i_sum _ I).
  - exact (i_used _ I).
  - intros k A B. destruct (i_held _ I k A B) as [u Eu]. exists u. unfold upd.
    destruct (Nat.eqb_spec u t); [|exact Eu]. subst u. destruct (i_tid _ I _ _ Eu) as (_ & _ & C). congruence.
Qed.

Lemma inv_exit : forall x t, inv x -> t_alive (thr x t) = true ->
  inv (let x1 := match t_tid (thr x t) with Some k => set_tids x (id_free (tids x) k) | None => x end in
       set_thr x1 (upd (thr x1) t thread0)).
Proof.
  intros x t I Hal.
  assert (Hthr : forall x1 u, thr x1 = thr x -> u <> t -> upd (thr x1) t thread0 u = thr x u).
  { intros x1 u E Hu. unfold upd. destruct (Nat.eqb_spec u t); [contradiction|rewrite E; reflexivity]. }
  destruct (t_tid (thr x t)) as [k|] eqn:Et; cbn.
  - destruct (i_tid _ I _ _ Et) as (A & B & C).
    constructor; cbn.
    + intros j [<-|Hj]; [exact A|apply (i_fre _ I), Hj].
    + constructor; [exact B|apply (i_fre_nd _ I)].
    + intros u j. unfold upd. destruct (Nat.eqb_spec u t); cbn; [discriminate|].
      intros E. destruct (i_tid _ I _ _ E) as (A' & B' & C'). repeat split; auto.
      intros [F|F]; [|contradiction]. subst j. apply n. eapply (i_tid_inj _ I); eauto.
    + intros u v j. unfold upd. destruct (Nat.eqb_spec u t); destruct (Nat.eqb_spec v t); cbn; try discriminate.
      apply (i_tid_inj _ I).
    + intros u s. unfold upd. destruct (Nat.eqb_spec u t); cbn; [|apply (i_cache _ I)].
      intros E. exfalso. eapply sto_id_not_init; eauto.
    + exact (i_mem _ I).
    + exact (i_size _ I).
    + exact (i_inst _ I).
    + exact (i_inst_inj _ I).
    + exact (i_ifre _ I).
    + exact (i_ifre_nd _ I).
    + exact (i_freez _ I).
    + exact (i_sum _ I).
    + exact (i_used _ I).
    + intros j P Q. assert (Hj : j <> k) by (intros ->; apply Q; left; reflexivity).
      destruct (i_held _ I j P) as [u Eu]; [intros F; apply Q; right; exact F|].
      exists u. unfold upd. destruct (Nat.eqb_spec u t); [|exact Eu]. subst u. congruence.
  - constructor; cbn.
    + exact (i_fre _ I).
    + exact (i_fre_nd _ I).
    + intros u j. unfold upd. destruct (Nat.eqb_spec u t); cbn; [discriminate|apply (i_tid _ I)].
    + intros u v j. unfold upd. destruct (Nat.eqb_spec u t); destruct (Nat.eqb_spec v t); cbn; try discriminate.
      apply (i_tid_inj _ I).
    + intros u s. unfold upd. destruct (Nat.eqb_spec u t); cbn; [|apply (i_cache _ I)].
      intros E. exfalso. eapply sto_id_not_init; eauto.
    + exact (i_mem _ I).
    + exact (i_size _ I).
    + exact (i_inst _ I).
    + exact (i_inst_inj _ I).
    + exact (i_ifre _ I).
    + exact (i_ifre_nd _ I).
    + exact (i_freez _ I).
    + exact (i_sum _ I).
    + exact (i_used _ I).
    + intros j P Q. destruct (i_held _ I j P Q) as [u Eu]. exists u. unfold upd.
      destruct (Nat.eqb_spec u t); [|exact Eu]. subst u. congruence.
Qed.

Ltac same I := first [exact (i_fre _ I) | exact (i_fre_nd _ I) | exact (i_tid _ I) | exact (i_tid_inj _ I)
  | exact (i_cache _ I) | exact (i_mem _ I) | exact (i_size _ I) | exact (i_inst _ I) | exact (i_inst_inj _ I)
  | exact (i_ifre _ I) | exact (i_ifre_nd _ I) | exact (i_freez _ I) | exact (i_sum _ I) | exact (i_used _ I)
  | exact (i_held _ I)].

Lemma inv_new : forall x c, inv x -> chnd x c = None -> inv (fst (new_inst cf x c)).
Proof.
  intros x c I Hc. unfold new_inst. destruct (id_alloc (iids x)) as [iid a'] eqn:Ea. cbn.
  destruct (alloc_spec _ _ _ (i_ifre _ I) (i_ifre_nd _ I) Ea) as (A1 & A2 & A3 & A4 & A5 & A6 & A7).
  assert (Hfresh : In iid (fre (iids x)) \/ (nxt (iids x) <= iid)%nat) by (destruct A7 as [[? _]|[? _]]; [left; auto|right; lia]).
  constructor; cbn; try (same I).
  - intros d j. unfold upd. destruct (Nat.eqb_spec d c).
    + intros E; inversion E; subst; cbn. repeat split; auto.
    + intros E. destruct (i_inst _ I _ _ E) as (B1 & B2 & B3 & B4). repeat split; auto. lia.
  - intros d e i j. unfold upd. destruct (Nat.eqb_spec d c); destruct (Nat.eqb_spec e c); try congruence.
    + intros E1 E2 E3. inversion E1; subst; cbn in *. destruct (i_inst _ I _ _ E2) as (B1 & B2 & _).
      exfalso. destruct Hfresh as [F|F]; [rewrite E3 in F; contradiction|lia].
    + intros E1 E2 E3. inversion E2; subst; cbn in *. destruct (i_inst _ I _ _ E1) as (B1 & B2 & _).
      exfalso. destruct Hfresh as [F|F]; [rewrite <- E3 in F; contradiction|lia].
    + apply (i_inst_inj _ I).
  - intros j Hj. apply A5, (i_ifre _ I) in Hj. lia.
  - exact A4.
  - intros j Hj. apply (i_freez _ I). destruct Hj as [Hj|Hj]; [left; auto|right; lia].
  - intros Hs d j. unfold upd. destruct (Nat.eqb_spec d c).
    + intros E; inversion E; subst; cbn.
      split; [|intros _]; apply colsum_zero; intros k _; rewrite (i_freez _ I _ Hfresh), (czero_summing Hs); reflexivity.
    + apply (i_sum _ I Hs).
Qed.

Lemma fill_cases : forall m s n o v s' k' o',
  fill m s n o v s' k' o' = v \/ fill m s n o v s' k' o' = m s' k' o'.
Proof. intros. unfold fill. destruct (_ && _ && _); auto. Qed.

Lemma fill_other : forall m s n o v s' k' o', (s' <> s \/ o' <> o) -> fill m s n o v s' k' o' = m s' k' o'.
Proof.
  intros. unfold fill. destruct (Nat.eqb_spec s' s); destruct (Nat.eqb_spec o' o); cbn; try reflexivity.
  - destruct H; contradiction.
  - rewrite andb_false_r. reflexivity.
Qed.

Lemma fill_col : forall x s o v, inv x -> small x -> v = czero (ck cf) \/ True ->
  forall k, fill (cmem x) s (each_bound x s) o v s k o = v \/
            (fill (cmem x) s (each_bound x s) o v s k o = czero (ck cf)).
Proof.
  intros x s o v I Hsm _ k. unfold fill. rewrite !Nat.eqb_refl.
  replace (true && (k <? each_bound x s) && true) with (k <? each_bound x s) by (destruct (k <? each_bound x s); reflexivity).
  destruct (Nat.ltb_spec k (each_bound x s)); [left; reflexivity|right].
  apply (i_mem _ I). rewrite each_bound_eq in H by assumption. lia.
Qed.

Lemma inst_slot_inj : forall x c d i j, inv x -> chnd x c = Some i -> chnd x d = Some j ->
  i_sto i = i_sto j -> i_off i = i_off j -> c = d.
Proof.
  intros x c d i j I Hc Hd Hs Ho.
  destruct (i_inst _ I _ _ Hc) as (_ & _ & O1 & S1). destruct (i_inst _ I _ _ Hd) as (_ & _ & O2 & S2).
  eapply (i_inst_inj _ I); eauto. apply slot_inj; congruence.
Qed.

Lemma inv_del : forall x c i, inv x -> small x -> chnd x c = Some i ->
  inv (let x1 := set_cmem x (fill (cmem x) (i_sto i) (each_bound x (i_sto i)) (Z.to_nat (dtor_zero_index (Z.of_nat (i_off i)))) (czero (ck cf))) in
       set_chnd (set_iids x1 (id_free (iids x1) (i_iid i))) (upd (chnd x1) c None)).
Proof.
  intros x c i I Hsm Hc. rewrite g_dtor, Nat2Z.id. cbn.
  destruct (i_inst _ I _ _ Hc) as (B1 & B2 & B3 & B4).
  constructor; cbn; try (same I).
  - intros s k o Hk. destruct (fill_cases (cmem x) (i_sto i) (each_bound x (i_sto i)) (i_off i) (czero (ck cf)) s k o) as [->| ->];
      [reflexivity|apply (i_mem _ I), Hk].
  - intros d j. unfold upd. destruct (Nat.eqb_spec d c); [discriminate|].
    intros E. destruct (i_inst _ I _ _ E) as (C1 & C2 & C3 & C4). repeat split; auto.
    intros [F|F]; [|contradiction]. apply n. eapply (i_inst_inj _ I); eauto.
  - intros d e j1 j2. unfold upd. destruct (Nat.eqb_spec d c); destruct (Nat.eqb_spec e c); try discriminate.
    apply (i_inst_inj _ I).
  - intros j [<-|Hj]; [exact B1|apply (i_ifre _ I), Hj].
  - constructor; [exact B2|apply (i_ifre_nd _ I)].
  - intros j Hj k.
    destruct (Nat.eq_dec j (i_iid i)) as [->|Hne].
    + rewrite <- B3, <- B4.
      destruct (fill_col x (i_sto i) (i_off i) (czero (ck cf)) I Hsm (or_intror Logic.I) k) as [->| ->]; reflexivity.
    + destruct (fill_cases (cmem x) (i_sto i) (each_bound x (i_sto i)) (i_off i) (czero (ck cf)) (sto_of j) k (off_of j)) as [->| ->];
        [reflexivity|]. apply (i_freez _ I). destruct Hj as [[F|F]|F]; [congruence|left; exact F|right; exact F].
  - intros Hs d j. unfold upd. destruct (Nat.eqb_spec d c); [discriminate|]. intros E.
    destruct (i_sum _ I Hs _ _ E) as [S1 S2].
    assert (Hd : i_sto j <> i_sto i \/ i_off j <> i_off i).
    { destruct (Nat.eq_dec (i_sto j) (i_sto i)); [|left; assumption].
      destruct (Nat.eq_dec (i_off j) (i_off i)); [|right; assumption].
      exfalso. apply n. eapply inst_slot_inj; eauto. }
    split; [|intros Hk; specialize (S2 Hk)]; (rewrite (colsum_ext _ (cmem x)); [assumption|]);
      intros k _; apply fill_other; exact Hd.
Qed.

Definition pi (c d e : nat) : nat := if Nat.eqb e d then c else if Nat.eqb e c then d else e.
Lemma pi_inj : forall c d e1 e2, pi c d e1 = pi c d e2 -> e1 = e2.
Proof.
  intros c d e1 e2. unfold pi.
  destruct (Nat.eqb_spec e1 d); destruct (Nat.eqb_spec e1 c); destruct (Nat.eqb_spec e2 d); destruct (Nat.eqb_spec e2 c); congruence.
Qed.
Lemma upd_pi : forall A (f : nat -> A) c d e, upd (upd f c (f d)) d (f c) e = f (pi c d e).
Proof.
  intros A f c d e. unfold upd, pi. destruct (Nat.eqb_spec e d); [reflexivity|]. destruct (Nat.eqb_spec e c); reflexivity.
Qed.

Lemma inv_swap : forall x c d, inv x -> inv (swap_inst x c d).
Proof.
  intros x c d I. unfold swap_inst. constructor; cbn; try (same I).
  - intros e i. rewrite upd_pi. apply (i_inst _ I).
  - intros e1 e2 i j. rewrite !upd_pi. intros E1 E2 E3. eapply pi_inj, (i_inst_inj _ I); eauto.
  - intros Hs e i. rewrite !upd_pi. apply (i_sum _ I Hs).
Qed.

Lemma upd3_other : forall m s k o v s' k' o', (s' <> s \/ o' <> o \/ k' <> k) -> upd3 m s k o v s' k' o' = m s' k' o'.
Proof.
  intros. unfold upd3. destruct (Nat.eqb_spec s' s); destruct (Nat.eqb_spec k' k); destruct (Nat.eqb_spec o' o); cbn; try reflexivity.
  destruct H as [?|[?|?]]; contradiction.
Qed.

(* the memory write of an addition on a state whose local() has been taken *)
Lemma inv_write : forall x c i k v, inv x -> chnd x c = Some i -> (k < nxt (tids x))%nat -> (k < csize x (i_sto i))%nat ->
  inv (let old := cmem x (i_sto i) k (i_off i) in
       let x2 := set_cmem x (upd3 (cmem x) (i_sto i) k (i_off i) (cell_add (ck cf) (cver x c) v old)) in
       set_ghost x2 (upd (g_sum x2) c (g_sum x2 c + v)%Z) (upd (g_cnt x2) c (g_cnt x2 c + 1)%Z) (upd (g_per x2) c (v :: g_per x2 c))).
Proof.
  intros x c i k v I Hc Hk1 Hk2. cbn.
  destruct (i_inst _ I _ _ Hc) as (B1 & B2 & B3 & B4).
  constructor; cbn; try (same I).
  - intros s k0 o Hk. rewrite upd3_other; [apply (i_mem _ I), Hk|].
    destruct (Nat.eq_dec s (i_sto i)); [subst s|left; assumption]. right; right. lia.
  - intros j Hj k0. rewrite upd3_other; [apply (i_freez _ I), Hj|].
    destruct (Nat.eq_dec (sto_of j) (i_sto i)); [|left; assumption].
    destruct (Nat.eq_dec (off_of j) (i_off i)); [|right; left; assumption].
    exfalso. assert (j = i_iid i) by (apply slot_inj; congruence). subst j. destruct Hj; [contradiction|lia].
  - intros Hs d j. unfold upd. destruct (Nat.eqb_spec d c).
    + subst d. rewrite Hc. intros E; inversion E; subst j. destruct (i_sum _ I Hs _ _ Hc) as [S1 S2].
      rewrite !colsum_upd3 by assumption. rewrite S1.
      destruct Hs as [Hs|Hs]; rewrite Hs in *; cbn; unfold adder_step, summer_unit.
      * split; [lia|discriminate].
      * split; [lia|]. intros _. rewrite (S2 eq_refl). lia.
    + intros E. destruct (i_sum _ I Hs _ _ E) as [S1 S2].
      assert (Hd : i_sto j <> i_sto i \/ i_off j <> i_off i).
      { destruct (Nat.eq_dec (i_sto j) (i_sto i)); [|left; assumption].
        destruct (Nat.eq_dec (i_off j) (i_off i)); [|right; assumption].
        exfalso. apply n. eapply inst_slot_inj; eauto. }
      split; [|intros Hk; specialize (S2 Hk)]; (rewrite (colsum_ext _ (cmem x)); [assumption|]);
        intros k0 _; apply upd3_other; tauto.
Qed.

(* ConcurrentSummer << Summary{s, n}: both halves of the pair move by exactly (s, n), whatever their signs or zeros *)
Lemma inv_write2 : forall x c i k s n, ck cf = KSummer -> inv x -> chnd x c = Some i -> (k < nxt (tids x))%nat -> (k < csize x (i_sto i))%nat ->
  inv (let old := cmem x (i_sto i) k (i_off i) in
       let x2 := set_cmem x (upd3 (cmem x) (i_sto i) k (i_off i) (cell_add2 s n old)) in
       set_ghost x2 (upd (g_sum x2) c (g_sum x2 c + s)%Z) (upd (g_cnt x2) c (g_cnt x2 c + n)%Z) (g_per x2)).
Proof.
  intros x c i k s n Hkind I Hc Hk1 Hk2. cbn.
  destruct (i_inst _ I _ _ Hc) as (B1 & B2 & B3 & B4).
  constructor; cbn; try (same I).
  - intros so k0 o Hk. rewrite upd3_other; [apply (i_mem _ I), Hk|].
    destruct (Nat.eq_dec so (i_sto i)); [subst so|left; assumption]. right; right. lia.
  - intros j Hj k0. rewrite upd3_other; [apply (i_freez _ I), Hj|].
    destruct (Nat.eq_dec (sto_of j) (i_sto i)); [|left; assumption].
    destruct (Nat.eq_dec (off_of j) (i_off i)); [|right; left; assumption].
    exfalso. assert (j = i_iid i) by (apply slot_inj; congruence). subst j. destruct Hj; [contradiction|lia].
  - intros Hs d j. unfold upd. destruct (Nat.eqb_spec d c).
    + subst d. rewrite Hc. intros E; inversion E; subst j. destruct (i_sum _ I Hs _ _ Hc) as [S1 S2].
      rewrite !colsum_upd3 by assumption. rewrite S1, (S2 Hkind). unfold cell_add2. cbn [fst snd]. split; [lia|intros _; lia].
    + intros E. destruct (i_sum _ I Hs _ _ E) as [S1 S2].
      assert (Hd : i_sto j <> i_sto i \/ i_off j <> i_off i).
      { destruct (Nat.eq_dec (i_sto j) (i_sto i)); [|left; assumption].
        destruct (Nat.eq_dec (i_off j) (i_off i)); [|right; assumption].
        exfalso. apply n0. eapply inst_slot_inj; eauto. }
      split; [|intros Hk; specialize (S2 Hk)]; (rewrite (colsum_ext _ (cmem x)); [assumption|]);
        intros k0 _; apply upd3_other; tauto.
Qed.

Lemma inv_reset_adder : forall x c i, inv x -> small x -> ck cf = KAdder -> chnd x c = Some i ->
  inv (let x1 := set_cmem x (fill (cmem x) (i_sto i) (each_bound x (i_sto i)) (i_off i) (adder_reset_value, 0%Z)) in
       set_ghost x1 (upd (g_sum x1) c 0%Z) (upd (g_cnt x1) c 0%Z) (upd (g_per x1) c [])).
Proof.
  intros x c i I Hsm Hk Hc. rewrite g_reset_value. cbn.
  assert (Hz : czero (ck cf) = (0%Z, 0%Z)) by (rewrite Hk; reflexivity).
  constructor; cbn; try (same I).
  - intros s k o Hb. destruct (fill_cases (cmem x) (i_sto i) (each_bound x (i_sto i)) (i_off i) (0%Z, 0%Z) s k o) as [->| ->];
      [symmetry; exact Hz|apply (i_mem _ I), Hb].
  - intros j Hj k.
    destruct (fill_cases (cmem x) (i_sto i) (each_bound x (i_sto i)) (i_off i) (0%Z, 0%Z) (sto_of j) k (off_of j)) as [->| ->];
      [symmetry; exact Hz|apply (i_freez _ I), Hj].
  - intros Hs d j. unfold upd. destruct (Nat.eqb_spec d c).
    + subst d. rewrite Hc. intros E; inversion E; subst j.
      split; [|intros F; congruence]. apply colsum_zero. intros k _.
      destruct (fill_col x (i_sto i) (i_off i) (0%Z, 0%Z) I Hsm (or_intror Logic.I) k) as [->| ->]; [reflexivity|rewrite Hz; reflexivity].
    + intros E. destruct (i_sum _ I Hs _ _ E) as [S1 S2].
      assert (Hd : i_sto j <> i_sto i \/ i_off j <> i_off i).
      { destruct (Nat.eq_dec (i_sto j) (i_sto i)); [|left; assumption].
        destruct (Nat.eq_dec (i_off j) (i_off i)); [|right; assumption].
        exfalso. apply n. eapply inst_slot_inj; eauto. }
      split; [|intros Hk'; specialize (S2 Hk')]; (rewrite (colsum_ext _ (cmem x)); [assumption|]);
        intros k _; apply fill_other; exact Hd.
Qed.

Lemma alloc_mono : forall a, (nxt a <= nxt (snd (id_alloc a)))%nat.
Proof. intros a. unfold id_alloc. destruct (fre a); cbn; lia. Qed.

Lemma local_mono : forall x t s, (nxt (tids x) <= nxt (tids (fst (local cf x t s))))%nat.
Proof.
  intros x t s. unfold local. destruct (local_fast_hit _ _); [cbn; lia|].
  destruct (t_tid (thr x t)); [cbn; lia|].
  pose proof (alloc_mono (tids x)). destruct (id_alloc (tids x)); cbn in *. lia.
Qed.

Lemma step_mono : forall x o, (nxt (tids x) <= nxt (tids (fst (step cf x o))))%nat.
Proof.
  intros x o. destruct o; cbn.
  - destruct (t_alive (thr x t)); cbn; lia.
  - destruct (t_alive (thr x t)); cbn; [|lia]. destruct (t_tid (thr x t)); cbn; lia.
  - destruct (chnd x c); cbn; [lia|]. unfold new_inst. destruct (id_alloc (iids x)); cbn; lia.
  - destruct (chnd x c); cbn; lia.
  - destruct (chnd x c); destruct (chnd x d); cbn; lia.
  - destruct (chnd x c); destruct (chnd x d); cbn; try lia. unfold new_inst. destruct (id_alloc (iids x)); cbn; lia.
  - destruct (chnd x c); cbn; [|lia]. destruct (t_alive (thr x t)); cbn; [|lia].
    pose proof (local_mono x t (i_sto i)). destruct (local cf x t (i_sto i)) as [x1 [s k]]; cbn in *. lia.
  - destruct (chnd x c); cbn; lia.
  - destruct (chnd x c); cbn; [|lia]. destruct (ck cf); cbn; lia.
  - destruct (chnd x c); cbn; lia.
  - destruct (chnd x c); cbn; lia.
  - destruct (ck cf); cbn; try lia. destruct (chnd x c); cbn; [|lia]. destruct (t_alive (thr x t)); cbn; [|lia].
    pose proof (local_mono x t (i_sto i)). destruct (local cf x t (i_sto i)) as [x1 [so k]]; cbn in *. lia.
Qed.

Lemma small_mono : forall x x', (nxt (tids x) <= nxt (tids x'))%nat -> small x' -> small x.
Proof. unfold small. intros. lia. Qed.

Lemma step_inv : forall x o, inv x -> small (fst (step cf x o)) -> inv (fst (step cf x o)).
Proof.
  intros x o I Hsm. pose proof (small_mono _ _ (step_mono x o) Hsm) as Hsx. clear Hsm.
  destruct o; cbn.
  - destruct (t_alive (thr x t)) eqn:E; cbn; [exact I|apply inv_spawn; assumption].
  - destruct (t_alive (thr x t)) eqn:E; cbn; [apply inv_exit; assumption|exact I].
  - destruct (chnd x c) eqn:E; cbn; [exact I|]. pose proof (inv_new x c I E) as H.
    destruct (new_inst cf x c); exact H.
  - destruct (chnd x c) eqn:E; cbn; [|exact I]. apply inv_del; assumption.
  - destruct (chnd x c); destruct (chnd x d); cbn; try exact I. apply inv_swap; assumption.
  - destruct (chnd x c) eqn:E; destruct (chnd x d); cbn; try exact I. pose proof (inv_new x c I E) as H.
    destruct (new_inst cf x c); cbn in *. apply inv_swap; assumption.
  - destruct (chnd x c) as [i|] eqn:E; cbn; [|exact I]. destruct (t_alive (thr x t)) eqn:Ea; cbn; [|exact I].
    destruct (local cf x t (i_sto i)) as [x1 [s k]] eqn:El.
    destruct (local_spec _ _ _ _ _ _ I Ea El) as (I1 & -> & _ & K1 & K2 & (M1 & M2 & M3 & M4 & _) & _).
    cbn. rewrite <- M2 in E. apply (inv_write x1 c i k v I1 E K2 K1).
  - destruct (chnd x c); cbn; exact I.
  - destruct (chnd x c) as [i|] eqn:E; cbn; [|exact I]. destruct (ck cf) eqn:Ek; cbn; try exact I.
    + apply inv_reset_adder; assumption.
    + constructor; cbn; try (same I).
    + constructor; cbn; try (same I).
  - destruct (chnd x c); cbn; exact I.
  - destruct (chnd x c); cbn; exact I.
  - destruct (ck cf) eqn:Ek; cbn; try exact I.
    destruct (chnd x c) as [i|] eqn:E; cbn; [|exact I]. destruct (t_alive (thr x t)) eqn:Ea; cbn; [|exact I].
    destruct (local cf x t (i_sto i)) as [x1 [so k]] eqn:El.
    destruct (local_spec _ _ _ _ _ _ I Ea El) as (I1 & -> & _ & K1 & K2 & (M1 & M2 & M3 & M4 & _) & _).
    cbn. rewrite <- M2 in E. apply (inv_write2 x1 c i k s n Ek I1 E K2 K1).
Qed.

Lemma run_mono : forall h x, (nxt (tids x) <= nxt (tids (run cf x h)))%nat.
Proof.
  induction h as [|o h IH]; intros x; cbn; [lia|]. pose proof (step_mono x o). pose proof (IH (fst (step cf x o))). lia.
Qed.

Lemma run_inv : forall h x, inv x -> small (run cf x h) -> inv (run cf x h).
Proof.
  induction h as [|o h IH]; intros x I Hsm; cbn in *; [exact I|].
  apply IH; [|exact Hsm]. apply step_inv; [exact I|]. eapply small_mono; [apply run_mono|exact Hsm].
Qed.

(* ---------------------------------------------------------------------------------------------- main theorems *)
Lemma read_sum : forall x c i, inv x -> small x -> summing -> chnd x c = Some i ->
  read cf x c i = (g_sum x c, if match ck cf with KSummer => true | _ => false end then g_cnt x c else 0%Z).
Proof.
  intros x c i I Hsm Hs Hc. unfold read, cells_of. rewrite !summer_cells_all.
  destruct (i_sum _ I Hs _ _ Hc) as [S1 S2].
  assert (Hf : forall f, f (czero (ck cf)) = 0%Z ->
            sumZ (map f (map (fun k => cmem x (i_sto i) k (i_off i)) (seq 0 (each_bound x (i_sto i))))) =
            colsum f (cmem x) (i_sto i) (i_off i) (nxt (tids x))).
  { intros f Hf. rewrite map_map, sumZ_map_seq, colsum_seq. rewrite each_bound_eq by assumption.
    symmetry. apply colsum_tail; [lia|]. intros k Hk. rewrite (i_mem _ I); [exact Hf|]. lia. }
  destruct Hs as [Hs|Hs]; rewrite Hs in *; cbn.
  - rewrite Hf by reflexivity. rewrite S1. reflexivity.
  - rewrite !Hf by reflexivity. rewrite S1, (S2 eq_refl). reflexivity.
Qed.

End Inv.

(* ================================================================================================================ *)
(* Statements used by Properties_C19.v                                                                               *)
Definition cfg_ok (cf : cfg) : Prop := (1 <= cK cf)%nat /\ (1 <= cB cf)%nat.
(* fewer thread ids ever handed out than the uint16 cast of snapshot.size() in for_each can hold *)
Definition threads_small (cf : cfg) (x : st) : Prop := (Z.of_nat (nxt (tids x)) + Z.of_nat (cB cf) <= 2 ^ 16)%Z.
Definition start (cf : cfg) : st := init_for (ck cf).
Definition is_summer (k : kind) : bool := match k with KSummer => true | _ => false end.

Lemma reach_inv : forall cf h, cfg_ok cf -> threads_small cf (run cf (start cf) h) -> inv cf (run cf (start cf) h).
Proof. intros cf h [HK HB] Hs. apply run_inv; try assumption. apply inv_init; assumption. Qed.

Theorem ct_sum_exact : forall cf h c i, cfg_ok cf -> ck cf = KAdder \/ ck cf = KSummer ->
  let x := run cf (start cf) h in
  threads_small cf x -> chnd x c = Some i ->
  step cf x (CRead c) = (x, OVal (g_sum x c) (if is_summer (ck cf) then g_cnt x c else 0%Z)).
Proof.
  intros cf h c i Hok Hk x Hs Hc. cbn. rewrite Hc. destruct Hok as [HK HB].
  rewrite (read_sum cf HK HB x c i (reach_inv cf h (conj HK HB) Hs) Hs Hk Hc). reflexivity.
Qed.

Theorem ct_fresh_is_zero : forall cf h c, cfg_ok cf -> ck cf = KAdder \/ ck cf = KSummer ->
  let x := run cf (start cf) (h ++ [CNew c]) in
  threads_small cf x -> chnd (run cf (start cf) h) c = None ->
  exists i, chnd x c = Some i /\ step cf x (CRead c) = (x, OVal 0%Z 0%Z).
Proof.
  intros cf h c Hok Hk x Hs Hc.
  assert (Hx : x = fst (step cf (run cf (start cf) h) (CNew c))).
  { unfold x. clear. revert h. generalize (start cf). intros x0 h. revert x0.
    induction h as [|o h IH]; intros x0; cbn; [reflexivity|apply IH]. }
  assert (Hg : exists i, chnd x c = Some i /\ g_sum x c = 0%Z /\ g_cnt x c = 0%Z).
  { rewrite Hx. cbn. rewrite Hc. unfold new_inst. destruct (id_alloc _) as [iid a]. cbn. unfold upd. rewrite Nat.eqb_refl.
    eexists; repeat split. }
  destruct Hg as (i & Hi & G1 & G2). exists i. split; [exact Hi|].
  pose proof (ct_sum_exact cf (h ++ [CNew c]) c i Hok Hk Hs Hi) as H. cbv zeta in H. fold x in H.
  rewrite H, G1, G2. destruct (is_summer (ck cf)); reflexivity.
Qed.

(* for_each visits every line local() ever returned for the storage *)
Theorem ct_for_each_all_used : forall cf h s k, cfg_ok cf ->
  let x := run cf (start cf) h in
  threads_small cf x -> In k (g_used x s) -> (k < each_bound x s)%nat.
Proof.
  intros cf h s k [HK HB] x Hs Hu. subst x. pose proof (reach_inv cf h (conj HK HB) Hs) as I.
  rewrite each_bound_eq with (cf := cf) by assumption. destruct (i_used _ _ I _ _ Hu). lia.
Qed.

(* local(): the line is this storage's, it is the caller's thread id, and two live threads never share one *)
Theorem ct_local_private : forall cf h t u s x1 s1 k1 x2 s2 k2, cfg_ok cf ->
  let x := run cf (start cf) h in
  threads_small cf x2 -> t <> u -> t_alive (thr x t) = true -> t_alive (thr x u) = true ->
  local cf x t s = (x1, (s1, k1)) -> local cf x1 u s = (x2, (s2, k2)) ->
  s1 = s /\ s2 = s /\ k1 <> k2.
Proof.
  intros cf h t u s x1 s1 k1 x2 s2 k2 [HK HB] x Hs Htu Ht Hu L1 L2.
  assert (M1 : (nxt (tids x) <= nxt (tids x1))%nat) by (pose proof (local_mono cf HK HB x t s) as M; rewrite L1 in M; exact M).
  assert (M2 : (nxt (tids x1) <= nxt (tids x2))%nat) by (pose proof (local_mono cf HK HB x1 u s) as M; rewrite L2 in M; exact M).
  assert (Hsx : threads_small cf x) by (unfold threads_small in *; lia).
  pose proof (reach_inv cf h (conj HK HB) Hsx) as I.
  destruct (local_spec cf HK HB _ _ _ _ _ _ I Ht L1) as (I1 & E1 & T1 & _ & _ & _ & _ & O1 & _ & _).
  assert (Hu1 : t_alive (thr x1 u) = true) by (rewrite O1 by auto; exact Hu).
  destruct (local_spec cf HK HB _ _ _ _ _ _ I1 Hu1 L2) as (I2 & E2 & T2 & _ & _ & _ & _ & O2 & _ & _).
  repeat split; auto. intros ->. apply Htu. eapply (i_tid_inj _ _ I2); [|exact T2]. rewrite O2 by auto. exact T1.
Qed.

Lemma local_tid_stable : forall cf x u s t k, t_tid (thr x t) = Some k -> t_tid (thr (fst (local cf x u s)) t) = Some k.
Proof.
  intros cf x u s t k H. unfold local. destruct (local_fast_hit _ _); [exact H|].
  destruct (t_tid (thr x u)) eqn:Eu.
  - cbn. unfold upd. destruct (Nat.eqb_spec t u); [subst; cbn; congruence|exact H].
  - destruct (id_alloc (tids x)). cbn. unfold upd. destruct (Nat.eqb_spec t u); [subst; congruence|exact H].
Qed.

Definition no_exit (t : nat) (o : op) : Prop := match o with Exit u => u <> t | _ => True end.

Lemma step_tid_stable : forall cf x o t k, inv cf x -> no_exit t o -> t_tid (thr x t) = Some k ->
  t_tid (thr (fst (step cf x o)) t) = Some k.
Proof.
  intros cf x o t k I Hne H. destruct (i_tid _ _ I _ _ H) as (_ & _ & Hal). destruct o; cbn in *.
  - destruct (t_alive (thr x t0)) eqn:E; cbn; [exact H|]. unfold upd. destruct (Nat.eqb_spec t t0); [|exact H]. congruence.
  - destruct (t_alive (thr x t0)) eqn:E; cbn; [|exact H].
    destruct (t_tid (thr x t0)); cbn; unfold upd; (destruct (Nat.eqb_spec t t0); [congruence|exact H]).
  - destruct (chnd x c); cbn; [exact H|]. unfold new_inst. destruct (id_alloc (iids x)); exact H.
  - destruct (chnd x c); exact H.
  - destruct (chnd x c); destruct (chnd x d); exact H.
  - destruct (chnd x c); destruct (chnd x d); try exact H. unfold new_inst. destruct (id_alloc (iids x)); exact H.
  - destruct (chnd x c); cbn; [|exact H]. destruct (t_alive (thr x t0)); cbn; [|exact H].
    pose proof (local_tid_stable cf x t0 (i_sto i) t k H) as L.
    destruct (local cf x t0 (i_sto i)) as [x1 [s1 k1]]; exact L.
  - destruct (chnd x c); exact H.
  - destruct (chnd x c); cbn; [|exact H]. destruct (ck cf); exact H.
  - destruct (chnd x c); exact H.
  - destruct (chnd x c); exact H.
  - destruct (ck cf); cbn; try exact H. destruct (chnd x c); cbn; [|exact H]. destruct (t_alive (thr x t0)); cbn; [|exact H].
    pose proof (local_tid_stable cf x t0 (i_sto i) t k H) as L.
    destruct (local cf x t0 (i_sto i)) as [x1 [s1 k1]]; exact L.
Qed.

Lemma run_tid_stable : forall cf h2 x t k, (1 <= cK cf)%nat -> (1 <= cB cf)%nat -> inv cf x -> small cf (run cf x h2) ->
  Forall (no_exit t) h2 -> t_tid (thr x t) = Some k -> t_tid (thr (run cf x h2) t) = Some k.
Proof.
  intros cf h2. induction h2 as [|o h2 IH]; intros x t k HK HB I Hs Hf H; cbn in *; [exact H|].
  inversion Hf; subst. apply IH; auto.
  - apply step_inv; auto. eapply (small_mono cf HK HB); [apply (run_mono cf HK HB)|exact Hs].
  - apply step_tid_stable; auto.
Qed.

Lemma run_app : forall cf a b x, run cf x (a ++ b) = run cf (run cf x a) b.
Proof. intros cf a. induction a as [|o a IH]; intros b x; cbn; [reflexivity|apply IH]. Qed.

(* a thread keeps its line for as long as it lives: after any further history without its exit, local() still
   returns the line of the storage indexed by the same id *)
Theorem ct_local_stable : forall cf h h2 t s k x2 s2 k2, cfg_ok cf ->
  let x := run cf (start cf) h in let x' := run cf x h2 in
  threads_small cf x2 -> t_tid (thr x t) = Some k -> Forall (no_exit t) h2 ->
  local cf x' t s = (x2, (s2, k2)) -> s2 = s /\ k2 = k.
Proof.
  intros cf h h2 t s k x2 s2 k2 [HK HB] x x' Hs Ht Hf L.
  assert (M : (nxt (tids x') <= nxt (tids x2))%nat) by (pose proof (local_mono cf HK HB x' t s) as M; rewrite L in M; exact M).
  assert (Hs' : threads_small cf x') by (unfold threads_small in *; lia).
  assert (I' : inv cf x') by (unfold x', x; rewrite <- run_app; apply reach_inv; [split; auto|rewrite run_app; exact Hs']).
  assert (Hsx : threads_small cf x) by (pose proof (run_mono cf HK HB h2 x); unfold threads_small in *; fold x' in H; lia).
  pose proof (reach_inv cf h (conj HK HB) Hsx) as I.
  pose proof (run_tid_stable cf h2 x t k HK HB I Hs' Hf Ht) as T. fold x' in T.
  destruct (i_tid _ _ I' _ _ T) as (_ & _ & Hal).
  destruct (local_spec cf HK HB _ _ _ _ _ _ I' Hal L) as (_ & E & _ & _ & _ & _ & _ & _ & _ & P).
  split; [exact E|apply P, T].
Qed.

(* ------------------------------------------------------------------------------------------ for_each_alive *)
(* both overloads clamp the ranges to the snapshot size: never a read outside the block table *)
Lemma g_alive_nc : forall b e sz, alive_nc_begin b sz = Z.min b sz /\ alive_nc_end e sz = Z.min e sz.
Proof. intros. split; reflexivity. Qed.

Lemma alive_range_clamped : forall cst size r,
  alive_range cst size r =
  Some (seq (Z.to_nat (Z.min (Z.of_nat (fst r)) (Z.of_nat size)))
            (Z.to_nat (Z.min (Z.of_nat (snd r)) (Z.of_nat size)) - Z.to_nat (Z.min (Z.of_nat (fst r)) (Z.of_nat size)))).
Proof.
  intros cst size r. unfold alive_range.
  destruct (g_alive_c (Z.of_nat (fst r)) (Z.of_nat (snd r)) (Z.of_nat size)) as [Ec1 Ec2].
  destruct (g_alive_nc (Z.of_nat (fst r)) (Z.of_nat (snd r)) (Z.of_nat size)) as [En1 En2].
  assert (E1 : (if cst then alive_c_begin (Z.of_nat (fst r)) (Z.of_nat size) else alive_nc_begin (Z.of_nat (fst r)) (Z.of_nat size))
               = Z.min (Z.of_nat (fst r)) (Z.of_nat size)) by (destruct cst; assumption).
  assert (E2 : (if cst then alive_c_end (Z.of_nat (snd r)) (Z.of_nat size) else alive_nc_end (Z.of_nat (snd r)) (Z.of_nat size))
               = Z.min (Z.of_nat (snd r)) (Z.of_nat size)) by (destruct cst; assumption).
  rewrite E1, E2.
  destruct (Z.ltb_spec (Z.min (Z.of_nat (fst r)) (Z.of_nat size)) (Z.min (Z.of_nat (snd r)) (Z.of_nat size)));
    destruct (Z.ltb_spec (Z.of_nat size) (Z.min (Z.of_nat (snd r)) (Z.of_nat size))); cbn [andb]; try reflexivity. lia.
Qed.

Theorem ct_alive_in_bounds : forall x cst s, for_each_alive x cst s <> None.
Proof.
  intros x cst s. unfold for_each_alive. induction (alive_runs (tids x)) as [|r q IH]; cbn [alive_lines]; [discriminate|].
  rewrite alive_range_clamped. destruct (alive_lines cst (csize x s) q); [discriminate|contradiction].
Qed.

(* ------------------------------------------------------------------------------- the real configurations *)
(* the configurations of the real classes *)
Definition cfg_compact16 : cfg := {| cK := num_per_line 1 8; cB := block_size; ck := KAdder |}.
Definition cfg_adder : cfg := {| cK := num_per_line 64 8; cB := block_size; ck := KAdder |}.
Definition cfg_summer : cfg := {| cK := num_per_line 64 16; cB := block_size; ck := KSummer |}.
Definition cfg_maxer : cfg := {| cK := num_per_line 64 16; cB := block_size; ck := KMaxer |}.
Definition cfg_miner : cfg := {| cK := num_per_line 64 16; cB := block_size; ck := KMiner |}.

Lemma cfgs_ok : cfg_ok cfg_compact16 /\ cfg_ok cfg_adder /\ cfg_ok cfg_summer /\ cfg_ok cfg_maxer /\ cfg_ok cfg_miner.
Proof. unfold cfg_ok. repeat split; apply Nat.leb_le; vm_compute; reflexivity. Qed.

(* ------------------------------------------------------------------------------- concurrent reader bounds *)
Definition SZ (l : list Z) : Z := fold_right Z.add 0%Z l.

Lemma SZ_app : forall a b, SZ (a ++ b) = (SZ a + SZ b)%Z.
Proof. unfold SZ. induction a as [|x a IH]; intros b; cbn; [reflexivity|rewrite IH; lia]. Qed.

Lemma SZ_split : forall p l, (SZ (firstn p l) + SZ (skipn p l))%Z = SZ l.
Proof. intros p l. rewrite <- SZ_app, firstn_skipn. reflexivity. Qed.

Lemma firstn_S_sum : forall l p, (p < length l)%nat -> SZ (firstn (S p) l) = (SZ (firstn p l) + nth p l 0)%Z.
Proof.
  unfold SZ. induction l as [|x l IH]; intros p Hp; cbn in Hp; [lia|].
  destruct p; [cbn; lia|]. rewrite !firstn_cons. cbn [nth fold_right].
  specialize (IH p ltac:(lia)). lia.
Qed.

Lemma splice_length {A} : forall (l : list A) t v, (t < length l)%nat -> length (firstn t l ++ v :: skipn (S t) l) = length l.
Proof.
  intros l t v Ht. rewrite app_length. cbn [length]. rewrite firstn_length, skipn_length. lia.
Qed.

Lemma nth_upd_length : forall l t v, (t < length l)%nat -> length (nth_upd l t v) = length l.
Proof.
  intros l t v Ht. unfold nth_upd. rewrite app_length. cbn [length]. rewrite firstn_length, skipn_length. lia.
Qed.

Lemma nth_upd_firstn : forall l t v p, (t < length l)%nat ->
  SZ (firstn p (nth_upd l t v)) = (SZ (firstn p l) + (if Nat.ltb t p then v - nth t l 0 else 0))%Z.
Proof.
  unfold SZ. induction l as [|x l IH]; intros t v p Ht; cbn in Ht; [lia|].
  destruct t.
  - unfold nth_upd. cbn [firstn skipn app nth]. destruct p; cbn [firstn fold_right Nat.ltb Nat.leb]; lia.
  - unfold nth_upd in *. rewrite firstn_cons. change (skipn (S (S t)) (x :: l)) with (skipn (S t) l).
    cbn [app]. destruct p; [cbn; lia|].
    rewrite !firstn_cons. cbn [fold_right nth]. specialize (IH t v p ltac:(lia)). rewrite IH.
    change (S t <? S p) with (t <? p). lia.
Qed.

Lemma nth_upd_total : forall l t v, (t < length l)%nat -> SZ (nth_upd l t v) = (SZ l + v - nth t l 0)%Z.
Proof.
  intros l t v Ht. pose proof (nth_upd_firstn l t v (length l) Ht) as H.
  rewrite <- (nth_upd_length l t v Ht) in H at 1. rewrite !firstn_all in H.
  destruct (Nat.ltb_spec t (length l)); lia.
Qed.

Definition nonneg (prog : list (list Z)) : Prop := forall l, In l prog -> forall v, In v l -> (0 <= v)%Z.

Record rinv (x : rst) : Prop := {
  ri_len : length (r_prog x) = length (r_slots x);
  ri_nn : nonneg (r_prog x);
  ri_pos : (r_pos x <= length (r_slots x))%nat;
  ri_idle : r_started x = false -> r_pos x = 0%nat /\ r_acc x = 0%Z;
  ri_lo : r_started x = true -> (r_lo x <= r_acc x + SZ (skipn (r_pos x) (r_slots x)))%Z;
  ri_hi : (r_acc x <= SZ (firstn (r_pos x) (r_slots x)))%Z
}.

Lemma rinv_init : forall slots prog, length prog = length slots -> nonneg prog -> rinv (rinit slots prog).
Proof.
  intros slots prog Hl Hn. constructor; cbn; auto; try lia; try discriminate.
Qed.

Lemma in_firstn {A} : forall n (l : list A) a, In a (firstn n l) -> In a l.
Proof. intros n l a H. rewrite <- (firstn_skipn n l). apply in_or_app. left; exact H. Qed.
Lemma in_skipn {A} : forall n (l : list A) a, In a (skipn n l) -> In a l.
Proof. intros n l a H. rewrite <- (firstn_skipn n l). apply in_or_app. right; exact H. Qed.

Lemma nonneg_upd : forall prog t v rest, nonneg prog -> nth t prog [] = v :: rest -> (t < length prog)%nat ->
  nonneg (firstn t prog ++ rest :: skipn (S t) prog) /\ (0 <= v)%Z.
Proof.
  intros prog t v rest Hn E Ht.
  assert (Hin : In (v :: rest) prog) by (rewrite <- E; apply nth_In; exact Ht).
  split.
  - intros l Hl w Hw. apply in_app_or in Hl. destruct Hl as [Hl|[<-|Hl]].
    + eapply Hn; [eapply in_firstn, Hl|exact Hw]. 
    + eapply Hn; [exact Hin|right; exact Hw].
    + eapply Hn; [eapply in_skipn, Hl|exact Hw].
  - eapply Hn; [exact Hin|left; reflexivity].
Qed.

Lemma rstep_inv : forall x t x', rinv x -> rstep x t = Some x' -> rinv x'.
Proof.
  intros x t x' I. unfold rstep.
  destruct (Nat.ltb_spec t (length (r_slots x))) as [Ht|Ht].
  - destruct (nth t (r_prog x) []) as [|v rest] eqn:E; [discriminate|]. intros H; injection H as <-.
    assert (Htp : (t < length (r_prog x))%nat) by (rewrite (ri_len _ I); exact Ht).
    destruct (nonneg_upd _ _ _ _ (ri_nn _ I) E Htp) as [Hn Hv].
    unfold adder_step.
    constructor; cbn [r_slots r_prog r_pos r_acc r_lo r_started].
    + rewrite nth_upd_length by exact Ht.
      change (length (firstn t (r_prog x) ++ rest :: skipn (S t) (r_prog x)) = length (r_slots x)).
      rewrite splice_length by exact Htp. exact (ri_len _ I).
    + exact Hn.
    + rewrite nth_upd_length by exact Ht. exact (ri_pos _ I).
    + exact (ri_idle _ I).
    + intros Hs. pose proof (ri_lo _ I Hs) as L.
      pose proof (SZ_split (r_pos x) (nth_upd (r_slots x) t (nth t (r_slots x) 0%Z + v)%Z)) as S1.
      pose proof (SZ_split (r_pos x) (r_slots x)) as S2.
      rewrite nth_upd_total in S1 by exact Ht. rewrite nth_upd_firstn in S1 by exact Ht.
      destruct (Nat.ltb_spec t (r_pos x)); lia.
    + pose proof (ri_hi _ I) as L. rewrite nth_upd_firstn by exact Ht. destruct (Nat.ltb_spec t (r_pos x)); lia.
  - destruct (Nat.eqb_spec t (length (r_slots x))) as [->|_]; [|discriminate].
    destruct (Nat.ltb_spec (r_pos x) (length (r_slots x))) as [Hp|Hp]; [|discriminate].
    intros H; injection H as <-.
    pose proof (firstn_S_sum (r_slots x) (r_pos x) Hp) as F.
    pose proof (SZ_split (r_pos x) (r_slots x)) as S1. pose proof (SZ_split (S (r_pos x)) (r_slots x)) as S2.
    constructor; cbn [r_slots r_prog r_pos r_acc r_lo r_started].
    + exact (ri_len _ I).
    + exact (ri_nn _ I).
    + lia.
    + discriminate.
    + intros _. destruct (r_started x) eqn:Es.
      * pose proof (ri_lo _ I Es). lia.
      * destruct (ri_idle _ I Es) as [P A]. rewrite P, A in *. cbn in *. fold (SZ (r_slots x)). lia.
    + pose proof (ri_hi _ I). lia.
Qed.

(* all interleavings of n single-writer adders (non-negative increments) with one reader walking the slots:
   whenever the reader has loaded every slot, its sum lies between the total at the moment it started
   (contributions completed before the read) and the total now (contributions started before it ended) *)
Theorem ct_reader_bounds : forall slots prog x, length prog = length slots -> nonneg prog ->
  reachable rst rstep (rinit slots prog) x -> r_started x = true -> r_pos x = length (r_slots x) ->
  (r_lo x <= r_acc x <= SZ (r_slots x))%Z.
Proof.
  intros slots prog x Hl Hn Hr Hs Hp.
  assert (I : rinv x).
  { eapply (inv_reachable rst rstep rinv); [apply rinv_init; eassumption| |exact Hr].
    intros s t s' Is E. eapply rstep_inv; eauto. }
  pose proof (ri_lo _ I Hs) as L. pose proof (ri_hi _ I) as H. rewrite Hp in *.
  rewrite skipn_all in L. rewrite firstn_all in H. cbn in L. lia.
Qed.

(* ------------------------------------------------------------------------------- for_each_alive, exactness *)
Definition expand (rs : list (nat * nat)) : list nat := flat_map (fun r => seq (fst r) (snd r - fst r)) rs.
Fixpoint fpos (l : list bool) (pos : nat) : list nat :=
  match l with
  | [] => []
  | b :: r => (if b then [pos] else []) ++ fpos r (S pos)
  end.

Lemma seq_snoc : forall b n, seq b (S n) = seq b n ++ [b + n].
Proof. intros. rewrite seq_S. reflexivity. Qed.

Lemma runs_expand : forall l pos cur, (forall b, cur = Some b -> b <= pos) ->
  expand (runs_from l pos cur) = (match cur with Some b => seq b (pos - b) | None => [] end) ++ fpos l pos.
Proof.
  induction l as [|a l IH]; intros pos cur Hc; cbn [runs_from fpos].
  - destruct cur as [b|]; cbn; rewrite ?app_nil_r; reflexivity.
  - destruct a.
    + destruct cur as [b|].
      * rewrite IH by (intros b' E; inversion E; subst; specialize (Hc _ eq_refl); lia).
        specialize (Hc _ eq_refl). replace (S pos - b) with (S (pos - b)) by lia. rewrite seq_snoc.
        replace (b + (pos - b)) with pos by lia. rewrite <- app_assoc. reflexivity.
      * rewrite IH by (intros b' E; inversion E; subst; lia).
        replace (S pos - pos) with 1 by lia. reflexivity.
    + destruct cur as [b|].
      * cbn [expand flat_map fst snd]. fold (expand (runs_from l (S pos) None)). rewrite IH by discriminate. reflexivity.
      * rewrite IH by discriminate. reflexivity.
Qed.

Lemma runs_wf : forall l pos cur, (forall b, cur = Some b -> b <= pos) ->
  Forall (fun r => fst r <= snd r) (runs_from l pos cur).
Proof.
  induction l as [|a l IH]; intros pos cur Hc; cbn [runs_from].
  - destruct cur as [b|]; constructor; [cbn; auto|constructor].
  - destruct a.
    + apply IH. destruct cur as [b|]; intros b' E; inversion E; subst; [specialize (Hc _ eq_refl); lia|lia].
    + destruct cur as [b|]; [constructor; [cbn; auto|]|]; apply IH; discriminate.
Qed.

Lemma filter_lt_seq : forall sz n b,
  filter (fun k => k <? sz) (seq b n) = seq (Nat.min b sz) (Nat.min (b + n) sz - Nat.min b sz).
Proof.
  intros sz n. induction n as [|n IH]; intros b.
  - rewrite Nat.add_0_r, Nat.sub_diag. reflexivity.
  - cbn [seq filter]. rewrite IH. destruct (Nat.ltb_spec b sz).
    + replace (Nat.min (b + S n) sz - Nat.min b sz) with (S (Nat.min (S b + n) sz - Nat.min (S b) sz)) by lia.
      cbn [seq]. f_equal; [lia|]. f_equal. lia.
    + replace (Nat.min (S b + n) sz - Nat.min (S b) sz) with 0 by lia.
      replace (Nat.min (b + S n) sz - Nat.min b sz) with 0 by lia. reflexivity.
Qed.

Lemma alive_lines_eq : forall cst sz rs, Forall (fun r => fst r <= snd r) rs ->
  alive_lines cst sz rs = Some (filter (fun k => k <? sz) (expand rs)).
Proof.
  intros cst sz rs H. induction H as [|r rs Hr _ IH]; [reflexivity|].
  cbn [alive_lines]. rewrite alive_range_clamped, IH. cbn [expand flat_map]. fold (expand rs).
  rewrite filter_app. f_equal. f_equal.
  replace (snd r - fst r) with (snd r - fst r) by reflexivity.
  rewrite (filter_lt_seq sz (snd r - fst r) (fst r)).
  replace (fst r + (snd r - fst r)) with (snd r) by lia.
  f_equal; lia.
Qed.

Lemma fpos_map : forall (f : nat -> bool) n p, fpos (map f (seq p n)) p = filter f (seq p n).
Proof.
  intros f n. induction n as [|n IH]; intros p; [reflexivity|].
  cbn [seq map fpos filter]. rewrite IH. destruct (f p); reflexivity.
Qed.

Definition allocated (a : ids) (k : nat) : bool := negb (existsb (Nat.eqb k) (fre a)).

(* for_each_alive (either overload) visits, in increasing order, exactly the lines k < size of the storage whose
   thread id k is currently allocated (handed out and not on the free list) *)
Theorem ct_alive_exact : forall x cst s,
  for_each_alive x cst s =
  Some (filter (fun k => k <? csize x s) (filter (allocated (tids x)) (seq 0 (nxt (tids x))))).
Proof.
  intros x cst s. unfold for_each_alive, alive_runs.
  rewrite alive_lines_eq by (apply runs_wf; discriminate).
  rewrite runs_expand by discriminate. cbn [app]. unfold alive_ids. rewrite fpos_map. reflexivity.
Qed.

Lemma allocated_iff : forall a k, allocated a k = true <-> ~ In k (fre a).
Proof.
  intros a k. unfold allocated. rewrite negb_true_iff. split.
  - intros H F. assert (existsb (Nat.eqb k) (fre a) = true) by (apply existsb_exists; exists k; split; [exact F|apply Nat.eqb_refl]). congruence.
  - intros H. destruct (existsb (Nat.eqb k) (fre a)) eqn:E; [|reflexivity].
    apply existsb_exists in E. destruct E as (y & Hy & Ey). apply Nat.eqb_eq in Ey. subst y. contradiction.
Qed.

(* ... and in every reachable state those are exactly the lines of the live threads this storage has room for,
   each visited once *)
Theorem ct_for_each_alive_exact : forall cf h cst s, cfg_ok cf ->
  let x := run cf (start cf) h in
  threads_small cf x ->
  exists L, for_each_alive x cst s = Some L /\ NoDup L /\
    forall k, In k L <-> (k < csize x s)%nat /\ exists t, t_alive (thr x t) = true /\ t_tid (thr x t) = Some k.
Proof.
  intros cf h cst s Hok x Hs. pose proof (reach_inv cf h Hok Hs) as I. fold x in I.
  eexists. split; [apply ct_alive_exact|]. split.
  - apply NoDup_filter, NoDup_filter, seq_NoDup.
  - intros k. rewrite !filter_In, in_seq, allocated_iff, Nat.ltb_lt. split.
    + intros [[[_ A] B] C]. split; [exact C|]. destruct (i_held _ _ I k ltac:(lia) B) as [t Et]. exists t.
      destruct (i_tid _ _ I _ _ Et) as (_ & _ & D). auto.
    + intros [C (t & _ & Et)]. destruct (i_tid _ _ I _ _ Et) as (A & B & _). repeat split; auto; lia.
Qed.

From Coq Require Import ZifyBool.
(* ------------------------------------------------------------------------------------------ maxer / miner *)
Definition cmp_kind (k : kind) : Prop := k = KMaxer \/ k = KMiner.

Lemma cmp_irrefl : forall k v, cmp_of k v v = false.
Proof. intros k v. unfold cmp_of, max_cmp, min_cmp. destruct k; lia. Qed.
Lemma cmp_dom_trans : forall k w a m, cmp_of k w a = false -> cmp_of k a m = false -> cmp_of k w m = false.
Proof. intros k w a m. unfold cmp_of, max_cmp, min_cmp. destruct k; lia. Qed.
Lemma cmp_up : forall k v a w, cmp_of k v a = true -> cmp_of k w a = false -> cmp_of k w v = false.
Proof. intros k v a w. unfold cmp_of, max_cmp, min_cmp. destruct k; lia. Qed.
Lemma cmp_up2 : forall k a res r, cmp_of k a res = true -> cmp_of k a r = false -> cmp_of k res r = false.
Proof. intros k a res r. unfold cmp_of, max_cmp, min_cmp. destruct k; lia. Qed.

Lemma visit_eq : forall k ver acc c,
  cmp_visit k ver acc c =
  if Z.eqb (snd c) ver then (if negb (fst acc) || cmp_of k (fst c) (snd acc) then (true, fst c) else acc) else acc.
Proof.
  intros k ver acc c. unfold cmp_visit, read_version_match, read_accept, read_cmp_lhs, read_cmp_rhs, b2z.
  destruct (Z.eqb (snd c) ver); [|reflexivity].
  destruct (fst acc); destruct (cmp_of k (fst c) (snd acc)); reflexivity.
Qed.

Lemma fold_spec : forall k ver cells has res,
  let r := fold_left (cmp_visit k ver) cells (has, res) in
  (fst r = true <-> has = true \/ exists c, In c cells /\ snd c = ver) /\
  (fst r = true -> (has = true /\ snd r = res) \/ exists c, In c cells /\ snd c = ver /\ snd r = fst c) /\
  (has = true -> cmp_of k res (snd r) = false) /\
  (forall c, In c cells -> snd c = ver -> cmp_of k (fst c) (snd r) = false).
Proof.
  intros k ver cells. induction cells as [|c cells IH]; intros has res; cbn [fold_left].
  - cbn. repeat split.
    + intros H; left; exact H.
    + intros [H|(c & [] & _)]; exact H.
    + intros H; left; split; [exact H|reflexivity].
    + intros _. apply cmp_irrefl.
    + intros c [].
  - rewrite visit_eq. cbn [fst snd]. destruct (Z.eqb_spec (snd c) ver) as [Em|Em].
    + destruct (negb has || cmp_of k (fst c) res) eqn:Ea.
      * specialize (IH true (fst c)). cbv zeta in IH. destruct IH as (A & B & C & D).
        assert (Ht : fst (fold_left (cmp_visit k ver) cells (true, fst c)) = true) by (apply A; left; reflexivity).
        repeat split.
        -- intros _. right. exists c. split; [left; reflexivity|exact Em].
        -- intros _. exact Ht.
        -- intros _. right. destruct (B Ht) as [[_ E]|(c' & I' & M' & E')].
           ++ exists c. repeat split; auto. left; reflexivity.
           ++ exists c'. repeat split; auto. right; exact I'.
        -- intros Hh. subst has. cbn in Ea. eapply cmp_up2; [exact Ea|apply C; reflexivity].
        -- intros c' [<-|I'] M'; [apply C; reflexivity|apply D; assumption].
      * apply orb_false_iff in Ea. destruct Ea as [Eh Ec]. apply negb_false_iff in Eh. subst has.
        specialize (IH true res). cbv zeta in IH. destruct IH as (A & B & C & D).
        assert (Ht : fst (fold_left (cmp_visit k ver) cells (true, res)) = true) by (apply A; left; reflexivity).
        repeat split.
        -- intros _. left; reflexivity.
        -- intros _. exact Ht.
        -- intros _. destruct (B Ht) as [[_ E]|(c' & I' & M' & E')]; [left; split; auto|].
           right. exists c'. repeat split; auto. right; exact I'.
        -- intros _. apply C; reflexivity.
        -- intros c' [<-|I'] M'; [|apply D; assumption]. eapply cmp_dom_trans; [exact Ec|apply C; reflexivity].
    + specialize (IH has res). cbv zeta in IH. destruct IH as (A & B & C & D). repeat split.
      * intros H. apply A in H. destruct H as [H|(c' & I' & M')]; [left; exact H|right; exists c'; split; [right; exact I'|exact M']].
      * intros [H|(c' & [<-|I'] & M')]; apply A; [left; exact H|contradiction|right; exists c'; auto].
      * intros H. destruct (B H) as [E|(c' & I' & M' & E')]; [left; exact E|right; exists c'; repeat split; auto; right; exact I'].
      * exact C.
      * intros c' [<-|I'] M'; [contradiction|apply D; assumption].
Qed.

Definition cellv (x : st) (i : inst) (j : nat) : cell := cmem x (i_sto i) j (i_off i).

Record minv (cf : cfg) (n : Z) (x : st) : Prop := {
  m_v1 : forall c i j, chnd x c = Some i -> snd (cellv x i j) = cver x c -> In (fst (cellv x i j)) (g_per x c);
  m_v2 : forall c i v, chnd x c = Some i -> In v (g_per x c) ->
         exists j, snd (cellv x i j) = cver x c /\ cmp_of (ck cf) v (fst (cellv x i j)) = false;
  m_v3 : forall c i j, chnd x c = Some i ->
         snd (cellv x i j) = slot_init_version \/ (snd (cellv x i j) <= cver x c)%Z;
  m_v4 : forall c, (0 <= cver x c <= n)%Z
}.

Lemma g_init_ver : cmp_initial_version = 0%Z /\ (0 < slot_init_version)%Z.
Proof. split; [reflexivity|vm_compute; reflexivity]. Qed.

Lemma minv_init : forall cf, minv cf 0 (start cf).
Proof. intros cf. constructor; cbn; intros; try discriminate. lia. Qed.

Lemma minv_mono : forall cf n n' x, minv cf n x -> (n <= n')%Z -> minv cf n' x.
Proof.
  intros cf n n' x M H. constructor; [exact (m_v1 _ _ _ M)|exact (m_v2 _ _ _ M)|exact (m_v3 _ _ _ M)|].
  intros c. pose proof (m_v4 _ _ _ M c). lia.
Qed.

Lemma minv_same : forall cf n x x1, minv cf n x ->
  cmem x1 = cmem x -> chnd x1 = chnd x -> cver x1 = cver x -> g_per x1 = g_per x -> minv cf n x1.
Proof.
  intros cf n x x1 M E1 E2 E3 E4. unfold cellv in *.
  constructor; unfold cellv; rewrite ?E1, ?E2, ?E3, ?E4; [exact (m_v1 _ _ _ M)|exact (m_v2 _ _ _ M)|exact (m_v3 _ _ _ M)|exact (m_v4 _ _ _ M)].
Qed.

Lemma czero_cmp : forall k, cmp_kind k -> czero k = (0%Z, slot_init_version).
Proof. intros k [->| ->]; reflexivity. Qed.

Lemma minv_new : forall cf n x c, (1 <= cK cf)%nat -> (1 <= cB cf)%nat -> cmp_kind (ck cf) ->
  inv cf x -> minv cf n x -> chnd x c = None -> minv cf n (fst (new_inst cf x c)).
Proof.
  intros cf n x c HK HB Hk I M Hc. unfold new_inst. destruct (id_alloc (iids x)) as [iid a'] eqn:Ea. cbn [fst].
  destruct (alloc_spec cf HK HB _ _ _ (i_ifre _ _ I) (i_ifre_nd _ _ I) Ea) as (A1 & A2 & A3 & A4 & A5 & A6 & A7).
  assert (Hfresh : In iid (fre (iids x)) \/ (nxt (iids x) <= iid)%nat) by (destruct A7 as [[? _]|[? _]]; [left; auto|right; lia]).
  assert (Hz : forall j, cmem x (sto_of cf iid) j (off_of cf iid) = (0%Z, slot_init_version)).
  { intros j. rewrite (i_freez _ _ I _ Hfresh). apply czero_cmp. exact Hk. }
  destruct g_init_ver as [G1 G2].
  constructor; unfold cellv; cbn.
  - intros d i j. unfold upd. destruct (Nat.eqb_spec d c).
    + intros E; inversion E; subst i; cbn. unfold sto_of, off_of in Hz. rewrite Hz. cbn. rewrite G1. lia.
    + apply (m_v1 _ _ _ M).
  - intros d i v. unfold upd. destruct (Nat.eqb_spec d c); [intros _ []|apply (m_v2 _ _ _ M)].
  - intros d i j. unfold upd. destruct (Nat.eqb_spec d c).
    + intros E; inversion E; subst i; cbn. unfold sto_of, off_of in Hz. rewrite Hz. left. reflexivity.
    + apply (m_v3 _ _ _ M).
  - intros d. unfold upd. destruct (Nat.eqb_spec d c); [|apply (m_v4 _ _ _ M)]. pose proof (m_v4 _ _ _ M c). rewrite G1. lia.
Qed.

Lemma slots_differ : forall cf x c d i j, (1 <= cK cf)%nat -> (1 <= cB cf)%nat -> inv cf x ->
  chnd x c = Some i -> chnd x d = Some j -> d <> c -> i_sto j <> i_sto i \/ i_off j <> i_off i.
Proof.
  intros cf x c d i j HK HB I Hc Hd Hne.
  destruct (Nat.eq_dec (i_sto j) (i_sto i)); [|left; assumption].
  destruct (Nat.eq_dec (i_off j) (i_off i)); [|right; assumption].
  exfalso. apply Hne. eapply (inst_slot_inj cf HK HB); eauto.
Qed.

Lemma minv_del : forall cf n x c i, (1 <= cK cf)%nat -> (1 <= cB cf)%nat -> inv cf x -> minv cf n x -> chnd x c = Some i ->
  minv cf n (let x1 := set_cmem x (fill (cmem x) (i_sto i) (each_bound x (i_sto i)) (Z.to_nat (dtor_zero_index (Z.of_nat (i_off i)))) (czero (ck cf))) in
             set_chnd (set_iids x1 (id_free (iids x1) (i_iid i))) (upd (chnd x1) c None)).
Proof.
  intros cf n x c i HK HB I M Hc. rewrite g_dtor, Nat2Z.id. cbn.
  assert (Hsame : forall d j jj, chnd x d = Some j -> d <> c ->
            fill (cmem x) (i_sto i) (each_bound x (i_sto i)) (i_off i) (czero (ck cf)) (i_sto j) jj (i_off j) = cmem x (i_sto j) jj (i_off j)).
  { intros d j jj Hd Hne. apply fill_other. eapply slots_differ; eauto. }
  constructor; unfold cellv; cbn.
  - intros d j jj. unfold upd. destruct (Nat.eqb_spec d c); [discriminate|]. intros E. rewrite (Hsame d j jj E n0). apply (m_v1 _ _ _ M _ _ _ E).
  - intros d j v. unfold upd. destruct (Nat.eqb_spec d c); [discriminate|]. intros E Hv.
    destruct (m_v2 _ _ _ M _ _ _ E Hv) as (jj & P & Q). exists jj. rewrite (Hsame d j jj E n0). split; assumption.
  - intros d j jj. unfold upd. destruct (Nat.eqb_spec d c); [discriminate|]. intros E. rewrite (Hsame d j jj E n0). apply (m_v3 _ _ _ M _ _ _ E).
  - exact (m_v4 _ _ _ M).
Qed.

Lemma minv_swap : forall cf n x c d, minv cf n x -> minv cf n (swap_inst x c d).
Proof.
  intros cf n x c d M. unfold swap_inst. constructor; unfold cellv; cbn.
  - intros e i j. rewrite !upd_pi. apply (m_v1 _ _ _ M).
  - intros e i v. rewrite !upd_pi. apply (m_v2 _ _ _ M).
  - intros e i j. rewrite !upd_pi. apply (m_v3 _ _ _ M).
  - intros e. rewrite upd_pi. apply (m_v4 _ _ _ M).
Qed.

Lemma cell_add_cases : forall k ver v a b, cmp_kind k ->
  (b <> ver /\ cell_add k ver v (a, b) = (v, ver)) \/
  (b = ver /\ cmp_of k v a = true /\ cell_add k ver v (a, b) = (v, b)) \/
  (b = ver /\ cmp_of k v a = false /\ cell_add k ver v (a, b) = (a, b)).
Proof.
  intros k ver v a b Hk.
  assert (E : cell_add k ver v (a, b) =
              if negb (Z.eqb ver b) then (v, ver) else if cmp_of k v a then (v, b) else (a, b))
    by (destruct Hk as [->| ->]; reflexivity).
  rewrite E. destruct (Z.eqb_spec ver b) as [<-|Hne]; cbn [negb].
  - destruct (cmp_of k v a); [right; left|right; right]; auto.
  - left. split; [congruence|reflexivity].
Qed.

Lemma minv_write : forall cf n x c i k v, (1 <= cK cf)%nat -> (1 <= cB cf)%nat -> cmp_kind (ck cf) ->
  inv cf x -> minv cf n x -> chnd x c = Some i ->
  minv cf n (let old := cmem x (i_sto i) k (i_off i) in
       let x2 := set_cmem x (upd3 (cmem x) (i_sto i) k (i_off i) (cell_add (ck cf) (cver x c) v old)) in
       set_ghost x2 (upd (g_sum x2) c (g_sum x2 c + v)%Z) (upd (g_cnt x2) c (g_cnt x2 c + 1)%Z) (upd (g_per x2) c (v :: g_per x2 c))).
Proof.
  intros cf n x c i k v HK HB Hk I M Hc. cbn.
  set (ver := cver x c).
  destruct (cmem x (i_sto i) k (i_off i)) as [a b] eqn:Eold.
  set (new := cell_add (ck cf) ver v (a, b)).
  assert (Hoth : forall d j jj, chnd x d = Some j -> d <> c ->
            upd3 (cmem x) (i_sto i) k (i_off i) new (i_sto j) jj (i_off j) = cmem x (i_sto j) jj (i_off j)).
  { intros d j jj Hd Hne. apply upd3_other. destruct (slots_differ cf x c d i j HK HB I Hc Hd Hne); tauto. }
  assert (Hk' : upd3 (cmem x) (i_sto i) k (i_off i) new (i_sto i) k (i_off i) = new)
    by (unfold upd3; rewrite !Nat.eqb_refl; reflexivity).
  assert (Hnk : forall jj, jj <> k -> upd3 (cmem x) (i_sto i) k (i_off i) new (i_sto i) jj (i_off i) = cmem x (i_sto i) jj (i_off i))
    by (intros jj Hne; apply upd3_other; tauto).
  pose proof (cell_add_cases (ck cf) ver v a b Hk) as Cases. fold new in Cases.
  assert (V1old : b = ver -> In a (g_per x c)).
  { intros E. pose proof (m_v1 _ _ _ M c i k Hc) as H. unfold cellv in H. rewrite Eold in H. apply H. exact E. }
  constructor; unfold cellv; cbn.
  - intros d j jj Hd. unfold upd. destruct (Nat.eqb_spec d c) as [->|Hne].
    + rewrite Hc in Hd. inversion Hd; subst j. fold ver. destruct (Nat.eq_dec jj k) as [->|Hjk].
      * rewrite Hk'. intros _. destruct Cases as [[_ ->]|[(_ & _ & ->)|(Eb & _ & ->)]]; cbn; auto.
        all: try (right; apply V1old; exact Eb).
      * rewrite Hnk by exact Hjk. intros E. right. apply (m_v1 _ _ _ M c i jj Hc E).
    + rewrite (Hoth d j jj Hd Hne). apply (m_v1 _ _ _ M _ _ _ Hd).
  - intros d j w Hd. unfold upd. destruct (Nat.eqb_spec d c) as [->|Hne].
    + rewrite Hc in Hd. inversion Hd; subst j. fold ver. intros [<-|Hw].
      * exists k. rewrite Hk'.
        destruct Cases as [[_ ->]|[(Eb & _ & ->)|(Eb & Ec & ->)]]; cbn; auto using cmp_irrefl.
      * destruct (m_v2 _ _ _ M c i w Hc Hw) as (jj & P & Q). unfold cellv in P, Q. fold ver in P.
        destruct (Nat.eq_dec jj k) as [->|Hjk].
        -- exists k. rewrite Hk'. rewrite Eold in P, Q. cbn in P, Q.
           destruct Cases as [[Eb _]|[(Eb & Ec & ->)|(Eb & Ec & ->)]]; cbn; [contradiction| |auto].
           split; [exact Eb|eapply cmp_up; eauto].
        -- exists jj. rewrite Hnk by exact Hjk. auto.
    + intros Hw. destruct (m_v2 _ _ _ M d j w Hd Hw) as (jj & P & Q). exists jj. rewrite (Hoth d j jj Hd Hne). auto.
  - intros d j jj Hd. destruct (Nat.eq_dec d c) as [->|Hne].
    + rewrite Hc in Hd. inversion Hd; subst j. fold ver. destruct (Nat.eq_dec jj k) as [->|Hjk].
      * rewrite Hk'. destruct Cases as [[_ ->]|[(Eb & _ & ->)|(Eb & _ & ->)]]; cbn; right; lia.
      * rewrite Hnk by exact Hjk. apply (m_v3 _ _ _ M c i jj Hc).
    + rewrite (Hoth d j jj Hd Hne). apply (m_v3 _ _ _ M _ _ _ Hd).
  - exact (m_v4 _ _ _ M).
Qed.

Lemma minv_reset : forall cf n x c i, minv cf n x -> (n + 1 < slot_init_version)%Z -> chnd x c = Some i ->
  minv cf (n + 1) (let x1 := set_cver x (upd (cver x) c (cmp_reset_incr_target (cver x c) + 1)%Z) in
                   set_ghost x1 (g_sum x1) (g_cnt x1) (upd (g_per x1) c [])).
Proof.
  intros cf n x c i M Hn Hc. unfold cmp_reset_incr_target. cbn.
  pose proof (m_v4 _ _ _ M c) as V4.
  constructor; unfold cellv; cbn.
  - intros d j jj Hd. unfold upd. destruct (Nat.eqb_spec d c) as [->|Hne]; [|apply (m_v1 _ _ _ M _ _ _ Hd)].
    intros E. exfalso. destruct (m_v3 _ _ _ M c j jj Hd) as [F|F]; unfold cellv in F; lia.
  - intros d j w Hd. unfold upd. destruct (Nat.eqb_spec d c) as [->|Hne]; [intros []|apply (m_v2 _ _ _ M _ _ _ Hd)].
  - intros d j jj Hd. unfold upd. destruct (Nat.eqb_spec d c) as [->|Hne]; [|apply (m_v3 _ _ _ M _ _ _ Hd)].
    destruct (m_v3 _ _ _ M c j jj Hd) as [F|F]; unfold cellv in F; [left; exact F|right; lia].
  - intros d. unfold upd. destruct (Nat.eqb_spec d c) as [->|Hne]; [lia|]. pose proof (m_v4 _ _ _ M d). lia.
Qed.

Lemma step_minv : forall cf n x o, (1 <= cK cf)%nat -> (1 <= cB cf)%nat -> cmp_kind (ck cf) ->
  inv cf x -> minv cf n x -> (n + 1 < slot_init_version)%Z -> minv cf (n + 1) (fst (step cf x o)).
Proof.
  intros cf n x o HK HB Hk I M Hn.
  assert (M' : minv cf (n + 1) x) by (eapply minv_mono; [exact M|lia]).
  destruct o; cbn.
  - destruct (t_alive (thr x t)); cbn; [exact M'|]. eapply minv_same; [exact M'|reflexivity..].
  - destruct (t_alive (thr x t)); cbn; [|exact M']. destruct (t_tid (thr x t)); eapply minv_same; try exact M'; reflexivity.
  - destruct (chnd x c) eqn:E; cbn; [exact M'|]. pose proof (minv_new cf (n + 1) x c HK HB Hk I M' E) as H.
    destruct (new_inst cf x c); exact H.
  - destruct (chnd x c) eqn:E; cbn; [|exact M']. apply minv_del; assumption.
  - destruct (chnd x c); destruct (chnd x d); cbn; try exact M'. apply minv_swap; assumption.
  - destruct (chnd x c) eqn:E; destruct (chnd x d); cbn; try exact M'.
    pose proof (minv_new cf (n + 1) x c HK HB Hk I M' E) as H. destruct (new_inst cf x c); cbn in *. apply minv_swap; assumption.
  - destruct (chnd x c) as [i|] eqn:E; cbn; [|exact M']. destruct (t_alive (thr x t)) eqn:Ea; cbn; [|exact M'].
    destruct (local cf x t (i_sto i)) as [x1 [s k]] eqn:El.
    destruct (local_spec cf HK HB _ _ _ _ _ _ I Ea El) as (I1 & -> & _ & K1 & K2 & (M1 & M2 & M3 & M4 & M5 & M6 & M7) & _).
    cbn. rewrite <- M2 in E.
    assert (Mx1 : minv cf (n + 1) x1) by (eapply minv_same; [exact M'|assumption..]).
    apply (minv_write cf (n + 1) x1 c i k v HK HB Hk I1 Mx1 E).
  - destruct (chnd x c); cbn; exact M'.
  - destruct (chnd x c) as [i|] eqn:E; cbn; [|exact M'].
    destruct Hk as [Hk|Hk]; rewrite Hk; cbn; apply (minv_reset cf n x c i M Hn E).
  - destruct (chnd x c); cbn; exact M'.
  - destruct (chnd x c); cbn; exact M'.
  - destruct Hk as [Hk|Hk]; rewrite Hk; cbn; exact M'.
Qed.

Lemma run_minv : forall cf h x n, (1 <= cK cf)%nat -> (1 <= cB cf)%nat -> cmp_kind (ck cf) ->
  inv cf x -> minv cf n x -> small cf (run cf x h) -> (n + Z.of_nat (length h) < slot_init_version)%Z ->
  minv cf (n + Z.of_nat (length h)) (run cf x h).
Proof.
  intros cf h. induction h as [|o h IH]; intros x n HK HB Hk I M Hs Hn; cbn [run length] in *.
  - replace (n + Z.of_nat 0)%Z with n by lia. exact M.
  - replace (n + Z.of_nat (S (length h)))%Z with ((n + 1) + Z.of_nat (length h))%Z by lia.
    apply IH; auto; try lia.
    + apply step_inv; auto. eapply (small_mono cf HK HB); [apply (run_mono cf HK HB)|exact Hs].
    + apply step_minv; auto. lia.
Qed.

Lemma read_cmp : forall cf x c i, cmp_kind (ck cf) ->
  read cf x c i = (let r := cmp_fold (ck cf) (cver x c) (cells_of x i) in
                   (if fst r then snd r else 0%Z, if fst r then 1%Z else 0%Z)).
Proof. intros cf x c i [H|H]; unfold read; rewrite H; reflexivity. Qed.

Definition is_extreme (k : kind) (m : Z) (l : list Z) : Prop := In m l /\ forall v, In v l -> cmp_of k v m = false.

(* maxer / miner: value() at a quiescent point is the extreme of the samples of the current period (no sample is
   strictly more extreme), for every sample value including numeric_limits min/max; an empty period reports none *)
Theorem ct_extreme_exact : forall cf h c i, cfg_ok cf -> ck cf = KMaxer \/ ck cf = KMiner ->
  let x := run cf (start cf) h in
  threads_small cf x -> (Z.of_nat (length h) < slot_init_version)%Z -> chnd x c = Some i ->
  (g_per x c = [] -> step cf x (CRead c) = (x, OVal 0%Z 0%Z)) /\
  (g_per x c <> [] -> exists m, is_extreme (ck cf) m (g_per x c) /\ step cf x (CRead c) = (x, OVal m 1%Z)).
Proof.
  intros cf h c i [HK HB] Hk x Hs Hlen Hc.
  pose proof (reach_inv cf h (conj HK HB) Hs) as I. fold x in I.
  pose proof (run_minv cf h (start cf) 0%Z HK HB Hk (inv_init cf HK HB) (minv_init cf) Hs ltac:(lia)) as M. fold x in M.
  cbn [step]. rewrite Hc. rewrite (read_cmp cf x c i Hk). cbv zeta. cbn [fst snd].
  set (cs := cells_of x i). set (ver := cver x c).
  pose proof (fold_spec (ck cf) ver cs false (extremum (ck cf))) as F. cbv zeta in F. fold (cmp_fold (ck cf) ver cs) in F.
  destruct F as (FA & FB & _ & FD).
  assert (Hin : forall j, snd (cellv x i j) = ver -> In (cellv x i j) cs).
  { intros j E. unfold cs, cells_of. apply in_map_iff. exists j. split; [reflexivity|]. apply in_seq.
    rewrite (each_bound_eq cf HK HB x (i_sto i) I Hs).
    destruct (Nat.lt_ge_cases j (Nat.min (nxt (tids x)) (csize x (i_sto i)))) as [L|L]; [lia|exfalso].
    assert (Z : cellv x i j = czero (ck cf)) by (apply (i_mem _ _ I); lia).
    rewrite Z, (czero_cmp _ Hk) in E. cbn in E. pose proof (m_v4 _ _ _ M c). fold ver in H. lia. }
  assert (Hcs : forall c', In c' cs -> exists j, c' = cellv x i j).
  { intros c' H. unfold cs, cells_of in H. apply in_map_iff in H. destruct H as (j & <- & _). exists j. reflexivity. }
  split.
  - intros Ep. destruct (fst (cmp_fold (ck cf) ver cs)) eqn:Ef; [|reflexivity]. exfalso.
    destruct (proj1 FA eq_refl) as [Ef'|(c' & Hc' & Mc')]; [discriminate|].
    destruct (Hcs c' Hc') as (j & ->). pose proof (m_v1 _ _ _ M c i j Hc Mc') as V. rewrite Ep in V. exact V.
  - intros Ep. destruct (g_per x c) as [|v0 rest] eqn:Eg; [contradiction|].
    destruct (m_v2 _ _ _ M c i v0 Hc ltac:(rewrite Eg; left; reflexivity)) as (j0 & P0 & _).
    assert (Ef : fst (cmp_fold (ck cf) ver cs) = true) by (apply FA; right; exists (cellv x i j0); split; [apply Hin|]; exact P0).
    rewrite Ef. destruct (FB Ef) as [[F _]|(c' & Hc' & Mc' & Er)]; [discriminate|].
    exists (snd (cmp_fold (ck cf) ver cs)). split; [|reflexivity]. rewrite Er.
    destruct (Hcs c' Hc') as (j & ->). split.
    + rewrite <- Eg. apply (m_v1 _ _ _ M c i j Hc Mc').
    + intros w Hw. rewrite <- Eg in Hw. destruct (m_v2 _ _ _ M c i w Hc Hw) as (jw & Pw & Qw).
      eapply cmp_dom_trans; [exact Qw|]. rewrite <- Er. apply FD; [apply Hin|]; exact Pw.
Qed.

(* ------------------------------------------------------------ destructor vs constructor of another instance *)
Lemma g_dtor_order : dtor_zero_first = true.
Proof. reflexivity. Qed.

Fixpoint csum (f : nat -> Z) (n : nat) : Z := match n with O => 0%Z | S n' => (csum f n' + f n')%Z end.

Lemma csum_ext : forall f g n, (forall k, (k < n)%nat -> f k = g k) -> csum f n = csum g n.
Proof. intros f g n. induction n as [|n IH]; intros H; cbn; [reflexivity|]. rewrite IH by (intros; apply H; lia). rewrite H by lia. reflexivity. Qed.
Lemma csum_zero : forall f n, (forall k, (k < n)%nat -> f k = 0%Z) -> csum f n = 0%Z.
Proof. intros f n. induction n as [|n IH]; intros H; cbn; [reflexivity|]. rewrite IH by (intros; apply H; lia). rewrite H by lia. reflexivity. Qed.
Lemma csum_upd2 : forall m j k v n, (k < n)%nat -> csum (upd2 m j k v j) n = (csum (m j) n + v - m j k)%Z.
Proof.
  intros m j k v n. induction n as [|n IH]; intros Hk; [lia|]. cbn [csum].
  destruct (Nat.eq_dec k n) as [->|Hne].
  - rewrite (csum_ext _ (m j)) by (intros i Hi; unfold upd2; rewrite Nat.eqb_refl; destruct (Nat.eqb_spec i n); [lia|reflexivity]).
    unfold upd2. rewrite !Nat.eqb_refl. cbn. lia.
  - rewrite IH by lia. unfold upd2. rewrite Nat.eqb_refl. destruct (Nat.eqb_spec n k); [lia|]. cbn. lia.
Qed.
Lemma upd2_other : forall m j k v j' k', j' <> j -> upd2 m j k v j' k' = m j' k'.
Proof. intros. unfold upd2. destruct (Nat.eqb_spec j' j); [contradiction|reflexivity]. Qed.

Record dinv (n xid kb : nat) (x : dst) : Prop := {
  di_lt : forall j, In j (fre (d_ids x)) -> (j < nxt (d_ids x))%nat;
  di_nd : NoDup (fre (d_ids x));
  di_x : (xid < nxt (d_ids x))%nat;
  di_rel : In xid (fre (d_ids x)) -> d_rel x = true;
  di_done : d_rel x = true -> d_pos x = n;
  di_pos : (d_pos x <= n)%nat;
  di_clean : forall j, (In j (fre (d_ids x)) \/ nxt (d_ids x) <= j)%nat -> forall k, dm x j k = 0%Z;
  di_lines : forall j k, (n <= k)%nat -> dm x j k = 0%Z;
  di_swept : d_rel x = false -> forall k, (k < d_pos x)%nat -> dm x xid k = 0%Z;
  di_y : forall y, d_y x = Some y -> ~ In y (fre (d_ids x)) /\ (y < nxt (d_ids x))%nat /\
                                     (y = xid -> d_rel x = true) /\ csum (dm x y) n = d_added x;
  di_none : d_y x = None -> d_added x = 0%Z
}.

Lemma dstep_inv : forall n xid kb x t x', (kb < n)%nat -> dinv n xid kb x -> dstep n xid kb x t = Some x' -> dinv n xid kb x'.
Proof.
  intros n xid kb x t x' Hkb I. unfold dstep. rewrite g_dtor_order.
  destruct t as [|[|t]]; [| |discriminate].
  - (* the destructor *)
    destruct (Nat.ltb_spec (d_pos x) n) as [Hp|Hp].
    + unfold d_sweep. destruct (Nat.ltb_spec (d_pos x) n); [|lia]. intros Hst; injection Hst as <-.
      assert (Hr : d_rel x = false) by (destruct (d_rel x) eqn:E; [pose proof (di_done _ _ _ _ I E); lia|reflexivity]).
      assert (Hxf : ~ In xid (fre (d_ids x))) by (intros F; pose proof (di_rel _ _ _ _ I F); congruence).
      unfold adder_reset_value.
      constructor; cbn.
      * exact (di_lt _ _ _ _ I).
      * exact (di_nd _ _ _ _ I).
      * exact (di_x _ _ _ _ I).
      * exact (di_rel _ _ _ _ I).
      * intros E; congruence.
      * lia.
      * intros j Hj k. rewrite upd2_other; [apply (di_clean _ _ _ _ I); exact Hj|].
        intros ->. destruct Hj as [F|F]; [contradiction|pose proof (di_x _ _ _ _ I); lia].
      * intros j k Hk. unfold upd2. destruct (Nat.eqb_spec j xid); destruct (Nat.eqb_spec k (d_pos x)); cbn; try reflexivity;
          apply (di_lines _ _ _ _ I); exact Hk.
      * intros _ k Hk. unfold upd2. rewrite Nat.eqb_refl. destruct (Nat.eqb_spec k (d_pos x)); cbn; [reflexivity|].
        apply (di_swept _ _ _ _ I Hr). lia.
      * intros y Ey. destruct (di_y _ _ _ _ I y Ey) as (A & B & C & D). repeat split; auto.
        assert (y <> xid) by (intros E; apply C in E; congruence).
        rewrite <- D. apply csum_ext. intros k _. apply upd2_other. assumption.
      * exact (di_none _ _ _ _ I).
    + unfold d_release. destruct (d_rel x) eqn:Hr; [discriminate|]. intros Hst; injection Hst as <-.
      assert (Hpos : d_pos x = n) by (pose proof (di_pos _ _ _ _ I); lia).
      assert (Hxf : ~ In xid (fre (d_ids x))) by (intros F; pose proof (di_rel _ _ _ _ I F); congruence).
      constructor; cbn.
      * intros j [<-|Hj]; [exact (di_x _ _ _ _ I)|apply (di_lt _ _ _ _ I), Hj].
      * constructor; [exact Hxf|exact (di_nd _ _ _ _ I)].
      * exact (di_x _ _ _ _ I).
      * reflexivity.
      * intros _. exact Hpos.
      * exact (di_pos _ _ _ _ I).
      * intros j [[<-|Hj]|Hj] k; [|apply (di_clean _ _ _ _ I); left; exact Hj|apply (di_clean _ _ _ _ I); right; exact Hj].
        destruct (Nat.lt_ge_cases k n) as [L|L]; [apply (di_swept _ _ _ _ I Hr); lia|apply (di_lines _ _ _ _ I); exact L].
      * exact (di_lines _ _ _ _ I).
      * discriminate.
      * intros y Ey. destruct (di_y _ _ _ _ I y Ey) as (A & B & C & D). repeat split; auto.
        intros [F|F]; [|contradiction]. subst y. pose proof (C eq_refl). congruence.
      * exact (di_none _ _ _ _ I).
  - (* the other thread *)
    destruct (d_y x) as [y|] eqn:Ey.
    + destruct (d_todo x) as [|v r]; [discriminate|]. intros Hst; injection Hst as <-.
      destruct (di_y _ _ _ _ I y Ey) as (A & B & C & D).
      unfold adder_step.
      constructor; cbn.
      * exact (di_lt _ _ _ _ I).
      * exact (di_nd _ _ _ _ I).
      * exact (di_x _ _ _ _ I).
      * exact (di_rel _ _ _ _ I).
      * exact (di_done _ _ _ _ I).
      * exact (di_pos _ _ _ _ I).
      * intros j Hj k. rewrite upd2_other; [apply (di_clean _ _ _ _ I); exact Hj|].
        intros ->. destruct Hj as [F|F]; [contradiction|lia].
      * intros j k Hk. unfold upd2. destruct (Nat.eqb_spec j y); destruct (Nat.eqb_spec k kb); cbn; try (apply (di_lines _ _ _ _ I); exact Hk). lia.
      * intros Hr k Hk. rewrite upd2_other; [apply (di_swept _ _ _ _ I Hr); exact Hk|]. intros E. symmetry in E. apply C in E. congruence.
      * intros y' E; inversion E; subst y'. repeat split; auto. rewrite csum_upd2 by exact Hkb. lia.
      * discriminate.
    + destruct (id_alloc (d_ids x)) as [y a] eqn:Ea. intros Hst; injection Hst as <-.
      assert (HK1 : (1 <= cK cfg_adder)%nat /\ (1 <= cB cfg_adder)%nat) by apply cfgs_ok.
      destruct (alloc_spec cfg_adder (proj1 HK1) (proj2 HK1) _ _ _ (di_lt _ _ _ _ I) (di_nd _ _ _ _ I) Ea) as (A1 & A2 & A3 & A4 & A5 & A6 & A7).
      constructor; cbn.
      * intros j Hj. apply A5, (di_lt _ _ _ _ I) in Hj. lia.
      * exact A4.
      * pose proof (di_x _ _ _ _ I). lia.
      * intros F. apply (di_rel _ _ _ _ I), A5, F.
      * exact (di_done _ _ _ _ I).
      * exact (di_pos _ _ _ _ I).
      * intros j Hj. apply (di_clean _ _ _ _ I). destruct Hj as [Hj|Hj]; [left; apply A5, Hj|right; lia].
      * exact (di_lines _ _ _ _ I).
      * exact (di_swept _ _ _ _ I).
      * intros y' E; inversion E; subst y'. repeat split; auto.
        -- intros ->. apply (di_rel _ _ _ _ I). destruct A7 as [[F _]|[F _]]; [exact F|pose proof (di_x _ _ _ _ I); lia].
        -- assert (Hfresh : (In y (fre (d_ids x)) \/ nxt (d_ids x) <= y)%nat) by (destruct A7 as [[F _]|[F _]]; [left; exact F|right; lia]).
           rewrite (di_none _ _ _ _ I Ey). apply csum_zero. intros k _. apply (di_clean _ _ _ _ I _ Hfresh).
      * discriminate.
Qed.

Definition dstart_ok (n xid : nat) (m0 : nat -> nat -> Z) (a : ids) : Prop :=
  (forall j, In j (fre a) -> (j < nxt a)%nat) /\ NoDup (fre a) /\ (xid < nxt a)%nat /\ ~ In xid (fre a) /\
  (forall j, (In j (fre a) \/ nxt a <= j)%nat -> forall k, m0 j k = 0%Z) /\ (forall j k, (n <= k)%nat -> m0 j k = 0%Z).

Lemma dinv_init : forall n xid kb m0 a vs, dstart_ok n xid m0 a -> dinv n xid kb (dinit m0 a vs).
Proof.
  intros n xid kb m0 a vs (A & B & C & D & E & F). constructor; cbn; auto; try lia; try discriminate;
    try (intros G; contradiction); try (intros _ k Hk; lia).
Qed.

(* every interleaving of the destructor of instance xid (n-line zeroing sweep, then release of the id) with another
   thread that constructs a new instance and counts into it: at every moment the new instance holds exactly what its
   owner counted - whether or not it recycled xid - for every dirty content of xid's column, every free list *)
Theorem ct_recycle_exact : forall n xid kb m0 a vs x, (kb < n)%nat -> dstart_ok n xid m0 a ->
  reachable dst (dstep n xid kb) (dinit m0 a vs) x ->
  forall y, d_y x = Some y -> csum (dm x y) n = d_added x.
Proof.
  intros n xid kb m0 a vs x Hkb Hok Hr y Ey.
  assert (I : dinv n xid kb x).
  { eapply (inv_reachable dst (dstep n xid kb) (dinv n xid kb)); [apply dinv_init; exact Hok| |exact Hr].
    intros s t s' Is E. eapply dstep_inv; eauto. }
  apply (di_y _ _ _ _ I y Ey).
Qed.
