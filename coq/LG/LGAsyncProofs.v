From Coq Require Import ZArith List Bool Lia Permutation.
Require Import Verif.Gen.Gen_log_entry Verif.LG.LGAsyncModel.
Import ListNotations.
Local Open Scope Z_scope.

(* ---- sanity check of the statements on corner cases (empty iov, empty batches, items behind the marker) ---- *)
Local Definition ex_e1 := {| eid := 1; efile := 0%nat; eiov := [(10, 4); (11, 2)] |}.
Local Definition ex_e2 := {| eid := 2; efile := 1%nat; eiov := [] |}.
Local Definition ex_e3 := {| eid := 3; efile := 0%nat; eiov := [(12, 1)] |}.
Local Definition ex_e4 := {| eid := 4; efile := 1%nat; eiov := [(13, 7)] |}.
Local Definition allok : nat -> bool := fun _ => true.
Local Definition ex_b :=
  [([], allok); ([Entry ex_e1; Entry ex_e2], allok); ([], allok);
   ([Entry ex_e3; Entry ex_e4; Stop; Entry ex_e1], allok); ([Entry ex_e2], allok)].
Example lga_sanity :
  (file_stream (writer w0 ex_b) 0, file_stream (writer w0 ex_b) 1, returned (writer w0 ex_b), stopped (writer w0 ex_b))
  = ([(10, 4); (11, 2); (12, 1)], [(13, 7)], [10; 11; 12; 13], true).
Proof. vm_compute. reflexivity. Qed.
(* file 0 has no descriptor in the round that carries e1: its text is lost, its pages still come back *)
Local Definition ex_c :=
  [([Entry ex_e1; Entry ex_e4], fun f => negb (Nat.eqb f 0)); ([Entry ex_e3; Stop], allok)].
Example lga_sanity_badfd :
  (file_stream (writer w0 ex_c) 0, file_stream (writer w0 ex_c) 1, returned (writer w0 ex_c), stopped (writer w0 ex_c))
  = ([(12, 1)], [(13, 7)], [10; 11; 13; 12], true).
Proof. vm_compute. reflexivity. Qed.

(* ---- auxiliary views ---- *)
Definition dests := list (nat * list (page * Z)).
Definition dstream (f : nat) (d : dests) : list (page * Z) :=
  flat_map (fun x => if Nat.eqb (fst x) f then snd x else []) d.
Definition dpages (d : dests) : list page := flat_map (fun x => map fst (snd x)) d.
Definition contrib (f : nat) (q : list entry) : list (page * Z) :=
  flat_map (fun e => if Nat.eqb (efile e) f then eiov e else []) q.
Definition qpages (q : list entry) : list page := flat_map (fun e => map fst (eiov e)) q.
Definition live (d : nat * list (page * Z)) : bool := negb (match snd d with [] => true | _ => false end).
Definition cleared (d : dests) : dests := map (fun x => (fst x, [])) d.

Fixpoint upto_stop (b : list item) : list entry :=
  match b with [] => [] | Stop :: _ => [] | Entry e :: r => e :: upto_stop r end.
Fixpoint has_stop (b : list item) : bool :=
  match b with [] => false | Stop :: _ => true | Entry _ :: r => has_stop r end.
Definition spend (d : dests) (q : list entry) : dests :=
  fold_left (fun d e => add_dest d (efile e) (eiov e)) q d.

Lemma upto_stop_app : forall b x,
  upto_stop (b ++ x) = if has_stop b then upto_stop b else upto_stop b ++ upto_stop x.
Proof.
  induction b as [|i b IH]; intro x; [reflexivity|].
  destruct i as [e|]; [|reflexivity].
  cbn [app upto_stop has_stop]. rewrite IH. destruct (has_stop b); reflexivity.
Qed.

Lemma has_stop_app : forall b x, has_stop (b ++ x) = has_stop b || has_stop x.
Proof.
  induction b as [|i b IH]; intro x; [reflexivity|].
  destruct i as [e|]; [|reflexivity]. cbn [app has_stop]. apply IH.
Qed.

Lemma upto_stop_spec : forall q rest, upto_stop (map Entry q ++ Stop :: rest) = q.
Proof. induction q as [|e q IH]; intro rest; [reflexivity|]. cbn [map app upto_stop]. now rewrite IH. Qed.

Lemma has_stop_spec : forall q rest, has_stop (map Entry q ++ Stop :: rest) = true.
Proof. induction q as [|e q IH]; intro rest; [reflexivity|]. cbn [map app has_stop]. apply IH. Qed.

(* ---- scan ---- *)
Lemma scan_eq : forall b s,
  scan s b = {| pending := spend (pending s) (upto_stop b); written := written s; returned := returned s;
                stopped := stopped s || has_stop b |}.
Proof.
  induction b as [|i b IH]; intro s.
  - destruct s as [p w r st]. cbn. now rewrite orb_false_r.
  - destruct i as [e|].
    + cbn [scan]. rewrite IH. reflexivity.
    + cbn. now rewrite orb_true_r.
Qed.

(* ---- add_dest ---- *)
Lemma dstream_notin : forall f d, ~ In f (map fst d) -> dstream f d = [].
Proof.
  induction d as [|[g w] d IH]; intro Hn; [reflexivity|].
  cbn [dstream flat_map fst snd]. cbn [map fst In] in Hn.
  destruct (Nat.eqb g f) eqn:E.
  - apply Nat.eqb_eq in E. exfalso. apply Hn. now left.
  - cbn [app]. apply IH. intro Hi. apply Hn. now right.
Qed.

Lemma add_dest_in : forall x f v d, In x (map fst (add_dest d f v)) <-> In x (map fst d) \/ x = f.
Proof.
  induction d as [|[g w] d IH].
  - cbn. intuition.
  - cbn [add_dest]. destruct (Nat.eqb f g) eqn:E.
    + apply Nat.eqb_eq in E. subst g. cbn [map fst In]. intuition.
    + cbn [map fst In]. rewrite IH. intuition.
Qed.

Lemma add_dest_nodup : forall f v d, NoDup (map fst d) -> NoDup (map fst (add_dest d f v)).
Proof.
  induction d as [|[g w] d IH]; intro Hd.
  - cbn. constructor; [intros []|constructor].
  - cbn [add_dest]. destruct (Nat.eqb f g) eqn:E.
    + exact Hd.
    + cbn [map fst] in Hd |- *. inversion Hd as [|a l Hn Hd']; subst.
      constructor; [|now apply IH].
      rewrite add_dest_in. intros [Hi|He]; [now apply Hn|].
      subst g. rewrite Nat.eqb_refl in E. discriminate.
Qed.

Lemma dstream_add : forall f' f v d, NoDup (map fst d) ->
  dstream f' (add_dest d f v) = dstream f' d ++ (if Nat.eqb f f' then v else []).
Proof.
  induction d as [|[g w] d IH]; intro Hd.
  - cbn. now rewrite app_nil_r.
  - cbn [map fst] in Hd. inversion Hd as [|a l Hn Hd']; subst.
    cbn [add_dest]. destruct (Nat.eqb f g) eqn:E.
    + apply Nat.eqb_eq in E. subst g.
      cbn [dstream flat_map fst snd]. destruct (Nat.eqb f f') eqn:E'.
      * apply Nat.eqb_eq in E'. subst f'.
        change (flat_map (fun x => if Nat.eqb (fst x) f then snd x else []) d) with (dstream f d).
        rewrite (dstream_notin f d Hn). now rewrite !app_nil_r.
      * now rewrite app_nil_r.
    + change (dstream f' ((g, w) :: add_dest d f v))
        with ((if Nat.eqb g f' then w else []) ++ dstream f' (add_dest d f v)).
      change (dstream f' ((g, w) :: d)) with ((if Nat.eqb g f' then w else []) ++ dstream f' d).
      rewrite (IH Hd'). now rewrite app_assoc.
Qed.

Lemma dpages_add : forall f v d, Permutation (dpages (add_dest d f v)) (dpages d ++ map fst v).
Proof.
  induction d as [|[g w] d IH].
  - cbn. now rewrite app_nil_r.
  - cbn [add_dest]. destruct (Nat.eqb f g).
    + change (dpages ((g, w ++ v) :: d)) with (map fst (w ++ v) ++ dpages d).
      change (dpages ((g, w) :: d)) with (map fst w ++ dpages d).
      rewrite map_app, <- !app_assoc. apply Permutation_app_head. apply Permutation_app_comm.
    + change (dpages ((g, w) :: add_dest d f v)) with (map fst w ++ dpages (add_dest d f v)).
      change (dpages ((g, w) :: d)) with (map fst w ++ dpages d).
      rewrite <- app_assoc. apply Permutation_app_head. exact IH.
Qed.

(* ---- spend: a whole batch prefix ---- *)
Lemma spend_nodup : forall q d, NoDup (map fst d) -> NoDup (map fst (spend d q)).
Proof.
  induction q as [|e q IH]; intros d Hd; [exact Hd|].
  cbn [spend fold_left]. apply IH. now apply add_dest_nodup.
Qed.

Lemma spend_dstream : forall f q d, NoDup (map fst d) -> dstream f (spend d q) = dstream f d ++ contrib f q.
Proof.
  induction q as [|e q IH]; intros d Hd.
  - cbn. now rewrite app_nil_r.
  - cbn [spend fold_left]. fold (spend (add_dest d (efile e) (eiov e)) q).
    rewrite IH by now apply add_dest_nodup.
    rewrite dstream_add by exact Hd. now rewrite <- app_assoc.
Qed.

Lemma spend_dpages : forall q d, Permutation (dpages (spend d q)) (dpages d ++ qpages q).
Proof.
  induction q as [|e q IH]; intro d.
  - cbn. now rewrite app_nil_r.
  - cbn [spend fold_left]. fold (spend (add_dest d (efile e) (eiov e)) q).
    rewrite IH. rewrite dpages_add. now rewrite <- app_assoc.
Qed.

(* ---- flush ---- *)
Lemma dstream_live : forall f d, dstream f (filter live d) = dstream f d.
Proof.
  induction d as [|[g w] d IH]; [reflexivity|].
  cbn [filter]. destruct w as [|x w].
  - cbn [live snd negb]. rewrite IH. cbn [dstream flat_map fst snd]. now destruct (Nat.eqb g f).
  - cbn [live snd negb]. cbn [dstream flat_map]. fold (dstream f (filter live d)). fold (dstream f d).
    now rewrite IH.
Qed.

Lemma dpages_live : forall d, dpages (filter live d) = dpages d.
Proof.
  induction d as [|[g w] d IH]; [reflexivity|].
  cbn [filter]. destruct w as [|x w].
  - cbn [live snd negb]. rewrite IH. reflexivity.
  - cbn [live snd negb]. cbn [dpages flat_map]. fold (dpages (filter live d)). fold (dpages d).
    now rewrite IH.
Qed.

Lemma dstream_cleared : forall f d, dstream f (cleared d) = [].
Proof.
  induction d as [|[g w] d IH]; [reflexivity|].
  cbn [cleared map dstream flat_map fst snd]. fold (cleared d). fold (dstream f (cleared d)).
  rewrite IH. now destruct (Nat.eqb g f).
Qed.

Lemma dpages_cleared : forall d, dpages (cleared d) = [].
Proof.
  induction d as [|[g w] d IH]; [reflexivity|].
  cbn [cleared map dpages flat_map fst snd]. fold (cleared d). fold (dpages (cleared d)).
  rewrite IH. reflexivity.
Qed.

Lemma cleared_fst : forall d, map fst (cleared d) = map fst d.
Proof. intro d. unfold cleared. rewrite map_map. apply map_ext. reflexivity. Qed.

(* ---- chunked writev: the chunks that the kernel accepts reassemble the iov ---- *)
(* the only two facts used about the generated constant; below IOV_MAX is never unfolded *)
Lemma iov_max_pos : 1 <= IOV_MAX.
Proof. vm_compute. intro H; discriminate H. Qed.

Lemma iov_max_kernel : (Z.to_nat IOV_MAX <= KERNEL_UIO_MAXIOV)%nat.
Proof. apply Nat.leb_le. vm_compute. reflexivity. Qed.

Lemma chunks_S_cons : forall fuel x v,
  chunks (S fuel) (x :: v) =
  let n := Z.to_nat (writev_chunk_size (Z.of_nat (length (x :: v)))) in
  match n with O => [] | _ => firstn n (x :: v) :: chunks fuel (skipn n (x :: v)) end.
Proof. reflexivity. Qed.

Lemma chunks_concat_fuel : forall fuel v, (length v <= fuel)%nat ->
  concat (filter writev_ok (chunks fuel v)) = v.
Proof.
  induction fuel as [|fuel IH]; intros v Hl.
  - destruct v as [|x v]; [reflexivity|]. cbn [length] in Hl. lia.
  - destruct v as [|x v]; [reflexivity|].
    rewrite chunks_S_cons. cbv zeta.
    assert (Hpos : (1 <= length (x :: v))%nat) by (cbn [length]; lia).
    set (u := x :: v) in *.
    unfold writev_chunk_size.
    set (n := Z.to_nat (Z.min IOV_MAX (Z.of_nat (length u) - 0))).
    assert (Hn : (1 <= n <= length u)%nat /\ (n <= KERNEL_UIO_MAXIOV)%nat).
    { subst n. pose proof iov_max_pos as Hp. pose proof iov_max_kernel as Hk. lia. }
    destruct n as [|m]; [lia|].
    cbn [filter].
    replace (writev_ok (firstn (S m) u)) with true.
    2:{ symmetry. unfold writev_ok. apply Nat.leb_le. rewrite firstn_length. lia. }
    cbn [concat]. rewrite IH by (rewrite skipn_length; lia).
    apply firstn_skipn.
Qed.

Lemma chunks_concat : forall v, concat (filter writev_ok (chunks (length v) v)) = v.
Proof. intro v. apply chunks_concat_fuel. apply le_n. Qed.

Definition chunked (ok : nat -> bool) (d : dests) : dests :=
  flat_map (fun x => if ok (fst x)
                     then map (fun c => (fst x, c)) (filter writev_ok (chunks (length (snd x)) (snd x)))
                     else []) d.

Lemma dstream_tagged : forall f g cs, dstream f (map (fun c => (g, c)) cs) = if Nat.eqb g f then concat cs else [].
Proof.
  induction cs as [|c cs IH]; [now destruct (Nat.eqb g f)|].
  cbn [map dstream flat_map fst snd concat]. fold (dstream f (map (fun c => (g, c)) cs)).
  rewrite IH. destruct (Nat.eqb g f); reflexivity.
Qed.

Lemma dstream_app : forall f a b, dstream f (a ++ b) = dstream f a ++ dstream f b.
Proof. intros f a b. unfold dstream. apply flat_map_app. Qed.

(* a destination without a descriptor contributes nothing to its file; the others their whole iov *)
Lemma dstream_chunked : forall ok f d, dstream f (chunked ok d) = if ok f then dstream f d else [].
Proof.
  intros ok f. induction d as [|[g w] d IH]; [now destruct (ok f)|].
  cbn [chunked flat_map fst snd]. fold (chunked ok d).
  rewrite dstream_app, IH.
  change (dstream f ((g, w) :: d)) with ((if Nat.eqb g f then w else []) ++ dstream f d).
  destruct (Nat.eqb g f) eqn:Hg.
  - apply Nat.eqb_eq in Hg. subst g. destruct (ok f).
    + rewrite dstream_tagged, Nat.eqb_refl, chunks_concat. reflexivity.
    + reflexivity.
  - destruct (ok g).
    + rewrite dstream_tagged, Hg. reflexivity.
    + reflexivity.
Qed.

(* the regenerated facts: the flush call is reached for every non-empty destination and returns the pages *)
Lemma faithful : faithful_flush = true.
Proof. vm_compute. reflexivity. Qed.

Lemma returned_any : forall ok d,
  flat_map (fun x : nat * list (page * Z) => if faithful_flush || ok (fst x) then map fst (snd x) else []) d = dpages d.
Proof. intros ok d. rewrite faithful. reflexivity. Qed.

(* ---- one iteration of the loop ---- *)
Lemma step_stopped : forall ok s b, stopped (flush ok (scan s b)) = stopped s || has_stop b.
Proof. intros ok s b. rewrite scan_eq. reflexivity. Qed.

Lemma step_pending : forall ok s b, pending (flush ok (scan s b)) = cleared (spend (pending s) (upto_stop b)).
Proof. intros ok s b. rewrite scan_eq. reflexivity. Qed.

Lemma step_stream : forall ok s b f, NoDup (map fst (pending s)) ->
  file_stream (flush ok (scan s b)) f =
  file_stream s f ++ (if ok f then dstream f (pending s) ++ contrib f (upto_stop b) else []).
Proof.
  intros ok s b f Hd. rewrite scan_eq. unfold file_stream, flush. cbn [written pending].
  rewrite flat_map_app. f_equal.
  change (dstream f (chunked ok (filter live (spend (pending s) (upto_stop b))))
          = if ok f then dstream f (pending s) ++ contrib f (upto_stop b) else []).
  rewrite dstream_chunked, dstream_live. destruct (ok f); [now apply spend_dstream|reflexivity].
Qed.

Lemma step_returned : forall ok s b,
  Permutation (returned (flush ok (scan s b))) (returned s ++ dpages (pending s) ++ qpages (upto_stop b)).
Proof.
  intros ok s b. rewrite scan_eq. unfold flush. cbn [returned pending].
  apply Permutation_app_head. rewrite returned_any.
  change (Permutation (dpages (filter live (spend (pending s) (upto_stop b))))
                      (dpages (pending s) ++ qpages (upto_stop b))).
  rewrite dpages_live. apply spend_dpages.
Qed.

(* what reaches file f: per round, the entries scanned in that round if f had a descriptor then; rounds
   after the one that carries the stop marker do not happen *)
Fixpoint delivered (f : nat) (rounds : list (list item * (nat -> bool))) : list (page * Z) :=
  match rounds with
  | [] => []
  | (b, ok) :: r => (if ok f then contrib f (upto_stop b) else []) ++ (if has_stop b then [] else delivered f r)
  end.

Lemma delivered_allok : forall f rounds, Forall (fun r => forall g, snd r g = true) rounds ->
  delivered f rounds = contrib f (upto_stop (concat (map fst rounds))).
Proof.
  intros f rounds H. induction H as [|[b ok] r Hok _ IH]; [reflexivity|].
  cbn [delivered map fst concat]. cbn [snd] in Hok. rewrite Hok, upto_stop_app.
  destruct (has_stop b); [now rewrite app_nil_r|].
  rewrite IH. unfold contrib. now rewrite flat_map_app.
Qed.

(* ---- the loop, from any state whose destinations are distinct and flushed ---- *)
Lemma writer_gen : forall rounds s,
  stopped s = false -> NoDup (map fst (pending s)) -> (forall f, dstream f (pending s) = []) -> dpages (pending s) = [] ->
  has_stop (concat (map fst rounds)) = true ->
  stopped (writer s rounds) = true /\
  (forall f, file_stream (writer s rounds) f = file_stream s f ++ delivered f rounds) /\
  Permutation (returned (writer s rounds))
              (returned s ++ qpages (upto_stop (concat (map fst rounds)))).
Proof.
  induction rounds as [|[b ok] bs IH]; intros s Hs Hd He Hp Hc.
  - discriminate Hc.
  - cbn [map fst concat] in Hc |- *. rewrite has_stop_app in Hc. rewrite upto_stop_app.
    cbn [writer delivered]. cbv zeta. rewrite step_stopped, Hs. cbn [orb].
    assert (Hst : forall f, file_stream (flush ok (scan s b)) f =
                            file_stream s f ++ (if ok f then contrib f (upto_stop b) else [])).
    { intro f. rewrite step_stream by exact Hd. rewrite He. reflexivity. }
    assert (Hrt : Permutation (returned (flush ok (scan s b))) (returned s ++ qpages (upto_stop b))).
    { rewrite step_returned, Hp. reflexivity. }
    destruct (has_stop b) eqn:Hb.
    + split; [|split].
      * rewrite step_stopped, Hs, Hb. reflexivity.
      * intro f. rewrite Hst, app_nil_r. reflexivity.
      * exact Hrt.
    + cbn [orb] in Hc.
      assert (Hs' : stopped (flush ok (scan s b)) = false) by (rewrite step_stopped, Hs, Hb; reflexivity).
      assert (Hd' : NoDup (map fst (pending (flush ok (scan s b))))).
      { rewrite step_pending, cleared_fst. now apply spend_nodup. }
      assert (He' : forall f, dstream f (pending (flush ok (scan s b))) = []).
      { intro f. rewrite step_pending. apply dstream_cleared. }
      assert (Hp' : dpages (pending (flush ok (scan s b))) = []).
      { rewrite step_pending. apply dpages_cleared. }
      destruct (IH _ Hs' Hd' He' Hp' Hc) as (H1 & H2 & H3).
      split; [exact H1|split].
      * intro f. rewrite H2, Hst. now rewrite <- app_assoc.
      * rewrite H3, Hrt. unfold qpages. rewrite flat_map_app. now rewrite <- !app_assoc.
Qed.

Lemma writer_w0 : forall q rest rounds, concat (map fst rounds) = map Entry q ++ Stop :: rest ->
  stopped (writer w0 rounds) = true /\
  (forall f, file_stream (writer w0 rounds) f = delivered f rounds) /\
  Permutation (returned (writer w0 rounds)) (qpages q).
Proof.
  intros q rest rounds Hc.
  destruct (writer_gen rounds w0 eq_refl (NoDup_nil _) (fun _ => eq_refl) eq_refl) as (H1 & H2 & H3).
  - rewrite Hc. apply has_stop_spec.
  - rewrite Hc, upto_stop_spec in H3. split; [exact H1|split].
    + intro f. rewrite H2. reflexivity.
    + exact H3.
Qed.

(* every file object has a descriptor in every round: each file receives exactly its entries, in queue order *)
Lemma lga_file_stream : forall q rest rounds f,
  concat (map fst rounds) = map Entry q ++ Stop :: rest ->
  Forall (fun r => forall g, snd r g = true) rounds ->
  file_stream (writer w0 rounds) f = flat_map (fun e => if Nat.eqb (efile e) f then eiov e else []) q.
Proof.
  intros q rest rounds f Hc Hok. rewrite (proj1 (proj2 (writer_w0 q rest rounds Hc)) f).
  rewrite delivered_allok by exact Hok. rewrite Hc, upto_stop_spec. reflexivity.
Qed.

(* any availability of the files: a file receives, round by round, exactly the entries scanned while it had a
   descriptor - whole entries, in queue order, nothing else *)
Lemma lga_file_stream_any : forall q rest rounds f,
  concat (map fst rounds) = map Entry q ++ Stop :: rest ->
  file_stream (writer w0 rounds) f = delivered f rounds.
Proof. intros q rest rounds f Hc. exact (proj1 (proj2 (writer_w0 q rest rounds Hc)) f). Qed.

(* ... and the pages of EVERY entry come back, whether or not its file could be written *)
Lemma lga_pages_returned : forall q rest rounds,
  concat (map fst rounds) = map Entry q ++ Stop :: rest ->
  Permutation (returned (writer w0 rounds)) (flat_map (fun e => map fst (eiov e)) q).
Proof. intros q rest rounds Hc. exact (proj2 (proj2 (writer_w0 q rest rounds Hc))). Qed.

Lemma lga_stops : forall q rest rounds,
  concat (map fst rounds) = map Entry q ++ Stop :: rest -> stopped (writer w0 rounds) = true.
Proof. intros q rest rounds Hc. exact (proj1 (writer_w0 q rest rounds Hc)). Qed.
