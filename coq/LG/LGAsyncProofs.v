From Coq Require Import ZArith List Bool Lia Permutation.
Require Import Verif.Gen.Gen_log_entry Verif.LG.LGAsyncModel.
Import ListNotations.
Local Open Scope Z_scope.

(* ---- sanity check of the statements on corner cases (empty iov, empty batches, items behind the marker) ---- *)
Local Definition ex_e1 := {| eid := 1; efile := 0%nat; eiov := [(10, 4); (11, 2)] |}.
Local Definition ex_e2 := {| eid := 2; efile := 1%nat; eiov := [] |}.
Local Definition ex_e3 := {| eid := 3; efile := 0%nat; eiov := [(12, 1)] |}.
Local Definition ex_e4 := {| eid := 4; efile := 1%nat; eiov := [(13, 7)] |}.
Local Definition ex_b :=
  [[]; [Entry ex_e1; Entry ex_e2]; []; [Entry ex_e3; Entry ex_e4; Stop; Entry ex_e1]; [Entry ex_e2]].
Example lga_sanity :
  (file_stream (writer w0 ex_b) 0, file_stream (writer w0 ex_b) 1, returned (writer w0 ex_b), stopped (writer w0 ex_b))
  = ([(10, 4); (11, 2); (12, 1)], [(13, 7)], [10; 11; 12; 13], true).
Proof. vm_compute. reflexivity. Qed.

(* ---- auxiliary views ---- *)
Definition dests := list (nat * list (page * Z)).
Definition dstream (f : nat) (d : dests) : list (page * Z) :=
  flat_map (fun x => if Nat.eqb (fst x) f then snd x else []) d.
Definition dpages (d : dests) : list page := flat_map (fun x => map fst (snd x)) d.
Definition contrib (f : nat) (q : list entry) : list (page * Z) :=
  flat_map (fun e => if Nat.eqb (efile e) f then eiov e else []) q.
Definition qpages (q : list entry) : list page := flat_map (fun e => map fst (eiov e)) q.
Definition live (d : nat * list (page * Z)) : bool := negb (match snd d with [] => true | _ => false end).
Definition cleared (d : dests) : dests := map (fun x => (fst x, [])) d.

Fixpoint upto_stop (b : list item) : list entry :=
  match b with [] => [] | Stop :: _ => [] | Entry e :: r => e :: upto_stop r end.
Fixpoint has_stop (b : list item) : bool :=
  match b with [] => false | Stop :: _ => true | Entry _ :: r => has_stop r end.
Definition spend (d : dests) (q : list entry) : dests :=
  fold_left (fun d e => add_dest d (efile e) (eiov e)) q d.

Lemma upto_stop_app : forall b x,
  upto_stop (b ++ x) = if has_stop b then upto_stop b else upto_stop b ++ upto_stop x.
Proof.
  induction b as [|i b IH]; intro x; [reflexivity|].
  destruct i as [e|]; [|reflexivity].
  cbn [app upto_stop has_stop]. rewrite IH. destruct (has_stop b); reflexivity.
Qed.

Lemma has_stop_app : forall b x, has_stop (b ++ x) = has_stop b || has_stop x.
Proof.
  induction b as [|i b IH]; intro x; [reflexivity|].
  destruct i as [e|]; [|reflexivity]. cbn [app has_stop]. apply IH.
Qed.

Lemma upto_stop_spec : forall q rest, upto_stop (map Entry q ++ Stop :: rest) = q.
Proof. induction q as [|e q IH]; intro rest; [reflexivity|]. cbn [map app upto_stop]. now rewrite IH. Qed.

Lemma has_stop_spec : forall q rest, has_stop (map Entry q ++ Stop :: rest) = true.
Proof. induction q as [|e q IH]; intro rest; [reflexivity|]. cbn [map app has_stop]. apply IH. Qed.

(* ---- scan ---- *)
Lemma scan_eq : forall b s,
  scan s b = {| pending := spend (pending s) (upto_stop b); written := written s; returned := returned s;
                stopped := stopped s || has_stop b |}.
Proof.
  induction b as [|i b IH]; intro s.
  - destruct s as [p w r st]. cbn. now rewrite orb_false_r.
  - destruct i as [e|].
    + cbn [scan]. rewrite IH. reflexivity.
    + cbn. now rewrite orb_true_r.
Qed.

(* ---- add_dest ---- *)
Lemma dstream_notin : forall f d, ~ In f (map fst d) -> dstream f d = [].
Proof.
  induction d as [|[g w] d IH]; intro Hn; [reflexivity|].
  cbn [dstream flat_map fst snd]. cbn [map fst In] in Hn.
  destruct (Nat.eqb g f) eqn:E.
  - apply Nat.eqb_eq in E. exfalso. apply Hn. now left.
  - cbn [app]. apply IH. intro Hi. apply Hn. now right.
Qed.

Lemma add_dest_in : forall x f v d, In x (map fst (add_dest d f v)) <-> In x (map fst d) \/ x = f.
Proof.
  induction d as [|[g w] d IH].
  - cbn. intuition.
  - cbn [add_dest]. destruct (Nat.eqb f g) eqn:E.
    + apply Nat.eqb_eq in E. subst g. cbn [map fst In]. intuition.
    + cbn [map fst In]. rewrite IH. intuition.
Qed.

Lemma add_dest_nodup : forall f v d, NoDup (map fst d) -> NoDup (map fst (add_dest d f v)).
Proof.
  induction d as [|[g w] d IH]; intro Hd.
  - cbn. constructor; [intros []|constructor].
  - cbn [add_dest]. destruct (Nat.eqb f g) eqn:E.
    + exact Hd.
    + cbn [map fst] in Hd |- *. inversion Hd as [|a l Hn Hd']; subst.
      constructor; [|now apply IH].
      rewrite add_dest_in. intros [Hi|He]; [now apply Hn|].
      subst g. rewrite Nat.eqb_refl in E. discriminate.
Qed.

Lemma dstream_add : forall f' f v d, NoDup (map fst d) ->
  dstream f' (add_dest d f v) = dstream f' d ++ (if Nat.eqb f f' then v else []).
Proof.
  induction d as [|[g w] d IH]; intro Hd.
  - cbn. now rewrite app_nil_r.
  - cbn [map fst] in Hd. inversion Hd as [|a l Hn Hd']; subst.
    cbn [add_dest]. destruct (Nat.eqb f g) eqn:E.
    + apply Nat.eqb_eq in E. subst g.
      cbn [dstream flat_map fst snd]. destruct (Nat.eqb f f') eqn:E'.
      * apply Nat.eqb_eq in E'. subst f'.
        change (flat_map (fun x => if Nat.eqb (fst x) f then snd x else []) d) with (dstream f d).
        rewrite (dstream_notin f d Hn). now rewrite !app_nil_r.
      * now rewrite app_nil_r.
    + change (dstream f' ((g, w) :: add_dest d f v))
        with ((if Nat.eqb g f' then w else []) ++ dstream f' (add_dest d f v)).
      change (dstream f' ((g, w) :: d)) with ((if Nat.eqb g f' then w else []) ++ dstream f' d).
      rewrite (IH Hd'). now rewrite app_assoc.
Qed.

Lemma dpages_add : forall f v d, Permutation (dpages (add_dest d f v)) (dpages d ++ map fst v).
Proof.
  induction d as [|[g w] d IH].
  - cbn. now rewrite app_nil_r.
  - cbn [add_dest]. destruct (Nat.eqb f g).
    + change (dpages ((g, w ++ v) :: d)) with (map fst (w ++ v) ++ dpages d).
      change (dpages ((g, w) :: d)) with (map fst w ++ dpages d).
      rewrite map_app, <- !app_assoc. apply Permutation_app_head. apply Permutation_app_comm.
    + change (dpages ((g, w) :: add_dest d f v)) with (map fst w ++ dpages (add_dest d f v)).
      change (dpages ((g, w) :: d)) with (map fst w ++ dpages d).
      rewrite <- app_assoc. apply Permutation_app_head. exact IH.
Qed.

(* ---- spend: a whole batch prefix ---- *)
Lemma spend_nodup : forall q d, NoDup (map fst d) -> NoDup (map fst (spend d q)).
Proof.
  induction q as [|e q IH]; intros d Hd; [exact Hd|].
  cbn [spend fold_left]. apply IH. now apply add_dest_nodup.
Qed.

Lemma spend_dstream : forall f q d, NoDup (map fst d) -> dstream f (spend d q) = dstream f d ++ contrib f q.
Proof.
  induction q as [|e q IH]; intros d Hd.
  - cbn. now rewrite app_nil_r.
  - cbn [spend fold_left]. fold (spend (add_dest d (efile e) (eiov e)) q).
    rewrite IH by now apply add_dest_nodup.
    rewrite dstream_add by exact Hd. now rewrite <- app_assoc.
Qed.

Lemma spend_dpages : forall q d, Permutation (dpages (spend d q)) (dpages d ++ qpages q).
Proof.
  induction q as [|e q IH]; intro d.
  - cbn. now rewrite app_nil_r.
  - cbn [spend fold_left]. fold (spend (add_dest d (efile e) (eiov e)) q).
    rewrite IH. rewrite dpages_add. now rewrite <- app_assoc.
Qed.

(* ---- flush ---- *)
Lemma dstream_live : forall f d, dstream f (filter live d) = dstream f d.
Proof.
  induction d as [|[g w] d IH]; [reflexivity|].
  cbn [filter]. destruct w as [|x w].
  - cbn [live snd negb]. rewrite IH. cbn [dstream flat_map fst snd]. now destruct (Nat.eqb g f).
  - cbn [live snd negb]. cbn [dstream flat_map]. fold (dstream f (filter live d)). fold (dstream f d).
    now rewrite IH.
Qed.

Lemma dpages_live : forall d, dpages (filter live d) = dpages d.
Proof.
  induction d as [|[g w] d IH]; [reflexivity|].
  cbn [filter]. destruct w as [|x w].
  - cbn [live snd negb]. rewrite IH. reflexivity.
  - cbn [live snd negb]. cbn [dpages flat_map]. fold (dpages (filter live d)). fold (dpages d).
    now rewrite IH.
Qed.

Lemma dstream_cleared : forall f d, dstream f (cleared d) = [].
Proof.
  induction d as [|[g w] d IH]; [reflexivity|].
  cbn [cleared map dstream flat_map fst snd]. fold (cleared d). fold (dstream f (cleared d)).
  rewrite IH. now destruct (Nat.eqb g f).
Qed.

Lemma dpages_cleared : forall d, dpages (cleared d) = [].
Proof.
  induction d as [|[g w] d IH]; [reflexivity|].
  cbn [cleared map dpages flat_map fst snd]. fold (cleared d). fold (dpages (cleared d)).
  rewrite IH. reflexivity.
Qed.

Lemma cleared_fst : forall d, map fst (cleared d) = map fst d.
Proof. intro d. unfold cleared. rewrite map_map. apply map_ext. reflexivity. Qed.

(* ---- chunked writev: the chunks that the kernel accepts reassemble the iov ---- *)
(* the only two facts used about the generated constant; below IOV_MAX is never unfolded *)
Lemma iov_max_pos : 1 <= IOV_MAX.
Proof. vm_compute. intro H; discriminate H. Qed.

Lemma iov_max_kernel : (Z.to_nat IOV_MAX <= KERNEL_UIO_MAXIOV)%nat.
Proof. apply Nat.leb_le. vm_compute. reflexivity. Qed.

Lemma chunks_S_cons : forall fuel x v,
  chunks (S fuel) (x :: v) =
  let n := Z.to_nat (writev_chunk_size (Z.of_nat (length (x :: v)))) in
  match n with O => [] | _ => firstn n (x :: v) :: chunks fuel (skipn n (x :: v)) end.
Proof. reflexivity. Qed.

Lemma chunks_concat_fuel : forall fuel v, (length v <= fuel)%nat ->
  concat (filter writev_ok (chunks fuel v)) = v.
Proof.
  induction fuel as [|fuel IH]; intros v Hl.
  - destruct v as [|x v]; [reflexivity|]. cbn [length] in Hl. lia.
  - destruct v as [|x v]; [reflexivity|].
    rewrite chunks_S_cons. cbv zeta.
    assert (Hpos : (1 <= length (x :: v))%nat) by (cbn [length]; lia).
    set (u := x :: v) in *.
    unfold writev_chunk_size.
    set (n := Z.to_nat (Z.min IOV_MAX (Z.of_nat (length u) - 0))).
    assert (Hn : (1 <= n <= length u)%nat /\ (n <= KERNEL_UIO_MAXIOV)%nat).
    { subst n. pose proof iov_max_pos as Hp. pose proof iov_max_kernel as Hk. lia. }
    destruct n as [|m]; [lia|].
    cbn [filter].
    replace (writev_ok (firstn (S m) u)) with true.
    2:{ symmetry. unfold writev_ok. apply Nat.leb_le. rewrite firstn_length. lia. }
    cbn [concat]. rewrite IH by (rewrite skipn_length; lia).
    apply firstn_skipn.
Qed.

Lemma chunks_concat : forall v, concat (filter writev_ok (chunks (length v) v)) = v.
Proof. intro v. apply chunks_concat_fuel. apply le_n. Qed.

Definition chunked (d : dests) : dests :=
  flat_map (fun x => map (fun c => (fst x, c)) (filter writev_ok (chunks (length (snd x)) (snd x)))) d.

Lemma dstream_tagged : forall f g cs, dstream f (map (fun c => (g, c)) cs) = if Nat.eqb g f then concat cs else [].
Proof.
  induction cs as [|c cs IH]; [now destruct (Nat.eqb g f)|].
  cbn [map dstream flat_map fst snd concat]. fold (dstream f (map (fun c => (g, c)) cs)).
  rewrite IH. destruct (Nat.eqb g f); reflexivity.
Qed.

Lemma dstream_chunked : forall f d, dstream f (chunked d) = dstream f d.
Proof.
  induction d as [|[g w] d IH]; [reflexivity|].
  cbn [chunked flat_map fst snd]. fold (chunked d).
  unfold dstream at 1. rewrite flat_map_app. fold (dstream f (chunked d)).
  fold (dstream f (map (fun c => (g, c)) (filter writev_ok (chunks (length w) w)))).
  rewrite dstream_tagged, chunks_concat, IH. reflexivity.
Qed.

(* ---- one iteration of the loop ---- *)
Lemma step_stopped : forall s b, stopped (flush (scan s b)) = stopped s || has_stop b.
Proof. intros s b. rewrite scan_eq. reflexivity. Qed.

Lemma step_pending : forall s b, pending (flush (scan s b)) = cleared (spend (pending s) (upto_stop b)).
Proof. intros s b. rewrite scan_eq. reflexivity. Qed.

Lemma step_stream : forall s b f, NoDup (map fst (pending s)) ->
  file_stream (flush (scan s b)) f = file_stream s f ++ dstream f (pending s) ++ contrib f (upto_stop b).
Proof.
  intros s b f Hd. rewrite scan_eq. unfold file_stream, flush. cbn [written pending].
  rewrite flat_map_app. f_equal.
  change (dstream f (chunked (filter live (spend (pending s) (upto_stop b))))
          = dstream f (pending s) ++ contrib f (upto_stop b)).
  rewrite dstream_chunked, dstream_live. now apply spend_dstream.
Qed.

Lemma step_returned : forall s b,
  Permutation (returned (flush (scan s b))) (returned s ++ dpages (pending s) ++ qpages (upto_stop b)).
Proof.
  intros s b. rewrite scan_eq. unfold flush. cbn [returned pending].
  apply Permutation_app_head.
  change (Permutation (dpages (filter live (spend (pending s) (upto_stop b))))
                      (dpages (pending s) ++ qpages (upto_stop b))).
  rewrite dpages_live. apply spend_dpages.
Qed.

(* ---- the loop, from any state whose destinations are distinct ---- *)
Lemma writer_gen : forall batches s,
  stopped s = false -> NoDup (map fst (pending s)) -> has_stop (concat batches) = true ->
  stopped (writer s batches) = true /\
  (forall f, file_stream (writer s batches) f =
             file_stream s f ++ dstream f (pending s) ++ contrib f (upto_stop (concat batches))) /\
  Permutation (returned (writer s batches))
              (returned s ++ dpages (pending s) ++ qpages (upto_stop (concat batches))).
Proof.
  induction batches as [|b bs IH]; intros s Hs Hd Hc.
  - discriminate Hc.
  - cbn [concat] in Hc |- *. rewrite has_stop_app in Hc. rewrite upto_stop_app.
    cbn [writer]. cbv zeta. rewrite step_stopped, Hs. cbn [orb].
    destruct (has_stop b) eqn:Hb.
    + split; [|split].
      * rewrite step_stopped, Hs, Hb. reflexivity.
      * intro f. now apply step_stream.
      * apply step_returned.
    + cbn [orb] in Hc.
      assert (Hs' : stopped (flush (scan s b)) = false) by (rewrite step_stopped, Hs, Hb; reflexivity).
      assert (Hd' : NoDup (map fst (pending (flush (scan s b))))).
      { rewrite step_pending, cleared_fst. now apply spend_nodup. }
      destruct (IH _ Hs' Hd' Hc) as (H1 & H2 & H3).
      split; [exact H1|split].
      * intro f. rewrite H2. rewrite step_stream by exact Hd.
        rewrite step_pending, dstream_cleared. cbn [app].
        unfold contrib. rewrite flat_map_app. now rewrite <- !app_assoc.
      * rewrite H3. rewrite step_pending, dpages_cleared. cbn [app].
        rewrite step_returned. unfold qpages. rewrite flat_map_app. now rewrite <- !app_assoc.
Qed.

Lemma writer_w0 : forall q rest batches, concat batches = map Entry q ++ Stop :: rest ->
  stopped (writer w0 batches) = true /\
  (forall f, file_stream (writer w0 batches) f = contrib f q) /\
  Permutation (returned (writer w0 batches)) (qpages q).
Proof.
  intros q rest batches Hc.
  destruct (writer_gen batches w0 eq_refl (NoDup_nil _)) as (H1 & H2 & H3).
  - rewrite Hc. apply has_stop_spec.
  - rewrite Hc, upto_stop_spec in H2, H3. split; [exact H1|split].
    + intro f. rewrite H2. reflexivity.
    + exact H3.
Qed.

Lemma lga_file_stream : forall q rest batches f,
  concat batches = map Entry q ++ Stop :: rest ->
  file_stream (writer w0 batches) f = flat_map (fun e => if Nat.eqb (efile e) f then eiov e else []) q.
Proof. intros q rest batches f Hc. exact (proj1 (proj2 (writer_w0 q rest batches Hc)) f). Qed.

Lemma lga_pages_returned : forall q rest batches,
  concat batches = map Entry q ++ Stop :: rest ->
  Permutation (returned (writer w0 batches)) (flat_map (fun e => map fst (eiov e)) q).
Proof. intros q rest batches Hc. exact (proj2 (proj2 (writer_w0 q rest batches Hc))). Qed.

Lemma lga_stops : forall q rest batches,
  concat batches = map Entry q ++ Stop :: rest -> stopped (writer w0 batches) = true.
Proof. intros q rest batches Hc. exact (proj1 (writer_w0 q rest batches Hc)). Qed.
