(* Executable model of babylon::LogStreamBuffer / LogEntry (src/babylon/logging/log_entry.{h,cpp}).
   No proofs in this file.  Every size formula comes from Gen_log_entry (regenerated from the
   source on every run); the control structure (who allocates what, where the page pointer goes)
   is hand-written and tied to the code by the correspondence run (harness/seq/c20_*.cpp). *)
From Coq Require Import ZArith List Bool.
Require Import Verif.Gen.Gen_log_entry.
Import ListNotations.
Local Open Scope Z_scope.

Definition page := Z.        (* pages are named by allocation order: 0, 1, 2, ... *)
Definition byte := Z.

Record sbuf := {
  size  : Z;                       (* LogEntry::size after the final sync() *)
  room  : Z;                       (* epptr() - pptr() of the current put area *)
  inl   : list page;               (* LogEntry::pages[0 .. ) slots in use while no table exists,
                                      pages[0 .. K-2] once head is a table *)
  tabs  : list (page * list page); (* chain from LogEntry::head: (table page, its page slots) *)
  nextp : Z;                       (* number of pages handed out by the allocator so far *)
  data  : list (page * list byte); (* ghost: data pages in allocation order with the bytes put *)
  err   : bool                     (* a slot was written beyond its array (undefined behaviour) *)
}.

Definition init : sbuf :=
  {| size := 0; room := 0; inl := []; tabs := []; nextp := 0; data := []; err := false |}.

Section WithPageSize.
Variable p : Z.

Definition Kz : Z := INLINE_PAGE_CAPACITY.
Definition K : nat := Z.to_nat Kz.
(* capacity of a page table: pages_end - pages in overflow_page_table, i.e.
   (page_size - sizeof(PageTable)) / sizeof(char* ) slots *)
Definition Tz : Z := (p - 8) / 8.
Definition T : nat := Z.to_nat Tz.

Fixpoint app_last (ts : list (page * list page)) (a : page) : list (page * list page) :=
  match ts with
  | [] => []
  | [(t, es)] => [(t, es ++ [a])]
  | x :: r => x :: app_last r a
  end.

Definition last_len (ts : list (page * list page)) : nat :=
  match rev ts with [] => 0%nat | (_, es) :: _ => length es end.

(* `_pages == _pages_end` *)
Definition cur_full (s : sbuf) : bool :=
  match tabs s with
  | [] => Nat.eqb (length (inl s)) K
  | _ => Nat.eqb (last_len (tabs s)) T
  end.

(* LogStreamBuffer::overflow_page_table; the table page is the allocator's next page *)
Definition overflow_page_table (s : sbuf) : sbuf :=
  let t := nextp s in
  match tabs s with
  | [] => {| size := size s; room := room s; inl := removelast (inl s);
             tabs := [(t, [last (inl s) 0])]; nextp := nextp s + 1; data := data s; err := err s |}
  | _ => {| size := size s; room := room s; inl := inl s;
             tabs := tabs s ++ [(t, [])]; nextp := nextp s + 1; data := data s; err := err s |}
  end.

(* `*_pages++ = page` *)
Definition push_page (s : sbuf) (a : page) : sbuf :=
  match tabs s with
  | [] => {| size := size s; room := room s; inl := inl s ++ [a]; tabs := []; nextp := nextp s;
             data := data s; err := err s || Nat.leb K (length (inl s)) |}
  | ts => {| size := size s; room := room s; inl := inl s; tabs := app_last ts a; nextp := nextp s;
             data := data s; err := err s || Nat.leb T (last_len ts) |}
  end.

(* LogStreamBuffer::overflow without the trailing sputc *)
Definition overflow (s : sbuf) : sbuf :=
  let a := nextp s in
  let full := cur_full s in
  let s1 := {| size := size s; room := room s; inl := inl s; tabs := tabs s; nextp := nextp s + 1;
               data := data s; err := err s |} in
  let s2 := if full then overflow_page_table s1 else s1 in
  let s3 := push_page s2 a in
  {| size := size s3; room := p; inl := inl s3; tabs := tabs s3; nextp := nextp s3;
     data := data s3 ++ [(a, [])]; err := err s3 |}.

Fixpoint put_last (d : list (page * list byte)) (b : byte) : list (page * list byte) :=
  match d with
  | [] => []
  | [(a, bs)] => [(a, bs ++ [b])]
  | x :: r => x :: put_last r b
  end.

Definition put_byte (s : sbuf) (b : byte) : sbuf :=
  let s1 := if room s <=? 0 then overflow s else s in
  {| size := size s1 + 1; room := room s1 - 1; inl := inl s1; tabs := tabs s1; nextp := nextp s1;
     data := put_last (data s1) b; err := err s1 |}.

Definition run (bs : list byte) : sbuf := fold_left put_byte bs init.

(* ---- LogEntry::append_to_iovec ---- *)
Definition iovec := list (page * Z).

Fixpoint take_exact (n : nat) (l : list page) : option (list page) :=
  match n, l with
  | O, _ => Some []
  | S n', x :: r => match take_exact n' r with Some t => Some (x :: t) | None => None end
  | S _, [] => None
  end.

(* LogEntry::pages_append_to_iovec: None = reads a slot that was never written *)
Definition pages_iov (pages : list page) (sz : Z) : option iovec :=
  let num := Z.to_nat (full_page_num sz p) in
  match take_exact num pages with
  | None => None
  | Some full =>
    let rem := sz - Z.of_nat num * p in
    let fullv := map (fun a => (a, p)) full in
    if pages_tail_cond rem then
      match nth_error pages num with
      | Some x => Some (fullv ++ [(x, rem)])
      | None => None
      end
    else Some fullv
  end.

Definition oapp {A} (a b : option (list A)) : option (list A) :=
  match a, b with Some x, Some y => Some (x ++ y) | _, _ => None end.

(* LogEntry::page_table_append_to_iovec, structural on the chain *)
Fixpoint table_iov (ts : list (page * list page)) (sz : Z) : option iovec :=
  match ts with
  | [] => if table_loop_cond sz p || table_tail_cond sz then None else Some []
  | (t, es) :: rest =>
    if table_loop_cond sz p then
      oapp (oapp (pages_iov es (full_table_size p)) (Some [(t, 0)]))
           (table_iov rest (sz - full_table_size p))
    else if table_tail_cond sz then oapp (pages_iov es sz) (Some [(t, 0)])
    else Some []
  end.

Definition inl_array (s : sbuf) : list page :=
  match tabs s with [] => inl s | (t, _) :: _ => inl s ++ [t] end.

Definition append_to_iovec (s : sbuf) : option iovec :=
  if inline_overflow (size s) p then
    match tabs s with
    | [] => None
    | ts => oapp (pages_iov (inl_array s) (inline_part_size p)) (table_iov ts (table_part_size (size s) p))
    end
  else pages_iov (inl_array s) (size s).

(* bytes described by a scatter list, read from the ghost page contents *)
Fixpoint lookup (d : list (page * list byte)) (a : page) : list byte :=
  match d with
  | [] => []
  | (x, bs) :: r => if Z.eqb x a then bs else lookup r a
  end.

Definition iov_bytes (v : iovec) (d : list (page * list byte)) : list byte :=
  flat_map (fun e => firstn (Z.to_nat (snd e)) (lookup d (fst e))) v.

(* what the correspondence run prints *)
Definition observe (bs : list byte) : bool * Z * Z * option iovec * option (list byte) :=
  let s := run bs in
  (err s, size s, nextp s, append_to_iovec s,
   match append_to_iovec s with Some v => Some (iov_bytes v (data s)) | None => None end).

End WithPageSize.
