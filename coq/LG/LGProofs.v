(* Proofs about LGModel.  Statements are fixed by Properties_C20.v. *)
From Coq Require Import ZArith List Bool Lia Permutation.
Require Import Verif.Gen.Gen_log_entry Verif.LG.LGModel.
Import ListNotations.
Local Open Scope Z_scope.

Definition params_ok (p : Z) : Prop := 24 <= p /\ p mod 8 = 0.
Definition all_pages (s : sbuf) : list page := map Z.of_nat (seq 0 (Z.to_nat (nextp s))).
