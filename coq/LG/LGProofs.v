(* Proofs about LGModel.  Statements are fixed by Properties_C20.v. *)
From Coq Require Import ZArith List Bool Lia Permutation.
Require Import Verif.Gen.Gen_log_entry Verif.LG.LGModel.
Import ListNotations.
Local Open Scope Z_scope.

Definition params_ok (p : Z) : Prop := 24 <= p /\ p mod 8 = 0.
Definition all_pages (s : sbuf) : list page := map Z.of_nat (seq 0 (Z.to_nat (nextp s))).

From Coq Require Import FinFun ZifyBool.

(* ------------------------------------------------------------------ *)
(* The only fact used about the generated constants.                   *)
Lemma ipc_pos : 1 <= INLINE_PAGE_CAPACITY.
Proof. vm_compute. discriminate. Qed.
Local Opaque INLINE_PAGE_CAPACITY.

Lemma K_Z : Z.of_nat K = INLINE_PAGE_CAPACITY.
Proof. unfold K, Kz. pose proof ipc_pos. lia. Qed.
Lemma K_pos : (1 <= K)%nat.
Proof. pose proof K_Z. pose proof ipc_pos. lia. Qed.
Local Opaque K.

(* ------------------------------------------------------------------ *)
(* Generic list lemmas                                                 *)
Lemma snoc_case {A} (l : list A) (x : A) : exists y r, l ++ [x] = y :: r.
Proof. destruct l; cbn; eauto. Qed.

Lemma last_len_snoc ts0 t es : last_len (ts0 ++ [(t, es)]) = length es.
Proof. unfold last_len. rewrite rev_app_distr. reflexivity. Qed.

Lemma app_last_cons2 x y r a : app_last (x :: y :: r) a = x :: app_last (y :: r) a.
Proof. destruct x. reflexivity. Qed.

Lemma app_last_snoc ts0 t es a : app_last (ts0 ++ [(t, es)]) a = ts0 ++ [(t, es ++ [a])].
Proof.
  induction ts0 as [|x ts0 IH]; [reflexivity|].
  cbn [app]. destruct (snoc_case ts0 (t, es)) as (y & r & E).
  rewrite E, app_last_cons2, <- E, IH. reflexivity.
Qed.

Lemma put_last_cons2 x y r b : put_last (x :: y :: r) b = x :: put_last (y :: r) b.
Proof. destruct x. reflexivity. Qed.

Lemma put_last_snoc d0 a lb b : put_last (d0 ++ [(a, lb)]) b = d0 ++ [(a, lb ++ [b])].
Proof.
  induction d0 as [|x d0 IH]; [reflexivity|].
  cbn [app]. destruct (snoc_case d0 (a, lb)) as (y & r & E).
  rewrite E, put_last_cons2, <- E, IH. reflexivity.
Qed.

Lemma take_exact_app L R : take_exact (length L) (L ++ R) = Some L.
Proof. induction L as [|x L IH]; cbn [length app take_exact]; [reflexivity|]. rewrite IH. reflexivity. Qed.

Lemma nth_error_mid {A} (L : list A) x R : nth_error (L ++ x :: R) (length L) = Some x.
Proof. rewrite nth_error_app2 by lia. rewrite Nat.sub_diag. reflexivity. Qed.

Definition ap (n : Z) : list page := map Z.of_nat (seq 0 (Z.to_nat n)).

Lemma ap_succ n : 0 <= n -> ap (n + 1) = ap n ++ [n].
Proof.
  intros Hn. unfold ap. rewrite Z2Nat.inj_add by lia.
  change (Z.to_nat 1) with 1%nat. rewrite Nat.add_1_r, seq_S, map_app.
  cbn [map Nat.add]. rewrite Z2Nat.id by lia. reflexivity.
Qed.

Lemma ap_nodup n : NoDup (ap n).
Proof. unfold ap. apply Injective_map_NoDup; [exact Nat2Z.inj | apply seq_NoDup]. Qed.

Lemma nodup_app_r {A} (l1 l2 : list A) : NoDup (l1 ++ l2) -> NoDup l2.
Proof. induction l1 as [|a l1 IH]; cbn [app]; intros H; [exact H|]. inversion H; subst. auto. Qed.

Lemma lookup_in d : NoDup (map fst d) -> forall a b, In (a, b) d -> lookup d a = b.
Proof.
  induction d as [|[x xb] d IH]; intros Hnd a b Hin; [destruct Hin|].
  cbn [map fst] in Hnd. inversion Hnd as [|? ? Hni Hnd']; subst.
  cbn [lookup]. destruct Hin as [E|Hin].
  - inversion E; subst. rewrite Z.eqb_refl. reflexivity.
  - destruct (Z.eqb x a) eqn:Exa.
    + apply Z.eqb_eq in Exa. subst x. exfalso. apply Hni.
      change a with (fst (a, b)). apply in_map. exact Hin.
    + apply IH; assumption.
Qed.

Lemma lookup_all d : NoDup (map fst d) -> flat_map (lookup d) (map fst d) = concat (map snd d).
Proof.
  intros Hnd. rewrite flat_map_concat_map, map_map. f_equal.
  apply map_ext_in. intros [a b] Hin. cbn [fst snd]. apply lookup_in; assumption.
Qed.

(* ------------------------------------------------------------------ *)
Section WithP.
Variable p : Z.
Hypothesis Hp : params_ok p.

Local Notation pp := (fun a : page => (a, p)).

Lemma p_pos : 24 <= p.
Proof. destruct Hp. assumption. Qed.

Lemma tz_ge2 : 2 <= (p - 8) / 8.
Proof. pose proof p_pos. apply Z.div_le_lower_bound; lia. Qed.

Lemma T_Z : Z.of_nat (T p) = (p - 8) / 8.
Proof. unfold T, Tz. pose proof tz_ge2. lia. Qed.

Lemma T_ge2 : (2 <= T p)%nat.
Proof. pose proof T_Z. pose proof tz_ge2. lia. Qed.

(* ---- LogEntry::pages_append_to_iovec ---- *)
Lemma pages_iov_full L R :
  pages_iov p (L ++ R) (Z.of_nat (length L) * p) = Some (map pp L).
Proof.
  pose proof p_pos as Hp0.
  unfold pages_iov, full_page_num, pages_tail_cond.
  rewrite Z.div_mul by lia. rewrite Nat2Z.id, take_exact_app.
  rewrite Z.sub_diag. cbn. reflexivity.
Qed.

Lemma pages_iov_tail L x R r : 0 < r <= p ->
  pages_iov p (L ++ x :: R) (Z.of_nat (length L) * p + r) = Some (map pp L ++ [(x, r)]).
Proof.
  intros Hr. pose proof p_pos as Hp0.
  destruct (Z.eq_dec r p) as [E|NE].
  - subst r. replace (L ++ x :: R) with ((L ++ [x]) ++ R) by (rewrite <- app_assoc; reflexivity).
    replace (Z.of_nat (length L) * p + p) with (Z.of_nat (length (L ++ [x])) * p)
      by (rewrite app_length; cbn [length]; lia).
    rewrite pages_iov_full, map_app. reflexivity.
  - unfold pages_iov, full_page_num, pages_tail_cond.
    rewrite Z.div_add_l by lia. rewrite (Z.div_small r p) by lia.
    rewrite Z.add_0_r, Nat2Z.id, take_exact_app, nth_error_mid.
    replace (Z.of_nat (length L) * p + r - Z.of_nat (length L) * p) with r by lia.
    destruct (r >? 0) eqn:Egt; [reflexivity | lia].
Qed.

(* ---- LogEntry::page_table_append_to_iovec ---- *)
Definition mk (ts0 : list (page * list page)) : iovec :=
  flat_map (fun te => map pp (snd te) ++ [(fst te, 0)]) ts0.

Lemma table_iov_spec ts0 : Forall (fun te => length (snd te) = T p) ts0 ->
  forall t es0 x r, (length es0 + 1 <= T p)%nat -> 0 < r <= p ->
  table_iov p (ts0 ++ [(t, es0 ++ [x])])
    (Z.of_nat (length ts0) * ((p - 8) / 8 * p) + Z.of_nat (length es0) * p + r)
  = Some (mk ts0 ++ map pp es0 ++ [(x, r); (t, 0)]).
Proof.
  pose proof p_pos as Hp0. pose proof tz_ge2 as Htz. pose proof T_Z as HTZ.
  induction 1 as [|[t' es'] ts0 Hes' Hall IH]; intros t es0 x r Hlen Hr.
  - cbn [app length table_iov mk flat_map].
    unfold table_loop_cond, table_tail_cond, full_table_size.
    set (tz := (p - 8) / 8) in *.
    assert (Hm : Z.of_nat (length es0) * p <= (tz - 1) * p) by (apply Z.mul_le_mono_nonneg_r; lia).
    assert (Hm0 : 0 <= Z.of_nat (length es0) * p) by (apply Z.mul_nonneg_nonneg; lia).
    destruct (_ >? tz * p) eqn:E1; [lia|].
    destruct (_ >? 0) eqn:E2; [|lia].
    replace (Z.of_nat 0 * (tz * p) + Z.of_nat (length es0) * p + r)
      with (Z.of_nat (length es0) * p + r) by lia.
    rewrite pages_iov_tail by lia. cbn [oapp]. rewrite <- app_assoc. reflexivity.
  - cbn [app length table_iov mk flat_map fst snd].
    unfold table_loop_cond, full_table_size.
    set (tz := (p - 8) / 8) in *. cbn [snd] in Hes'.
    assert (Hq : 0 < tz * p) by (apply Z.mul_pos_pos; lia).
    assert (Hm1 : 0 <= Z.of_nat (length ts0) * (tz * p)) by (apply Z.mul_nonneg_nonneg; lia).
    assert (Hm0 : 0 <= Z.of_nat (length es0) * p) by (apply Z.mul_nonneg_nonneg; lia).
    destruct (_ >? tz * p) eqn:E1; [|lia].
    replace (tz * p) with (Z.of_nat (length es') * p) at 1 by (rewrite Hes'; lia).
    rewrite <- (app_nil_r es') at 1. rewrite pages_iov_full.
    replace (Z.of_nat (S (length ts0)) * (tz * p) + Z.of_nat (length es0) * p + r - tz * p)
      with (Z.of_nat (length ts0) * (tz * p) + Z.of_nat (length es0) * p + r) by lia.
    fold tz in IH. rewrite IH by assumption. cbn [oapp].
    fold (mk ts0). rewrite <- !app_assoc. reflexivity.
Qed.


(* ---- structure of the slot arrays after the data pages D were pushed ---- *)
Definition Struct (il : list page) (ts : list (page * list page)) (D : list page) : Prop :=
  (ts = [] /\ il = D /\ (length D <= K)%nat) \/
  (exists ts0 t es, ts = ts0 ++ [(t, es)] /\ Forall (fun te => length (snd te) = T p) ts0 /\
     (1 <= length es <= T p)%nat /\ length il = (K - 1)%nat /\
     il ++ concat (map snd ts0) ++ es = D /\ (K < length D)%nat).

Ltac fields := cbn [size room inl tabs nextp data err].

Lemma struct_step s D : Struct (inl s) (tabs s) D ->
  exists il' ts' k,
    overflow p s = {| size := size s; room := p; inl := il'; tabs := ts'; nextp := nextp s + 1 + k;
                      data := data s ++ [(nextp s, [])]; err := err s |} /\
    Struct il' ts' (D ++ [nextp s]) /\
    ((k = 0 /\ map fst ts' = map fst (tabs s)) \/
     (k = 1 /\ map fst ts' = map fst (tabs s) ++ [nextp s + 1])).
Proof.
  pose proof K_pos as HK. pose proof T_ge2 as HT.
  destruct s as [sz rm il ts np d e]. fields.
  intros [(Hts & Hil & Hlen) | (ts0 & t & es & Hts & Hall & Hes & Hil & HD & HKD)].
  - subst ts il. destruct (Nat.eq_dec (length D) K) as [EK|NK].
    + exists (removelast D), [(np + 1, [last D 0; np])], 1.
      assert (HDl : D = removelast D ++ [last D 0]).
      { apply app_removelast_last. intros ->. cbn in EK. lia. }
      pose proof (f_equal (@length _) HDl) as HL. rewrite app_length in HL. cbn [length] in HL.
      split; [|split].
      * unfold overflow, cur_full. fields.
        rewrite (proj2 (Nat.eqb_eq _ _) EK).
        unfold overflow_page_table. fields.
        unfold push_page. fields.
        unfold last_len. cbn [rev app length app_last].
        rewrite (proj2 (Nat.leb_gt _ _)) by lia. rewrite orb_false_r. reflexivity.
      * right. exists [], (np + 1), [last D 0; np]. cbn [app map concat length].
        split; [reflexivity|]. split; [constructor|]. split; [lia|]. split; [lia|]. split.
        -- change [last D 0; np] with ([last D 0] ++ [np]). rewrite app_assoc, <- HDl. reflexivity.
        -- rewrite app_length. cbn [length]. lia.
      * right. split; reflexivity.
    + exists (D ++ [np]), [], 0. split; [|split].
      * rewrite Z.add_0_r. unfold overflow, cur_full. fields.
        rewrite (proj2 (Nat.eqb_neq _ _) NK).
        unfold push_page. fields.
        rewrite (proj2 (Nat.leb_gt _ _)) by lia. rewrite orb_false_r. reflexivity.
      * left. split; [reflexivity|]. split; [reflexivity|]. rewrite app_length. cbn [length]. lia.
      * left. split; reflexivity.
  - subst ts. destruct (snoc_case ts0 (t, es)) as (y & r & E).
    destruct (Nat.eq_dec (length es) (T p)) as [ET|NT].
    + exists il, ((ts0 ++ [(t, es)]) ++ [(np + 1, [np])]), 1. split; [|split].
      * unfold overflow, cur_full. fields. rewrite E. cbn iota. rewrite <- E.
        rewrite last_len_snoc, (proj2 (Nat.eqb_eq _ _) ET).
        unfold overflow_page_table. fields. rewrite E. cbn iota. rewrite <- E. fields.
        unfold push_page. fields.
        set (l' := (ts0 ++ [(t, es)]) ++ _).
        destruct (snoc_case (ts0 ++ [(t, es)]) (np + 1, [])) as (y' & r' & E').
        change (l' = y' :: r') in E'.
        rewrite E'. cbn iota. rewrite <- E'. subst l'. rewrite last_len_snoc, app_last_snoc.
        cbn [length app]. rewrite (proj2 (Nat.leb_gt _ _)) by lia. rewrite orb_false_r. reflexivity.
      * right. exists (ts0 ++ [(t, es)]), (np + 1), [np].
        split; [reflexivity|]. split.
        { apply Forall_app. split; [assumption|]. constructor; [exact ET | constructor]. }
        cbn [length]. split; [lia|]. split; [assumption|]. split.
        -- rewrite map_app, concat_app. cbn [map concat snd]. rewrite app_nil_r.
           rewrite <- HD. rewrite <- !app_assoc. reflexivity.
        -- rewrite app_length. cbn [length]. lia.
      * right. split; [reflexivity|]. rewrite (map_app fst (ts0 ++ [(t, es)])). reflexivity.
    + exists il, (ts0 ++ [(t, es ++ [np])]), 0. split; [|split].
      * rewrite Z.add_0_r. unfold overflow, cur_full. fields. rewrite E. cbn iota. rewrite <- E.
        rewrite last_len_snoc, (proj2 (Nat.eqb_neq _ _) NT).
        unfold push_page. fields. rewrite E. cbn iota. rewrite <- E.
        rewrite last_len_snoc, app_last_snoc.
        rewrite (proj2 (Nat.leb_gt _ _)) by lia. rewrite orb_false_r. reflexivity.
      * right. exists ts0, t, (es ++ [np]).
        split; [reflexivity|]. split; [assumption|]. rewrite app_length. cbn [length].
        split; [lia|]. split; [assumption|]. split.
        -- rewrite <- HD. rewrite <- !app_assoc. reflexivity.
        -- rewrite app_length. cbn [length]. lia.
      * left. split; [reflexivity|]. rewrite !map_app. reflexivity.
Qed.

(* ---- the ghost data pages: all full except the last, which misses `room` bytes ---- *)
Definition DataShape (d : list (page * list byte)) (rm sz : Z) : Prop :=
  (d = [] /\ rm = 0 /\ sz = 0) \/
  (exists d0 x lb, d = d0 ++ [(x, lb)] /\ Forall (fun e => Z.of_nat (length (snd e)) = p) d0 /\
     0 <= rm <= p /\ Z.of_nat (length lb) = p - rm /\ sz = (Z.of_nat (length d0) + 1) * p - rm).

Definition Inv0 (bs : list byte) (s : sbuf) : Prop :=
  err s = false /\ size s = Z.of_nat (length bs) /\ 0 <= nextp s /\
  Permutation (map fst (tabs s) ++ map fst (data s)) (ap (nextp s)) /\
  concat (map snd (data s)) = bs /\
  Struct (inl s) (tabs s) (map fst (data s)) /\
  DataShape (data s) (room s) (size s).

Definition Inv (bs : list byte) (s : sbuf) : Prop := Inv0 bs s /\ room s < p.

Lemma perm_two (X D A : list page) a t : Permutation (X ++ D) A ->
  Permutation ((X ++ [t]) ++ D ++ [a]) ((A ++ [a]) ++ [t]).
Proof.
  intros H. rewrite <- app_assoc.
  apply Permutation_trans with (X ++ (D ++ [a]) ++ [t]).
  { apply Permutation_app_head. apply Permutation_app_comm. }
  rewrite !app_assoc. apply Permutation_app_tail. apply Permutation_app_tail. exact H.
Qed.

Lemma inv0_overflow bs s : Inv0 bs s -> room s <= 0 ->
  Inv0 bs (overflow p s) /\ room (overflow p s) = p.
Proof.
  pose proof p_pos as Hp0.
  intros (He & Hsz & Hnp & Hperm & Hcat & Hst & Hds) Hrm.
  destruct (struct_step s _ Hst) as (il' & ts' & k & Eov & Hst' & Hk).
  rewrite Eov. fields. split; [|reflexivity].
  unfold Inv0. fields.
  split; [exact He|]. split; [exact Hsz|].
  split; [destruct Hk as [[-> _]|[-> _]]; lia|].
  split.
  { rewrite map_app. cbn [map fst]. destruct Hk as [[-> Hm]|[-> Hm]]; rewrite Hm.
    - rewrite Z.add_0_r, ap_succ by lia. rewrite app_assoc. apply Permutation_app_tail. exact Hperm.
    - rewrite !ap_succ by lia. apply perm_two. exact Hperm. }
  split.
  { rewrite map_app, concat_app. cbn [map concat snd app]. rewrite app_nil_r. exact Hcat. }
  split.
  { rewrite map_app. exact Hst'. }
  right. destruct Hds as [(Hd & Hr & Hs0) | (d0 & x & lb & Hd & Hfull & Hr & Hlb & Hs0)].
  - exists [], (nextp s), []. rewrite Hd. cbn [app length].
    split; [reflexivity|]. split; [constructor|]. split; [lia|]. split; lia.
  - exists (d0 ++ [(x, lb)]), (nextp s), []. rewrite Hd.
    split; [reflexivity|]. split.
    { apply Forall_app. split; [assumption|]. constructor; [cbn [snd]; lia | constructor]. }
    split; [lia|]. rewrite app_length. cbn [length]. split; lia.
Qed.

Definition put1 (s : sbuf) (b : byte) : sbuf :=
  {| size := size s + 1; room := room s - 1; inl := inl s; tabs := tabs s; nextp := nextp s;
     data := put_last (data s) b; err := err s |}.

Lemma inv0_put bs s b : Inv0 bs s -> 0 < room s -> Inv (bs ++ [b]) (put1 s b).
Proof.
  intros (He & Hsz & Hnp & Hperm & Hcat & Hst & Hds) Hrm.
  destruct Hds as [(Hd & Hr & Hs0) | (d0 & x & lb & Hd & Hfull & Hr & Hlb & Hs0)]; [lia|].
  unfold Inv, Inv0, put1. fields.
  rewrite Hd in *. rewrite put_last_snoc.
  rewrite map_app in *. cbn [map fst snd] in *.
  split; [|lia].
  split; [exact He|]. split; [rewrite app_length; cbn [length]; lia|].
  split; [exact Hnp|]. split; [exact Hperm|].
  split.
  { rewrite map_app, concat_app in *. cbn [map concat snd] in *. rewrite app_nil_r in *.
    rewrite <- Hcat. rewrite <- app_assoc. reflexivity. }
  split; [exact Hst|].
  right. exists d0, x, (lb ++ [b]). split; [reflexivity|]. split; [assumption|].
  rewrite app_length. cbn [length]. split; [lia|]. split; lia.
Qed.

Lemma inv_init : Inv [] init.
Proof.
  pose proof p_pos as Hp0. unfold Inv, Inv0, init. fields. cbn [map app length concat].
  split; [|lia].
  split; [reflexivity|]. split; [reflexivity|]. split; [lia|]. split; [constructor|].
  split; [reflexivity|]. split.
  - left. cbn [length]. split; [reflexivity|]. split; [reflexivity|]. lia.
  - left. split; [reflexivity|]. split; reflexivity.
Qed.

Lemma inv_step bs s b : Inv bs s -> Inv (bs ++ [b]) (put_byte p s b).
Proof.
  pose proof p_pos as Hp0. intros (H0 & Hrm).
  change (put_byte p s b) with (put1 (if room s <=? 0 then overflow p s else s) b).
  destruct (room s <=? 0) eqn:E.
  - destruct (inv0_overflow bs s H0) as (H1 & Hr1); [lia|].
    apply inv0_put; [exact H1 | lia].
  - apply inv0_put; [exact H0 | lia].
Qed.

Lemma inv_run bs : Inv bs (run p bs).
Proof.
  induction bs as [|b bs IH] using rev_ind.
  - exact inv_init.
  - unfold run. rewrite fold_left_app. cbn [fold_left]. apply inv_step. exact IH.
Qed.


(* ---- LogEntry::append_to_iovec on a well-formed state ---- *)
Definition vform (A : list page) (ts0 : list (page * list page)) (es0 : list page)
                 (x : page) (r : Z) (tl : list page) : iovec :=
  map pp A ++ mk ts0 ++ map pp es0 ++ (x, r) :: map (fun t : page => (t, 0)) tl.

Lemma concat_len (ts0 : list (page * list page)) : Forall (fun te => length (snd te) = T p) ts0 ->
  length (concat (map snd ts0)) = (length ts0 * T p)%nat.
Proof.
  induction 1 as [|[t es] ts0 H _ IH]; [reflexivity|].
  cbn [map concat length snd] in *. rewrite app_length, IH, H. lia.
Qed.

Lemma iov_struct s D0 x r :
  Struct (inl s) (tabs s) (D0 ++ [x]) -> 0 < r <= p -> size s = Z.of_nat (length D0) * p + r ->
  exists A ts0 es0 tl, append_to_iovec p s = Some (vform A ts0 es0 x r tl) /\
     A ++ concat (map snd ts0) ++ es0 = D0 /\ map fst (tabs s) = map fst ts0 ++ tl.
Proof.
  pose proof p_pos as Hp0. pose proof K_Z as HKZ. pose proof K_pos as HK. pose proof T_Z as HTZ.
  intros [(Hts & Hil & Hlen) | (ts0 & t & es & Hts & Hall & Hes & Hil & HD & HKD)] Hr Hsz.
  - exists D0, [], [], []. split; [|split].
    + rewrite app_length in Hlen. cbn [length] in Hlen.
      assert (Hm : (Z.of_nat (length D0) + 1) * p <= INLINE_PAGE_CAPACITY * p)
        by (apply Z.mul_le_mono_nonneg_r; lia).
      unfold append_to_iovec, inline_overflow, full_inline_size, inl_array. rewrite Hts, Hil, Hsz.
      destruct (_ >? _) eqn:E; [exfalso; lia|].
      rewrite pages_iov_tail by lia. reflexivity.
    + cbn [map concat app]. apply app_nil_r.
    + rewrite Hts. reflexivity.
  - assert (Hne : es <> []) by (intros ->; cbn in Hes; lia).
    destruct (exists_last Hne) as (es0 & x' & Ees). subst es.
    rewrite !app_assoc in HD. apply app_inj_tail in HD. destruct HD as [HD ->].
    rewrite <- !app_assoc in HD.
    rewrite !app_length in HKD, Hes. cbn [length] in HKD, Hes.
    assert (HL : Z.of_nat (length D0) =
                 (INLINE_PAGE_CAPACITY - 1) + Z.of_nat (length ts0) * ((p - 8) / 8) + Z.of_nat (length es0)).
    { rewrite <- HD, !app_length, concat_len by assumption.
      rewrite !Nat2Z.inj_add, Nat2Z.inj_mul, Hil, HTZ. lia. }
    exists (inl s), ts0, es0, [t]. split; [|split].
    + assert (Hm : INLINE_PAGE_CAPACITY * p <= Z.of_nat (length D0) * p)
        by (apply Z.mul_le_mono_nonneg_r; lia).
      unfold append_to_iovec, inline_overflow, full_inline_size, inl_array. rewrite Hts, Hsz.
      destruct (_ >? _) eqn:E; [|exfalso; lia].
      destruct (snoc_case ts0 (t, es0 ++ [x])) as ([t0 e0] & r0 & Ey).
      rewrite Ey. cbn iota. rewrite <- Ey.
      unfold inline_part_size, table_part_size, full_inline_size.
      replace (INLINE_PAGE_CAPACITY * p - p) with (Z.of_nat (length (inl s)) * p)
        by (rewrite Hil; replace (Z.of_nat (K - 1)) with (INLINE_PAGE_CAPACITY - 1) by lia; ring).
      rewrite pages_iov_full.
      replace (Z.of_nat (length D0) * p + r - INLINE_PAGE_CAPACITY * p + p)
        with (Z.of_nat (length ts0) * ((p - 8) / 8 * p) + Z.of_nat (length es0) * p + r)
        by (rewrite HL; ring).
      rewrite table_iov_spec by (assumption || lia). reflexivity.
    + exact HD.
    + rewrite Hts, map_app. reflexivity.
Qed.

(* ---- what a scatter list of that form says ---- *)
Lemma iov_bytes_app v1 v2 d : iov_bytes (v1 ++ v2) d = iov_bytes v1 d ++ iov_bytes v2 d.
Proof. apply flat_map_app. Qed.

Lemma iov_bytes_full d L : Forall (fun a => Z.of_nat (length (lookup d a)) = p) L ->
  iov_bytes (map pp L) d = flat_map (lookup d) L.
Proof.
  induction 1 as [|a L Ha _ IH]; [reflexivity|].
  unfold iov_bytes in *. cbn [map flat_map fst snd]. rewrite IH.
  rewrite firstn_all2 by lia. reflexivity.
Qed.

Lemma iov_bytes_mk d ts0 :
  Forall (fun a => Z.of_nat (length (lookup d a)) = p) (concat (map snd ts0)) ->
  iov_bytes (mk ts0) d = flat_map (lookup d) (concat (map snd ts0)).
Proof.
  induction ts0 as [|[t es] ts0 IH]; intros H; [reflexivity|].
  cbn [map concat snd] in H. apply Forall_app in H. destruct H as [H1 H2].
  unfold mk. cbn [flat_map fst snd map concat]. fold (mk ts0).
  rewrite !iov_bytes_app, flat_map_app, iov_bytes_full, IH by assumption.
  change (iov_bytes [(t, 0)] d) with (@nil byte). rewrite app_nil_r. reflexivity.
Qed.

Lemma iov_bytes_zero d tl : iov_bytes (map (fun t : page => (t, 0)) tl) d = [].
Proof. induction tl as [|t tl IH]; [reflexivity|]. unfold iov_bytes in *. cbn [map flat_map fst snd]. rewrite IH. reflexivity. Qed.

Lemma vform_bytes d A ts0 es0 x r tl :
  Forall (fun a => Z.of_nat (length (lookup d a)) = p) (A ++ concat (map snd ts0) ++ es0) ->
  iov_bytes (vform A ts0 es0 x r tl) d =
  flat_map (lookup d) (A ++ concat (map snd ts0) ++ es0) ++ firstn (Z.to_nat r) (lookup d x).
Proof.
  intros H. apply Forall_app in H. destruct H as [HA H]. apply Forall_app in H. destruct H as [HC HE].
  unfold vform. rewrite !iov_bytes_app, !flat_map_app.
  rewrite !iov_bytes_full, iov_bytes_mk by assumption.
  change ((x, r) :: map (fun t : page => (t, 0)) tl) with ([(x, r)] ++ map (fun t : page => (t, 0)) tl).
  rewrite iov_bytes_app, iov_bytes_zero, app_nil_r.
  unfold iov_bytes at 1. cbn [flat_map fst snd]. rewrite app_nil_r, <- !app_assoc. reflexivity.
Qed.

Lemma map_fst_pp L : map fst (map pp L) = L.
Proof. rewrite map_map. cbn [fst]. apply map_id. Qed.

Lemma map_fst_zero (tl : list page) : map fst (map (fun t : page => (t, 0)) tl) = tl.
Proof. rewrite map_map. cbn [fst]. apply map_id. Qed.

Lemma mk_fst ts0 : Permutation (map fst (mk ts0)) (map fst ts0 ++ concat (map snd ts0)).
Proof.
  induction ts0 as [|[t es] ts0 IH]; [constructor|].
  unfold mk. cbn [flat_map fst snd map concat]. fold (mk ts0).
  rewrite !map_app, map_fst_pp. cbn [map fst app]. rewrite <- app_assoc. cbn [app].
  symmetry. apply Permutation_cons_app.
  apply Permutation_trans with (es ++ map fst ts0 ++ concat (map snd ts0)).
  - apply Permutation_app_swap_app.
  - apply Permutation_app_head. symmetry. exact IH.
Qed.

Lemma vform_fst A ts0 es0 x r tl :
  Permutation (map fst (vform A ts0 es0 x r tl))
              ((map fst ts0 ++ tl) ++ (A ++ concat (map snd ts0) ++ es0) ++ [x]).
Proof.
  unfold vform. rewrite !map_app. cbn [map fst]. rewrite !map_fst_pp, map_fst_zero.
  apply Permutation_trans with (A ++ (map fst ts0 ++ concat (map snd ts0)) ++ es0 ++ x :: tl).
  { apply Permutation_app_head. apply Permutation_app_tail. apply mk_fst. }
  rewrite <- !app_assoc.
  apply Permutation_trans with (map fst ts0 ++ A ++ concat (map snd ts0) ++ es0 ++ x :: tl).
  { apply Permutation_app_swap_app. }
  apply Permutation_app_head.
  replace (A ++ concat (map snd ts0) ++ es0 ++ x :: tl)
    with ((A ++ concat (map snd ts0) ++ es0 ++ [x]) ++ tl) by (rewrite <- !app_assoc; reflexivity).
  apply Permutation_app_comm.
Qed.

Definition len_ok (e : page * Z) : Prop := 0 <= snd e <= p.

Lemma lens_pp L : Forall len_ok (map pp L).
Proof.
  pose proof p_pos. apply Forall_forall. intros e Hin. apply in_map_iff in Hin.
  destruct Hin as (a & <- & _). unfold len_ok. cbn [snd]. lia.
Qed.

Lemma lens_mk ts0 : Forall len_ok (mk ts0).
Proof.
  pose proof p_pos. induction ts0 as [|[t es] ts0 IH]; [constructor|].
  unfold mk. cbn [flat_map fst snd]. fold (mk ts0).
  apply Forall_app. split; [|exact IH].
  apply Forall_app. split; [apply lens_pp|]. constructor; [|constructor].
  unfold len_ok. cbn [snd]. lia.
Qed.

Lemma vform_lens A ts0 es0 x r tl : 0 < r <= p -> Forall len_ok (vform A ts0 es0 x r tl).
Proof.
  intros Hr. pose proof p_pos. unfold vform.
  apply Forall_app. split; [apply lens_pp|].
  apply Forall_app. split; [apply lens_mk|].
  apply Forall_app. split; [apply lens_pp|].
  constructor; [unfold len_ok; cbn [snd]; lia|].
  apply Forall_forall. intros e Hin. apply in_map_iff in Hin.
  destruct Hin as (a & <- & _). unfold len_ok. cbn [snd]. lia.
Qed.

Lemma iov_main bs : exists v,
  append_to_iovec p (run p bs) = Some v /\
  iov_bytes v (data (run p bs)) = bs /\
  Permutation (map fst v) (all_pages (run p bs)) /\
  Forall len_ok v.
Proof.
  pose proof p_pos as Hp0. pose proof ipc_pos as HI.
  destruct (inv_run bs) as ((He & Hsz & Hnp & Hperm & Hcat & Hst & Hds) & Hrm).
  set (s := run p bs) in *.
  destruct Hds as [(Hd & Hr & Hs0) | (d0 & x & lb & Hd & Hfull & Hr & Hlb & Hs0)].
  - rewrite Hd in *. cbn [map app concat] in Hst, Hperm, Hcat.
    destruct Hst as [(Hts & Hil & _) | (ts0 & t & es & _ & _ & _ & _ & _ & HKD)];
      [|cbn [length] in HKD; lia].
    exists []. split; [|split; [|split]].
    + assert (Hm : 0 < INLINE_PAGE_CAPACITY * p) by (apply Z.mul_pos_pos; lia).
      unfold append_to_iovec, inline_overflow, full_inline_size, inl_array. rewrite Hts, Hil, Hs0.
      destruct (_ >? _) eqn:E; [exfalso; lia|].
      exact (pages_iov_full [] []).
    + exact Hcat.
    + rewrite Hts in Hperm. exact Hperm.
    + constructor.
  - set (d := data s) in *.
    assert (Hmf : map fst d = map fst d0 ++ [x]) by (rewrite Hd, map_app; reflexivity).
    rewrite Hmf in Hst.
    destruct (iov_struct s (map fst d0) x (p - room s) Hst) as (A & ts0 & es0 & tl & Hv & HA & Htl).
    { lia. }
    { rewrite map_length. lia. }
    assert (Hnd : NoDup (map fst d)).
    { apply (nodup_app_r (map fst (tabs s))).
      apply (Permutation_NoDup (Permutation_sym Hperm)). apply ap_nodup. }
    assert (Hlx : lookup d x = lb).
    { apply lookup_in; [exact Hnd|]. rewrite Hd. apply in_or_app. right. left. reflexivity. }
    exists (vform A ts0 es0 x (p - room s) tl). split; [exact Hv|]. split; [|split].
    + rewrite vform_bytes; rewrite HA.
      * rewrite Hlx. replace (Z.to_nat (p - room s)) with (length lb) by lia. rewrite firstn_all.
        rewrite <- Hcat, <- (lookup_all d Hnd), Hmf, flat_map_app.
        cbn [flat_map]. rewrite app_nil_r, Hlx. reflexivity.
      * apply Forall_forall. intros a Hin. apply in_map_iff in Hin.
        destruct Hin as ([a' b] & <- & Hin). cbn [fst].
        rewrite (lookup_in d Hnd a' b) by (rewrite Hd; apply in_or_app; left; exact Hin).
        rewrite Forall_forall in Hfull. exact (Hfull _ Hin).
    + eapply Permutation_trans; [apply vform_fst|].
      rewrite HA, <- Htl, <- Hmf. exact Hperm.
    + apply vform_lens. lia.
Qed.

End WithP.

(* ------------------------------------------------------------------ *)
(* The lemmas Properties_C20.v refers to                               *)
Lemma lg_bytes_exact : forall p bs, params_ok p ->
  exists v, append_to_iovec p (run p bs) = Some v /\ iov_bytes v (data (run p bs)) = bs.
Proof. intros p bs Hp. destruct (iov_main p Hp bs) as (v & H1 & H2 & _). exists v. split; assumption. Qed.

Lemma lg_pages_once : forall p bs, params_ok p ->
  exists v, append_to_iovec p (run p bs) = Some v /\ Permutation (map fst v) (all_pages (run p bs)).
Proof. intros p bs Hp. destruct (iov_main p Hp bs) as (v & H1 & _ & H3 & _). exists v. split; assumption. Qed.

Lemma lg_no_oob : forall p bs, params_ok p -> err (run p bs) = false.
Proof. intros p bs Hp. destruct (inv_run p Hp bs) as ((He & _) & _). exact He. Qed.

Lemma lg_size : forall p bs, params_ok p -> size (run p bs) = Z.of_nat (length bs).
Proof. intros p bs Hp. destruct (inv_run p Hp bs) as ((_ & Hsz & _) & _). exact Hsz. Qed.

Lemma lg_iov_lens : forall p bs v, params_ok p ->
  append_to_iovec p (run p bs) = Some v -> Forall (fun e => 0 <= snd e <= p) v.
Proof.
  intros p bs v Hp Hv. destruct (iov_main p Hp bs) as (v' & H1 & _ & _ & H4).
  rewrite H1 in Hv. injection Hv as <-. exact H4.
Qed.

Lemma lg_params_4096 : params_ok 4096.
Proof. split; [lia | reflexivity]. Qed.
