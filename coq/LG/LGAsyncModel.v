(* Executable model of AsyncFileAppender::keep_writing / write_use_plain_writev
   (src/babylon/logging/async_file_appender.cpp) over an abstract FIFO (the bounded queue is C01).
   An item is an entry bound for a file, or the stop marker pushed by close() (entry.size == 0).
   The writer pops batches; within a batch it appends each entry's scatter list to its destination and
   stops scanning at the marker; after each batch every destination is written and its pages returned. *)
From Coq Require Import ZArith List Bool.
Require Import Verif.Gen.Gen_log_entry.
Import ListNotations.
Local Open Scope Z_scope.

Definition page := Z.
Record entry := { eid : Z; efile : nat; eiov : list (page * Z) }.     (* scatter list as built by append_to_iovec *)
Inductive item := Entry (e : entry) | Stop.

Record wstate := {
  pending : list (nat * list (page * Z));   (* per destination (file id, iov) in order of first use *)
  written : list (nat * list (page * Z));   (* chunks handed to writev, in order, tagged with the file *)
  returned : list page;                     (* pages given back to the allocator, in order *)
  stopped : bool
}.
Definition w0 : wstate := {| pending := []; written := []; returned := []; stopped := false |}.

Fixpoint add_dest (d : list (nat * list (page * Z))) (f : nat) (v : list (page * Z)) :=
  match d with
  | [] => [(f, v)]
  | (g, w) :: r => if Nat.eqb f g then (g, w ++ v) :: r else (g, w) :: add_dest r f v
  end.

(* the callback of try_pop_n: scan the popped range, `break` at the marker *)
Fixpoint scan (s : wstate) (b : list item) : wstate :=
  match b with
  | [] => s
  | Stop :: _ => {| pending := pending s; written := written s; returned := returned s; stopped := true |}
  | Entry e :: r =>
    scan {| pending := add_dest (pending s) (efile e) (eiov e); written := written s; returned := returned s;
            stopped := stopped s |} r
  end.

(* the kernel rejects a writev of more than UIO_MAXIOV (1024 on Linux) elements with EINVAL and writes
   nothing; the appender ignores writev's result *)
Definition KERNEL_UIO_MAXIOV : nat := 1024.
Definition writev_ok (c : list (page * Z)) : bool := Nat.leb (length c) KERNEL_UIO_MAXIOV.

(* write_use_plain_writev: the iov of one destination goes out in chunks whose size is the regenerated
   expression `min(IOV_MAX, iov.end() - iter)`; fuel = length of the iov (each chunk is non-empty, else
   the C++ loop would not advance: then nothing more is written) *)
Fixpoint chunks (fuel : nat) (v : list (page * Z)) : list (list (page * Z)) :=
  match fuel with
  | O => []
  | S f =>
    match v with
    | [] => []
    | _ => let n := Z.to_nat (writev_chunk_size (Z.of_nat (length v))) in
           match n with
           | O => []
           | _ => firstn n v :: chunks f (skipn n v)
           end
    end
  end.

(* Is every destination with a non-empty iov handed to write_use_plain_writev whatever descriptor its file
   object reported, and does that call give the pages back unconditionally?  Regenerated from the source:
   the guard in front of the call (evaluated for an empty / non-empty iov), the number of statements in
   keep_writing that could bypass the call (continue / return / goto / shrinking a destination's iov there),
   and in write_use_plain_writev the number of branches and of `deallocate(pages.data(), pages.size())` calls. *)
Definition faithful_flush : bool :=
  flush_guard 0 && negb (flush_guard 1) && Z.eqb keep_writing_escapes 0 &&
  Z.eqb writev_branches 0 && Z.leb 1 writev_deallocates.

(* one pass over the destinations.  `ok f` = the file object of destination f reported a usable descriptor in
   this round; otherwise every writev on it fails (EBADF) and nothing reaches the file.  The pages are given
   back either way - unless the regenerated facts above say the call can be bypassed, in which case the model
   assumes the worst for a destination without a descriptor. *)
Definition flush (ok : nat -> bool) (s : wstate) : wstate :=
  let live := filter (fun d => negb (match snd d with [] => true | _ => false end)) (pending s) in
  {| pending := map (fun d => (fst d, [])) (pending s);
     written := written s ++ flat_map (fun d => if ok (fst d)
                                                then map (fun c => (fst d, c))
                                                         (filter writev_ok (chunks (length (snd d)) (snd d)))
                                                else []) live;
     returned := returned s ++ flat_map (fun d => if faithful_flush || ok (fst d) then map fst (snd d) else []) live;
     stopped := stopped s |}.

(* the do/while loop over the sequence of rounds: the batch the queue hands over (any batching, empty polls
   included) and which file objects have a descriptor in that round *)
Fixpoint writer (s : wstate) (rounds : list (list item * (nat -> bool))) : wstate :=
  match rounds with
  | [] => s
  | (b, ok) :: r => let s' := flush ok (scan s b) in if stopped s' then s' else writer s' r
  end.

Definition file_stream (s : wstate) (f : nat) : list (page * Z) :=
  flat_map (fun d => if Nat.eqb (fst d) f then snd d else []) (written s).

Definition entries_of (q : list item) : list entry :=
  flat_map (fun i => match i with Entry e => [e] | Stop => [] end) q.
