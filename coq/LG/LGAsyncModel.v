(* Executable model of AsyncFileAppender::keep_writing / write_use_plain_writev
   (src/babylon/logging/async_file_appender.cpp) over an abstract FIFO (the bounded queue is C01).
   An item is an entry bound for a file, or the stop marker pushed by close() (entry.size == 0).
   The writer pops batches; within a batch it appends each entry's scatter list to its destination and
   stops scanning at the marker; after each batch every destination is written and its pages returned. *)
From Coq Require Import ZArith List Bool.
Require Import Verif.Gen.Gen_log_entry.
Import ListNotations.
Local Open Scope Z_scope.

Definition page := Z.
Record entry := { eid : Z; efile : nat; eiov : list (page * Z) }.     (* scatter list as built by append_to_iovec *)
Inductive item := Entry (e : entry) | Stop.

Record wstate := {
  pending : list (nat * list (page * Z));   (* per destination (file id, iov) in order of first use *)
  written : list (nat * list (page * Z));   (* chunks handed to writev, in order, tagged with the file *)
  returned : list page;                     (* pages given back to the allocator, in order *)
  stopped : bool
}.
Definition w0 : wstate := {| pending := []; written := []; returned := []; stopped := false |}.

Fixpoint add_dest (d : list (nat * list (page * Z))) (f : nat) (v : list (page * Z)) :=
  match d with
  | [] => [(f, v)]
  | (g, w) :: r => if Nat.eqb f g then (g, w ++ v) :: r else (g, w) :: add_dest r f v
  end.

(* the callback of try_pop_n: scan the popped range, `break` at the marker *)
Fixpoint scan (s : wstate) (b : list item) : wstate :=
  match b with
  | [] => s
  | Stop :: _ => {| pending := pending s; written := written s; returned := returned s; stopped := true |}
  | Entry e :: r =>
    scan {| pending := add_dest (pending s) (efile e) (eiov e); written := written s; returned := returned s;
            stopped := stopped s |} r
  end.

(* the kernel rejects a writev of more than UIO_MAXIOV (1024 on Linux) elements with EINVAL and writes
   nothing; the appender ignores writev's result *)
Definition KERNEL_UIO_MAXIOV : nat := 1024.
Definition writev_ok (c : list (page * Z)) : bool := Nat.leb (length c) KERNEL_UIO_MAXIOV.

(* write_use_plain_writev: the iov of one destination goes out in chunks whose size is the regenerated
   expression `min(IOV_MAX, iov.end() - iter)`; fuel = length of the iov (each chunk is non-empty, else
   the C++ loop would not advance: then nothing more is written) *)
Fixpoint chunks (fuel : nat) (v : list (page * Z)) : list (list (page * Z)) :=
  match fuel with
  | O => []
  | S f =>
    match v with
    | [] => []
    | _ => let n := Z.to_nat (writev_chunk_size (Z.of_nat (length v))) in
           match n with
           | O => []
           | _ => firstn n v :: chunks f (skipn n v)
           end
    end
  end.

(* for every destination with a non-empty iov: chunked writev, return ALL its pages, clear *)
Definition flush (s : wstate) : wstate :=
  let live := filter (fun d => negb (match snd d with [] => true | _ => false end)) (pending s) in
  {| pending := map (fun d => (fst d, [])) (pending s);
     written := written s ++ flat_map (fun d => map (fun c => (fst d, c))
                                                  (filter writev_ok (chunks (length (snd d)) (snd d)))) live;
     returned := returned s ++ flat_map (fun d => map fst (snd d)) live;
     stopped := stopped s |}.

(* the do/while loop over the sequence of popped batches (any batching the queue may produce) *)
Fixpoint writer (s : wstate) (batches : list (list item)) : wstate :=
  match batches with
  | [] => s
  | b :: r => let s' := flush (scan s b) in if stopped s' then s' else writer s' r
  end.

Definition file_stream (s : wstate) (f : nat) : list (page * Z) :=
  flat_map (fun d => if Nat.eqb (fst d) f then snd d else []) (written s).

Definition entries_of (q : list item) : list entry :=
  flat_map (fun i => match i with Entry e => [e] | Stop => [] end) q.
