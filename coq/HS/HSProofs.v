(* Proofs about HSModel: one ConcurrentFixedSwissTable (find / do_emplace / clear / rehash / reserve over the
   control bytes with the mirrored group and triangular group probing), then the ConcurrentTransientHashSet
   chain, then client programs over two containers against the insertion-ordered reference map. *)
From Coq Require Import ZArith List Bool Lia Permutation Znumtheory Zpow_facts.
Require Import Verif.Gen.Gen_hash_table Verif.HS.HSModel.
Import ListNotations.
Local Open Scope Z_scope.


(* ------------------------------------------------------------------ part 1 *)

(* ================= arithmetic of the regenerated formulas ================= *)
Lemma land_mask x k : 0 <= k -> Z.land x (2 ^ k - 1) = x mod 2 ^ k.
Proof. intros. rewrite <- Z.land_ones by lia. f_equal. rewrite Z.ones_equiv. lia. Qed.

Definition pow2 (B : Z) : Prop := exists k, 4 <= k /\ B = 2 ^ k.

Lemma pow2_ge B : pow2 B -> 16 <= B.
Proof. intros (k & Hk & ->). change 16 with (2 ^ 4). apply Z.pow_le_mono_r; lia. Qed.

Lemma pow2_div16 B : pow2 B -> B = 16 * (B / 16) /\ pow2 B.
Proof.
  intros H. split; auto. destruct H as (k & Hk & ->).
  replace k with (4 + (k - 4)) by lia. rewrite Z.pow_add_r by lia. change (2 ^ 4) with 16.
  rewrite Z.mul_comm, Z.div_mul by lia. lia.
Qed.

Lemma size_16 : SIZE = 16. Proof. reflexivity. Qed.
Lemma empty_val : EMPTY_CONTROL = -128. Proof. reflexivity. Qed.
Lemma dummy_val : DUMMY_CONTROL = -126. Proof. reflexivity. Qed.

Lemma bcount_eq t : bcount t = mask t + 1.
Proof. reflexivity. Qed.

Lemma offsets_eq : offsets = [0;1;2;3;4;5;6;7;8;9;10;11;12;13;14;15].
Proof. reflexivity. Qed.

Lemma in_zrange n i : In i (zrange n) <-> 0 <= i < n.
Proof.
  unfold zrange. rewrite in_map_iff. split.
  - intros (x & <- & Hx). apply in_seq in Hx. lia.
  - intros H. exists (Z.to_nat i). split; [lia|]. apply in_seq. lia.
Qed.

Lemma in_offsets o : In o offsets <-> 0 <= o < 16.
Proof. unfold offsets. rewrite size_16. apply in_zrange. Qed.

Lemma nodup_zrange n : NoDup (zrange n).
Proof.
  unfold zrange. apply FinFun.Injective_map_NoDup; [|apply seq_NoDup].
  intros a b H. lia.
Qed.

Section Mask.
Variables (m B : Z).
Hypothesis HB : pow2 B.
Hypothesis Hm : m = B - 1.

Lemma land_m x : Z.land x m = x mod B.
Proof. destruct HB as (k & Hk & HBk). subst m. rewrite HBk. apply land_mask. lia. Qed.

Lemma checker_range h : 0 <= find_checker h < 128.
Proof. unfold find_checker. change CHECKER_MASK with (2 ^ 7 - 1). rewrite land_mask by lia. apply Z.mod_pos_bound. lia. Qed.

Lemma emp_checker_eq h : emp_checker h = find_checker h. Proof. reflexivity. Qed.
Lemma emp_base0_eq h : emp_base0 h m = find_base0 h m. Proof. reflexivity. Qed.

Lemma base0_range h : 0 <= find_base0 h m < B.
Proof. unfold find_base0. rewrite land_m. apply Z.mod_pos_bound. pose proof (pow2_ge _ HB). lia. Qed.

Lemma find_index_eq b o : find_index b o m = (b + o) mod B.
Proof. unfold find_index. apply land_m. Qed.
Lemma emp_match_index_eq b o : emp_match_index b o m = (b + o) mod B.
Proof. unfold emp_match_index. apply land_m. Qed.
Lemma emp_insert_index_eq b o : emp_insert_index b o m = (b + o) mod B.
Proof. unfold emp_insert_index. apply land_m. Qed.
Lemma find_next_base_eq b s : find_next_base b s m = (b + s) mod B.
Proof. unfold find_next_base. apply land_m. Qed.
Lemma emp_next_base_eq b s : emp_next_base b s m = (b + s) mod B.
Proof. unfold emp_next_base. apply land_m. Qed.

Lemma cloned_eq i : 0 <= i < B -> emp_cloned_index i m = if i <? 15 then B + i else i.
Proof.
  intros Hi. pose proof (pow2_ge _ HB). unfold emp_cloned_index. rewrite !land_m.
  change GROUP_MASK with 15. rewrite (Z.mod_small 15) by lia.
  destruct (i <? 15) eqn:E.
  - apply Z.ltb_lt in E. replace (i - 15) with ((i - 15 + B) + (-1) * B) by lia.
    rewrite Z.mod_add by lia. rewrite Z.mod_small by lia. lia.
  - apply Z.ltb_ge in E. rewrite Z.mod_small by lia. lia.
Qed.

Lemma loop_cond_eq s : find_loop_cond s m = (s <? B).
Proof. unfold find_loop_cond. subst m. destruct (s <=? B - 1) eqn:E, (s <? B) eqn:F; try reflexivity; lia. Qed.
Lemma emp_loop_cond_eq s : emp_loop_cond s m = (s <? B).
Proof. apply loop_cond_eq. Qed.
End Mask.


(* ------------------------------------------------------------------ part 2 *)

(* ---- match_offs ---- *)
Lemma match_offs_some t key c b f os i : match_offs t key c b f os = Some i ->
  exists o, In o os /\ i = f o /\ ctrl t (b + o) = c /\ key_at t i key = true.
Proof.
  induction os as [|o r IH]; simpl; [discriminate|].
  destruct ((ctrl t (b + o) =? c) && key_at t (f o) key) eqn:E.
  - intros [= <-]. apply andb_true_iff in E as [E1 E2]. apply Z.eqb_eq in E1.
    exists o. simpl. auto.
  - intros H. destruct (IH H) as (o' & ? & ?). exists o'. simpl. tauto.
Qed.

Lemma match_offs_none t key c b f os : match_offs t key c b f os = None ->
  forall o, In o os -> ctrl t (b + o) = c -> key_at t (f o) key = false.
Proof.
  induction os as [|o r IH]; simpl; [tauto|].
  destruct ((ctrl t (b + o) =? c) && key_at t (f o) key) eqn:E; [discriminate|].
  intros H o' [<-|Hin] Hc; [|eauto].
  apply andb_false_iff in E as [E|E]; auto. apply Z.eqb_neq in E. contradiction.
Qed.

Lemma first_empty_some t b o : first_empty t b = Some o -> 0 <= o < 16 /\ ctrl t (b + o) < 0.
Proof.
  unfold first_empty. intros H. apply find_some in H as [H1 H2]. apply in_offsets in H1. apply Z.ltb_lt in H2. auto.
Qed.

Lemma first_empty_none t b : first_empty t b = None -> forall o, 0 <= o < 16 -> 0 <= ctrl t (b + o).
Proof.
  unfold first_empty. intros H o Ho. apply in_offsets in Ho.
  pose proof (find_none _ _ H o Ho) as E. simpl in E. apply Z.ltb_ge in E. auto.
Qed.

Lemma key_at_true t i key : key_at t i key = true <-> exists e, vals t i = Some e /\ fst e = key.
Proof.
  unfold key_at. destruct (vals t i) as [e|].
  - rewrite Z.eqb_eq. split; [eauto|]. intros (e' & [= <-] & ?). auto.
  - split; [discriminate|]. intros (e' & ? & _). discriminate.
Qed.

(* ================= one fixed table ================= *)
Section Table.
Variable hash : Z -> Z.

Definition chk (e : elem) : Z := find_checker (hash (fst e)).

(* probe sequence: group bases visited by the loops of find / do_emplace *)
Fixpoint pbase (B b0 : Z) (j : nat) : Z :=
  match j with O => b0 | S j' => (pbase B b0 j' + 16 * Z.of_nat (S j')) mod B end.

Definition wfull (t : table) (b : Z) : Prop := forall o, 0 <= o < 16 -> 0 <= ctrl t ((b + o) mod bcount t).
Definition inwin (B b i : Z) : Prop := exists o, 0 <= o < 16 /\ i = (b + o) mod B.

Record WF (t : table) : Prop := {
  wf_nd : dummy t = false;
  wf_pow : pow2 (bcount t);
  wf_mirror : forall i, 0 <= i < 15 -> ctrl t (bcount t + i) = ctrl t i;
  wf_ctrl : forall i, 0 <= i < bcount t ->
            match vals t i with Some e => ctrl t i = chk e | None => ctrl t i = EMPTY_CONTROL end;
  wf_probe : forall i e, 0 <= i < bcount t -> vals t i = Some e ->
             exists j, (Z.of_nat j < bcount t / 16) /\ inwin (bcount t) (pbase (bcount t) (find_base0 (hash (fst e)) (mask t)) j) i /\
                       forall j', (j' < j)%nat -> wfull t (pbase (bcount t) (find_base0 (hash (fst e)) (mask t)) j');
  wf_nodup : NoDup (map fst (titer t));
  wf_cnt : cnt t = Z.of_nat (length (titer t))
}.

Lemma wf_mask t : WF t -> mask t = bcount t - 1.
Proof. intros. rewrite bcount_eq. lia. Qed.

Lemma wf_ge t : WF t -> 16 <= bcount t.
Proof. intros H. apply pow2_ge, H. Qed.

Lemma pbase_range B b0 j : 0 < B -> 0 <= b0 < B -> 0 <= pbase B b0 j < B.
Proof. intros. destruct j; simpl; auto. apply Z.mod_pos_bound. lia. Qed.

(* a group load at a base inside the table reads the logical (wrapped) control bytes *)
Lemma ctrl_read t b o : WF t -> 0 <= b < bcount t -> 0 <= o < 16 ->
  ctrl t (b + o) = ctrl t ((b + o) mod bcount t).
Proof.
  intros H Hb Ho. pose proof (wf_ge _ H).
  destruct (Z_lt_dec (b + o) (bcount t)).
  - rewrite Z.mod_small by lia. reflexivity.
  - replace (b + o) with (bcount t + (b + o - bcount t)) at 1 by lia.
    rewrite (wf_mirror _ H) by lia.
    replace ((b + o) mod bcount t) with (b + o - bcount t); auto.
    replace (b + o) with ((b + o - bcount t) + 1 * bcount t) at 2 by lia.
    rewrite Z.mod_add by lia. rewrite Z.mod_small by lia. reflexivity.
Qed.

Lemma ctrl_nonneg_iff t i : WF t -> 0 <= i < bcount t ->
  (0 <= ctrl t i <-> exists e, vals t i = Some e).
Proof.
  intros H Hi. pose proof (wf_ctrl _ H i Hi) as C. destruct (vals t i) as [e|].
  - split; [intros _; eauto|]. intros _. rewrite C. unfold chk. pose proof (checker_range (hash (fst e))). lia.
  - rewrite C, empty_val. split; [lia|]. intros (e & He). discriminate.
Qed.

Definition nomatch (t : table) (key b : Z) : Prop :=
  forall o, 0 <= o < 16 -> key_at t ((b + o) mod bcount t) key = false.

Definition absent (t : table) (key : Z) : Prop :=
  forall i e, 0 <= i < bcount t -> vals t i = Some e -> fst e <> key.

Definition holds (t : table) (i key : Z) : Prop :=
  0 <= i < bcount t /\ exists e, vals t i = Some e /\ fst e = key.

(* windows 0..j-1 are full and hold no element with this key  ->  an element with this key has probe index >= j *)
Lemma absent_from_prefix t key j :
  WF t ->
  (forall j', (j' < j)%nat -> nomatch t key (pbase (bcount t) (find_base0 (hash key) (mask t)) j')) ->
  (bcount t / 16 <= Z.of_nat j) -> absent t key.
Proof.
  intros H Hno Hj i e Hi He Hk.
  destruct (wf_probe _ H i e Hi He) as (je & Hje & (o & Ho & Hio) & _).
  rewrite Hk in Hio. assert (je < j)%nat by lia.
  specialize (Hno je H0 o Ho). rewrite <- Hio in Hno.
  assert (key_at t i key = true) by (apply key_at_true; eauto). congruence.
Qed.

Lemma nomatch_of_none t key b f :
  WF t -> 0 <= b < bcount t ->
  (forall o, f o = (b + o) mod bcount t) ->
  match_offs t key (find_checker (hash key)) b f offsets = None ->
  nomatch t key b.
Proof.
  intros H Hb Hf Hm o Ho.
  destruct (key_at t ((b + o) mod bcount t) key) eqn:E; auto.
  apply key_at_true in E as (e & He & Hk).
  assert (Hr : 0 <= (b + o) mod bcount t < bcount t) by (apply Z.mod_pos_bound; pose proof (wf_ge _ H); lia).
  pose proof (wf_ctrl _ H _ Hr) as C. rewrite He in C. unfold chk in C. rewrite Hk in C.
  pose proof (match_offs_none _ _ _ _ _ _ Hm o (proj2 (in_offsets o) Ho)) as N.
  rewrite (ctrl_read t b o H Hb Ho) in N. specialize (N C). rewrite Hf in N.
  assert (key_at t ((b + o) mod bcount t) key = true) by (apply key_at_true; eauto). congruence.
Qed.

(* the element with this key, if any, cannot sit behind a window that has a hole *)
Lemma absent_by_hole t key j o :
  WF t ->
  (forall j', (j' <= j)%nat -> nomatch t key (pbase (bcount t) (find_base0 (hash key) (mask t)) j')) ->
  0 <= o < 16 -> ctrl t ((pbase (bcount t) (find_base0 (hash key) (mask t)) j + o) mod bcount t) < 0 ->
  absent t key.
Proof.
  intros H Hno Ho Hneg i e Hi He Hk.
  destruct (wf_probe _ H i e Hi He) as (je & Hje & (o' & Ho' & Hio) & Hfull).
  rewrite Hk in Hio, Hfull.
  destruct (le_lt_dec je j) as [L|L].
  - specialize (Hno je L o' Ho'). rewrite <- Hio in Hno.
    assert (key_at t i key = true) by (apply key_at_true; eauto). congruence.
  - specialize (Hfull j L o Ho). lia.
Qed.

Lemma find_loop_spec t key : WF t ->
  forall fuel j step b,
  step = 16 * Z.of_nat j -> b = pbase (bcount t) (find_base0 (hash key) (mask t)) j ->
  (bcount t / 16 + 1 <= Z.of_nat fuel + Z.of_nat j) ->
  (forall j', (j' < j)%nat -> nomatch t key (pbase (bcount t) (find_base0 (hash key) (mask t)) j')) ->
  match find_loop fuel t key (find_checker (hash key)) step b with
  | Some i => holds t i key
  | None => absent t key
  end.
Proof.
  intros H. pose proof (wf_ge _ H) as HB16. pose proof (wf_mask _ H) as Hm.
  pose proof (pow2_div16 _ (wf_pow _ H)) as [HBd _].
  induction fuel as [|f IH]; intros j step b Hs Hb Hfuel Hno; cbn [find_loop].
  - eapply absent_from_prefix; eauto. lia.
  - rewrite (loop_cond_eq _ _ Hm). destruct (step <? bcount t) eqn:Ec.
    2:{ apply Z.ltb_ge in Ec. eapply absent_from_prefix; eauto. lia. }
    apply Z.ltb_lt in Ec.
    assert (Hbr : 0 <= b < bcount t).
    { subst b. apply pbase_range; [lia|]. apply (base0_range _ _ (wf_pow _ H) Hm). }
    match goal with |- context [match_offs ?a1 ?a2 ?a3 ?a4 ?a5 ?a6] => destruct (match_offs a1 a2 a3 a4 a5 a6) as [i|] eqn:Em end.
    + apply match_offs_some in Em as (o & Ho & -> & _ & Hk). apply in_offsets in Ho.
      rewrite (find_index_eq _ _ (wf_pow _ H) Hm). split.
      * apply Z.mod_pos_bound. lia.
      * apply key_at_true. rewrite (find_index_eq _ _ (wf_pow _ H) Hm) in Hk. auto.
    + assert (Hnm : nomatch t key b).
      { eapply nomatch_of_none with (f := fun o => find_index b o (mask t)); eauto.
        intros o. apply (find_index_eq _ _ (wf_pow _ H) Hm). }
      assert (Hno' : forall j', (j' <= j)%nat -> nomatch t key (pbase (bcount t) (find_base0 (hash key) (mask t)) j')).
      { intros j' L. destruct (Nat.eq_dec j' j) as [->|]; [rewrite <- Hb; auto|apply Hno; lia]. }
      destruct (first_empty t b) as [o|] eqn:Ee.
      * apply first_empty_some in Ee as [Ho Hneg]. rewrite (ctrl_read t b o H Hbr Ho) in Hneg.
        subst b. eapply absent_by_hole; eauto.
      * apply (IH (S j)).
        -- change find_step_inc with 16. lia.
        -- rewrite (find_next_base_eq _ _ (wf_pow _ H) Hm). simpl pbase. rewrite <- Hb.
           f_equal. f_equal. change find_step_inc with 16. lia.
        -- lia.
        -- intros j' L. apply Hno'. lia.
Qed.

Lemma tfind_spec t key : WF t ->
  match tfind hash t key with Some i => holds t i key | None => absent t key end.
Proof.
  intros H. unfold tfind. apply (find_loop_spec t key H _ O); auto.
  - unfold probe_fuel. pose proof (wf_ge _ H). pose proof (pow2_div16 _ (wf_pow _ H)) as [HBd _].
    assert (bcount t / 16 <= bcount t) by (apply Z.div_le_upper_bound; lia). lia.
  - intros j' L. lia.
Qed.

End Table.


(* ------------------------------------------------------------------ part 3 *)

(* ---- generic list facts ---- *)
Lemma flat_map_ext_in {A B} (f g : A -> list B) l : (forall a, In a l -> f a = g a) -> flat_map f l = flat_map g l.
Proof. induction l; simpl; intros H; auto. rewrite H, IHl; auto. Qed.
Lemma flat_map_change {A B} (f g : A -> list B) (l : list A) (x : A) (e : B) :
  NoDup l -> In x l -> (forall y, y <> x -> In y l -> f y = g y) -> f x = [] -> g x = [e] ->
  Permutation (flat_map g l) (e :: flat_map f l).
Proof.
  intros ND Hin Hsame Hf Hg. apply in_split in Hin as (l1 & l2 & ->).
  apply NoDup_remove_2 in ND. rewrite !flat_map_app. simpl. rewrite Hf, Hg. simpl.
  assert (E1 : flat_map g l1 = flat_map f l1).
  { apply flat_map_ext_in. intros y Hy. symmetry. apply Hsame.
    - intros ->. apply ND. apply in_or_app. auto.
    - apply in_or_app. auto. }
  assert (E2 : flat_map g l2 = flat_map f l2).
  { apply flat_map_ext_in. intros y Hy. symmetry. apply Hsame.
    - intros ->. apply ND. apply in_or_app. auto.
    - apply in_or_app. right. right. auto. }
  rewrite E1, E2. symmetry. apply Permutation_middle.
Qed.

Lemma flat_map_len_le {A B} (f : A -> list B) l :
  (forall x, In x l -> (length (f x) <= 1)%nat) -> (length (flat_map f l) <= length l)%nat.
Proof.
  induction l; simpl; intros H; auto. rewrite app_length.
  pose proof (H a (or_introl eq_refl)). assert (length (flat_map f l) <= length l)%nat by (apply IHl; auto). lia.
Qed.

Lemma flat_map_len_full {A B} (f : A -> list B) l :
  (forall x, In x l -> length (f x) = 1%nat) -> length (flat_map f l) = length l.
Proof.
  induction l; simpl; intros H; auto. rewrite app_length, H, IHl; auto.
Qed.

Lemma length_zrange n : 0 <= n -> Z.of_nat (length (zrange n)) = n.
Proof. intros. unfold zrange. rewrite map_length, seq_length. lia. Qed.

Section Table2.
Variable hash : Z -> Z.
Notation WF := (WF hash).

Definition slot (t : table) (i : Z) : list elem :=
  if 0 <=? ctrl t i then match vals t i with Some e => [e] | None => [(-1, -1)] end else [].

Lemma titer_eq t : titer t = flat_map (slot t) (zrange (bcount t)).
Proof. reflexivity. Qed.

Lemma slot_wf t i : WF t -> 0 <= i < bcount t ->
  slot t i = match vals t i with Some e => [e] | None => [] end.
Proof.
  intros H Hi. unfold slot. pose proof (wf_ctrl _ _ H i Hi) as C. destruct (vals t i) as [e|].
  - rewrite C. unfold chk. pose proof (checker_range (hash (fst e))).
    destruct (0 <=? find_checker (hash (fst e))) eqn:E; auto. lia.
  - rewrite C. reflexivity.
Qed.

Lemma titer_in t e : WF t -> (In e (titer t) <-> exists i, 0 <= i < bcount t /\ vals t i = Some e).
Proof.
  intros H. rewrite titer_eq, in_flat_map. split.
  - intros (i & Hi & He). apply in_zrange in Hi. rewrite slot_wf in He by auto.
    destruct (vals t i) as [e'|] eqn:V; simpl in He; [|tauto]. destruct He as [->|[]]. eauto.
  - intros (i & Hi & He). exists i. split; [apply in_zrange; auto|]. rewrite slot_wf by auto. rewrite He. simpl; auto.
Qed.

Lemma titer_len_le t : 0 <= bcount t -> Z.of_nat (length (titer t)) <= bcount t.
Proof.
  intros HB. rewrite titer_eq. rewrite <- (length_zrange (bcount t)) at 2 by auto.
  apply inj_le. apply flat_map_len_le. intros i _. unfold slot.
  destruct (0 <=? ctrl t i); simpl; [destruct (vals t i); simpl|]; lia.
Qed.

Lemma titer_len_full t : WF t -> (forall p, 0 <= p < bcount t -> 0 <= ctrl t p) ->
  Z.of_nat (length (titer t)) = bcount t.
Proof.
  intros H Hall. pose proof (wf_ge _ _ H). rewrite titer_eq.
  rewrite <- (length_zrange (bcount t)) at 2 by lia. f_equal.
  apply flat_map_len_full. intros i Hi. apply in_zrange in Hi. unfold slot.
  specialize (Hall i Hi). destruct (0 <=? ctrl t i) eqn:E; [|lia]. destruct (vals t i); reflexivity.
Qed.

Lemma absent_notin t key : WF t -> absent t key -> ~ In key (map fst (titer t)).
Proof.
  intros H Ha Hin. apply in_map_iff in Hin as (e & Hk & He). apply titer_in in He as (i & Hi & Hv); auto.
  exact (Ha i e Hi Hv Hk).
Qed.

Lemma notin_absent t key : WF t -> ~ In key (map fst (titer t)) -> absent t key.
Proof.
  intros H Hn i e Hi Hv Hk. apply Hn. apply in_map_iff. exists e. split; auto. apply titer_in; eauto.
Qed.

Lemma holds_in t i key : WF t -> holds t i key -> exists e, vals t i = Some e /\ fst e = key /\ In e (titer t).
Proof.
  intros H (Hi & e & Hv & Hk). exists e. repeat split; auto. apply titer_in; eauto.
Qed.

(* ---- the store of a new element (control byte, its clone, the value) ---- *)
Definition stored (t : table) (ix : Z) (e : elem) : table :=
  mkT (dummy t) (mask t)
      (upd (upd (ctrl t) ix (find_checker (hash (fst e)))) (emp_cloned_index ix (mask t)) (find_checker (hash (fst e))))
      (upd (vals t) ix (Some e)) (cnt t + 1).

Lemma stored_ctrl t ix e p : WF t -> 0 <= ix < bcount t -> 0 <= p < bcount t ->
  ctrl (stored t ix e) p = if p =? ix then chk hash e else ctrl t p.
Proof.
  intros H Hix Hp. unfold stored, upd; simpl. rewrite (cloned_eq _ _ (wf_pow _ _ H) (wf_mask _ _ H)) by auto.
  destruct (ix <? 15) eqn:E.
  - destruct (p =? bcount t + ix) eqn:E1; [lia|]. reflexivity.
  - destruct (p =? ix); reflexivity.
Qed.

Lemma stored_wf t ix e j o :
  WF t -> 0 <= ix < bcount t -> ctrl t ix < 0 -> absent t (fst e) ->
  Z.of_nat j < bcount t / 16 -> 0 <= o < 16 ->
  ix = (pbase (bcount t) (find_base0 (hash (fst e)) (mask t)) j + o) mod bcount t ->
  (forall j', (j' < j)%nat -> wfull t (pbase (bcount t) (find_base0 (hash (fst e)) (mask t)) j')) ->
  WF (stored t ix e) /\ Permutation (titer (stored t ix e)) (e :: titer t).
Proof.
  intros H Hix Hneg Habs Hj Ho Hixo Hfull.
  pose proof (wf_ge _ _ H) as HB16.
  assert (Hnone : vals t ix = None).
  { pose proof (wf_ctrl _ _ H ix Hix) as C. destruct (vals t ix) as [e0|]; auto.
    rewrite C in Hneg. unfold chk in Hneg. pose proof (checker_range (hash (fst e0))). lia. }
  assert (HBs : bcount (stored t ix e) = bcount t) by reflexivity.
  assert (Hmono : forall b, wfull t b -> wfull (stored t ix e) b).
  { intros b Hw o' Ho'. rewrite HBs. specialize (Hw o' Ho').
    assert (0 <= (b + o') mod bcount t < bcount t) by (apply Z.mod_pos_bound; lia).
    rewrite stored_ctrl by auto. destruct (_ =? ix); auto.
    unfold chk. pose proof (checker_range (hash (fst e))). lia. }
  assert (Hperm : Permutation (titer (stored t ix e)) (e :: titer t)).
  { rewrite !titer_eq, HBs. apply flat_map_change with (x := ix).
    - apply nodup_zrange.
    - apply in_zrange; auto.
    - intros y Hy Hin. apply in_zrange in Hin. unfold slot. rewrite stored_ctrl by auto.
      destruct (y =? ix) eqn:E; [lia|]. simpl. unfold upd. rewrite E. reflexivity.
    - unfold slot. destruct (0 <=? ctrl t ix) eqn:E; auto. lia.
    - unfold slot. rewrite stored_ctrl by auto. rewrite Z.eqb_refl. simpl. unfold upd. rewrite Z.eqb_refl.
      unfold chk. pose proof (checker_range (hash (fst e))). destruct (0 <=? _) eqn:E; auto. lia. }
  split; auto. constructor.
  - apply (wf_nd _ _ H).
  - rewrite HBs. apply (wf_pow _ _ H).
  - intros i Hi. rewrite HBs. unfold stored, upd; simpl.
    rewrite (cloned_eq _ _ (wf_pow _ _ H) (wf_mask _ _ H)) by auto.
    destruct (ix <? 15) eqn:E.
    + apply Z.ltb_lt in E. destruct (bcount t + i =? bcount t + ix) eqn:E1.
      * destruct (i =? bcount t + ix) eqn:E2; [lia|]. destruct (i =? ix) eqn:E3; [reflexivity|lia].
      * destruct (i =? bcount t + ix) eqn:E2; [lia|]. destruct (bcount t + i =? ix) eqn:E3; [lia|].
        destruct (i =? ix) eqn:E4; [lia|]. apply (wf_mirror _ _ H); auto.
    + apply Z.ltb_ge in E. destruct (bcount t + i =? ix) eqn:E1; [lia|]. destruct (i =? ix) eqn:E2; [lia|].
      apply (wf_mirror _ _ H); auto.
  - intros i Hi. rewrite HBs in Hi. rewrite stored_ctrl by auto. simpl. unfold upd.
    destruct (i =? ix) eqn:E; [reflexivity|]. apply (wf_ctrl _ _ H); auto.
  - intros i e0 Hi Hv. rewrite HBs in *. simpl in Hv. unfold upd in Hv. simpl mask.
    destruct (i =? ix) eqn:E.
    + injection Hv as <-. apply Z.eqb_eq in E. subst i. exists j. split; [auto|]. split.
      * exists o. auto.
      * intros j' L. apply Hmono. auto.
    + destruct (wf_probe _ _ H i e0 Hi Hv) as (j0 & Hj0 & Hw & Hf). exists j0. split; [auto|]. split; auto.
  - apply Permutation_map with (f := fst) in Hperm. simpl in Hperm.
    apply (Permutation_NoDup (Permutation_sym Hperm)). constructor.
    + apply absent_notin; auto.
    + apply (wf_nodup _ _ H).
  - simpl cnt. rewrite (wf_cnt _ _ H). rewrite (Permutation_length Hperm). simpl. lia.
Qed.

Definition allfull (t : table) (h : Z) : Prop :=
  forall j', Z.of_nat j' < bcount t / 16 -> wfull t (pbase (bcount t) (find_base0 h (mask t)) j').

Lemma emp_loop_spec t e : WF t ->
  forall fuel j step b,
  step = 16 * Z.of_nat j -> b = pbase (bcount t) (find_base0 (hash (fst e)) (mask t)) j ->
  (bcount t / 16 + 1 <= Z.of_nat fuel + Z.of_nat j) -> Z.of_nat j <= bcount t / 16 ->
  (forall j', (j' < j)%nat -> nomatch t (fst e) (pbase (bcount t) (find_base0 (hash (fst e)) (mask t)) j')) ->
  (forall j', (j' < j)%nat -> wfull t (pbase (bcount t) (find_base0 (hash (fst e)) (mask t)) j')) ->
  match emp_loop fuel t e (find_checker (hash (fst e))) step b with
  | (t', EExists i) => t' = t /\ holds t i (fst e)
  | (t', EInserted i) => absent t (fst e) /\ WF t' /\ bcount t' = bcount t /\ 0 <= i < bcount t /\
                         vals t' i = Some e /\ Permutation (titer t') (e :: titer t)
  | (t', EFull) => t' = t /\ absent t (fst e) /\ allfull t (hash (fst e))
  | (_, EStuck) => False
  end.
Proof.
  intros H. pose proof (wf_ge _ _ H) as HB16. pose proof (wf_mask _ _ H) as Hm.
  pose proof (pow2_div16 _ (wf_pow _ _ H)) as [HBd _].
  induction fuel as [|f IH]; intros j step b Hs Hb Hfuel Hjn Hno Hfu; cbn [emp_loop].
  - lia.
  - rewrite (emp_loop_cond_eq _ _ Hm). destruct (step <? bcount t) eqn:Ec.
    2:{ apply Z.ltb_ge in Ec. split; auto. split.
        - eapply absent_from_prefix; eauto. lia.
        - intros j' Hj'. apply Hfu. lia. }
    apply Z.ltb_lt in Ec.
    assert (Hbr : 0 <= b < bcount t).
    { subst b. apply pbase_range; [lia|]. apply (base0_range _ _ (wf_pow _ _ H) Hm). }
    match goal with |- context [match_offs ?a1 ?a2 ?a3 ?a4 ?a5 ?a6] => destruct (match_offs a1 a2 a3 a4 a5 a6) as [i|] eqn:Em end.
    + apply match_offs_some in Em as (o & Ho & -> & _ & Hk). apply in_offsets in Ho.
      rewrite (emp_match_index_eq _ _ (wf_pow _ _ H) Hm) in Hk.
      rewrite (emp_match_index_eq _ _ (wf_pow _ _ H) Hm). split; auto. split.
      * apply Z.mod_pos_bound. lia.
      * apply key_at_true. auto.
    + assert (Hnm : nomatch t (fst e) b).
      { eapply nomatch_of_none with (f := fun o => emp_match_index b o (mask t)); eauto.
        intros o. apply (emp_match_index_eq _ _ (wf_pow _ _ H) Hm). }
      assert (Hno' : forall j', (j' <= j)%nat -> nomatch t (fst e) (pbase (bcount t) (find_base0 (hash (fst e)) (mask t)) j')).
      { intros j' L. destruct (Nat.eq_dec j' j) as [->|]; [rewrite <- Hb; auto|apply Hno; lia]. }
      destruct (first_empty t b) as [o|] eqn:Ee.
      * apply first_empty_some in Ee as [Ho Hneg]. rewrite (ctrl_read _ t b o H Hbr Ho) in Hneg.
        rewrite (emp_insert_index_eq _ _ (wf_pow _ _ H) Hm).
        set (ix := (b + o) mod bcount t) in *.
        assert (Hix : 0 <= ix < bcount t) by (apply Z.mod_pos_bound; lia).
        assert (Habs : absent t (fst e)).
        { subst b. eapply absent_by_hole; eauto. }
        assert (Hc : ctrl t ix = EMPTY_CONTROL).
        { pose proof (wf_ctrl _ _ H ix Hix) as C. destruct (vals t ix) as [e0|]; auto.
          rewrite C in Hneg. unfold chk in Hneg. pose proof (checker_range (hash (fst e0))). lia. }
        rewrite Hc, Z.eqb_refl.
        destruct (stored_wf t ix e j o H Hix Hneg Habs) as [W P]; auto; try lia.
        { unfold ix. rewrite Hb. reflexivity. }
        fold (stored t ix e). split; [exact Habs|]. split; [exact W|]. split; [reflexivity|].
        split; [lia|]. split; [|exact P].
        unfold stored, upd. cbn [vals]. rewrite Z.eqb_refl. reflexivity.
      * pose proof (first_empty_none _ _ Ee) as Hfl.
        assert (Hwf : wfull t b).
        { intros o Ho. rewrite <- (ctrl_read _ t b o H Hbr Ho). auto. }
        apply (IH (S j)).
        -- change emp_step_inc with 16. lia.
        -- rewrite (emp_next_base_eq _ _ (wf_pow _ _ H) Hm). simpl pbase. rewrite <- Hb.
           f_equal. f_equal. change emp_step_inc with 16. lia.
        -- lia.
        -- lia.
        -- intros j' L. apply Hno'. lia.
        -- intros j' L. destruct (Nat.eq_dec j' j) as [->|]; [rewrite <- Hb; auto|apply Hfu; lia].
Qed.

Lemma templace_spec t e : WF t ->
  match templace hash t e with
  | (t', EExists i) => t' = t /\ holds t i (fst e)
  | (t', EInserted i) => absent t (fst e) /\ WF t' /\ bcount t' = bcount t /\ 0 <= i < bcount t /\
                         vals t' i = Some e /\ Permutation (titer t') (e :: titer t)
  | (t', EFull) => t' = t /\ absent t (fst e) /\ allfull t (hash (fst e))
  | (_, EStuck) => False
  end.
Proof.
  intros H. unfold templace. rewrite emp_checker_eq, emp_base0_eq.
  pose proof (wf_ge _ _ H). pose proof (pow2_div16 _ (wf_pow _ _ H)) as [HBd _].
  apply (emp_loop_spec t e H _ O); auto; try lia.
  unfold probe_fuel. assert (bcount t / 16 <= bcount t) by (apply Z.div_le_upper_bound; lia). lia.
Qed.

End Table2.


(* ------------------------------------------------------------------ part 4 *)

(* ================= triangular probing visits every group ================= *)
Fixpoint tri (j : nat) : Z := match j with O => 0 | S j' => tri j' + Z.of_nat (S j') end.

Lemma tri_double j : 2 * tri j = Z.of_nat j * (Z.of_nat j + 1).
Proof. induction j; [reflexivity|]. cbn [tri]. nia. Qed.

Lemma pbase_closed B b0 j : 0 < B -> 0 <= b0 < B -> pbase B b0 j = (b0 + 16 * tri j) mod B.
Proof.
  intros HB Hb. induction j.
  - simpl. rewrite Z.add_0_r, Z.mod_small; lia.
  - cbn [pbase tri]. rewrite IHj. rewrite Zplus_mod_idemp_l. f_equal. lia.
Qed.

Lemma odd_not_div2 b : Z.odd b = true -> ~ (2 | b).
Proof. intros H [c Hc]. subst b. rewrite Z.odd_mul in H. simpl in H. rewrite andb_false_r in H. discriminate. Qed.

Lemma pow2_div_odd k a b : 0 <= k -> Z.odd b = true -> (2 ^ k | a * b) -> (2 ^ k | a).
Proof.
  intros Hk Hb Hd. apply Gauss with (b := b).
  - rewrite Z.mul_comm. exact Hd.
  - apply rel_prime_sym. apply rel_prime_Zpower_r; auto.
    apply rel_prime_sym. apply prime_rel_prime; [apply prime_2|]. apply odd_not_div2; auto.
Qed.

Lemma tri_inj m i j : 0 <= m -> (i < j)%nat -> Z.of_nat j < 2 ^ m -> tri i mod 2 ^ m <> tri j mod 2 ^ m.
Proof.
  intros Hm Hij Hj E.
  assert (HN : 0 < 2 ^ m) by (apply Z.pow_pos_nonneg; lia).
  assert (D : (2 ^ m | tri j - tri i)).
  { apply Z.mod_divide; [lia|]. rewrite Zminus_mod, E, Z.sub_diag. apply Z.mod_0_l. lia. }
  assert (D2 : (2 ^ (m + 1) | (Z.of_nat j - Z.of_nat i) * (Z.of_nat j + Z.of_nat i + 1))).
  { replace ((Z.of_nat j - Z.of_nat i) * (Z.of_nat j + Z.of_nat i + 1)) with (2 * (tri j - tri i))
      by (pose proof (tri_double i); pose proof (tri_double j); nia).
    rewrite Z.pow_add_r by lia. rewrite Z.mul_comm. change (2 ^ 1) with 2. apply Z.mul_divide_mono_l. exact D. }
  assert (P2 : 2 ^ (m + 1) = 2 * 2 ^ m) by (rewrite Z.pow_add_r by lia; change (2 ^ 1) with 2; lia).
  destruct (Z.odd (Z.of_nat j - Z.of_nat i)) eqn:O1.
  - rewrite Z.mul_comm in D2. apply pow2_div_odd in D2; auto; [|lia].
    apply Z.divide_pos_le in D2; lia.
  - assert (O2 : Z.odd (Z.of_nat j + Z.of_nat i + 1) = true).
    { replace (Z.of_nat j + Z.of_nat i + 1) with ((Z.of_nat j - Z.of_nat i) + (1 + 2 * Z.of_nat i)) by lia.
      rewrite Z.odd_add, O1, Z.odd_add_mul_2. reflexivity. }
    apply pow2_div_odd in D2; auto; [|lia].
    apply Z.divide_pos_le in D2; lia.
Qed.

Lemma NoDup_map_in {A B} (f : A -> B) l :
  (forall x y, In x l -> In y l -> f x = f y -> x = y) -> NoDup l -> NoDup (map f l).
Proof.
  induction l; intros Hinj ND; simpl; constructor.
  - inversion ND; subst. intros Hin. apply in_map_iff in Hin as (y & Hy & Hin).
    assert (y = a) by (apply Hinj; simpl; auto). subst. contradiction.
  - inversion ND; subst. apply IHl; auto. intros; apply Hinj; simpl; auto.
Qed.

Lemma tri_surj m q : 0 <= m -> 0 <= q < 2 ^ m -> exists j, Z.of_nat j < 2 ^ m /\ tri j mod 2 ^ m = q.
Proof.
  intros Hm Hq. assert (HN : 0 < 2 ^ m) by lia.
  set (n := Z.to_nat (2 ^ m)).
  set (l := map (fun j => tri j mod 2 ^ m) (seq 0 n)).
  assert (ND : NoDup l).
  { apply NoDup_map_in; [|apply seq_NoDup]. intros x y Hx Hy E. apply in_seq in Hx, Hy.
    destruct (lt_eq_lt_dec x y) as [[L|L]|L]; auto; exfalso.
    - apply (tri_inj m x y); auto; lia.
    - apply (tri_inj m y x); auto; lia. }
  assert (I : incl (zrange (2 ^ m)) l).
  { apply NoDup_length_incl; auto.
    - unfold l, zrange. rewrite !map_length, !seq_length. fold n. lia.
    - intros x Hx. unfold l in Hx. apply in_map_iff in Hx as (j & <- & _). apply in_zrange.
      apply Z.mod_pos_bound. lia. }
  assert (Hin : In q l) by (apply I, in_zrange; auto).
  unfold l in Hin. apply in_map_iff in Hin as (j & Hj & Hjn). apply in_seq in Hjn.
  exists j. split; auto. lia.
Qed.

Section Cover.
Variable hash : Z -> Z.
Notation WF := (WF hash).

Lemma allfull_all t h : WF t -> allfull t h -> forall p, 0 <= p < bcount t -> 0 <= ctrl t p.
Proof.
  intros H Hall p Hp. unfold allfull, wfull in Hall. pose proof (wf_ge _ _ H) as HB16. pose proof (wf_mask _ _ H) as Hm.
  destruct (wf_pow _ _ H) as (k & Hk & HBk).
  set (B := bcount t) in *. set (b0 := find_base0 h (mask t)) in *.
  assert (Hb0 : 0 <= b0 < B) by (apply (base0_range _ _ (wf_pow _ _ H) Hm)).
  set (m := k - 4). assert (HN : B = 16 * 2 ^ m).
  { rewrite HBk. unfold m. replace k with (4 + (k - 4)) at 1 by lia. rewrite Z.pow_add_r by lia. reflexivity. }
  assert (HNpos : 0 < 2 ^ m) by (apply Z.pow_pos_nonneg; lia).
  assert (HBdiv : B / 16 = 2 ^ m) by (rewrite HN, Z.mul_comm, Z.div_mul; lia).
  set (d := (p - b0) mod B). assert (Hd : 0 <= d < B) by (apply Z.mod_pos_bound; lia).
  destruct (tri_surj m (d / 16)) as (j & Hj & Hq); [lia| |].
  { split; [apply Z.div_pos; lia|]. apply Z.div_lt_upper_bound; lia. }
  assert (Ho : 0 <= d mod 16 < 16) by (apply Z.mod_pos_bound; lia).
  specialize (Hall j). rewrite HBdiv in Hall. specialize (Hall Hj (d mod 16) Ho).
  rewrite pbase_closed in Hall by lia. rewrite Zplus_mod_idemp_l in Hall.
  replace ((b0 + 16 * tri j + d mod 16) mod B) with p in Hall; auto.
  pose proof (Z.div_mod (tri j) (2 ^ m) ltac:(lia)) as E1.
  pose proof (Z.div_mod d 16 ltac:(lia)) as E2.
  replace (b0 + 16 * tri j + d mod 16) with ((b0 + d) + (tri j / 2 ^ m) * B) by nia.
  rewrite Z.mod_add by lia. unfold d. rewrite Zplus_mod_idemp_r.
  replace (b0 + (p - b0)) with p by lia. rewrite Z.mod_small; lia.
Qed.

Lemma full_cnt t h : WF t -> allfull t h -> cnt t = bcount t.
Proof.
  intros H Hall. rewrite (wf_cnt _ _ H). apply (titer_len_full hash); auto. eapply allfull_all; eauto.
Qed.

End Cover.


(* ------------------------------------------------------------------ part 5 *)

Lemma bit_ceil_spec n : exists k, 0 <= k /\ bit_ceil n = 2 ^ k /\ n <= bit_ceil n.
Proof.
  unfold bit_ceil. destruct (n <=? 1) eqn:E.
  - exists 0. apply Z.leb_le in E. simpl. lia.
  - apply Z.leb_gt in E. exists (Z.log2_up n). split; [apply Z.log2_up_nonneg|]. split; auto.
    apply Z.log2_up_spec. lia.
Qed.

Lemma flat_map_nil {A B} (f : A -> list B) l : (forall x, In x l -> f x = []) -> flat_map f l = [].
Proof. induction l; simpl; intros H; auto. rewrite H, IHl; auto. Qed.

Lemma match_offs_no t key c b f os : (forall o, ctrl t (b + o) <> c) -> match_offs t key c b f os = None.
Proof.
  intros H. induction os as [|o r IH]; simpl; auto.
  destruct (ctrl t (b + o) =? c) eqn:E; [apply Z.eqb_eq in E; destruct (H o E)|]. simpl. auto.
Qed.

Section Ops.
Variable hash : Z -> Z.
Notation WF := (WF hash).

Lemma construct_bcount old m : pow2 (bcount (construct old m)) /\ m <= bcount (construct old m).
Proof.
  unfold construct. rewrite bcount_eq. cbn [mask]. unfold construct_mask, construct_arg.
  destruct (bit_ceil_spec (Z.max m SIZE)) as (k & Hk & E & L). rewrite size_16 in *.
  replace (bit_ceil (Z.max m 16) - 1 + 1) with (bit_ceil (Z.max m 16)) by lia. split; [|lia].
  exists k. split; auto. destruct (Z_lt_dec k 4); [|lia]. exfalso.
  assert (2 ^ k <= 2 ^ 3) by (apply Z.pow_le_mono_r; lia). change (2 ^ 3) with 8 in *. lia.
Qed.

Lemma construct_titer old m : titer (construct old m) = [].
Proof. rewrite titer_eq. apply flat_map_nil. intros i _. reflexivity. Qed.

Lemma construct_wf old m : cnt old = 0 -> WF (construct old m).
Proof.
  intros Hc. pose proof (construct_bcount old m) as [HP _]. constructor.
  - reflexivity.
  - exact HP.
  - intros i Hi. reflexivity.
  - intros i Hi. reflexivity.
  - intros i e Hi Hv. discriminate.
  - rewrite construct_titer. constructor.
  - rewrite construct_titer. simpl. auto.
Qed.

Lemma fresh_wf m : WF (fresh m) /\ titer (fresh m) = [] /\ m <= bcount (fresh m) /\ cnt (fresh m) = 0.
Proof.
  unfold fresh. split; [apply construct_wf; reflexivity|]. split; [apply construct_titer|].
  split; [apply construct_bcount|reflexivity].
Qed.

(* ---- the placeholder table ---- *)
Lemma dummy_titer : titer dummy_table = [].
Proof. reflexivity. Qed.

Lemma dummy_templace e : templace hash dummy_table e = (dummy_table, EFull).
Proof.
  unfold templace, probe_fuel. set (c := emp_checker (hash (fst e))). set (b := emp_base0 _ _).
  assert (Hc : forall o, ctrl dummy_table (b + o) <> c).
  { intros o. simpl. unfold c. rewrite emp_checker_eq. pose proof (checker_range (hash (fst e))). rewrite dummy_val. lia. }
  change (Z.to_nat (bcount dummy_table)) with 16%nat. cbn [emp_loop].
  change (emp_loop_cond 0 (mask dummy_table)) with true. cbv iota.
  rewrite match_offs_no by auto. reflexivity.
Qed.

Lemma dummy_tfind key : tfind hash dummy_table key = None.
Proof.
  unfold tfind, probe_fuel. set (c := find_checker (hash key)). set (b := find_base0 _ _).
  assert (Hc : forall o, ctrl dummy_table (b + o) <> c).
  { intros o. simpl. unfold c. pose proof (checker_range (hash key)). rewrite dummy_val. lia. }
  change (Z.to_nat (bcount dummy_table)) with 16%nat. cbn [find_loop].
  change (find_loop_cond 0 (mask dummy_table)) with true. cbv iota.
  rewrite match_offs_no by auto. reflexivity.
Qed.

(* ---- clear ---- *)
Lemma tabulate_eq {A} (f : Z -> A) n i : tabulate f n i = f i.
Proof.
  unfold tabulate. destruct ((0 <=? i) && (i <? n)) eqn:E; auto.
  apply andb_true_iff in E as [E1 E2]. apply Z.leb_le in E1. apply Z.ltb_lt in E2.
  destruct (nth_error (map f (zrange n)) (Z.to_nat i)) as [x|] eqn:N; auto.
  apply nth_error_In in N as Hin. 
  unfold zrange in N. rewrite map_map in N.
  rewrite nth_error_map in N. rewrite nth_error_nth' with (d := O) in N by (rewrite seq_length; lia).
  rewrite seq_nth in N by lia. simpl in N. injection N as <-. f_equal. lia.
Qed.

Lemma tclear_spec t : WF t -> WF (tclear t) /\ titer (tclear t) = [] /\ bcount (tclear t) = bcount t.
Proof.
  intros H. unfold tclear. rewrite (wf_nd _ _ H).
  destruct (cnt t =? 0) eqn:E.
  - apply Z.eqb_eq in E. split; auto. split; auto. rewrite (wf_cnt _ _ H) in E.
    destruct (titer t); auto. simpl in E. lia.
  - set (t' := mkT _ _ _ _ _). pose proof (wf_ge _ _ H) as HB16.
    assert (HB : bcount t' = bcount t) by reflexivity.
    assert (Hneg : forall i, 0 <= i < bcount t -> ctrl t i < 0 -> ctrl t i = EMPTY_CONTROL /\ vals t i = None).
    { intros i Hi Hn. pose proof (wf_ctrl _ _ H i Hi) as C. destruct (vals t i) as [e|]; auto.
      rewrite C in Hn. unfold chk in Hn. pose proof (checker_range (hash (fst e))). lia. }
    assert (Hctrl : forall i, 0 <= i < bcount t + 16 -> ctrl t' i = EMPTY_CONTROL).
    { intros i Hi. unfold t'. cbn [ctrl]. rewrite tabulate_eq. unfold clear_ctrl, clear_mirror_at.
      rewrite size_16. replace (0 + (0 + bcount t)) with (bcount t) by lia.
      destruct ((bcount t <=? i) && (i <? bcount t + 16)) eqn:E1; auto.
      assert (Hi' : 0 <= i < bcount t).
      { apply andb_false_iff in E1 as [E1|E1]; [apply Z.leb_gt in E1|apply Z.ltb_ge in E1]; lia. }
      destruct ((0 <=? i) && (i <? bcount t)) eqn:E2.
      2:{ apply andb_false_iff in E2 as [E2|E2]; [apply Z.leb_gt in E2|apply Z.ltb_ge in E2]; lia. }
      destruct (group_nonempty t (i - i mod clear_group_step)) eqn:G; auto.
      unfold group_nonempty in G. change clear_group_step with 16 in G.
      assert (Ho : In (i mod 16) offsets) by (apply in_offsets, Z.mod_pos_bound; lia).
      assert (Hn : ctrl t i < 0).
      { destruct (Z_lt_dec (ctrl t i) 0); auto. exfalso.
        assert (G' : existsb (fun o : Z => 0 <=? ctrl t (i - i mod 16 + o)) offsets = true).
        { apply existsb_exists. exists (i mod 16). split; auto.
          replace (i - i mod 16 + i mod 16) with i by lia. apply Z.leb_le. lia. }
        congruence. }
      apply Hneg; auto. }
    assert (Hvals : forall i, 0 <= i < bcount t -> vals t' i = None).
    { intros i Hi. unfold t'. cbn [vals]. rewrite tabulate_eq.
      destruct (0 <=? i) eqn:E1; [|lia]. destruct (i <? bcount t) eqn:E2; [|lia]. simpl.
      destruct (0 <=? ctrl t i) eqn:E3; auto. apply Z.leb_gt in E3. apply Hneg; auto. }
    assert (Hti : titer t' = []).
    { rewrite titer_eq. apply flat_map_nil. intros i Hi. rewrite HB in Hi. apply in_zrange in Hi.
      unfold slot. rewrite Hctrl by lia. reflexivity. }
    split; [|split; auto]. constructor; auto.
    + rewrite HB. apply (wf_pow _ _ H).
    + intros i Hi. rewrite HB. rewrite !Hctrl by lia. reflexivity.
    + intros i Hi. rewrite HB in Hi. rewrite Hvals, Hctrl by lia. reflexivity.
    + intros i e Hi Hv. rewrite HB in Hi. rewrite Hvals in Hv by lia. discriminate.
    + rewrite Hti. constructor.
    + rewrite Hti. reflexivity.
Qed.

(* ---- refill ---- *)
Lemma templace_cases t e : WF t ->
  (In (fst e) (map fst (titer t)) /\ exists i x, templace hash t e = (t, EExists i) /\ vals t i = Some x /\ fst x = fst e /\ In x (titer t)) \/
  (~ In (fst e) (map fst (titer t)) /\ cnt t < bcount t /\
     exists t' i, templace hash t e = (t', EInserted i) /\ WF t' /\ bcount t' = bcount t /\ vals t' i = Some e /\
                  Permutation (titer t') (e :: titer t) /\ cnt t' = cnt t + 1) \/
  (~ In (fst e) (map fst (titer t)) /\ cnt t = bcount t /\ templace hash t e = (t, EFull)).
Proof.
  intros H. pose proof (templace_spec hash t e H) as S.
  destruct (templace hash t e) as [t' r]. destruct r as [i|i| |].
  - destruct S as (Ha & W & HB & Hi & Hv & P). right. left. split; [apply (absent_notin hash); auto|].
    assert (Hc : cnt t' = cnt t + 1).
    { rewrite (wf_cnt _ _ W), (wf_cnt _ _ H), (Permutation_length P). simpl. lia. }
    split.
    + pose proof (titer_len_le t' ltac:(pose proof (wf_ge _ _ W); lia)). rewrite <- (wf_cnt _ _ W) in *. lia.
    + exists t', i. split; [reflexivity|]. split; [exact W|]. auto.
  - destruct S as (-> & Hh). left. destruct (holds_in _ _ _ _ H Hh) as (x & Hv & Hk & Hin).
    split; [apply in_map_iff; eauto|]. exists i, x. auto.
  - destruct S as (-> & Ha & Hf). right. right. split; [apply (absent_notin hash); auto|]. split; auto.
    eapply full_cnt; eauto.
  - destruct S.
Qed.

Lemma refill_spec l : forall t, WF t -> NoDup (map fst l) ->
  (forall e, In e l -> ~ In (fst e) (map fst (titer t))) ->
  cnt t + Z.of_nat (length l) <= bcount t ->
  WF (refill hash t l) /\ Permutation (titer (refill hash t l)) (titer t ++ l) /\ bcount (refill hash t l) = bcount t.
Proof.
  induction l as [|a l IH]; intros t H ND Hdis Hcap.
  - simpl. rewrite app_nil_r. auto.
  - unfold refill. simpl fold_left. fold (refill hash (fst (templace hash t a)) l).
    destruct (templace_cases t a H) as [(Hin & _)|[(Hn & Hlt & t' & i & E & W & HB & Hv & P & Hc)|(Hn & Hfull & _)]].
    + exfalso. apply (Hdis a); simpl; auto.
    + rewrite E. simpl fst. inversion ND as [|? ? Hna ND']; subst.
      destruct (IH t' W ND') as (W2 & P2 & B2).
      * intros e He Hin. apply (Permutation_in _ (Permutation_map fst P)) in Hin. simpl in Hin.
        destruct Hin as [Hin|Hin].
        -- apply Hna. rewrite Hin. apply in_map. auto.
        -- apply (Hdis e); simpl; auto.
      * rewrite Hc, HB. simpl length in Hcap. lia.
      * split; auto. split; [|lia].
        rewrite P2. rewrite P. simpl. apply Permutation_middle.
    + simpl length in Hcap. lia.
Qed.

Lemma trehash_spec t n : WF t -> WF (trehash hash t n) /\ Permutation (titer (trehash hash t n)) (titer t).
Proof.
  intros H. unfold trehash. rewrite (wf_nd _ _ H).
  destruct (rehash_same _ _); [split; auto|].
  destruct (fresh_wf (rehash_arg (bit_ceil (rehash_ceil_arg n)) (cnt t))) as (W & T & L & C).
  destruct (refill_spec (titer t) _ W) as (W2 & P2 & _).
  - apply (wf_nodup _ _ H).
  - intros e _. rewrite T. simpl. auto.
  - rewrite C. unfold rehash_arg in *. pose proof (wf_cnt _ _ H) as Q. unfold elem in *. lia.
  - split; auto. rewrite P2, T. reflexivity.
Qed.

Lemma treserve_spec t n : WF t -> WF (treserve hash t n) /\ Permutation (titer (treserve hash t n)) (titer t).
Proof.
  intros H. unfold treserve. rewrite (wf_nd _ _ H).
  destruct (reserve_grows n (bcount t)) eqn:G; [|split; auto].
  destruct (fresh_wf (reserve_arg n)) as (W & T & L & C).
  destruct (refill_spec (titer t) _ W) as (W2 & P2 & _).
  - apply (wf_nodup _ _ H).
  - intros e _. rewrite T. simpl. auto.
  - rewrite C. unfold reserve_arg in *. unfold reserve_grows in G.
    pose proof (titer_len_le t ltac:(pose proof (wf_ge _ _ H); lia)). unfold elem in *. lia.
  - split; auto. rewrite P2, T. reflexivity.
Qed.

End Ops.


(* ------------------------------------------------------------------ part 6 *)

(* ---- reference map facts ---- *)
Lemma rfind_some l k x : rfind l k = Some x -> In x l /\ fst x = k.
Proof. unfold rfind. intros H. apply find_some in H as [H1 H2]. apply Z.eqb_eq in H2. auto. Qed.

Lemma rfind_none l k : rfind l k = None <-> ~ In k (map fst l).
Proof.
  unfold rfind. split.
  - intros H Hin. apply in_map_iff in Hin as (x & Hk & Hin). pose proof (find_none _ _ H x Hin) as E.
    simpl in E. apply Z.eqb_neq in E. auto.
  - intros H. destruct (find (fun e : elem => fst e =? k) l) as [x|] eqn:E; auto. apply find_some in E as [H1 H2]. apply Z.eqb_eq in H2.
    exfalso. apply H. apply in_map_iff. eauto.
Qed.

Lemma rfind_in l x : NoDup (map fst l) -> In x l -> rfind l (fst x) = Some x.
Proof.
  induction l as [|a l IH]; simpl; intros ND Hin; [tauto|]. inversion ND; subst. unfold rfind. simpl.
  destruct Hin as [->|Hin].
  - rewrite Z.eqb_refl. reflexivity.
  - destruct (fst a =? fst x) eqn:E.
    + apply Z.eqb_eq in E. exfalso. apply H1. rewrite E. apply in_map. auto.
    + apply IH; auto.
Qed.

Lemma fold_rins_nodup l : forall l0, NoDup (map fst (l0 ++ l)) -> fold_left rins l l0 = l0 ++ l.
Proof.
  induction l as [|a l IH]; intros l0 ND; simpl.
  - rewrite app_nil_r. reflexivity.
  - unfold rins at 2. assert (Hn : rfind l0 (fst a) = None).
    { apply rfind_none. rewrite map_app in ND. simpl in ND. apply NoDup_remove_2 in ND.
      intros Hin. apply ND. apply in_or_app. auto. }
    rewrite Hn. rewrite IH; rewrite <- app_assoc; simpl; auto.
Qed.

Section Chain.
Variable hash : Z -> Z.
Notation WF := (WF hash).

Fixpoint chain_ok (ts : list table) : Prop :=
  match ts with [] => True | t :: r => (r <> [] -> cnt t = bcount t) /\ chain_ok r end.

Definition keys (ts : list table) : list Z := map fst (flat_map titer ts).

Lemma emplace_tables_spec ts : forall prev e, Forall WF ts -> chain_ok ts ->
  match emplace_tables hash ts prev e with
  | (ts', r, v) =>
    Forall WF ts' /\ chain_ok ts' /\ ts' <> [] /\
    ((In (fst e) (keys ts) /\ ts' = ts /\ (exists i, r = EExists i) /\
      exists x, v = Some x /\ In x (flat_map titer ts) /\ fst x = fst e) \/
     (~ In (fst e) (keys ts) /\ (exists i, r = EInserted i) /\ v = Some e /\
      Permutation (flat_map titer ts') (e :: flat_map titer ts)))
  end.
Proof.
  induction ts as [|t rs IH]; intros prev e HW Hok.
  - cbn [emplace_tables]. destruct (fresh_wf hash (chain_new_node_arg prev)) as (W & T & L & C).
    destruct (templace_cases hash _ e W) as [(Hin & _)|[(Hn & Hlt & t' & i & E & W' & HB & Hv & P & Hc)|(Hn & Hfull & _)]].
    + rewrite T in Hin. destruct Hin.
    + rewrite E. cbn [deref]. rewrite Hv. split; [constructor; auto|]. split; [simpl; tauto|]. split; [discriminate|].
      right. unfold keys. simpl. split; [tauto|]. split; [eauto|]. split; auto.
      rewrite app_nil_r. rewrite P, T. reflexivity.
    + pose proof (wf_ge _ _ W). lia.
  - cbn [emplace_tables]. inversion HW as [|? ? Wt Wrs]; subst. destruct Hok as [Hfull Hok].
    destruct (templace_cases hash t e Wt) as [(Hin & i & x & E & Hv & Hk & Hx)|[(Hn & Hlt & t' & i & E & W' & HB & Hv & P & Hc)|(Hn & Hf & E)]].
    + rewrite E. cbn [deref]. split; auto. split; [simpl; auto|]. split; [discriminate|]. left.
      split. { unfold keys. simpl. rewrite map_app. apply in_or_app. auto. }
      split; auto. split; [eauto|]. exists x. split; auto. split; auto. simpl. apply in_or_app. auto.
    + rewrite E. cbn [deref]. rewrite Hv.
      assert (rs = []) by (destruct rs; auto; exfalso; assert (cnt t = bcount t) by (apply Hfull; discriminate); lia).
      subst rs. split; [constructor; auto|]. split; [simpl; tauto|]. split; [discriminate|]. right.
      unfold keys. simpl. rewrite !app_nil_r. split; auto. split; [eauto|]. split; auto.
    + rewrite E. specialize (IH (bcount t) e Wrs Hok).
      destruct (emplace_tables hash rs (bcount t) e) as [[rs' r'] v'].
      destruct IH as (W2 & Ok2 & Ne & D). split; [constructor; auto|]. split; [simpl; split; auto|]. split; [discriminate|].
      destruct D as [(Hin & -> & Hr & x & -> & Hx & Hk)|(Hnin & Hr & -> & P)].
      * left. split. { unfold keys. simpl. rewrite map_app. apply in_or_app. auto. }
        split; auto. split; auto. exists x. split; auto. split; auto. simpl. apply in_or_app. auto.
      * right. split. { unfold keys. simpl. rewrite map_app. intros Hin. apply in_app_or in Hin as [Hin|Hin]; auto. }
        split; auto. split; auto. simpl. rewrite P. symmetry. apply Permutation_middle.
Qed.

Lemma find_tables_spec ts key : Forall WF ts ->
  match find_tables hash ts key with
  | Some x => In x (flat_map titer ts) /\ fst x = key
  | None => ~ In key (keys ts)
  end.
Proof.
  induction ts as [|t rs IH]; intros HW; cbn [find_tables].
  - unfold keys. simpl. tauto.
  - inversion HW as [|? ? Wt Wrs]; subst. pose proof (tfind_spec hash t key Wt) as S.
    destruct (tfind hash t key) as [i|].
    + destruct (holds_in _ _ _ _ Wt S) as (x & Hv & Hk & Hin). rewrite Hv. split; auto. simpl. apply in_or_app. auto.
    + specialize (IH Wrs). destruct (find_tables hash rs key) as [x|].
      * destruct IH. split; auto. simpl. apply in_or_app. auto.
      * unfold keys in *. simpl. rewrite map_app. intros Hin. apply in_app_or in Hin as [Hin|Hin]; auto.
        exact (absent_notin hash t key Wt S Hin).
Qed.

End Chain.


(* ------------------------------------------------------------------ part 7 *)

(* ---- what "the container behaves like the reference" means for one observation ---- *)
Definition out_ok (o : out) (r : rout) : Prop :=
  match o, r with
  | OEmplace ins x stuck, REmplace ins' e => ins = ins' /\ x = Some e /\ stuck = false
  | OFind x, RFind y => x = y
  | OSize n, RSize m => n = m
  | OIter (Some l), RIter l' => Permutation l l'
  | OUnit, RUnit => True
  | _, _ => False
  end.

Definition refines (hash : Z -> Z) (a b : option Z) (ops : list op) : Prop :=
  Forall2 out_ok (snd (run hash (init a b) ops)) (snd (rrun ([], []) ops)).

Lemma skipn_nth_cons {A} (l : list A) k x : nth_error l k = Some x -> skipn k l = x :: skipn (S k) l.
Proof.
  revert k. induction l as [|a l IH]; intros [|k] H; simpl in *; try discriminate.
  - injection H as ->. reflexivity.
  - apply IH. exact H.
Qed.

Section Chain2.
Variable hash : Z -> Z.
Notation WF := (WF hash).

(* ---- chain invariant; the head may be the placeholder of a default-constructed container ---- *)
Definition TOK (t : table) : Prop := WF t \/ t = dummy_table.

Definition tables (c : chain) : list table := head c :: rest c.
Definition celems (c : chain) : list elem := flat_map titer (tables c).
(* the allocated tables *)
Definition wtabs (c : chain) : list table := if dummy (head c) then rest c else tables c.

Record CInv (c : chain) : Prop := {
  ci_head : TOK (head c);
  ci_wf : Forall WF (wtabs c);
  ci_ok : chain_ok (wtabs c);
  ci_nd : NoDup (map fst (celems c))
}.

Definition Ref (c : chain) (l : list elem) : Prop := CInv c /\ Permutation (celems c) l.

Lemma tok_cases t : TOK t -> (WF t /\ dummy t = false) \/ (t = dummy_table /\ dummy t = true).
Proof. intros [W| ->]; [left; split; auto; apply (wf_nd _ _ W)|right; auto]. Qed.

Lemma celems_wtabs c : TOK (head c) -> celems c = flat_map titer (wtabs c).
Proof.
  intros H. unfold celems, wtabs, tables. destruct (tok_cases _ H) as [[_ E]|[E1 E]]; rewrite E; auto.
  rewrite E1. reflexivity.
Qed.

Lemma rest_wf c : CInv c -> Forall WF (rest c) /\ chain_ok (rest c).
Proof.
  intros H. pose proof (ci_wf _ H) as W. pose proof (ci_ok _ H) as O. unfold wtabs, tables in *.
  destruct (dummy (head c)); auto. inversion W; subst. destruct O. auto.
Qed.

Lemma cnt_head c : CInv c -> cnt (head c) = Z.of_nat (length (titer (head c))).
Proof.
  intros H. destruct (tok_cases _ (ci_head _ H)) as [[W _]|[E _]]; [apply (wf_cnt _ _ W)|rewrite E; reflexivity].
Qed.

Lemma ref_nodup c l : Ref c l -> NoDup (map fst l).
Proof. intros [H P]. apply (Permutation_NoDup (Permutation_map fst P)). apply (ci_nd _ H). Qed.

Definition is_ins (r : eres) : bool := match r with EInserted _ => true | _ => false end.
Definition is_stuck (r : eres) : bool := match r with EStuck => true | _ => false end.

(* emplace on the chain = emplace on the allocated tables (the placeholder always answers "full") *)
Lemma cemplace_wtabs c e : CInv c ->
  exists prev, match emplace_tables hash (wtabs c) prev e with
  | (ts', r, v) => exists c', cemplace hash c e = (c', r, v) /\ head c' = (if dummy (head c) then head c else hd (head c) ts') /\
                   (ts' <> [] -> wtabs c' = ts' /\ TOK (head c') /\ celems c' = flat_map titer ts')
  end.
Proof.
  intros H. unfold cemplace, wtabs. destruct (tok_cases _ (ci_head _ H)) as [[W E]|[E1 E]]; rewrite E.
  - exists 0. fold (tables c). pose proof (emplace_tables_spec hash (tables c) 0 e) as S.
    pose proof (ci_wf _ H) as HW. pose proof (ci_ok _ H) as HO. unfold wtabs in HW, HO. rewrite E in HW, HO.
    specialize (S HW HO). destruct (emplace_tables hash (tables c) 0 e) as [[ts' r] v].
    destruct S as (W' & _ & Ne & _). destruct ts' as [|t' rs']; [congruence|].
    exists (mkC t' rs'). split; auto. split; auto. intros _. inversion W' as [|? ? Wt' _]; subst.
    unfold wtabs, tables, celems. simpl. rewrite (wf_nd _ _ Wt'). repeat split; auto. left; auto.
  - exists (bcount dummy_table). unfold tables. rewrite E1. cbn [emplace_tables]. rewrite dummy_templace.
    destruct (emplace_tables hash (rest c) (bcount dummy_table) e) as [[ts' r] v].
    exists (mkC dummy_table ts'). split; auto. split; auto. intros _.
    unfold wtabs, tables, celems. simpl. repeat split; auto. right; auto.
Qed.

Lemma cemplace_spec c e l : Ref c l ->
  match cemplace hash c e with
  | (c', r, v) =>
    match rfind l (fst e) with
    | Some x => c' = c /\ is_ins r = false /\ is_stuck r = false /\ v = Some x
    | None => Ref c' (l ++ [e]) /\ is_ins r = true /\ is_stuck r = false /\ v = Some e
    end
  end.
Proof.
  intros [H P]. destruct (cemplace_wtabs c e H) as (prev & S0).
  pose proof (emplace_tables_spec hash (wtabs c) prev e (ci_wf _ H) (ci_ok _ H)) as S.
  destruct (emplace_tables hash (wtabs c) prev e) as [[ts' r] v].
  destruct S0 as (c' & -> & Hh & Hc'). destruct S as (W & Ok & Ne & D). destruct (Hc' Ne) as (Ew & Tk & Ec).
  rewrite (celems_wtabs c (ci_head _ H)) in P.
  destruct D as [(Hin & E & (i & ->) & x & -> & Hx & Hk)|(Hnin & (i & ->) & -> & P2)].
  - assert (Hf : rfind l (fst e) = Some x).
    { rewrite <- Hk. apply rfind_in; [eapply ref_nodup; split; eauto; rewrite celems_wtabs; auto; apply (ci_head _ H)|].
      apply (Permutation_in _ P). auto. }
    rewrite Hf. simpl. repeat split; auto. subst ts'.
    destruct c as [hc rc], c' as [hc' rc']. unfold wtabs, tables in *. simpl in *.
    destruct (dummy hc) eqn:Dh.
    + subst hc'. rewrite Dh in Ew. subst. reflexivity.
    + destruct (dummy hc') eqn:Dh'.
      * simpl in Hh. subst hc'. congruence.
      * congruence.
  - assert (Hf : rfind l (fst e) = None).
    { apply rfind_none. intros Hin. apply Hnin. unfold keys.
      apply (Permutation_in _ (Permutation_map fst (Permutation_sym P))). auto. }
    rewrite Hf. simpl. split; [|auto].
    assert (PP : Permutation (celems c') (l ++ [e])).
    { rewrite Ec, P2. rewrite Permutation_app_comm. simpl. constructor. exact P. }
    split; auto. constructor; auto.
    + rewrite Ew. auto.
    + rewrite Ew. auto.
    + rewrite Ec. apply (Permutation_NoDup (Permutation_map fst (Permutation_sym P2))). simpl. constructor; auto.
      pose proof (ci_nd _ H) as ND. rewrite (celems_wtabs c (ci_head _ H)) in ND. exact ND.
Qed.

Lemma cfind_spec c l k : Ref c l -> cfind hash c k = rfind l k.
Proof.
  intros [H P]. rewrite (celems_wtabs c (ci_head _ H)) in P.
  assert (E : cfind hash c k = find_tables hash (wtabs c) k).
  { unfold cfind, wtabs. fold (tables c). destruct (tok_cases _ (ci_head _ H)) as [[_ E]|[E1 E]]; rewrite E; auto.
    unfold tables. rewrite E1. cbn [find_tables]. rewrite dummy_tfind. reflexivity. }
  rewrite E. pose proof (find_tables_spec hash (wtabs c) k (ci_wf _ H)) as S.
  pose proof (ci_nd _ H) as ND. rewrite (celems_wtabs c (ci_head _ H)) in ND.
  destruct (find_tables hash (wtabs c) k) as [x|].
  - destruct S as [Hin <-]. symmetry. apply rfind_in.
    + apply (Permutation_NoDup (Permutation_map fst P)). exact ND.
    + apply (Permutation_in _ P). auto.
  - symmetry. apply rfind_none. intros Hin. apply S. unfold keys.
    apply (Permutation_in _ (Permutation_map fst (Permutation_sym P))). auto.
Qed.

(* ---- size ---- *)
Lemma total_size_loop_spec ts : forall sum, Forall WF ts -> chain_ok ts -> ts <> [] ->
  total_size_loop ts sum = sum + Z.of_nat (length (flat_map titer ts)).
Proof.
  induction ts as [|t rs IH]; intros sum HW Hok Hne; [congruence|].
  inversion HW as [|? ? Wt Wrs]; subst. destruct Hok as [Hfull Hok]. destruct rs as [|t2 rs].
  - simpl. rewrite app_nil_r. unfold total_size_ret. rewrite (wf_cnt _ _ Wt). reflexivity.
  - change (total_size_loop (t :: t2 :: rs) sum) with (total_size_loop (t2 :: rs) (sum + total_size_inc (bcount t) (cnt t))).
    rewrite IH; auto; [|discriminate]. unfold total_size_inc. rewrite <- Hfull by discriminate.
    rewrite (wf_cnt _ _ Wt). change (flat_map titer (t :: t2 :: rs)) with (titer t ++ flat_map titer (t2 :: rs)).
    rewrite app_length. lia.
Qed.

(* total_size starts from the head's own element count *)
Lemma total_size_init_eq b s : total_size_init b s = s.
Proof. reflexivity. Qed.

Lemma csize_spec c : CInv c -> csize c = Z.of_nat (length (celems c)).
Proof.
  intros H. destruct (rest_wf c H) as [Wr Or]. pose proof (cnt_head c H) as Ch.
  unfold csize, celems, tables. destruct (rest c) as [|t2 rs] eqn:R.
  - simpl. rewrite app_nil_r. exact Ch.
  - rewrite total_size_loop_spec; auto; [|discriminate]. rewrite total_size_init_eq, Ch.
    change (flat_map titer (head c :: t2 :: rs)) with (titer (head c) ++ flat_map titer (t2 :: rs)).
    rewrite app_length. lia.
Qed.

(* ---- iteration ---- *)
(* begin() hands the successor of the table it stops in to the iterator, and walks node by node *)
Lemma begin_next_eq hn nn : begin_chained_next hn nn = nn /\ begin_loop_next hn nn = nn.
Proof. unfold begin_chained_next, begin_loop_next. lia. Qed.

Lemma begin_loop_spec c : forall fuel k,
  (length (rest c) - k < fuel)%nat -> (k < length (rest c))%nat ->
  begin_loop fuel c (Z.of_nat k + 1) = Some (flat_map titer (skipn k (rest c))).
Proof.
  induction fuel as [|f IH]; intros k Hf Hk; [lia|]. cbn [begin_loop].
  destruct (Z.of_nat k + 1 <=? 0) eqn:E0; [lia|].
  replace (Z.to_nat (Z.of_nat k + 1 - 1)) with k by lia.
  destruct (nth_error (rest c) k) as [t|] eqn:N; [|apply nth_error_None in N; lia].
  rewrite (skipn_nth_cons _ _ _ N). cbn [flat_map].
  destruct (begin_next_eq (head_next c) (node_next c (Z.of_nat k + 1))) as [-> ->].
  assert (Hw : walk c (node_next c (Z.of_nat k + 1)) = flat_map titer (skipn (S k) (rest c))).
  { unfold node_next, walk. destruct (Z.of_nat k + 1 <? Z.of_nat (length (rest c))) eqn:E.
    - destruct (Z.of_nat k + 1 + 1 <=? 0) eqn:E1; [lia|]. f_equal. f_equal. lia.
    - apply Z.ltb_ge in E. rewrite (@skipn_all2 _ (S k) (rest c)) by lia. reflexivity. }
  destruct (titer t) as [|x l] eqn:T.
  - cbn [app]. unfold node_next in *. destruct (Z.of_nat k + 1 <? Z.of_nat (length (rest c))) eqn:E.
    + apply Z.ltb_lt in E. replace (Z.of_nat k + 1 + 1) with (Z.of_nat (S k) + 1) by lia. apply IH; lia.
    + apply Z.ltb_ge in E. rewrite (@skipn_all2 _ (S k) (rest c)) by lia. destruct f; [lia|]. reflexivity.
  - rewrite Hw. reflexivity.
Qed.

Lemma citer_spec c : CInv c -> citer c = Some (celems c).
Proof.
  intros H. unfold citer, celems, tables. cbn [flat_map].
  destruct (titer (head c)) as [|x l] eqn:T.
  - cbn [app]. unfold head_next. destruct (rest c) as [|t rs] eqn:R.
    + reflexivity.
    + rewrite <- R. apply (begin_loop_spec c (S (length (rest c))) O); [lia|rewrite R; simpl; lia].
  - f_equal. f_equal. unfold walk, head_next. destruct (rest c); reflexivity.
Qed.

(* ---- single-table chains, clear, rebuilds ---- *)
Lemma single_cinv t : WF t -> CInv (mkC t []).
Proof.
  intros W. constructor; unfold celems, wtabs, tables; simpl; rewrite ?(wf_nd _ _ W).
  - left; auto.
  - constructor; auto.
  - split; [intros X; exfalso; apply X; reflexivity|exact I].
  - rewrite app_nil_r. apply (wf_nodup _ _ W).
Qed.

Lemma single_ref t l : WF t -> Permutation (titer t) l -> Ref (mkC t []) l.
Proof.
  intros W P. split; [apply single_cinv; auto|]. unfold celems, tables. simpl. rewrite app_nil_r. auto.
Qed.

Lemma fresh_ref m : Ref (mkC (fresh m) []) [].
Proof.
  destruct (fresh_wf hash m) as (W & T & _). apply single_ref; auto. rewrite T. constructor.
Qed.

Lemma dummy_ref : Ref (mkC dummy_table []) [].
Proof.
  split; [|constructor]. constructor; unfold celems, wtabs, tables; simpl.
  - right; auto.
  - constructor.
  - exact I.
  - constructor.
Qed.

Lemma new_chain_ref a : Ref (new_chain a) [].
Proof. destruct a; [apply fresh_ref|apply dummy_ref]. Qed.

Lemma head_single c l : Ref c l -> rest c = [] -> Permutation (titer (head c)) l.
Proof. intros [_ P] R. unfold celems, tables in P. rewrite R in P. simpl in P. rewrite app_nil_r in P. auto. Qed.

Lemma construct_dummy_ref m l : Permutation (titer dummy_table) l -> Ref (mkC (construct dummy_table m) []) l.
Proof.
  intros P. apply single_ref; [apply construct_wf; reflexivity|]. rewrite construct_titer. exact P.
Qed.

Lemma cclear_spec c : CInv c -> Ref (cclear c) [].
Proof.
  intros H. unfold cclear. destruct (rest c) eqn:R.
  - destruct (tok_cases _ (ci_head _ H)) as [[W _]|[E _]].
    + destruct (tclear_spec hash _ W) as (W' & T & _). apply single_ref; auto. rewrite T. constructor.
    + rewrite E. unfold tclear. simpl dummy. cbv iota. apply construct_dummy_ref. constructor.
  - apply fresh_ref.
Qed.

Lemma cfill_spec l : forall c l0, Ref c l0 -> Ref (cfill hash c l) (fold_left rins l l0).
Proof.
  induction l as [|e l IH]; intros c l0 R; simpl; auto.
  unfold cfill. simpl fold_left. fold (cfill hash (fst (fst (cemplace hash c e))) l).
  apply IH. pose proof (cemplace_spec c e l0 R) as S.
  destruct (cemplace hash c e) as [[c' r] v]. simpl fst. unfold rins.
  destruct (rfind l0 (fst e)).
  - destruct S as (-> & _). auto.
  - destruct S as (R' & _). auto.
Qed.

Lemma rebuild_ref c l m : Ref c l -> Ref (cfill hash (mkC (fresh m) []) (celems c)) l.
Proof.
  intros [H P]. pose proof (cfill_spec (celems c) _ _ (fresh_ref m)) as R.
  rewrite fold_rins_nodup in R by (simpl; apply (ci_nd _ H)). simpl in R.
  destruct R as [H' P']. split; auto. rewrite P'. auto.
Qed.

Lemma crehash_spec c l n : Ref c l -> Ref (crehash hash c n) l.
Proof.
  intros R0. pose proof R0 as [H P]. unfold crehash. destruct (rest c) eqn:R.
  - pose proof (head_single c l R0 R) as Ph. destruct (tok_cases _ (ci_head _ H)) as [[W _]|[E _]].
    + destruct (trehash_spec hash _ n W) as (W' & T). apply single_ref; auto. rewrite T. auto.
    + rewrite E in *. unfold trehash. simpl dummy. cbv iota. apply construct_dummy_ref. auto.
  - rewrite citer_spec by auto. apply rebuild_ref. auto.
Qed.

Lemma creserve_spec c l n : Ref c l -> Ref (creserve hash c n) l.
Proof.
  intros R0. pose proof R0 as [H P]. unfold creserve. destruct (rest c) eqn:R.
  - pose proof (head_single c l R0 R) as Ph. destruct (tok_cases _ (ci_head _ H)) as [[W _]|[E _]].
    + destruct (treserve_spec hash _ n W) as (W' & T). apply single_ref; auto. rewrite T. auto.
    + rewrite E in *. unfold treserve. simpl dummy. cbv iota. apply construct_dummy_ref. auto.
  - rewrite citer_spec by auto. apply rebuild_ref. auto.
Qed.

Lemma ccopy_spec c l : Ref c l -> Ref (ccopy hash c) l.
Proof.
  intros [H P]. unfold ccopy. rewrite citer_spec by auto.
  destruct (fresh_wf hash (chain_copy_arg (csize c))) as (W & T & L & C).
  destruct (refill_spec hash (celems c) _ W) as (W2 & P2 & _).
  - apply (ci_nd _ H).
  - intros e _. rewrite T. simpl. auto.
  - rewrite C. pose proof (csize_spec c H) as Q. unfold chain_copy_arg in *. unfold elem in *. lia.
  - apply single_ref; auto. rewrite P2, T. simpl. auto.
Qed.

(* ---- one step of a client program ---- *)
Definition Inv (s : state) (r : rstate) : Prop := Ref (fst s) (fst r) /\ Ref (snd s) (snd r).

Lemma step_ok s r o : Inv s r ->
  Inv (fst (step hash s o)) (fst (rstep r o)) /\ out_ok (snd (step hash s o)) (snd (rstep r o)).
Proof.
  destruct s as [a b], r as [la lb]. intros [Ra Rb]. simpl in Ra, Rb.
  destruct o; cbn [step rstep].
  - pose proof (cemplace_spec a (k, v) la Ra) as S. destruct (cemplace hash a (k, v)) as [[a' r] x].
    simpl fst in S. destruct (rfind la k) as [e0|].
    + destruct S as (-> & Hi & Hs & ->). simpl. unfold is_ins in Hi. unfold is_stuck in Hs.
      split; [split; auto|]. rewrite Hi, Hs. auto.
    + destruct S as (R' & Hi & Hs & ->). simpl. unfold is_ins in Hi. unfold is_stuck in Hs.
      split; [split; auto|]. rewrite Hi, Hs. auto.
  - simpl. split; [split; auto|]. apply cfind_spec; auto.
  - simpl. split; [split; auto|]. rewrite csize_spec by apply Ra. destruct Ra as [_ P].
    rewrite (Permutation_length P). reflexivity.
  - simpl. split; [split; auto|]. rewrite citer_spec by apply Ra. apply Ra.
  - simpl. split; auto. split; auto. apply cclear_spec, Ra.
  - simpl. split; auto. split; auto. apply creserve_spec; auto.
  - simpl. split; auto. split; auto. apply crehash_spec; auto.
  - simpl. split; auto. split; auto. apply ccopy_spec; auto.
  - simpl. split; auto. split; auto. apply ccopy_spec; auto.
  - simpl. split; auto. split; auto. apply cclear_spec, Ra.
  - simpl. split; auto. split; auto.
Qed.

Lemma run_ok ops : forall s r, Inv s r -> Forall2 out_ok (snd (run hash s ops)) (snd (rrun r ops)).
Proof.
  induction ops as [|o ops IH]; intros s r I; simpl; [constructor|].
  pose proof (step_ok s r o I) as [I' O].
  destruct (step hash s o) as [s1 x]. destruct (rstep r o) as [r1 y]. simpl in I', O.
  specialize (IH s1 r1 I'). destruct (run hash s1 ops) as [s2 xs]. destruct (rrun r1 ops) as [r2 ys].
  simpl in *. constructor; auto.
Qed.

(* every initial capacity, including the default-constructed container (None) *)
Theorem hs_refines_set a b ops : refines hash a b ops.
Proof.
  unfold refines. apply run_ok. split; simpl; apply new_chain_ref.
Qed.

End Chain2.

Definition hid (k : Z) : Z := k.

(* ================= the reference itself never holds a key twice ================= *)
Lemma rstep_nodup r o : NoDup (map fst (fst r)) /\ NoDup (map fst (snd r)) ->
  NoDup (map fst (fst (fst (rstep r o)))) /\ NoDup (map fst (snd (fst (rstep r o)))).
Proof.
  destruct r as [a b]. simpl. intros [Ha Hb]. destruct o; simpl; auto; try (split; auto; constructor).
  destruct (rfind a k) eqn:E; simpl; auto. split; auto.
  apply rfind_none in E. rewrite map_app. simpl.
  apply (Permutation_NoDup (l := k :: map fst a)); [|constructor; auto].
  rewrite Permutation_app_comm. reflexivity.
Qed.

Lemma rrun_nodup ops : forall r, NoDup (map fst (fst r)) /\ NoDup (map fst (snd r)) ->
  NoDup (map fst (fst (fst (rrun r ops)))) /\ NoDup (map fst (snd (fst (rrun r ops)))).
Proof.
  induction ops as [|o ops IH]; intros r H; simpl; auto.
  pose proof (rstep_nodup r o H) as H1. destruct (rstep r o) as [r1 y]. simpl in H1.
  specialize (IH r1 H1). destruct (rrun r1 ops) as [r2 ys]. simpl in *. auto.
Qed.

(* non-vacuity: the two chained tables of a 16-bucket container after 60 insertions *)
Lemma hs_example_chain :
  length (rest (fst (fst (run hid (init (Some 16) (Some 16)) (map (fun k => Emplace k 0) (zrange 60)))))) = 2%nat.
Proof. vm_compute. reflexivity. Qed.

(* the default-constructed container: 49 emplaces chain two tables behind the placeholder head;
   size() = 49 and iteration visits 49 elements *)
Definition fill49 : list op := map (fun k => Emplace k 0) (zrange 49).
Lemma hs_example_default :
  let s := fst (run hid (init None None) fill49) in
  dummy (head (fst s)) = true /\ length (rest (fst s)) = 2%nat /\ csize (fst s) = 49 /\
  exists l, citer (fst s) = Some l /\ length l = 49%nat.
Proof. vm_compute. repeat split. eexists. split; reflexivity. Qed.
