(* Proofs about HSModel. *)
From Coq Require Import ZArith List Bool Lia Permutation.
Require Import Verif.Gen.Gen_hash_table Verif.HS.HSModel.
Import ListNotations.
Local Open Scope Z_scope.

(* ---- what "the container behaves like the reference" means for one observation ---- *)
Definition out_ok (o : out) (r : rout) : Prop :=
  match o, r with
  | OEmplace ins x stuck, REmplace ins' e => ins = ins' /\ x = Some e /\ stuck = false
  | OFind x, RFind y => x = y
  | OSize n, RSize m => n = m
  | OIter (Some l), RIter l' => Permutation l l'
  | OUnit, RUnit => True
  | _, _ => False
  end.

Definition refines (hash : Z -> Z) (a b : option Z) (ops : list op) : Prop :=
  Forall2 out_ok (snd (run hash (init a b) ops)) (snd (rrun ([], []) ops)).

Definition hid (k : Z) : Z := k.

Lemma hs_default_size_refuted : exists ops, ~ refines hid None None ops.
Proof.
  exists [Emplace 1 0; Size]. unfold refines. vm_compute. intro H.
  inversion H as [|? ? ? ? _ H1]; subst. inversion H1 as [|? ? ? ? H2 _]; subst. discriminate H2.
Qed.
