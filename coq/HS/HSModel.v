(* Executable sequential model of babylon::ConcurrentFixedSwissTable and the
   ConcurrentTransientHashSet/Map chain built on it (src/babylon/concurrent/transient_hash_table.{h,hpp}).
   No proofs in this file.  Every index/mask/threshold/size formula comes from Gen_hash_table (regenerated
   from the source on every run); the control structure is hand-written and tied to the code by the
   correspondence run (harness/seq/c18_hash_table.cpp).

   Representation: the control bytes and the value slots of one table are total functions Z -> _
   (an "array" read at any offset); a control byte is a signed 8-bit value as Z (EMPTY = -128,
   DUMMY = -126, a 7-bit checker otherwise).  The mirror group behind the last bucket is part of ctrl
   (offsets bucket_count .. bucket_count+15), exactly as in the allocation.  An element is (key, mapped);
   sets use mapped = 0.  The hash function is a Section variable.  Pointers to chained nodes are
   positions: 0 = nullptr, i >= 1 = the i-th node behind _head. *)
From Coq Require Import ZArith List Bool.
Require Import Verif.Gen.Gen_hash_table.
Import ListNotations.
Local Open Scope Z_scope.

Definition elem := (Z * Z)%type.

Record table := mkT {
  dummy : bool;              (* _controls == Group::s_dummy_controls *)
  mask  : Z;                 (* _bucket_mask *)
  ctrl  : Z -> Z;            (* _controls[i] *)
  vals  : Z -> option elem;  (* _values[i]; None = raw storage *)
  cnt   : Z                  (* _size (ConcurrentAdder) *)
}.

Definition bcount (t : table) : Z := bucket_count_of_mask (mask t).

(* ConcurrentFixedSwissTable() *)
Definition dummy_table : table :=
  mkT true dummy_bucket_mask (fun _ => DUMMY_CONTROL) (fun _ => None) 0.

(* absl::bit_ceil *)
Definition bit_ceil (n : Z) : Z := if n <=? 1 then 1 else 2 ^ Z.log2_up n.

(* construct_with_bucket: fresh controls/values, _size untouched *)
Definition construct (old : table) (m : Z) : table :=
  mkT false (construct_mask (bit_ceil (construct_arg m))) (fun _ => EMPTY_CONTROL) (fun _ => None) (cnt old).

(* ConcurrentFixedSwissTable(size_t) *)
Definition fresh (m : Z) : table := construct dummy_table m.

Definition upd {A} (f : Z -> A) (i : Z) (x : A) : Z -> A := fun j => if j =? i then x else f j.

Definition zrange (n : Z) : list Z := map Z.of_nat (seq 0 (Z.to_nat n)).

(* the same array, with offsets 0 .. n-1 evaluated once (only matters for the running time of the extracted model) *)
Definition tabulate {A} (f : Z -> A) (n : Z) : Z -> A :=
  let l := map f (zrange n) in
  fun i => if (0 <=? i) && (i <? n)
           then match nth_error l (Z.to_nat i) with Some x => x | None => f i end
           else f i.
(* offsets inside one SIMD group, in GroupIterator order (ascending) *)
Definition offsets : list Z := zrange SIZE.

Definition key_at (t : table) (i key : Z) : bool :=
  match vals t i with Some e => fst e =? key | None => false end.

(* group.match(checker) followed by the key comparison loop; idxf = offset -> bucket index *)
Fixpoint match_offs (t : table) (key checker base : Z) (idxf : Z -> Z) (os : list Z) : option Z :=
  match os with
  | [] => None
  | o :: r => if (ctrl t (base + o) =? checker) && key_at t (idxf o) key then Some (idxf o)
              else match_offs t key checker base idxf r
  end.

(* group.match_empty(): first offset whose control byte has the sign bit *)
Definition first_empty (t : table) (base : Z) : option Z :=
  find (fun o => ctrl t (base + o) <? 0) offsets.

Inductive eres := EInserted (i : Z) | EExists (i : Z) | EFull | EStuck.

Section WithHash.
Variable hash : Z -> Z.

(* ---- ConcurrentFixedSwissTable::find ---- *)
Fixpoint find_loop (fuel : nat) (t : table) (key checker step base : Z) : option Z :=
  match fuel with
  | O => None
  | S f =>
    if find_loop_cond step (mask t) then
      match match_offs t key checker base (fun o => find_index base o (mask t)) offsets with
      | Some i => Some i
      | None =>
        match first_empty t base with
        | Some _ => None
        | None => let step' := step + find_step_inc in
                  find_loop f t key checker step' (find_next_base base step' (mask t))
        end
      end
    else None
  end.

Definition probe_fuel (t : table) : nat := S (Z.to_nat (bcount t)).

Definition tfind (t : table) (key : Z) : option Z :=
  let h := hash key in
  find_loop (probe_fuel t) t key (find_checker h) 0 (find_base0 h (mask t)).

(* ---- ConcurrentFixedSwissTable::do_emplace (sequential: the CAS sees what the group load saw
        unless the mirror is inconsistent) ---- *)
Fixpoint emp_loop (fuel : nat) (t : table) (e : elem) (checker step base : Z) : table * eres :=
  match fuel with
  | O => (t, EStuck)
  | S f =>
    if emp_loop_cond step (mask t) then
      match match_offs t (fst e) checker base (fun o => emp_match_index base o (mask t)) offsets with
      | Some i => (t, EExists i)
      | None =>
        match first_empty t base with
        | Some o =>
          let index := emp_insert_index base o (mask t) in
          let cloned := emp_cloned_index index (mask t) in
          let c := ctrl t index in
          if c =? EMPTY_CONTROL then
            (mkT (dummy t) (mask t) (upd (upd (ctrl t) index checker) cloned checker)
                 (upd (vals t) index (Some e)) (cnt t + 1), EInserted index)
          else if c =? DUMMY_CONTROL then (t, EFull)
          else (t, EStuck)
        | None => let step' := step + emp_step_inc in
                  emp_loop f t e checker step' (emp_next_base base step' (mask t))
        end
      end
    else (t, EFull)
  end.

Definition templace (t : table) (e : elem) : table * eres :=
  let h := hash (fst e) in
  emp_loop (probe_fuel t) t e (emp_checker h) 0 (emp_base0 h (mask t)).

(* ---- iteration of one table: begin / operator++ walk the aligned groups in index order ---- *)
Definition titer (t : table) : list elem :=
  flat_map (fun i => if 0 <=? ctrl t i
                     then match vals t i with Some e => [e] | None => [(-1, -1)] end
                     else []) (zrange (bcount t)).

(* ---- clear ---- *)
Definition group_nonempty (t : table) (g : Z) : bool := existsb (fun o => 0 <=? ctrl t (g + o)) offsets.

Definition clear_ctrl (t : table) : Z -> Z := fun i =>
  let B := bcount t in
  let m := clear_mirror_at B in
  if (m <=? i) && (i <? m + SIZE) then EMPTY_CONTROL
  else if (0 <=? i) && (i <? B)
       then (if group_nonempty t (i - i mod clear_group_step) then EMPTY_CONTROL else ctrl t i)
       else ctrl t i.

Definition tclear (t : table) : table :=
  if dummy t then construct t clear_dummy_arg
  else if cnt t =? 0 then t
  else mkT false (mask t) (tabulate (clear_ctrl t) (bcount t + 2 * SIZE))
           (tabulate (fun i => if (0 <=? i) && (i <? bcount t) && (0 <=? ctrl t i) then None else vals t i) (bcount t)) 0.

(* `for (auto& value : saved_table) emplace(std::move(value));` - results ignored *)
Definition refill (t : table) (l : list elem) : table := fold_left (fun acc e => fst (templace acc e)) l t.

Definition trehash (t : table) (n : Z) : table :=
  if dummy t then construct t (rehash_dummy_arg n)
  else let nb := bit_ceil (rehash_ceil_arg n) in
       if rehash_same nb (bcount t) then t
       else refill (fresh (rehash_arg nb (cnt t))) (titer t).

Definition treserve (t : table) (n : Z) : table :=
  if dummy t then construct t (reserve_dummy_arg n)
  else if reserve_grows n (bcount t) then refill (fresh (reserve_arg n)) (titer t)
  else t.

(* ================= ConcurrentTransientHashSet ================= *)
Record chain := mkC { head : table; rest : list table }.

Definition new_chain (n : option Z) : chain :=
  match n with None => mkC dummy_table [] | Some m => mkC (fresh m) [] end.

Definition deref (t : table) (r : eres) : option elem :=
  match r with EInserted i | EExists i => vals t i | _ => None end.

(* emplace: walk the chain, append a table of twice the last capacity when every table is full *)
Fixpoint emplace_tables (ts : list table) (prev_bc : Z) (e : elem) : list table * eres * option elem :=
  match ts with
  | [] => let '(nt, r) := templace (fresh (chain_new_node_arg prev_bc)) e in
          ([nt], match r with EFull => EStuck | _ => r end, deref nt r)
  | t :: rs =>
    let '(t', r) := templace t e in
    match r with
    | EFull => let '(rs', r', v) := emplace_tables rs (bcount t) e in (t' :: rs', r', v)
    | _ => (t' :: rs, r, deref t' r)
    end
  end.

Definition cemplace (c : chain) (e : elem) : chain * eres * option elem :=
  let '(ts, r, v) := emplace_tables (head c :: rest c) 0 e in
  match ts with t :: rs => (mkC t rs, r, v) | [] => (c, r, v) end.

Fixpoint find_tables (ts : list table) (key : Z) : option elem :=
  match ts with
  | [] => None
  | t :: r => match tfind t key with Some i => vals t i | None => find_tables r key end
  end.

Definition cfind (c : chain) (key : Z) : option elem := find_tables (head c :: rest c) key.

(* total_size(node): the loop over the chained nodes *)
Fixpoint total_size_loop (ts : list table) (sum : Z) : Z :=
  match ts with
  | [] => sum
  | [t] => total_size_ret sum (bcount t) (cnt t)
  | t :: r => total_size_loop r (sum + total_size_inc (bcount t) (cnt t))
  end.

Definition csize (c : chain) : Z :=
  match rest c with
  | [] => cnt (head c)
  | ts => total_size_loop ts (total_size_init (bcount (head c)) (cnt (head c)))
  end.

(* node pointers *)
Definition head_next (c : chain) : Z := match rest c with [] => 0 | _ => 1 end.
Definition node_next (c : chain) (i : Z) : Z := if i <? Z.of_nat (length (rest c)) then i + 1 else 0.

(* Iterator::operator++ once the current table is exhausted: visit node n and everything behind it *)
Definition walk (c : chain) (n : Z) : list elem :=
  if n <=? 0 then [] else flat_map titer (skipn (Z.to_nat (n - 1)) (rest c)).

(* the `while (node != nullptr)` loop of ConcurrentTransientHashSet::begin; None = does not terminate *)
Fixpoint begin_loop (fuel : nat) (c : chain) (node : Z) : option (list elem) :=
  match fuel with
  | O => None
  | S f =>
    if node <=? 0 then Some []
    else match nth_error (rest c) (Z.to_nat (node - 1)) with
         | None => Some []
         | Some t =>
           match titer t with
           | (_ :: _) as l => Some (l ++ walk c (begin_chained_next (head_next c) (node_next c node)))
           | [] => begin_loop f c (begin_loop_next (head_next c) (node_next c node))
           end
         end
  end.

(* for (auto& v : set): begin() then ++ until end() *)
Definition citer (c : chain) : option (list elem) :=
  match titer (head c) with
  | (_ :: _) as l => Some (l ++ walk c (head_next c))
  | [] => begin_loop (S (length (rest c))) c (head_next c)
  end.

Definition cclear (c : chain) : chain :=
  match rest c with
  | [] => mkC (tclear (head c)) []
  | _ => mkC (fresh (chain_clear_arg (csize c))) []
  end.

Definition cfill (c : chain) (l : list elem) : chain := fold_left (fun acc e => fst (fst (cemplace acc e))) l c.

Definition crehash (c : chain) (n : Z) : chain :=
  match rest c with
  | [] => mkC (trehash (head c) n) []
  | _ => match citer c with
         | Some l => cfill (mkC (fresh (chain_rehash_arg (csize c) n)) []) l
         | None => c
         end
  end.

Definition creserve (c : chain) (n : Z) : chain :=
  match rest c with
  | [] => mkC (treserve (head c) n) []
  | _ => match citer c with
         | Some l => cfill (mkC (fresh (chain_reserve_arg (csize c) n)) []) l
         | None => c
         end
  end.

(* copy constructor: one table sized by other.size(), filled through _head.table.emplace *)
Definition ccopy (c : chain) : chain :=
  match citer c with
  | Some l => mkC (refill (fresh (chain_copy_arg (csize c))) l) []
  | None => c
  end.

(* ================= client programs over two containers A (operated on) and B ================= *)
Inductive op :=
| Emplace (k v : Z) | Find (k : Z) | Size | Iterate | Clear | Reserve (n : Z) | Rehash (n : Z)
| CopyAB    (* B = A            (copy assignment: copy-construct + swap) *)
| CopyBA    (* A = B *)
| MoveBA    (* A = std::move(B); B.clear() *)
| Swap.     (* A.swap(B) *)

Inductive out :=
| OEmplace (inserted : bool) (at_iter : option elem) (stuck : bool)
| OFind (r : option elem)
| OSize (n : Z)
| OIter (l : option (list elem))
| OUnit.

Definition state := (chain * chain)%type.

Definition init (a b : option Z) : state := (new_chain a, new_chain b).

Definition step (s : state) (o : op) : state * out :=
  let '(a, b) := s in
  match o with
  | Emplace k v => let '(a', r, x) := cemplace a (k, v) in
                   ((a', b), OEmplace (match r with EInserted _ => true | _ => false end) x
                                      (match r with EStuck => true | _ => false end))
  | Find k => (s, OFind (cfind a k))
  | Size => (s, OSize (csize a))
  | Iterate => (s, OIter (citer a))
  | Clear => ((cclear a, b), OUnit)
  | Reserve n => ((creserve a n, b), OUnit)
  | Rehash n => ((crehash a n, b), OUnit)
  | CopyAB => ((a, ccopy a), OUnit)
  | CopyBA => ((ccopy b, b), OUnit)
  | MoveBA => ((b, cclear a), OUnit)
  | Swap => ((b, a), OUnit)
  end.

Fixpoint run (s : state) (ops : list op) : state * list out :=
  match ops with
  | [] => (s, [])
  | o :: r => let '(s1, x) := step s o in let '(s2, xs) := run s1 r in (s2, x :: xs)
  end.

End WithHash.

(* ================= reference: insertion-ordered association list, first insertion wins ================= *)
Definition rfind (l : list elem) (k : Z) : option elem := find (fun e => fst e =? k) l.
Definition rins (l : list elem) (e : elem) : list elem :=
  match rfind l (fst e) with Some _ => l | None => l ++ [e] end.

Definition rstate := (list elem * list elem)%type.

Inductive rout :=
| REmplace (inserted : bool) (at_iter : elem) | RFind (r : option elem) | RSize (n : Z)
| RIter (l : list elem) | RUnit.

Definition rstep (s : rstate) (o : op) : rstate * rout :=
  let '(a, b) := s in
  match o with
  | Emplace k v => match rfind a k with
                   | Some e => (s, REmplace false e)
                   | None => ((a ++ [(k, v)], b), REmplace true (k, v))
                   end
  | Find k => (s, RFind (rfind a k))
  | Size => (s, RSize (Z.of_nat (length a)))
  | Iterate => (s, RIter a)
  | Clear => (([], b), RUnit)
  | Reserve _ | Rehash _ => (s, RUnit)
  | CopyAB => ((a, a), RUnit)
  | CopyBA => ((b, b), RUnit)
  | MoveBA => ((b, []), RUnit)
  | Swap => ((b, a), RUnit)
  end.

Fixpoint rrun (s : rstate) (ops : list op) : rstate * list rout :=
  match ops with
  | [] => (s, [])
  | o :: r => let '(s1, x) := rstep s o in let '(s2, xs) := rrun s1 r in (s2, x :: xs)
  end.
