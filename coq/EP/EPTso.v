(* Proofs about the TSO skeleton (EPTsoModel.v): with the entry fence no schedule (flushes included) is bad;
   without it a bad schedule exists. *)
From Coq Require Import List Bool Arith.
Require Import Verif.Base.Atomics Verif.Gen.Gen_epoch Verif.Conc.Machine Verif.EP.EPTsoModel.
Import ListNotations.

(* is the entry fence there, after the slot store, and seq_cst?  (regenerated site table of Epoch::lock(size_t)) *)
Definition entry_fence : bool :=
  match sites_lock with
  | [(KLoad, _, _); (KStore, _, _); (KFence, o, _)] => is_seq_cst o
  | _ => false
  end.

Definition loc_eq_dec : forall a b : loc, {a = b} + {a <> b}.
Proof. decide equality. Defined.
Definition tso_eq_dec : forall a b : tso, {a = b} + {a <> b}.
Proof. repeat decide equality. Defined.
Definition memb (s : tso) (l : list tso) : bool := if in_dec tso_eq_dec s l then true else false.
Lemma memb_In : forall s l, memb s l = true -> In s l.
Proof. intros s l H. unfold memb in H. destruct (in_dec tso_eq_dec s l); [assumption | discriminate]. Qed.

Definition actors : list nat := [0; 1; 2; 3].
Definition succs (f : bool) (s : tso) : list tso :=
  flat_map (fun a => match tso_step f s a with Some s' => [s'] | None => [] end) actors.
Definition add_new (seen : list tso) (xs : list tso) : list tso :=
  fold_left (fun acc x => if memb x acc then acc else acc ++ [x]) xs seen.
Fixpoint grow (f : bool) (fuel : nat) (seen : list tso) : list tso :=
  match fuel with
  | 0 => seen
  | S k => grow f k (add_new seen (flat_map (succs f) seen))
  end.
Definition closedb (f : bool) (L : list tso) : bool :=
  forallb (fun s => forallb (fun a => match tso_step f s a with Some s' => memb s' L | None => true end) actors) L.

Definition states_fenced : list tso := grow entry_fence 12 [tso_init].

Lemma closed_fenced : closedb entry_fence states_fenced = true.
Proof. vm_compute. reflexivity. Qed.
Lemma good_fenced : forallb (fun s => negb (tso_bad s)) states_fenced = true.
Proof. vm_compute. reflexivity. Qed.
Lemma init_fenced : In tso_init states_fenced.
Proof. apply memb_In. vm_compute. reflexivity. Qed.

Lemma closed_step : forall f L, closedb f L = true -> forall s a s', In s L -> tso_step f s a = Some s' -> In s' L.
Proof.
  intros f L Hc s a s' Hin Hs. unfold closedb in Hc. rewrite forallb_forall in Hc. specialize (Hc s Hin).
  rewrite forallb_forall in Hc.
  destruct a as [|[|[|[|a]]]]; try (cbn in Hs; discriminate Hs).
  all: match goal with H : tso_step _ _ ?k = Some _ |- _ =>
         assert (Ha : In k actors) by (cbn; tauto); specialize (Hc k Ha); rewrite H in Hc; apply memb_In; exact Hc end.
Qed.

Lemma tso_fence_safe : forall sch, tso_bad (run tso (tso_step entry_fence) tso_init sch) = false.
Proof.
  intro sch.
  assert (Hin : In (run tso (tso_step entry_fence) tso_init sch) states_fenced).
  { apply (inv_run tso (tso_step entry_fence) (fun s => In s states_fenced)); [|exact init_fenced].
    intros s t s' Hs Hst. eapply closed_step; [exact closed_fenced | exact Hs | exact Hst]. }
  pose proof good_fenced as Hg. rewrite forallb_forall in Hg. specialize (Hg _ Hin).
  destruct (tso_bad _); [discriminate | reflexivity].
Qed.

(* without the fence: reader load version, store slot (stays in its buffer), load cell (old); writer store cell,
   flush, tick, load slot (idle): both miss each other *)
Lemma tso_nofence_refuted : exists sch, tso_bad (run tso (tso_step false) tso_init sch) = true.
Proof. exists [0; 0; 0; 0; 1; 3; 1; 1]. vm_compute. reflexivity. Qed.

(* non-vacuity: with the fence the machine does reach states where both sides have finished *)
Lemma tso_fence_finishes : exists sch, let s := run tso (tso_step entry_fence) tso_init sch in pc_r s = 4 /\ pc_w s = 3.
Proof. exists [0; 0; 2; 0; 0; 1; 3; 1; 1]. vm_compute. split; reflexivity. Qed.
