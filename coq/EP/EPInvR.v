(* EP: invariant R (lock_times = client depth while no Accessor was released locked) *)
From Coq Require Import ZArith List Bool Lia Arith PeanoNat.
Require Import Verif.Base.Atomics Verif.Gen.Gen_epoch Verif.Conc.Machine Verif.EP.EPModel Verif.EP.EPBase Verif.EP.EPInvA Verif.EP.EPInvB.
Import ListNotations.
Local Open Scope Z_scope.

(* R: lock_times of a slot is exactly the client's depth of the accessor bound to it; a slot bound to no accessor
   (never allocated, on the free list, or just allocated and not yet bound) has lock_times = 0 *)
Definition InvR (s : st) : Prop :=
  (forall h i, hidx (get_h s h) = Some i -> lt (get_slot s i) = hdepth (get_h s h)) /\
  (forall i, (forall h, hidx (get_h s h) <> Some i) -> lt (get_slot s i) = 0).

Lemma unbound_transfer : forall l h0 x i, (forall h, hidx (getn handle0 (setn handle0 h0 x l) h) <> Some i) ->
  hidx (getn handle0 l h0) <> Some i -> forall h, hidx (getn handle0 l h) <> Some i.
Proof.
  intros l h0 x i H H0 h. destruct (Nat.eq_dec h0 h) as [<-|Hne]; [assumption|].
  specialize (H h). rewrite getn_setn_other in H by assumption. exact H.
Qed.

Lemma stepR1 : forall s t s', InvA s -> InvB s -> InvR s -> step s t = Some s' ->
  forall h i, hidx (get_h s' h) = Some i -> lt (get_slot s' i) = hdepth (get_h s' h).
Proof.
  intros s t s' IA IB [R1 R2] H. pose proof (a_inj _ IA) as Hinj.
  step_cases H; bfacts IA IB Hth Hpc; specs; prepb; intros hq ix Hx; simp; gs; try (apply R1; assumption); try congruence.
  all: try (injection Hx as <-).
  all: try reflexivity.
  all: try (rewrite (R1 _ _ Hx); lia).
  all: try (exfalso; match goal with Hn : ?a <> ?b |- _ => apply Hn; eapply Hinj; eauto; fail end).
  all: try (apply R2; assumption).
Qed.

Lemma stepR2 : forall s t s', InvA s -> InvB s -> InvR s -> step s t = Some s' ->
  forall i, (forall h, hidx (get_h s' h) <> Some i) -> lt (get_slot s' i) = 0.
Proof.
  intros s t s' IA IB [R1 R2] H.
  step_cases H; bfacts IA IB Hth Hpc; specs; prepb; intros ix Hq; simp; gs; try (apply R2; assumption).
  (* the stepping thread's handle stays bound to the modified slot: the premise is false *)
  all: try (exfalso; match goal with Hi : hidx (getn handle0 (handles _) ?h0) = Some ?n |- _ =>
              specialize (Hq h0); rewrite getn_setn_same in Hq; simp; congruence end).
  all: try (exfalso; match goal with Hi : hidx (getn handle0 (handles _) ?h0) = Some ?n |- _ =>
              specialize (Hq h0); congruence end).
  (* deallocate: the slot that becomes unbound has lock_times = 0 *)
  all: try (match goal with Hi : hidx (getn handle0 (handles _) ?h0) = Some ?n |- lt (getn slot0 _ ?k) = 0 =>
              destruct (Nat.eq_dec n k) as [<-|Hnk]; [exact Rf0 | apply R2; eapply unbound_transfer; [exact Hq | rewrite Hi; congruence]] end; fail).
  (* otherwise the slot was unbound before as well *)
  all: try (apply R2; eapply unbound_transfer; [exact Hq | congruence]).
  all: try (apply R2; eapply unbound_transfer; [exact Hq | rewrite Hcr_none; discriminate]; fail).
  all: apply R2; eapply unbound_transfer; [exact Hq | match goal with |- hidx (getn handle0 _ ?h0) <> _ =>
         let Hq0 := fresh in pose proof (Hq h0) as Hq0; rewrite getn_setn_same in Hq0; exact Hq0 end].
Qed.

Lemma InvR_step : forall s t s', InvA s -> InvB s -> InvR s -> step s t = Some s' -> InvR s'.
Proof. intros s t s' IA IB IR H. split; [eapply stepR1; eauto | eapply stepR2; eauto]. Qed.
