(* EP: list/array lemmas, case analysis tactics, invariant A (allocator, handles, ownership) - definitions *)
From Coq Require Import ZArith List Bool Lia Arith PeanoNat.
Require Import Verif.Base.Atomics Verif.Gen.Gen_epoch Verif.Conc.Machine Verif.EP.EPModel.
Import ListNotations.
Local Open Scope Z_scope.

(* ---- unbounded arrays / thread list ---- *)
Lemma getn_setn_same : forall A (d : A) i x l, getn d (setn d i x l) i = x.
Proof. unfold getn. induction i as [|i IH]; intros x [|y l]; cbn; auto. Qed.
Lemma getn_setn_other : forall A (d : A) i j x l, i <> j -> getn d (setn d i x l) j = getn d l j.
Proof.
  unfold getn. induction i as [|i IH]; intros [|j] x [|y l] H; cbn; try congruence; auto.
  - destruct j; reflexivity.
  - rewrite IH by congruence. destruct j; reflexivity.
Qed.
Lemma nth_error_set_nth_eq : forall A (l : list A) t x y, nth_error l t = Some y -> nth_error (set_nth t x l) t = Some x.
Proof. induction l as [|a l IH]; intros [|t] x y H; cbn in *; try discriminate; eauto. Qed.
Lemma nth_error_set_nth_neq : forall A (l : list A) t t' x, t' <> t -> nth_error (set_nth t x l) t' = nth_error l t'.
Proof. induction l as [|a l IH]; intros [|t] [|t'] x H; cbn in *; try reflexivity; try congruence. apply IH. congruence. Qed.

Definition thr (s : st) (t : nat) (th : thread) : Prop := nth_error (threads s) t = Some th.

Lemma thr_upd : forall l t (th0 th1 : thread) t' th', nth_error l t = Some th0 ->
  nth_error (set_nth t th1 l) t' = Some th' -> (t' = t /\ th' = th1) \/ (t' <> t /\ nth_error l t' = Some th').
Proof.
  intros l t th0 th1 t' th' H0 H. destruct (Nat.eq_dec t' t) as [->|Hne].
  - rewrite (nth_error_set_nth_eq _ _ _ _ _ H0) in H. injection H as <-. left; auto.
  - rewrite nth_error_set_nth_neq in H by assumption. right; auto.
Qed.

(* ---- case analysis of one step ---- *)
Ltac split_H H :=
  repeat match type of H with
  | context [if ?c then _ else _] => destruct c eqn:?
  | context [match ?x with _ => _ end] => destruct x eqn:?
  end.

Ltac step_cases H :=
  unfold step in H;
  match type of H with context [nth_error (threads ?s) ?t] =>
    let th := fresh "th" in let Hth := fresh "Hth" in
    destruct (nth_error (threads s) t) as [th|] eqn:Hth; [|discriminate H];
    unfold step_thread in H;
    let Hpc := fresh "Hpc" in
    destruct (tpc th) eqn:Hpc;
    [ let o := fresh "o" in let Hop := fresh "Hop" in
      destruct (nth_error (prog th) (opi th)) as [o|] eqn:Hop; [|discriminate H];
      destruct o; unfold begin_op, alloc, skip in H
    | .. ];
    unfold enter_scan, decide in H; cbv zeta in H; split_H H; try discriminate H; injection H as <-
  end.

Ltac simp :=
  unfold get_slot, get_h, put_slot, put_h, upd_thread, set_threads, set_handles, set_slots, set_alloc, set_vsize,
         set_gver, set_cell, set_freed, set_uaf, finish, goto, with_retired,
         h_bind, h_unbind, h_drop, h_give, h_enter, h_leave, h_hold in *;
  cbn [tl ext gver cell nobj freed uaf slots vsize anext afree handles threads
       prog opi tpc results retired ver lt hidx howner hdepth hheld] in *.

Ltac gs1 :=
  match goal with
  | |- context [getn ?d (setn ?d ?i ?x ?l) ?j] =>
    let e := fresh "e" in
    destruct (Nat.eq_dec i j) as [e|?];
    [ first [ subst j | try rewrite <- e in * ]; rewrite ?getn_setn_same in * | rewrite ?(getn_setn_other _ d i j) in * by assumption ]
  | H : context [getn ?d (setn ?d ?i ?x ?l) ?j] |- _ =>
    let e := fresh "e" in
    destruct (Nat.eq_dec i j) as [e|?];
    [ first [ subst j | try rewrite <- e in * ]; rewrite ?getn_setn_same in * | rewrite ?(getn_setn_other _ d i j) in * by assumption ]
  end.
Ltac gs := repeat (gs1; simp).

Ltac thr_cases Hth H :=
  let Hne := fresh "Hne" in let Hn := fresh "Hn" in
  pose proof (thr_upd _ _ _ _ _ _ Hth H) as Hn; clear H;
  destruct Hn as [[-> ->]|[Hne H]]; simp.

(* guards *)
Lemma mine_true : forall s t h, mine s t h = true -> howner (get_h s h) = t.
Proof. intros s t h H. unfold mine in H. apply Nat.eqb_eq in H. exact H. Qed.
Lemma inside_true : forall s t h, inside s t h = true -> howner (get_h s h) = t /\ 1 <= hdepth (get_h s h).
Proof. intros s t h H. unfold inside in H. apply andb_true_iff in H. destruct H as [H1 H2]. split; [apply mine_true; exact H1 | apply Z.leb_le; exact H2]. Qed.

(* ======================================================================================== *)
(* A: allocator, handles, ownership                                                          *)
(* ======================================================================================== *)
Definition pc_bound (p : pc) : option (nat * nat) :=
  match p with LkLoad h i | LkStore h i _ | LkFence h i | UlStore h i | RlStore h i | RlFree h i => Some (h, i) | _ => None end.

Record InvA (s : st) : Prop := {
  a_inj : forall h h' i, hidx (get_h s h) = Some i -> hidx (get_h s h') = Some i -> h = h';
  a_rng : forall h i, hidx (get_h s h) = Some i -> (i < anext s)%nat /\ (i < vsize s)%nat /\ ~ In i (afree s);
  a_nodup : NoDup (afree s);
  a_free : forall x, In x (afree s) -> (x < anext s)%nat;
  a_cr : forall t th h i, thr s t th -> tpc th = CrEnsure h i ->
         (i < anext s)%nat /\ ~ In i (afree s) /\ (forall h', hidx (get_h s h') <> Some i) /\
         howner (get_h s h) = t /\ hidx (get_h s h) = None;
  a_cr2 : forall t th h i t' th' h', thr s t th -> thr s t' th' -> tpc th = CrEnsure h i -> tpc th' = CrEnsure h' i -> t = t';
  a_own : forall t th h i, thr s t th -> pc_bound (tpc th) = Some (h, i) -> howner (get_h s h) = t /\ hidx (get_h s h) = Some i;
  a_none : forall h, hidx (get_h s h) = None -> hdepth (get_h s h) = 0 /\ hheld (get_h s h) = None
}.

Lemma ensured_size_gt : forall i, (i < ensured_size i)%nat.
Proof.
  intro i. unfold ensured_size, snapshot_size, ensure_blocks, create_ensure.
  assert (Hb : 0 < CV_BLOCK) by (vm_compute; reflexivity).
  assert (Hp : 2 ^ Z.log2 CV_BLOCK = CV_BLOCK) by (vm_compute; reflexivity).
  assert (Hl : 0 <= Z.log2 CV_BLOCK) by apply Z.log2_nonneg.
  rewrite Z.shiftl_mul_pow2 by exact Hl. rewrite Hp.
  pose proof (Z.div_mod (Z.of_nat i) CV_BLOCK ltac:(lia)) as Hd.
  pose proof (Z.mod_pos_bound (Z.of_nat i) CV_BLOCK Hb) as Hm.
  assert (0 <= Z.of_nat i / CV_BLOCK) by (apply Z.div_pos; lia).
  nia.
Qed.
