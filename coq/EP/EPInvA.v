(* EP: invariant A is preserved by every step *)
From Coq Require Import ZArith List Bool Lia Arith PeanoNat.
Require Import Verif.Base.Atomics Verif.Gen.Gen_epoch Verif.Conc.Machine Verif.EP.EPModel Verif.EP.EPBase.
Import ListNotations.
Local Open Scope Z_scope.

Ltac prep :=
  repeat match goal with
  | H : (_ && _) = true |- _ => apply andb_true_iff in H; destruct H
  | H : mine _ _ _ = true |- _ => apply mine_true in H
  | H : inside _ _ _ = true |- _ => apply inside_true in H; destruct H
  | H : negb _ = true |- _ => apply negb_true_iff in H
  end.

(* facts about the stepping thread's own pc *)
Ltac pcfacts IA Hth Hpc :=
  try (pose proof (a_cr _ IA _ _ _ _ Hth Hpc) as (Hcr_lt & Hcr_nin & Hcr_no & Hcr_own & Hcr_none));
  try (pose proof (a_own _ IA _ _ _ _ Hth ltac:(rewrite Hpc; reflexivity)) as (Hown_o & Hown_i)).

Lemma stepA_inj : forall s t s', InvA s -> step s t = Some s' ->
  forall h h' i, hidx (get_h s' h) = Some i -> hidx (get_h s' h') = Some i -> h = h'.
Proof.
  intros s t s' IA H. pose proof (a_inj _ IA) as Hinj.
  step_cases H; pcfacts IA Hth Hpc; intros ha hb ix H1 H2; simp; gs; try congruence; try solve [eapply Hinj; eauto].
  all: exfalso; first [injection H1 as <- | injection H2 as <-]; eapply Hcr_no; eauto.
Qed.


Ltac rw_afree := try match goal with H : afree ?s = _ |- _ => rewrite H in * end.

Lemma stepA_rng : forall s t s', InvA s -> step s t = Some s' ->
  forall h i, hidx (get_h s' h) = Some i -> (i < anext s')%nat /\ (i < vsize s')%nat /\ ~ In i (afree s').
Proof.
  intros s t s' IA H. pose proof (a_inj _ IA) as Hinj. pose proof (a_rng _ IA) as Hrng.
  step_cases H; pcfacts IA Hth Hpc; prep; intros ha ix Hx1; simp; gs; try congruence; try solve [eapply Hrng; eauto].
  all: try (injection Hx1 as <-).
  all: try (destruct (Hrng _ _ Hx1) as (Hr1 & Hr2 & Hr3)).
  all: try rw_afree.
  all: try (match goal with |- context [ensured_size ?i] => pose proof (ensured_size_gt i) as Hes end).
  all: repeat split; try lia; try assumption; try (intros []; fail).
  all: try (intro Hin; apply Hr3; right; exact Hin).
  intros [->|Hin]; [|auto]. match goal with n : _ <> ha |- _ => apply n end. eapply Hinj; eauto.
Qed.

Lemma stepA_nodup : forall s t s', InvA s -> step s t = Some s' -> NoDup (afree s').
Proof.
  intros s t s' IA H. pose proof (a_nodup _ IA) as Hnd. pose proof (a_rng _ IA) as Hrng.
  step_cases H; pcfacts IA Hth Hpc; simp; try assumption; try constructor.
  all: try (rw_afree; inversion Hnd; assumption).
  all: try (match goal with Hi : hidx _ = Some ?n |- ~ In ?n _ => apply (Hrng _ _ Hi) end).
  all: try assumption.
Qed.

Lemma stepA_free : forall s t s', InvA s -> step s t = Some s' -> forall x, In x (afree s') -> (x < anext s')%nat.
Proof.
  intros s t s' IA H. pose proof (a_free _ IA) as Hfr. pose proof (a_rng _ IA) as Hrng.
  step_cases H; pcfacts IA Hth Hpc; simp; intros x Hx; try (apply Hfr; exact Hx); try (destruct Hx; fail).
  all: try (rw_afree; apply Hfr; right; exact Hx).
  destruct Hx as [<-|Hx]; [|apply Hfr; exact Hx].
  match goal with Hi : hidx _ = Some ?n |- _ => apply (Hrng _ _ Hi) end.
Qed.

Lemma stepA_cr : forall s t s', InvA s -> step s t = Some s' ->
  forall t' th' h i, thr s' t' th' -> tpc th' = CrEnsure h i ->
    (i < anext s')%nat /\ ~ In i (afree s') /\ (forall h', hidx (get_h s' h') <> Some i) /\
    howner (get_h s' h) = t' /\ hidx (get_h s' h) = None.
Proof.
  intros s t s' IA H. pose proof (a_rng _ IA) as Hrng. pose proof (a_free _ IA) as Hfr. pose proof (a_nodup _ IA) as Hnd.
  pose proof (a_cr2 _ IA) as Hcr2.
  step_cases H; pcfacts IA Hth Hpc; prep; intros t' th' hc ic Ht' Hpc'; unfold thr in Ht'; simp; thr_cases Hth Ht';
    try discriminate Hpc'.
  (* other threads: old facts + frame *)
  all: try (destruct (a_cr _ IA _ _ _ _ Ht' Hpc') as (C1 & C2 & C3 & C4 & C5); simp; rw_afree;
            repeat split; [ try lia | try assumption | intros hq; gs; try apply C3; try congruence | gs; try congruence | gs; try congruence ]).
  all: try (injection Hpc' as <- <-).
  all: try (repeat split;
        [ first [lia | apply Hfr; left; reflexivity]
        | first [intros [] | inversion Hnd; assumption]
        | intros hq Hq; destruct (Hrng _ _ Hq) as (R1 & R2 & R3); first [lia | apply R3; left; reflexivity]
        | assumption
        | first [assumption | destruct (hidx _); [discriminate | reflexivity]] ]; fail).
  all: try (intro Hin; apply C2; right; exact Hin).
  all: try (intros [->|Hin]; [eapply C3; eauto | auto]; fail).
  all: intro E; injection E as ->; apply Hne; symmetry; eapply Hcr2; [exact Hth | exact Ht' | exact Hpc | exact Hpc'].
Qed.

Lemma stepA_cr2 : forall s t s', InvA s -> step s t = Some s' ->
  forall t1 th1 h i t2 th2 h', thr s' t1 th1 -> thr s' t2 th2 -> tpc th1 = CrEnsure h i -> tpc th2 = CrEnsure h' i -> t1 = t2.
Proof.
  intros s t s' IA H. pose proof (a_cr2 _ IA) as Hcr2. pose proof (a_rng _ IA) as Hrng. pose proof (a_free _ IA) as Hfr.
  step_cases H; intros t1 th1 hc ic t2 th2 hc' Ht1 Ht2 Hp1 Hp2; unfold thr in Ht1, Ht2; simp;
    thr_cases Hth Ht1; thr_cases Hth Ht2; try reflexivity; try discriminate Hp1; try discriminate Hp2;
    try (eapply Hcr2; eauto; fail).
  all: exfalso.
  all: try (injection Hp1 as <- <-; destruct (a_cr _ IA _ _ _ _ Ht2 Hp2) as (C1 & C2 & _); rw_afree;
            first [lia | apply C2; left; reflexivity]).
  all: try (injection Hp2 as <- <-; destruct (a_cr _ IA _ _ _ _ Ht1 Hp1) as (C1 & C2 & _); rw_afree;
            first [lia | apply C2; left; reflexivity]).
Qed.

Lemma stepA_own : forall s t s', InvA s -> step s t = Some s' ->
  forall t' th' h i, thr s' t' th' -> pc_bound (tpc th') = Some (h, i) -> howner (get_h s' h) = t' /\ hidx (get_h s' h) = Some i.
Proof.
  intros s t s' IA H.
  step_cases H; pcfacts IA Hth Hpc; prep; intros t' th' hc ic Ht' Hpc'; unfold thr in Ht'; simp; thr_cases Hth Ht';
    try discriminate Hpc'.
  all: try (destruct (a_own _ IA _ _ _ _ Ht' Hpc') as (C1 & C2); simp; split; gs; congruence).
  all: cbn in Hpc'; injection Hpc' as <- <-; split; gs; simp; try congruence; try assumption.
Qed.

Lemma stepA_none : forall s t s', InvA s -> step s t = Some s' ->
  forall h, hidx (get_h s' h) = None -> hdepth (get_h s' h) = 0 /\ hheld (get_h s' h) = None.
Proof.
  intros s t s' IA H. pose proof (a_none _ IA) as Hn.
  step_cases H; pcfacts IA Hth Hpc; intros hq Hq; simp; gs; try (apply Hn; assumption); try congruence; try (split; reflexivity).
Qed.

Lemma InvA_step : forall s t s', InvA s -> step s t = Some s' -> InvA s'.
Proof.
  intros s t s' IA H. constructor.
  - eapply stepA_inj; eauto.
  - eapply stepA_rng; eauto.
  - eapply stepA_nodup; eauto.
  - eapply stepA_free; eauto.
  - eapply stepA_cr; eauto.
  - eapply stepA_cr2; eauto.
  - eapply stepA_own; eauto.
  - eapply stepA_none; eauto.
Qed.
