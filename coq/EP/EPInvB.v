(* EP: regenerated formulas restated; invariant B (versions, lock_times, client depth) *)
From Coq Require Import ZArith List Bool Lia Arith PeanoNat.
Require Import Verif.Base.Atomics Verif.Gen.Gen_epoch Verif.Conc.Machine Verif.EP.EPModel Verif.EP.EPBase Verif.EP.EPInvA.
Import ListNotations.
Local Open Scope Z_scope.

(* ---- the regenerated formulas, restated (each proof breaks if the C++ expression changes) ---- *)
Lemma lock_inc_spec : lock_inc = 1. Proof. reflexivity. Qed.
Lemma unlock_dec_spec : unlock_dec = 1. Proof. reflexivity. Qed.
Lemma lock_published_spec : forall g, lock_published g = g. Proof. reflexivity. Qed.
Lemma unlock_value_spec : unlock_value = SLOT_IDLE. Proof. reflexivity. Qed.
Lemma release_value_spec : release_value = SLOT_IDLE. Proof. reflexivity. Qed.
Lemma release_lock_times_spec : release_lock_times = 0. Proof. reflexivity. Qed.
Lemma release_locked_true : forall l, release_locked l = true -> l <> 0.
Proof. intros l H E. unfold release_locked in H. subst. discriminate. Qed.
Lemma release_locked_false : forall l, release_locked l = false -> l = 0.
Proof. intros l H. unfold release_locked in H. apply negb_false_iff in H. apply Z.eqb_eq in H. exact H. Qed.
Lemma slot_init_spec : LOCK_TIMES_INIT = 0. Proof. reflexivity. Qed.
Lemma tick_inc_spec : tick_inc = 1. Proof. reflexivity. Qed.
Lemma tick_ret_spec : tick_ret = 1. Proof. reflexivity. Qed.
Lemma lock_first_spec : forall l, lock_first l = true <-> l = 1.
Proof. intro l. unfold lock_first. apply Z.eqb_eq. Qed.
Lemma unlock_last_spec : forall l, unlock_last l = true <-> l = 1.
Proof. intro l. unfold unlock_last. apply Z.eqb_eq. Qed.
Lemma lwm_init_spec : lwm_init = SLOT_IDLE. Proof. reflexivity. Qed.
Lemma lwm_ret_spec : forall m, lwm_ret m = m. Proof. reflexivity. Qed.
Lemma lwm_number_spec : forall n, lwm_number n = n. Proof. reflexivity. Qed.
Lemma lwm_fallback_spec : forall n, lwm_fallback n = true <-> n = 0.
Proof. intro n. unfold lwm_fallback. apply Z.eqb_eq. Qed.
Lemma scan_begin_spec : scan_begin = 0. Proof. reflexivity. Qed.
Lemma scan_end_spec : forall n sz, scan_end n sz = Z.min n sz. Proof. reflexivity. Qed.
Lemma lwm_min_spec : forall mn v, (if lwm_update mn v then lwm_assign v else mn) = Z.min mn v.
Proof. intros mn v. unfold lwm_update, lwm_assign. destruct (Z.gtb_spec mn v); lia. Qed.
Lemma version_init_spec : VERSION_INIT = 0. Proof. reflexivity. Qed.

Lemma lock_first_false : forall l, lock_first l = false -> l <> 1.
Proof. intros l H E. apply lock_first_spec in E. congruence. Qed.
Lemma unlock_last_false : forall l, unlock_last l = false -> l <> 1.
Proof. intros l H E. apply unlock_last_spec in E. congruence. Qed.
Lemma lwm_fallback_false : forall n, lwm_fallback n = false -> n <> 0.
Proof. intros n H E. apply lwm_fallback_spec in E. congruence. Qed.

Ltac specs :=
  rewrite ?lock_inc_spec, ?unlock_dec_spec, ?lock_published_spec, ?unlock_value_spec, ?release_value_spec, ?release_lock_times_spec, ?tick_inc_spec, ?tick_ret_spec in *.
Ltac prepb :=
  prep;
  repeat match goal with
  | H : lock_first _ = true |- _ => apply lock_first_spec in H
  | H : lock_first _ = false |- _ => apply lock_first_false in H
  | H : unlock_last _ = true |- _ => apply unlock_last_spec in H
  | H : unlock_last _ = false |- _ => apply unlock_last_false in H
  | H : release_locked _ = true |- _ => apply release_locked_true in H
  | H : release_locked _ = false |- _ => apply release_locked_false in H
  | H : lwm_fallback _ = true |- _ => apply lwm_fallback_spec in H
  | H : lwm_fallback _ = false |- _ => apply lwm_fallback_false in H
  end.

Definition pc_lk (p : pc) : option (nat * nat) :=
  match p with LkLoad h i | LkStore h i _ => Some (h, i) | _ => None end.
Lemma pc_lk_bound : forall p x, pc_lk p = Some x -> pc_bound p = Some x.
Proof. intros p x H. destruct p; cbn in *; congruence. Qed.

Record InvB (s : st) : Prop := {
  b_ver : forall i, ver (get_slot s i) = SLOT_IDLE \/ ver (get_slot s i) <= gver s;
  b_pend : forall t th h i g, thr s t th -> tpc th = LkStore h i g -> g <= gver s;
  b_lt0 : forall i, 0 <= lt (get_slot s i);
  b_pub : forall i, ver (get_slot s i) <> SLOT_IDLE -> 1 <= lt (get_slot s i);
  b_idle : forall i, 1 <= lt (get_slot s i) -> ver (get_slot s i) = SLOT_IDLE ->
           exists t th h, thr s t th /\ pc_lk (tpc th) = Some (h, i);
  b_lk : forall t th h i, thr s t th -> pc_lk (tpc th) = Some (h, i) ->
         lt (get_slot s i) = 1 /\ ver (get_slot s i) = SLOT_IDLE;
  b_ul : forall t th h i, thr s t th -> tpc th = UlStore h i -> lt (get_slot s i) = 1 /\ 1 <= hdepth (get_h s h);
  b_dep : forall h i, hidx (get_h s h) = Some i -> 0 <= hdepth (get_h s h) <= lt (get_slot s i);
  b_rf : forall t th h i, thr s t th -> tpc th = RlFree h i -> lt (get_slot s i) = 0
}.

(* a thread other than the owner of the handle bound to slot n is not working on slot n *)
Lemma other_slot : forall s t t' th' h' i' h0 n, InvA s -> thr s t' th' -> pc_bound (tpc th') = Some (h', i') ->
  hidx (get_h s h0) = Some n -> howner (get_h s h0) = t -> t' <> t -> i' <> n.
Proof.
  intros s t t' th' h' i' h0 n IA Ht' Hp Hi Ho Hne ->. destruct (a_own _ IA _ _ _ _ Ht' Hp) as (O1 & O2).
  assert (h' = h0) by (eapply (a_inj _ IA); eauto). subst. congruence.
Qed.
Lemma other_handle : forall s t t' th' h' i' h0, InvA s -> thr s t' th' -> pc_bound (tpc th') = Some (h', i') ->
  howner (get_h s h0) = t -> t' <> t -> h' <> h0.
Proof. intros s t t' th' h' i' h0 IA Ht' Hp Ho Hne ->. destruct (a_own _ IA _ _ _ _ Ht' Hp) as (O1 & O2). congruence. Qed.

Lemma stepB_ver : forall s t s', InvA s -> InvB s -> step s t = Some s' ->
  forall i, ver (get_slot s' i) = SLOT_IDLE \/ ver (get_slot s' i) <= gver s'.
Proof.
  intros s t s' IA IB H. pose proof (b_ver _ IB) as Hv.
  step_cases H; specs; intros ix; simp; gs; try apply Hv.
  all: try (left; reflexivity).
  all: try (right; eapply (b_pend _ IB); eauto; fail).
  destruct (Hv ix); [left; assumption | right; lia].
Qed.

Lemma stepB_pend : forall s t s', InvA s -> InvB s -> step s t = Some s' ->
  forall t' th' h i g, thr s' t' th' -> tpc th' = LkStore h i g -> g <= gver s'.
Proof.
  intros s t s' IA IB H. pose proof (b_pend _ IB) as Hp.
  step_cases H; specs; intros t' th' hc ic gq Ht' Hpc'; unfold thr in Ht'; simp; thr_cases Hth Ht'; try discriminate Hpc';
    try (eapply Hp; eauto; fail).
  - injection Hpc' as <- <- <-. lia.
  - pose proof (Hp _ _ _ _ _ Ht' Hpc'). lia.
Qed.

Ltac bfacts IA IB Hth Hpc :=
  pcfacts IA Hth Hpc;
  try (destruct (b_ul _ IB _ _ _ _ Hth Hpc) as (Ul1 & Ul2));
  try (pose proof (b_rf _ IB _ _ _ _ Hth Hpc) as Rf0);
  try (destruct (b_lk _ IB _ _ _ _ Hth ltac:(rewrite Hpc; reflexivity)) as (Lk1 & Lk2));
  try (match goal with Hi : hidx (get_h ?s ?h) = Some ?n |- _ => pose proof (b_dep _ IB _ _ Hi) as Dep end).

Ltac lt0s Hl0 :=
  repeat match goal with
  | |- context [lt (getn slot0 (slots _) ?k)] =>
       lazymatch goal with H : 0 <= lt (getn slot0 (slots _) k) |- _ => fail | _ => pose proof (Hl0 k) end
  | H0 : context [lt (getn slot0 (slots _) ?k)] |- _ =>
       lazymatch goal with H : 0 <= lt (getn slot0 (slots _) k) |- _ => fail | _ => pose proof (Hl0 k) end
  end.

Lemma stepB_lt0 : forall s t s', InvA s -> InvB s -> step s t = Some s' -> forall i, 0 <= lt (get_slot s' i).
Proof.
  intros s t s' IA IB H. pose proof (b_lt0 _ IB) as Hl0.
  step_cases H; bfacts IA IB Hth Hpc; specs; prepb; intros ix; simp; gs; try apply Hl0.
  all: lt0s Hl0; lia.
Qed.

Lemma stepB_pub : forall s t s', InvA s -> InvB s -> step s t = Some s' ->
  forall i, ver (get_slot s' i) <> SLOT_IDLE -> 1 <= lt (get_slot s' i).
Proof.
  intros s t s' IA IB H. pose proof (b_pub _ IB) as Hp. pose proof (b_lt0 _ IB) as Hl0.
  step_cases H; bfacts IA IB Hth Hpc; specs; prepb; intros ix Hx; simp; gs; try (apply Hp; assumption).
  all: lt0s Hl0; try (match goal with Hx : ver _ <> SLOT_IDLE |- _ => pose proof (Hp _ Hx) end); try congruence; lia.
Qed.

Lemma stepB_dep : forall s t s', InvA s -> InvB s -> step s t = Some s' ->
  forall h i, hidx (get_h s' h) = Some i -> 0 <= hdepth (get_h s' h) <= lt (get_slot s' i).
Proof.
  intros s t s' IA IB H. pose proof (b_dep _ IB) as Hd. pose proof (b_lt0 _ IB) as Hl0. pose proof (a_inj _ IA) as Hinj.
  step_cases H; bfacts IA IB Hth Hpc; specs; prepb; intros hq ix Hx; simp; gs; try (apply Hd; assumption).
  all: try (injection Hx as <-).
  all: try (lt0s Hl0; try pose proof (Hd _ _ Hx); try congruence; lia).
  all: try (exfalso; match goal with Hn : ?a <> ?b |- _ => apply Hn; eapply Hinj; eauto; fail end).
  all: match goal with |- context [lt (getn slot0 (slots ?s) ?i)] => pose proof (Hl0 i) end; lia.
Qed.

Ltac oslot IA Ht' Hb :=
  exfalso; eapply other_slot; [exact IA | exact Ht' | exact Hb | .. ];
  [ match goal with H : hidx _ = Some _ |- _ => exact H end
  | first [match goal with H : howner _ = _ |- _ => exact H end | reflexivity]
  | assumption | reflexivity ].
Ltac ohandle IA Ht' Hb :=
  exfalso; eapply other_handle; [exact IA | exact Ht' | exact Hb | .. ];
  [ first [match goal with H : howner _ = _ |- _ => exact H end | reflexivity]
  | assumption | reflexivity ].

Lemma stepB_lk : forall s t s', InvA s -> InvB s -> step s t = Some s' ->
  forall t' th' h i, thr s' t' th' -> pc_lk (tpc th') = Some (h, i) ->
  lt (get_slot s' i) = 1 /\ ver (get_slot s' i) = SLOT_IDLE.
Proof.
  intros s t s' IA IB H. pose proof (b_lk _ IB) as Hlk. pose proof (b_pub _ IB) as Hp. pose proof (b_lt0 _ IB) as Hl0.
  step_cases H; bfacts IA IB Hth Hpc; specs; prepb; intros t' th' hc ic Ht' Hpc'; unfold thr in Ht'; simp; thr_cases Hth Ht';
    try discriminate Hpc'.
  (* other threads *)
  all: try (pose proof (Hlk _ _ _ _ Ht' Hpc') as (K1 & K2); simp; gs; try (split; assumption);
            oslot IA Ht' (pc_lk_bound _ _ Hpc'); fail).
  all: cbn in Hpc'; injection Hpc' as <- <-; gs; simp; try (split; assumption); try congruence.
  all: split; [lia|].
  all: match goal with |- ?v = SLOT_IDLE => destruct (Z.eq_dec v SLOT_IDLE) as [E|E]; [exact E | pose proof (Hp _ E); lia] end.
Qed.

Lemma pc_bound_ul : forall p h i, p = UlStore h i -> pc_bound p = Some (h, i).
Proof. intros p h i ->. reflexivity. Qed.

Lemma stepB_ul : forall s t s', InvA s -> InvB s -> step s t = Some s' ->
  forall t' th' h i, thr s' t' th' -> tpc th' = UlStore h i -> lt (get_slot s' i) = 1 /\ 1 <= hdepth (get_h s' h).
Proof.
  intros s t s' IA IB H. pose proof (b_ul _ IB) as Hul.
  step_cases H; bfacts IA IB Hth Hpc; specs; prepb; intros t' th' hc ic Ht' Hpc'; unfold thr in Ht'; simp; thr_cases Hth Ht';
    try discriminate Hpc'.
  all: try (pose proof (Hul _ _ _ _ Ht' Hpc') as (K1 & K2); simp; split; gs; try assumption;
            first [ oslot IA Ht' (pc_bound_ul _ _ _ Hpc') | ohandle IA Ht' (pc_bound_ul _ _ _ Hpc') ]; fail).

  all: injection Hpc' as <- <-; split; assumption.
Qed.

Lemma stepB_idle : forall s t s', InvA s -> InvB s -> gver s < SLOT_IDLE -> step s t = Some s' ->
  forall i, 1 <= lt (get_slot s' i) -> ver (get_slot s' i) = SLOT_IDLE ->
  exists t1 th1 h1, thr s' t1 th1 /\ pc_lk (tpc th1) = Some (h1, i).
Proof.
  intros s t s' IA IB Hov H. pose proof (b_idle _ IB) as Hidle. pose proof (b_lt0 _ IB) as Hl0.
  step_cases H; bfacts IA IB Hth Hpc; specs; prepb; intros ix Hl Hv; unfold thr; simp; gs.
  all: try lia.
  all: try (exfalso; pose proof (b_pend _ IB _ _ _ _ _ Hth Hpc); lia).
  all: try (eexists t, _, _; split; [apply nth_error_set_nth_eq with (y := th); exact Hth | reflexivity]; fail).
  all: lt0s Hl0;
       match goal with Hv' : ver (getn slot0 (slots _) ?k) = SLOT_IDLE |- _ =>
         destruct (Hidle k ltac:(lia) Hv') as (t1 & th1 & h1 & W1 & W2) end;
       destruct (Nat.eq_dec t1 t) as [->|Hne1];
       [ unfold thr in W1; rewrite Hth in W1; injection W1 as <-; rewrite Hpc in W2; try discriminate W2
       | exists t1, th1, h1; split; [rewrite nth_error_set_nth_neq by assumption; exact W1 | exact W2] ].
  all: cbn in W2; injection W2 as <- <-; try congruence.
  eexists t, _, _; split; [apply nth_error_set_nth_eq with (y := th); exact Hth | reflexivity].
Qed.

Lemma pc_bound_rf : forall p h i, p = RlFree h i -> pc_bound p = Some (h, i).
Proof. intros p h i ->. reflexivity. Qed.

Lemma stepB_rf : forall s t s', InvA s -> InvB s -> step s t = Some s' ->
  forall t' th' h i, thr s' t' th' -> tpc th' = RlFree h i -> lt (get_slot s' i) = 0.
Proof.
  intros s t s' IA IB H. pose proof (b_rf _ IB) as Hrf.
  step_cases H; bfacts IA IB Hth Hpc; specs; prepb; intros t' th' hc ic Ht' Hpc'; unfold thr in Ht'; simp; thr_cases Hth Ht';
    try discriminate Hpc'.
  all: try (pose proof (Hrf _ _ _ _ Ht' Hpc') as K1; simp; gs; try assumption;
            oslot IA Ht' (pc_bound_rf _ _ _ Hpc'); fail).
  all: injection Hpc' as <- <-; gs; simp; try assumption; try reflexivity; try congruence.
Qed.

Lemma InvB_step : forall s t s', InvA s -> InvB s -> gver s < SLOT_IDLE -> step s t = Some s' -> InvB s'.
Proof.
  intros s t s' IA IB Hov H. constructor.
  - eapply stepB_ver; eauto.
  - eapply stepB_pend; eauto.
  - eapply stepB_lt0; eauto.
  - eapply stepB_pub; eauto.
  - eapply stepB_idle; eauto.
  - eapply stepB_lk; eauto.
  - eapply stepB_ul; eauto.
  - eapply stepB_dep; eauto.
  - eapply stepB_rf; eauto.
Qed.
