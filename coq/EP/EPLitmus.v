(* The epoch entry / tick skeleton on the generic store-buffer machine (WM/TSO.v, WM/Litmus.v), instantiated with
   the facts regenerated from the source: is the entry fence of Epoch::lock(size_t) there, after the slot store and
   seq_cst (EPTso.entry_fence)?  is the x86 tick a seq_cst read-modify-write (tick_seq_cst)? *)
From Coq Require Import ZArith List Bool.
Require Import Verif.Base.Atomics Verif.Gen.Gen_epoch Verif.EP.EPTso.
Require Import Verif.WM.TSO Verif.WM.TSOProofs Verif.WM.Litmus.
Import ListNotations.

Definition tick_seq_cst : bool :=
  match sites_tick with
  | (KFadd, o, _) :: _ => is_seq_cst o
  | _ => false
  end.

Definition litmus_state (ef tf : bool) (sch : list action) : state := run (init [epoch_reader ef; epoch_writer tf]) sch.

Lemma litmus_epoch_safe : epoch_safe entry_fence tick_seq_cst = true.
Proof. vm_compute. reflexivity. Qed.

Lemma litmus_all_executions : forall sch, final (litmus_state entry_fence tick_seq_cst sch) = true ->
  epoch_bad (result (litmus_state entry_fence tick_seq_cst sch)) = false.
Proof.
  intros sch Hf. pose proof litmus_epoch_safe as Hs. unfold epoch_safe in Hs.
  pose proof (outcomes_sound _ _ Hs sch Hf) as H. apply negb_true_iff in H. exact H.
Qed.

(* entry fence absent: the reader's slot store is still in its buffer when it loads the cell *)
Lemma litmus_no_entry_fence_refuted :
  epoch_safe false true = false /\
  exists sch, final (litmus_state false true sch) = true /\ epoch_bad (result (litmus_state false true sch)) = true.
Proof.
  split; [vm_compute; reflexivity|].
  exists [Exec 0; Exec 0; Exec 1; Flush 1; Exec 1; Exec 1; Flush 0]. split; vm_compute; reflexivity.
Qed.

(* tick weakened to a plain (relaxed) store: the writer's cell store is still in its buffer when it scans *)
Lemma litmus_tick_relaxed_refuted :
  epoch_safe true false = false /\
  exists sch, final (litmus_state true false sch) = true /\ epoch_bad (result (litmus_state true false sch)) = true.
Proof.
  split; [vm_compute; reflexivity|].
  exists [Exec 1; Exec 1; Exec 1; Exec 0; Flush 0; Exec 0; Exec 0; Flush 1; Flush 1]. split; vm_compute; reflexivity.
Qed.
