(* Executable interleaving model of babylon::Epoch (src/babylon/concurrent/epoch.h) together with the
   client protocol the property is about: a shared pointer cell, writers that unlink / tick / scan /
   reclaim, readers that enter a region, read the cell and use what they read.  No proofs here.

   One step = one atomic operation of the C++ code (or of the harness cell / freed flag) plus the local
   computation up to the next one.  IdAllocator::allocate / deallocate and ConcurrentVector::ensure /
   snapshot are single steps at their linearisation points (their own correctness is C14 / C04).

   Shared state : global version, slots (version | SLOT_IDLE, lock_times), the id allocator (next value,
                  free list), the slot vector size, the pointer cell.
   Client state : accessor handles (bound slot index, owning thread, the client's own nesting depth, the
                  pointer it obtained in the current region), per thread a retire list (object, tick value).
   Ghost        : freed objects, uaf (a reader used an object that had been reclaimed).
   tl = true    : thread-local style (Epoch::lock()/unlock()): handle t is thread t's slot, bound on first
                  use through the ThreadId allocator, which then is the allocator of this state; the
                  epoch's own accessor_number() is 0.  tl = false: Accessor style; ext = ThreadId::end<Epoch>()
                  (other Epoch instances' threads), only read by the number == 0 fallback. *)
From Coq Require Import ZArith List Bool Arith.
Require Import Verif.Gen.Gen_epoch.
Import ListNotations.
Local Open Scope Z_scope.

Inductive op :=
| OCreate (h : nat)        (* acc[h] = epoch.create_accessor() *)
| OLock (h : nat)          (* acc[h].lock()      | epoch.lock()   (tl) *)
| OUnlock (h : nat)        (* acc[h].unlock()    | epoch.unlock() (tl) *)
| ORelease (h : nat)       (* acc[h].release() *)
| OGive (h t : nat)        (* move the Accessor object to thread t *)
| ORead (h : nat)          (* p = cell.load() inside the region of h *)
| OUse (h : nat)           (* dereference p *)
| OUnlink                  (* old = cell.exchange(new object); T = epoch.tick(); retire (old, T) *)
| OCollect.                (* m = epoch.low_water_mark(); free every retired (o, T) with T <= m *)

Inductive res :=
| RSkip | RCreate | RLock | RUnlock | RRelease | RGive
| RRead (o : nat) | RUse (o : nat) (was_freed : bool)
| RUnlink (o : nat) (T : Z) | RCollect (lwm : Z) (objs : list nat).

Inductive pc :=
| Idle
| CrEnsure (h i : nat)                 (* id allocated, next: _slots.ensure(index) *)
| LkLoad (h i : nat)                   (* lock_times became 1, next: load global version (relaxed) *)
| LkStore (h i : nat) (g : Z)          (* next: store g into the slot (relaxed) *)
| LkFence (h i : nat)                  (* next: seq_cst fence *)
| UlStore (h i : nat)                  (* lock_times == 1, next: store SLOT_IDLE (release) *)
| RlStore (h i : nat)                  (* release() of a locked accessor, next: lock_times = 0; store SLOT_IDLE (release) *)
| RlFree (h i : nat)                   (* next: IdAllocator::deallocate(index) *)
| UTick (o : nat)                      (* o unlinked, next: tick *)
| CNum (sz : nat)                      (* snapshot taken (size sz), next: accessor_number() *)
| CNum2 (sz : nat)                     (* number == 0, next: ThreadId::end<Epoch>() *)
| CScan (n k : nat) (mn : Z)           (* next: load slot k (acquire); n = scan bound *)
| CFree (m : Z) (todo : list (nat * Z)) (all : list nat).   (* next: free the head of todo *)

Record slot := { ver : Z; lt : Z }.
Record handle := { hidx : option nat; howner : nat; hdepth : Z; hheld : option nat }.
Record thread := { prog : list op; opi : nat; tpc : pc; results : list res; retired : list (nat * Z) }.
Record st := {
  tl : bool; ext : nat;
  gver : Z; cell : nat; nobj : nat; freed : list nat; uaf : bool;
  slots : list slot; vsize : nat; anext : nat; afree : list nat;
  handles : list handle; threads : list thread
}.

Definition slot0 : slot := {| ver := SLOT_IDLE; lt := LOCK_TIMES_INIT |}.
Definition handle0 : handle := {| hidx := None; howner := 0; hdepth := 0; hheld := None |}.
Definition mk_handle (o : nat) : handle := {| hidx := None; howner := o; hdepth := 0; hheld := None |}.
Definition mk_thread (p : list op) : thread := {| prog := p; opi := 0; tpc := Idle; results := []; retired := [] |}.

Definition init (tlm : bool) (e : nat) (owners : list nat) (anext0 : nat) (afree0 : list nat) (vsize0 : nat)
                (progs : list (list op)) : st :=
  {| tl := tlm; ext := e; gver := VERSION_INIT; cell := 0; nobj := 1; freed := []; uaf := false;
     slots := []; vsize := vsize0; anext := anext0; afree := afree0;
     handles := map mk_handle (if tlm then seq 0 (length progs) else owners);
     threads := map mk_thread progs |}.

(* ---- lists with a default: unbounded arrays ---- *)
Definition getn {A} (d : A) (l : list A) (n : nat) : A := nth n l d.
Fixpoint setn {A} (d : A) (n : nat) (x : A) (l : list A) : list A :=
  match n, l with
  | O, [] => [x]
  | O, _ :: r => x :: r
  | S n', [] => d :: setn d n' x []
  | S n', y :: r => y :: setn d n' x r
  end.
Fixpoint set_nth {A} (n : nat) (x : A) (l : list A) : list A :=
  match l, n with
  | [], _ => []
  | _ :: r, O => x :: r
  | y :: r, S n' => y :: set_nth n' x r
  end.

(* ---- field updates ---- *)
Definition set_threads (s : st) (v : list thread) : st :=
  {| tl := tl s; ext := ext s; gver := gver s; cell := cell s; nobj := nobj s; freed := freed s; uaf := uaf s;
     slots := slots s; vsize := vsize s; anext := anext s; afree := afree s; handles := handles s; threads := v |}.
Definition set_handles (s : st) (v : list handle) : st :=
  {| tl := tl s; ext := ext s; gver := gver s; cell := cell s; nobj := nobj s; freed := freed s; uaf := uaf s;
     slots := slots s; vsize := vsize s; anext := anext s; afree := afree s; handles := v; threads := threads s |}.
Definition set_slots (s : st) (v : list slot) : st :=
  {| tl := tl s; ext := ext s; gver := gver s; cell := cell s; nobj := nobj s; freed := freed s; uaf := uaf s;
     slots := v; vsize := vsize s; anext := anext s; afree := afree s; handles := handles s; threads := threads s |}.
Definition set_alloc (s : st) (n : nat) (f : list nat) : st :=
  {| tl := tl s; ext := ext s; gver := gver s; cell := cell s; nobj := nobj s; freed := freed s; uaf := uaf s;
     slots := slots s; vsize := vsize s; anext := n; afree := f; handles := handles s; threads := threads s |}.
Definition set_vsize (s : st) (v : nat) : st :=
  {| tl := tl s; ext := ext s; gver := gver s; cell := cell s; nobj := nobj s; freed := freed s; uaf := uaf s;
     slots := slots s; vsize := v; anext := anext s; afree := afree s; handles := handles s; threads := threads s |}.
Definition set_gver (s : st) (v : Z) : st :=
  {| tl := tl s; ext := ext s; gver := v; cell := cell s; nobj := nobj s; freed := freed s; uaf := uaf s;
     slots := slots s; vsize := vsize s; anext := anext s; afree := afree s; handles := handles s; threads := threads s |}.
Definition set_cell (s : st) (c n : nat) : st :=
  {| tl := tl s; ext := ext s; gver := gver s; cell := c; nobj := n; freed := freed s; uaf := uaf s;
     slots := slots s; vsize := vsize s; anext := anext s; afree := afree s; handles := handles s; threads := threads s |}.
Definition set_freed (s : st) (v : list nat) : st :=
  {| tl := tl s; ext := ext s; gver := gver s; cell := cell s; nobj := nobj s; freed := v; uaf := uaf s;
     slots := slots s; vsize := vsize s; anext := anext s; afree := afree s; handles := handles s; threads := threads s |}.
Definition set_uaf (s : st) (v : bool) : st :=
  {| tl := tl s; ext := ext s; gver := gver s; cell := cell s; nobj := nobj s; freed := freed s; uaf := v;
     slots := slots s; vsize := vsize s; anext := anext s; afree := afree s; handles := handles s; threads := threads s |}.

Definition get_slot (s : st) (i : nat) : slot := getn slot0 (slots s) i.
Definition get_h (s : st) (h : nat) : handle := getn handle0 (handles s) h.
Definition put_slot (s : st) (i : nat) (x : slot) : st := set_slots s (setn slot0 i x (slots s)).
Definition put_h (s : st) (h : nat) (x : handle) : st := set_handles s (setn handle0 h x (handles s)).
Definition upd_thread (s : st) (t : nat) (th : thread) : st := set_threads s (set_nth t th (threads s)).

Definition finish (th : thread) (r : res) : thread :=
  {| prog := prog th; opi := S (opi th); tpc := Idle; results := results th ++ [r]; retired := retired th |}.
Definition goto (th : thread) (p : pc) : thread :=
  {| prog := prog th; opi := opi th; tpc := p; results := results th; retired := retired th |}.
Definition with_retired (th : thread) (l : list (nat * Z)) : thread :=
  {| prog := prog th; opi := opi th; tpc := tpc th; results := results th; retired := l |}.

Definition skip (s : st) (t : nat) (th : thread) : st := upd_thread s t (finish th RSkip).

(* ---- the client's view of a handle ---- *)
Definition h_bind (hd : handle) (i : nat) : handle := {| hidx := Some i; howner := howner hd; hdepth := 0; hheld := None |}.
Definition h_unbind (hd : handle) : handle := {| hidx := None; howner := howner hd; hdepth := 0; hheld := None |}.
Definition h_drop (hd : handle) : handle := {| hidx := hidx hd; howner := howner hd; hdepth := 0; hheld := None |}.
Definition h_give (hd : handle) (t : nat) : handle := {| hidx := hidx hd; howner := t; hdepth := hdepth hd; hheld := hheld hd |}.
Definition h_enter (hd : handle) : handle := {| hidx := hidx hd; howner := howner hd; hdepth := hdepth hd + 1; hheld := hheld hd |}.
Definition h_leave (hd : handle) : handle :=
  {| hidx := hidx hd; howner := howner hd; hdepth := hdepth hd - 1;
     hheld := if hdepth hd - 1 =? 0 then None else hheld hd |}.
Definition h_hold (hd : handle) (o : nat) : handle := {| hidx := hidx hd; howner := howner hd; hdepth := hdepth hd; hheld := Some o |}.

Definition eff_h (s : st) (t h : nat) : nat := if tl s then t else h.
Definition mine (s : st) (t h : nat) : bool := Nat.eqb (howner (get_h s h)) t.
Definition inside (s : st) (t h : nat) : bool := mine s t h && (1 <=? hdepth (get_h s h)).

(* IdAllocator::allocate at its linearisation point: pop the free list, else fetch_add on the next value *)
Definition alloc (s : st) (t : nat) (th : thread) (h : nat) : st :=
  match afree s with
  | i :: r => upd_thread (set_alloc s (anext s) r) t (goto th (CrEnsure h i))
  | [] => upd_thread (set_alloc s (S (anext s)) []) t (goto th (CrEnsure h (anext s)))
  end.

(* ConcurrentVector::ensure(index): the table covers whole blocks *)
Definition ensured_size (i : nat) : nat :=
  Z.to_nat (snapshot_size (ensure_blocks (create_ensure (Z.of_nat i) / CV_BLOCK)) (Z.log2 CV_BLOCK)).

Definition scan_n (number : Z) (sz : nat) : nat := Z.to_nat (scan_end number (Z.of_nat sz)).

Definition reclaimable (m : Z) (p : nat * Z) : bool := snd p <=? m.

(* end of low_water_mark(): the client frees what the mark allows *)
Definition decide (s : st) (t : nat) (th : thread) (mn : Z) : st :=
  let m := lwm_ret mn in
  let todo := filter (reclaimable m) (retired th) in
  let keep := filter (fun p => negb (reclaimable m p)) (retired th) in
  match todo with
  | [] => upd_thread s t (finish (with_retired th keep) (RCollect m []))
  | _ => upd_thread s t (goto (with_retired th keep) (CFree m todo (map fst todo)))
  end.

Definition enter_scan (s : st) (t : nat) (th : thread) (n : nat) : st :=
  let k0 := Z.to_nat scan_begin in
  if Nat.ltb k0 n then upd_thread s t (goto th (CScan n k0 lwm_init)) else decide s t th lwm_init.

Definition mem (o : nat) (l : list nat) : bool := existsb (Nat.eqb o) l.

Definition begin_op (s : st) (t : nat) (th : thread) (o : op) : st :=
  match o with
  | OCreate h =>
    if negb (tl s) && mine s t h && (match hidx (get_h s h) with None => true | Some _ => false end)
    then alloc s t th h else skip s t th
  | OLock h0 =>
    let h := eff_h s t h0 in
    if mine s t h then
      match hidx (get_h s h) with
      | None => if tl s then alloc s t th h else skip s t th
      | Some i =>
        let sl := get_slot s i in
        let l := lt sl + lock_inc in
        let s1 := put_h (put_slot s i {| ver := ver sl; lt := l |}) h (h_enter (get_h s h)) in
        if lock_first l then upd_thread s1 t (goto th (LkLoad h i)) else upd_thread s1 t (finish th RLock)
      end
    else skip s t th
  | OUnlock h0 =>
    let h := eff_h s t h0 in
    if inside s t h then
      match hidx (get_h s h) with
      | None => skip s t th
      | Some i =>
        let sl := get_slot s i in
        if unlock_last (lt sl) then upd_thread s t (goto th (UlStore h i))
        else upd_thread (put_h (put_slot s i {| ver := ver sl; lt := lt sl - unlock_dec |}) h (h_leave (get_h s h))) t
                        (finish th RUnlock)
      end
    else skip s t th
  | ORelease h =>
    if negb (tl s) && mine s t h then
      match hidx (get_h s h) with
      | None => skip s t th
      | Some i =>      (* unregister_accessor: slot = _slots[index]; if (slot.lock_times != 0) ... *)
        if release_locked (lt (get_slot s i)) then upd_thread s t (goto th (RlStore h i))
        else upd_thread s t (goto th (RlFree h i))
      end
    else skip s t th
  | OGive h t' =>
    if negb (tl s) && mine s t h then upd_thread (put_h s h (h_give (get_h s h) t')) t (finish th RGive)
    else skip s t th
  | ORead h0 =>
    let h := eff_h s t h0 in
    if inside s t h then
      match hidx (get_h s h) with
      | None => skip s t th
      | Some _ => upd_thread (put_h s h (h_hold (get_h s h) (cell s))) t (finish th (RRead (cell s)))
      end
    else skip s t th
  | OUse h0 =>
    let h := eff_h s t h0 in
    if inside s t h then
      match hidx (get_h s h), hheld (get_h s h) with
      | Some _, Some o => upd_thread (set_uaf s (uaf s || mem o (freed s))) t (finish th (RUse o (mem o (freed s))))
      | _, _ => skip s t th
      end
    else skip s t th
  | OUnlink => upd_thread (set_cell s (nobj s) (S (nobj s))) t (goto th (UTick (cell s)))
  | OCollect => upd_thread s t (goto th (CNum (vsize s)))
  end.

Definition step_thread (s : st) (t : nat) (th : thread) : option st :=
  match tpc th with
  | Idle =>
    match nth_error (prog th) (opi th) with
    | None => None
    | Some o => Some (begin_op s t th o)
    end
  | CrEnsure h i =>
    let s1 := put_h (set_vsize s (Nat.max (vsize s) (ensured_size i))) h (h_bind (get_h s h) i) in
    if tl s then Some (upd_thread s1 t (goto th Idle)) else Some (upd_thread s1 t (finish th RCreate))
  | LkLoad h i => Some (upd_thread s t (goto th (LkStore h i (gver s))))
  | LkStore h i g =>
    Some (upd_thread (put_slot s i {| ver := lock_published g; lt := lt (get_slot s i) |}) t (goto th (LkFence h i)))
  | LkFence h i => Some (upd_thread s t (finish th RLock))
  | UlStore h i =>
    Some (upd_thread (put_h (put_slot s i {| ver := unlock_value; lt := lt (get_slot s i) - unlock_dec |}) h (h_leave (get_h s h)))
                     t (finish th RUnlock))
  | RlStore h i =>     (* lock_times is private to the owner: its reset is placed with the store it precedes *)
    Some (upd_thread (put_h (put_slot s i {| ver := release_value; lt := release_lock_times |}) h (h_drop (get_h s h))) t
                     (goto th (RlFree h i)))
  | RlFree h i =>
    Some (upd_thread (put_h (set_alloc s (anext s) (i :: afree s)) h (h_unbind (get_h s h))) t (finish th RRelease))
  | UTick o =>
    let T := tick_ret + gver s in
    Some (upd_thread (set_gver s (gver s + tick_inc)) t (finish (with_retired th (retired th ++ [(o, T)])) (RUnlink o T)))
  | CNum sz =>
    let number := lwm_number (if tl s then 0 else Z.of_nat (anext s)) in
    if lwm_fallback number then Some (upd_thread s t (goto th (CNum2 sz)))
    else Some (enter_scan s t th (scan_n number sz))
  | CNum2 sz =>
    let number := Z.of_nat (if tl s then anext s else ext s) in
    Some (enter_scan s t th (scan_n number sz))
  | CScan n k mn =>
    let v := ver (get_slot s k) in
    let mn' := if lwm_update mn v then lwm_assign v else mn in
    if Nat.ltb (S k) n then Some (upd_thread s t (goto th (CScan n (S k) mn'))) else Some (decide s t th mn')
  | CFree m todo all =>
    match todo with
    | [] => Some (upd_thread s t (finish th (RCollect m all)))
    | p :: rest =>
      let s1 := set_freed s (fst p :: freed s) in
      match rest with
      | [] => Some (upd_thread s1 t (finish th (RCollect m all)))
      | _ => Some (upd_thread s1 t (goto th (CFree m rest all)))
      end
    end
  end.

Definition step (s : st) (t : nat) : option st :=
  match nth_error (threads s) t with
  | Some th => step_thread s t th
  | None => None
  end.

Definition thread_done (th : thread) : bool :=
  match tpc th, nth_error (prog th) (opi th) with Idle, None => true | _, _ => false end.
Definition all_done (s : st) : bool := forallb thread_done (threads s).

(* observable outcome of a finished execution, as the implementation driver prints it *)
Definition outcome (s : st) : list (list res) * bool := (map results (threads s), uaf s).
