(* An explicit store-buffer (x86-TSO style) machine for the one-slot skeleton of the epoch entry / tick race.
   No proofs here.

     reader (actor 0):  g  = load  version            writer (actor 1):  store cell := 1   (unlink; buffered)
                        store slot := g   (buffered)                     T  = RMW version += 1   (tick; drains)
                        [fence]           (drains)                       rs = load  slot
                        rc = load  cell
     actor 2 / 3: the memory system flushes the oldest entry of the reader's / writer's store buffer.

   A load reads the newest entry for its location in the thread's own buffer, else memory.  A fence and an RMW are
   enabled only when the thread's own buffer is empty (they drain it).  The unlink is a plain store, which is
   weaker than the exchange of the real client, so a theorem here also covers the exchange.
   bad = the reader got the old object (rc = 0) and the writer's scan lets it reclaim (slot idle, or version >= T). *)
From Coq Require Import List Bool Arith.
Import ListNotations.

Inductive loc := LSlot | LCell | LVer.
Definition loc_eqb (a b : loc) : bool :=
  match a, b with LSlot, LSlot | LCell, LCell | LVer, LVer => true | _, _ => false end.

(* values: slot = 0 means idle, version v is stored as S v *)
Record tso := {
  m_slot : nat; m_cell : nat; m_ver : nat;
  buf_r : list (loc * nat); buf_w : list (loc * nat);
  pc_r : nat; pc_w : nat;
  r_g : nat; r_c : nat; w_t : nat; w_s : nat
}.

Definition tso_init : tso :=
  {| m_slot := 0; m_cell := 0; m_ver := 0; buf_r := []; buf_w := []; pc_r := 0; pc_w := 0; r_g := 0; r_c := 0; w_t := 0; w_s := 0 |}.

Definition mem_read (s : tso) (l : loc) : nat :=
  match l with LSlot => m_slot s | LCell => m_cell s | LVer => m_ver s end.
Fixpoint buf_find (b : list (loc * nat)) (l : loc) : option nat :=   (* newest entry = last *)
  match b with
  | [] => None
  | (l', v) :: r => match buf_find r l with Some x => Some x | None => if loc_eqb l' l then Some v else None end
  end.
Definition load (s : tso) (b : list (loc * nat)) (l : loc) : nat :=
  match buf_find b l with Some v => v | None => mem_read s l end.
Definition mem_write (s : tso) (l : loc) (v : nat) (br bw : list (loc * nat)) : tso :=
  {| m_slot := match l with LSlot => v | _ => m_slot s end;
     m_cell := match l with LCell => v | _ => m_cell s end;
     m_ver := match l with LVer => v | _ => m_ver s end;
     buf_r := br; buf_w := bw; pc_r := pc_r s; pc_w := pc_w s; r_g := r_g s; r_c := r_c s; w_t := w_t s; w_s := w_s s |}.

Definition tso_step (fence : bool) (s : tso) (a : nat) : option tso :=
  match a with
  | 0 =>
    match pc_r s with
    | 0 => Some {| m_slot := m_slot s; m_cell := m_cell s; m_ver := m_ver s; buf_r := buf_r s; buf_w := buf_w s;
                   pc_r := 1; pc_w := pc_w s; r_g := load s (buf_r s) LVer; r_c := r_c s; w_t := w_t s; w_s := w_s s |}
    | 1 => Some {| m_slot := m_slot s; m_cell := m_cell s; m_ver := m_ver s; buf_r := buf_r s ++ [(LSlot, S (r_g s))]; buf_w := buf_w s;
                   pc_r := 2; pc_w := pc_w s; r_g := r_g s; r_c := r_c s; w_t := w_t s; w_s := w_s s |}
    | 2 => if fence && negb (match buf_r s with [] => true | _ => false end) then None
           else Some {| m_slot := m_slot s; m_cell := m_cell s; m_ver := m_ver s; buf_r := buf_r s; buf_w := buf_w s;
                        pc_r := 3; pc_w := pc_w s; r_g := r_g s; r_c := r_c s; w_t := w_t s; w_s := w_s s |}
    | 3 => Some {| m_slot := m_slot s; m_cell := m_cell s; m_ver := m_ver s; buf_r := buf_r s; buf_w := buf_w s;
                   pc_r := 4; pc_w := pc_w s; r_g := r_g s; r_c := load s (buf_r s) LCell; w_t := w_t s; w_s := w_s s |}
    | _ => None
    end
  | 1 =>
    match pc_w s with
    | 0 => Some {| m_slot := m_slot s; m_cell := m_cell s; m_ver := m_ver s; buf_r := buf_r s; buf_w := buf_w s ++ [(LCell, 1)];
                   pc_r := pc_r s; pc_w := 1; r_g := r_g s; r_c := r_c s; w_t := w_t s; w_s := w_s s |}
    | 1 => match buf_w s with
           | [] => Some {| m_slot := m_slot s; m_cell := m_cell s; m_ver := S (m_ver s); buf_r := buf_r s; buf_w := [];
                           pc_r := pc_r s; pc_w := 2; r_g := r_g s; r_c := r_c s; w_t := S (m_ver s); w_s := w_s s |}
           | _ => None
           end
    | 2 => Some {| m_slot := m_slot s; m_cell := m_cell s; m_ver := m_ver s; buf_r := buf_r s; buf_w := buf_w s;
                   pc_r := pc_r s; pc_w := 3; r_g := r_g s; r_c := r_c s; w_t := w_t s; w_s := load s (buf_w s) LSlot |}
    | _ => None
    end
  | 2 => match buf_r s with [] => None | (l, v) :: r => Some (mem_write s l v r (buf_w s)) end
  | 3 => match buf_w s with [] => None | (l, v) :: r => Some (mem_write s l v (buf_r s) r) end
  | _ => None
  end.

(* both sides have done their loads; the reader holds the old object; the writer's scan allows the reclaim:
   slot idle (0) or published version (w_s - 1) >= tick value *)
Definition tso_bad (s : tso) : bool :=
  Nat.eqb (pc_r s) 4 && Nat.eqb (pc_w s) 3 && Nat.eqb (r_c s) 0 && (Nat.eqb (w_s s) 0 || Nat.leb (w_t s) (w_s s - 1)).
