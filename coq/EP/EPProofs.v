(* Proofs about EPModel.  Statements are fixed by Properties_C09.v.  The invariants live in EPBase/EPInvA/EPInvB/EPInvO/EPInvP. *)
From Coq Require Import ZArith List Bool Lia Arith PeanoNat.
Require Import Verif.Base.Atomics Verif.Gen.Gen_epoch Verif.Conc.Machine Verif.EP.EPModel Verif.EP.EPBase Verif.EP.EPInvA Verif.EP.EPInvB Verif.EP.EPInvO Verif.EP.EPInvP Verif.EP.EPInvR.
Import ListNotations.
Local Open Scope Z_scope.

(* memory-order obligations on the regenerated site tables: entry = store, THEN seq_cst fence; tick = seq_cst RMW
   (x86 branch) and relaxed RMW followed by a seq_cst fence (other branch); scan and allocator end = acquire loads;
   exit = release store; release() of a locked accessor = release store *)
Definition orders_ok : bool :=
  match sites_lock, sites_unlock, sites_tick, sites_lwm, sites_id_end, sites_release with
  | [(KLoad, _, _); (KStore, _, _); (KFence, o_fence, _)], [(KStore, o_exit, _)],
    [(KFadd, o_tick, _); (KFadd, _, _); (KFence, o_tick_fence, _)], [(KLoad, o_scan, _)], [(KLoad, o_end, _)],
    [(KStore, o_rel, _)] =>
    is_seq_cst o_fence && has_release o_exit && is_seq_cst o_tick && is_seq_cst o_tick_fence &&
    has_acquire o_scan && has_acquire o_end && has_release o_rel
  | _, _, _, _, _, _ => false
  end.

Lemma ep_orders_ok : orders_ok = true.
Proof. vm_compute. reflexivity. Qed.

Lemma mem_false : forall o l, ~ In o l -> mem o l = false.
Proof.
  intros o l H. unfold mem. destruct (existsb (Nat.eqb o) l) eqn:E; [|reflexivity].
  apply existsb_exists in E. destruct E as [x [Hx Hq]]. apply Nat.eqb_eq in Hq. subst. contradiction.
Qed.

Lemma stepP_uaf : forall s t s', InvP s -> step s t = Some s' -> uaf s' = false.
Proof.
  intros s t s' IP H. pose proof (p_uaf _ IP) as Hu. pose proof (p_live _ IP) as Hl.
  step_cases H; simp; try assumption.
  rewrite Hu. cbn. apply mem_false. eapply Hl. eassumption.
Qed.

Lemma InvP_step : forall s t s', InvA s -> InvB s -> InvO s -> InvP s -> step s t = Some s' -> InvP s'.
Proof.
  intros s t s' IA IB IO IP H. constructor.
  - eapply stepP_idx; eauto.
  - eapply stepP_dep; eauto.
  - eapply stepP_pub; eauto.
  - eapply stepP_live; eauto.
  - eapply stepP_ret; eauto.
  - eapply stepP_coll; eauto.
  - eapply stepP_uaf; eauto.
Qed.

Lemma step_gver_mono : forall s t s', step s t = Some s' -> gver s <= gver s'.
Proof. intros s t s' H. pose proof tick_inc_spec. step_cases H; simp; lia. Qed.

Definition Inv (s : st) : Prop := InvA s /\ InvO s /\ (gver s < SLOT_IDLE -> InvB s /\ InvP s).

Lemma Inv_step : forall s t s', Inv s -> step s t = Some s' -> Inv s'.
Proof.
  intros s t s' (IA & IO & IBP) H. pose proof (step_gver_mono _ _ _ H) as Hm.
  split; [eapply InvA_step; eauto|]. split; [eapply InvO_step; eauto|].
  intro Hov. destruct (IBP ltac:(lia)) as [IB IP]. split; [eapply InvB_step; eauto; lia | eapply InvP_step; eauto].
Qed.

(* ---- the initial state ---- *)
Definition wf_init (anext0 : nat) (afree0 : list nat) : Prop := NoDup afree0 /\ forall x, In x afree0 -> (x < anext0)%nat.

Lemma init_handle : forall l h, hidx (getn handle0 (map mk_handle l) h) = None /\ hdepth (getn handle0 (map mk_handle l) h) = 0 /\
  hheld (getn handle0 (map mk_handle l) h) = None.
Proof. unfold getn. induction l as [|a l IH]; intros [|h]; cbn; auto. Qed.
Lemma init_thread : forall progs t th, nth_error (map mk_thread progs) t = Some th -> tpc th = Idle /\ retired th = [].
Proof. intros progs t th H. rewrite nth_error_map in H. destruct (nth_error progs t); [|discriminate]. injection H as <-. auto. Qed.
Lemma init_slot : forall i, getn slot0 [] i = slot0.
Proof. intros [|i]; reflexivity. Qed.

Lemma Inv_init : forall tlm e owners anext0 afree0 vsize0 progs, wf_init anext0 afree0 ->
  Inv (init tlm e owners anext0 afree0 vsize0 progs).
Proof.
  intros tlm e owners anext0 afree0 vsize0 progs [Hnd Hfr].
  assert (HH : forall h, hidx (get_h (init tlm e owners anext0 afree0 vsize0 progs) h) = None /\
                         hdepth (get_h (init tlm e owners anext0 afree0 vsize0 progs) h) = 0 /\
                         hheld (get_h (init tlm e owners anext0 afree0 vsize0 progs) h) = None)
    by (intro h; unfold get_h, init; cbn [handles]; apply init_handle).
  assert (HT : forall t th, thr (init tlm e owners anext0 afree0 vsize0 progs) t th -> tpc th = Idle /\ retired th = [])
    by (intros t th H; unfold thr, init in H; cbn [threads] in H; eapply init_thread; eauto).
  assert (HS : forall i, get_slot (init tlm e owners anext0 afree0 vsize0 progs) i = slot0)
    by (intro i; unfold get_slot, init; cbn [slots]; apply init_slot).
  split; [|split].
  - constructor.
    + intros h h' i H. destruct (HH h) as (E & _). congruence.
    + intros h i H. destruct (HH h) as (E & _). congruence.
    + exact Hnd.
    + exact Hfr.
    + intros t th h i Ht Hp. destruct (HT _ _ Ht) as [E _]. congruence.
    + intros t th h i t' th' h' Ht _ Hp. destruct (HT _ _ Ht) as [E _]. congruence.
    + intros t th h i Ht Hp. destruct (HT _ _ Ht) as [E _]. rewrite E in Hp. discriminate.
    + intros h _. destruct (HH h) as (_ & E1 & E2). auto.
  - constructor; unfold dead; cbn [init cell nobj freed].
    + lia.
    + intros o [].
    + intros t th o T Ht Hin. destruct (HT _ _ Ht) as [_ E]. rewrite E in Hin. destruct Hin.
    + intros t th o Ht Hp. destruct (HT _ _ Ht) as [E _]. congruence.
    + intros t th m todo all o T Ht Hp. destruct (HT _ _ Ht) as [E _]. congruence.
  - intros _. split; constructor.
    + intro i. left. rewrite HS. reflexivity.
    + intros t th h i g Ht Hp. destruct (HT _ _ Ht) as [E _]. congruence.
    + intro i. rewrite HS. cbn. rewrite slot_init_spec. lia.
    + intros i H. rewrite HS in H. cbn in H. congruence.
    + intros i H. rewrite HS in H. cbn in H. rewrite slot_init_spec in H. lia.
    + intros t th h i Ht Hp. destruct (HT _ _ Ht) as [E _]. rewrite E in Hp. discriminate.
    + intros t th h i Ht Hp. destruct (HT _ _ Ht) as [E _]. congruence.
    + intros h i H. destruct (HH h) as (E & _). congruence.
    + intros t th h i Ht Hp. destruct (HT _ _ Ht) as [E _]. congruence.
    + intros h o H. destruct (HH h) as (_ & _ & E). congruence.
    + intros h o H. destruct (HH h) as (_ & _ & E). congruence.
    + intros h o i H. destruct (HH h) as (_ & _ & E). congruence.
    + intros h o H. destruct (HH h) as (_ & _ & E). congruence.
    + intros h o i t th T H. destruct (HH h) as (_ & _ & E). congruence.
    + intros h o i t th H. destruct (HH h) as (_ & _ & E). congruence.
    + reflexivity.
Qed.

(* ---- vocabulary used by the statements ---- *)
Definition Reach (tlm : bool) (e : nat) (owners : list nat) (anext0 : nat) (afree0 : list nat) (vsize0 : nat)
                 (progs : list (list op)) (s : st) : Prop :=
  reachable st step (init tlm e owners anext0 afree0 vsize0 progs) s.
Definition no_overflow (s : st) : Prop := gver s < SLOT_IDLE.
(* some thread is inside lock() on slot i, between the lock_times increment and the publication of the version *)
Definition entering (s : st) (i : nat) : Prop := exists t th h, thr s t th /\ pc_lk (tpc th) = Some (h, i).

Lemma ep_inv : forall tlm e owners anext0 afree0 vsize0 progs s, wf_init anext0 afree0 ->
  Reach tlm e owners anext0 afree0 vsize0 progs s -> Inv s.
Proof.
  intros tlm e owners anext0 afree0 vsize0 progs s Hwf Hr.
  eapply (inv_reachable st step Inv); [apply Inv_init; exact Hwf | intros; eapply Inv_step; eauto | exact Hr].
Qed.

Lemma ep_safety_sc : forall tlm e owners anext0 afree0 vsize0 progs s, wf_init anext0 afree0 ->
  Reach tlm e owners anext0 afree0 vsize0 progs s -> no_overflow s -> uaf s = false.
Proof. intros. destruct (ep_inv _ _ _ _ _ _ _ _ H H0) as (_ & _ & IBP). destruct (IBP H1) as [_ IP]. apply (p_uaf _ IP). Qed.

Lemma ep_held_not_freed : forall tlm e owners anext0 afree0 vsize0 progs s h o, wf_init anext0 afree0 ->
  Reach tlm e owners anext0 afree0 vsize0 progs s -> no_overflow s ->
  hheld (get_h s h) = Some o -> ~ In o (freed s).
Proof. intros. destruct (ep_inv _ _ _ _ _ _ _ _ H H0) as (_ & _ & IBP). destruct (IBP H1) as [_ IP]. eapply (p_live _ IP); eauto. Qed.

Lemma ep_reader_holds_mark : forall tlm e owners anext0 afree0 vsize0 progs s h o i, wf_init anext0 afree0 ->
  Reach tlm e owners anext0 afree0 vsize0 progs s -> no_overflow s ->
  hheld (get_h s h) = Some o -> hidx (get_h s h) = Some i ->
  ver (get_slot s i) <> SLOT_IDLE /\ ver (get_slot s i) <= gver s /\
  (forall t th T, thr s t th -> In (o, T) (retired th) -> ver (get_slot s i) < T) /\
  (forall t th n k mn T, thr s t th -> tpc th = CScan n k mn -> In (o, T) (retired th) -> mn < T \/ (k <= i < n)%nat) /\
  (forall t th m todo all T, thr s t th -> tpc th = CFree m todo all -> ~ In (o, T) todo).
Proof.
  intros tlm e owners anext0 afree0 vsize0 progs s h o i Hwf Hr Hov Hh Hi.
  destruct (ep_inv _ _ _ _ _ _ _ _ Hwf Hr) as (_ & _ & IBP). destruct (IBP Hov) as [IB IP].
  pose proof (p_pub _ IP _ _ _ Hh Hi) as Hp.
  split; [exact Hp|]. split; [destruct (b_ver _ IB i); [congruence | assumption]|].
  split; [intros; eapply (p_ret _ IP); eauto|].
  split.
  - intros t th n k mn T Ht Hpc Hin. pose proof (p_coll _ IP _ _ _ _ _ Hh Hi Ht) as C. unfold coll_ok in C. rewrite Hpc in C. auto.
  - intros t th m todo all T Ht Hpc. pose proof (p_coll _ IP _ _ _ _ _ Hh Hi Ht) as C. unfold coll_ok in C. rewrite Hpc in C. auto.
Qed.

Lemma ep_open_region_published : forall tlm e owners anext0 afree0 vsize0 progs s h i, wf_init anext0 afree0 ->
  Reach tlm e owners anext0 afree0 vsize0 progs s -> no_overflow s ->
  hidx (get_h s h) = Some i -> 1 <= hdepth (get_h s h) -> ~ entering s i ->
  ver (get_slot s i) <> SLOT_IDLE /\ ver (get_slot s i) <= gver s.
Proof.
  intros tlm e owners anext0 afree0 vsize0 progs s h i Hwf Hr Hov Hi Hd Hne.
  destruct (ep_inv _ _ _ _ _ _ _ _ Hwf Hr) as (_ & _ & IBP). destruct (IBP Hov) as [IB IP].
  assert (Hp : ver (get_slot s i) <> SLOT_IDLE).
  { intro Hv. apply Hne. pose proof (b_dep _ IB _ _ Hi). apply (b_idle _ IB i); [lia | exact Hv]. }
  split; [exact Hp | destruct (b_ver _ IB i); [congruence | assumption]].
Qed.

Lemma ep_unlocked_slot_idle : forall tlm e owners anext0 afree0 vsize0 progs s i, wf_init anext0 afree0 ->
  Reach tlm e owners anext0 afree0 vsize0 progs s -> no_overflow s ->
  lt (get_slot s i) = 0 -> ver (get_slot s i) = SLOT_IDLE.
Proof.
  intros tlm e owners anext0 afree0 vsize0 progs s i Hwf Hr Hov Hl.
  destruct (ep_inv _ _ _ _ _ _ _ _ Hwf Hr) as (_ & _ & IBP). destruct (IBP Hov) as [IB IP].
  destruct (Z.eq_dec (ver (get_slot s i)) SLOT_IDLE) as [E|E]; [exact E | pose proof (b_pub _ IB _ E); lia].
Qed.

(* accessor slots are unique: two live accessors never share a slot, an op in progress belongs to the owner *)
Lemma ep_slots_exclusive : forall tlm e owners anext0 afree0 vsize0 progs s, wf_init anext0 afree0 ->
  Reach tlm e owners anext0 afree0 vsize0 progs s ->
  (forall h h' i, hidx (get_h s h) = Some i -> hidx (get_h s h') = Some i -> h = h') /\
  (forall h i, hidx (get_h s h) = Some i -> (i < anext s)%nat /\ (i < vsize s)%nat /\ ~ In i (afree s)) /\
  (forall t th h i, thr s t th -> pc_bound (tpc th) = Some (h, i) -> howner (get_h s h) = t /\ hidx (get_h s h) = Some i).
Proof.
  intros. destruct (ep_inv _ _ _ _ _ _ _ _ H H0) as (IA & _ & _).
  split; [apply (a_inj _ IA)|]. split; [apply (a_rng _ IA) | apply (a_own _ IA)].
Qed.

(* non-vacuity *)
Lemma ep_wf_init_example : wf_init 0 [].
Proof. split; [constructor | intros x []]. Qed.
Lemma ep_reach_example :
  exists s, Reach false 0 [0%nat] 0 [] 0 [[OCreate 0; OLock 0; ORead 0]; [OUnlink; OCollect]] s /\
            hheld (get_h s 0) = Some 0%nat /\ hidx (get_h s 0) = Some 0%nat /\ no_overflow s /\
            exists th, thr s 1 th /\ tpc th = CScan 1 0 SLOT_IDLE /\ In (0%nat, 1) (retired th).
Proof.
  eexists. split; [exists [0; 0; 0; 0; 0; 0; 0; 1; 1; 1; 1]%nat; reflexivity|].
  split; [vm_compute; reflexivity|]. split; [vm_compute; reflexivity|]. split; [vm_compute; reflexivity|].
  eexists. split; [vm_compute; reflexivity|]. split; [vm_compute; reflexivity | vm_compute; left; reflexivity].
Qed.

Definition Inv2 (s : st) : Prop := Inv s /\ (gver s < SLOT_IDLE -> InvR s).

Lemma Inv2_step : forall s t s', Inv2 s -> step s t = Some s' -> Inv2 s'.
Proof.
  intros s t s' [I IR] H. pose proof (step_gver_mono _ _ _ H) as Hm. split; [eapply Inv_step; eauto|].
  intro Hov. destruct I as (IA & _ & IBP). destruct (IBP ltac:(lia)) as [IB _]. eapply InvR_step; eauto. apply IR. lia.
Qed.

Lemma Inv2_init : forall tlm e owners anext0 afree0 vsize0 progs, wf_init anext0 afree0 ->
  Inv2 (init tlm e owners anext0 afree0 vsize0 progs).
Proof.
  intros. split; [apply Inv_init; assumption|]. intros _. split.
  - intros h i Hi. unfold get_h, init in Hi. cbn [handles] in Hi. destruct (init_handle (if tlm then seq 0 (length progs) else owners) h) as (E & _). congruence.
  - intros i _. unfold get_slot, init. cbn [slots]. rewrite init_slot. cbn. apply slot_init_spec.
Qed.

Lemma ep_inv2 : forall tlm e owners anext0 afree0 vsize0 progs s, wf_init anext0 afree0 ->
  Reach tlm e owners anext0 afree0 vsize0 progs s -> Inv2 s.
Proof.
  intros tlm e owners anext0 afree0 vsize0 progs s Hwf Hr.
  eapply (inv_reachable st step Inv2); [apply Inv2_init; exact Hwf | intros; eapply Inv2_step; eauto | exact Hr].
Qed.

Lemma bound_dec : forall l i, (exists h, hidx (getn handle0 l h) = Some i) \/ (forall h, hidx (getn handle0 l h) <> Some i).
Proof.
  unfold getn. induction l as [|a l IH]; intro i.
  - right. intros [|h]; cbn; discriminate.
  - destruct (hidx a) as [j|] eqn:Ea.
    + destruct (Nat.eq_dec j i) as [->|Hne].
      * left. exists 0%nat. exact Ea.
      * destruct (IH i) as [[h Hh]|Hn]; [left; exists (S h); exact Hh | right; intros [|h]; cbn; [congruence | apply Hn]].
    + destruct (IH i) as [[h Hh]|Hn]; [left; exists (S h); exact Hh | right; intros [|h]; cbn; [congruence | apply Hn]].
Qed.

Lemma ep_released_never_blocks : forall tlm e owners anext0 afree0 vsize0 progs s i, wf_init anext0 afree0 ->
  Reach tlm e owners anext0 afree0 vsize0 progs s -> no_overflow s ->
  (forall h, hidx (get_h s h) = Some i -> hdepth (get_h s h) = 0) ->
  lt (get_slot s i) = 0 /\ ver (get_slot s i) = SLOT_IDLE.
Proof.
  intros tlm e owners anext0 afree0 vsize0 progs s i Hwf Hr Hov Hun.
  destruct (ep_inv2 _ _ _ _ _ _ _ _ Hwf Hr) as [(IA & _ & IBP) IR]. destruct (IBP Hov) as [IB _]. destruct (IR Hov) as [R1 R2].
  assert (Hl : lt (get_slot s i) = 0).
  { destruct (bound_dec (handles s) i) as [[h Hh]|Hn]; [rewrite (R1 _ _ Hh); apply Hun; exact Hh | apply R2; exact Hn]. }
  split; [exact Hl|].
  destruct (Z.eq_dec (ver (get_slot s i)) SLOT_IDLE) as [E|E]; [exact E | pose proof (b_pub _ IB _ E); lia].
Qed.

(* a slot bound to no accessor - in particular one on the free list, or just handed out by create_accessor() and
   not yet bound - has lock_times = 0 and is idle: a reused slot starts clean *)
Lemma ep_unbound_slot_clean : forall tlm e owners anext0 afree0 vsize0 progs s i, wf_init anext0 afree0 ->
  Reach tlm e owners anext0 afree0 vsize0 progs s -> no_overflow s ->
  (forall h, hidx (get_h s h) <> Some i) -> lt (get_slot s i) = 0 /\ ver (get_slot s i) = SLOT_IDLE.
Proof.
  intros. eapply ep_released_never_blocks; eauto. intros h Hh. exfalso. eapply H2; eauto.
Qed.
Lemma ep_reused_slot_clean : forall tlm e owners anext0 afree0 vsize0 progs s t th h i, wf_init anext0 afree0 ->
  Reach tlm e owners anext0 afree0 vsize0 progs s -> no_overflow s ->
  thr s t th -> tpc th = CrEnsure h i -> lt (get_slot s i) = 0 /\ ver (get_slot s i) = SLOT_IDLE.
Proof.
  intros tlm e owners anext0 afree0 vsize0 progs s t th h i Hwf Hr Hov Ht Hpc.
  eapply ep_unbound_slot_clean; eauto.
  destruct (ep_inv _ _ _ _ _ _ _ _ Hwf Hr) as (IA & _ & _). destruct (a_cr _ IA _ _ _ _ Ht Hpc) as (_ & _ & Hno & _). exact Hno.
Qed.
(* the client's depth and the slot's lock_times agree for every live accessor *)
Lemma ep_lock_times_is_depth : forall tlm e owners anext0 afree0 vsize0 progs s h i, wf_init anext0 afree0 ->
  Reach tlm e owners anext0 afree0 vsize0 progs s -> no_overflow s ->
  hidx (get_h s h) = Some i -> lt (get_slot s i) = hdepth (get_h s h).
Proof.
  intros tlm e owners anext0 afree0 vsize0 progs s h i Hwf Hr Hov Hi.
  destruct (ep_inv2 _ _ _ _ _ _ _ _ Hwf Hr) as [_ IR]. destruct (IR Hov) as [R1 _]. apply R1. exact Hi.
Qed.
(* release() of a locked accessor: a reachable state after C0,L0,X0 - everything released, slot 0 idle again *)
Lemma ep_release_while_locked_example :
  exists s, Reach false 0 [0%nat] 0 [] 0 [[OCreate 0; OLock 0; ORelease 0]] s /\ all_done s = true /\
            (forall h, hidx (get_h s h) = None) /\ ver (get_slot s 0) = SLOT_IDLE /\ lt (get_slot s 0) = 0 /\ afree s = [0%nat].
Proof.
  eexists. split; [exists [0; 0; 0; 0; 0; 0; 0; 0; 0]%nat; reflexivity|].
  split; [vm_compute; reflexivity|]. split.
  - intros [|[|h]]; vm_compute; reflexivity.
  - repeat split; vm_compute; reflexivity.
Qed.

Lemma ep_tick_spec : tick_ret = tick_inc /\ tick_inc = 1.
Proof. split; reflexivity. Qed.
Lemma ep_idle_spec : SLOT_IDLE = 2 ^ 64 - 1 /\ lwm_init = SLOT_IDLE /\ unlock_value = SLOT_IDLE.
Proof. repeat split; reflexivity. Qed.
