(* Proofs about EPModel.  Statements are fixed by Properties_C09.v. *)
From Coq Require Import ZArith List Bool Lia Arith PeanoNat.
Require Import Verif.Base.Atomics Verif.Gen.Gen_epoch Verif.Conc.Machine Verif.EP.EPModel.
Import ListNotations.
Local Open Scope Z_scope.

(* memory-order obligations on the regenerated site tables: entry = store, THEN seq_cst fence; tick = seq_cst RMW
   (x86 branch) and relaxed RMW followed by a seq_cst fence (other branch); scan and allocator end = acquire loads;
   exit = release store *)
Definition orders_ok : bool :=
  match sites_lock, sites_unlock, sites_tick, sites_lwm, sites_id_end with
  | [(KLoad, _, _); (KStore, _, _); (KFence, o_fence, _)], [(KStore, o_exit, _)],
    [(KFadd, o_tick, _); (KFadd, _, _); (KFence, o_tick_fence, _)], [(KLoad, o_scan, _)], [(KLoad, o_end, _)] =>
    is_seq_cst o_fence && has_release o_exit && is_seq_cst o_tick && is_seq_cst o_tick_fence &&
    has_acquire o_scan && has_acquire o_end
  | _, _, _, _, _ => false
  end.

Lemma ep_orders_ok : orders_ok = true.
Proof. vm_compute. reflexivity. Qed.
