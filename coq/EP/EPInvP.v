(* EP: invariant P (a pointer held inside a region is not reclaimable) *)
From Coq Require Import ZArith List Bool Lia Arith PeanoNat.
Require Import Verif.Base.Atomics Verif.Gen.Gen_epoch Verif.Conc.Machine Verif.EP.EPModel Verif.EP.EPBase Verif.EP.EPInvA Verif.EP.EPInvB Verif.EP.EPInvO.
Import ListNotations.
Local Open Scope Z_scope.

(* ======================================================================================== *)
(* P: protection - a pointer held inside a region is not reclaimable                        *)
(* ======================================================================================== *)
Definition coll_ok (s : st) (i o : nat) (th : thread) : Prop :=
  match tpc th with
  | CNum sz => (exists T, In (o, T) (retired th)) -> (i < sz)%nat
  | CNum2 sz => (exists T, In (o, T) (retired th)) -> (i < sz)%nat /\ tl s = true
  | CScan n k mn => forall T, In (o, T) (retired th) -> mn < T \/ (k <= i < n)%nat
  | CFree m todo all => forall T, ~ In (o, T) todo
  | _ => True
  end.

Record InvP (s : st) : Prop := {
  p_idx : forall h o, hheld (get_h s h) = Some o -> hidx (get_h s h) <> None;
  p_dep : forall h o, hheld (get_h s h) = Some o -> 1 <= hdepth (get_h s h);
  p_pub : forall h o i, hheld (get_h s h) = Some o -> hidx (get_h s h) = Some i -> ver (get_slot s i) <> SLOT_IDLE;
  p_live : forall h o, hheld (get_h s h) = Some o -> ~ In o (freed s);
  p_ret : forall h o i t th T, hheld (get_h s h) = Some o -> hidx (get_h s h) = Some i -> thr s t th ->
          In (o, T) (retired th) -> ver (get_slot s i) < T;
  p_coll : forall h o i t th, hheld (get_h s h) = Some o -> hidx (get_h s h) = Some i -> thr s t th -> coll_ok s i o th;
  p_uaf : uaf s = false
}.

Lemma leave_held : forall d (x : option nat) o, (if d - 1 =? 0 then None else x) = Some o -> x = Some o /\ d - 1 <> 0.
Proof. intros d x o H. destruct (Z.eqb_spec (d - 1) 0); [discriminate | auto]. Qed.

Lemma stepP_idx : forall s t s', InvA s -> InvP s -> step s t = Some s' ->
  forall h o, hheld (get_h s' h) = Some o -> hidx (get_h s' h) <> None.
Proof.
  intros s t s' IA IP H. pose proof (p_idx _ IP) as Hi.
  step_cases H; pcfacts IA Hth Hpc; intros hq oq Hh; simp; gs; try (eapply Hi; eassumption); try congruence.
  all: try (apply leave_held in Hh; destruct Hh as [Hh _]; eapply Hi; eassumption).
Qed.

Lemma stepP_dep : forall s t s', InvA s -> InvP s -> step s t = Some s' ->
  forall h o, hheld (get_h s' h) = Some o -> 1 <= hdepth (get_h s' h).
Proof.
  intros s t s' IA IP H. pose proof (p_dep _ IP) as Hd.
  step_cases H; pcfacts IA Hth Hpc; prepb; intros hq oq Hh; simp; gs; try (eapply Hd; eassumption); try congruence.
  all: try (apply leave_held in Hh; destruct Hh as [Hh Hz]).
  all: try (pose proof (Hd _ _ Hh); lia).
  all: try assumption.
Qed.

(* the owner of a handle, between two operations, with depth >= 1: its slot is published *)
Lemma idle_owner_published : forall s t th h i, InvA s -> InvB s -> thr s t th -> tpc th = Idle ->
  howner (get_h s h) = t -> hidx (get_h s h) = Some i -> 1 <= hdepth (get_h s h) -> ver (get_slot s i) <> SLOT_IDLE.
Proof.
  intros s t th h i IA IB Hth Hpc Ho Hi Hd Hv.
  pose proof (b_dep _ IB _ _ Hi) as Hdep.
  destruct (b_idle _ IB i ltac:(lia) Hv) as (t1 & th1 & h1 & W1 & W2).
  destruct (a_own _ IA _ _ _ _ W1 (pc_lk_bound _ _ W2)) as (O1 & O2).
  assert (h1 = h) by (eapply (a_inj _ IA); eauto). subst h1.
  assert (E : t1 = t) by congruence. unfold thr in *. rewrite E, Hth in W1. injection W1 as <-. rewrite Hpc in W2. discriminate.
Qed.

Lemma stepP_pub : forall s t s', InvA s -> InvB s -> InvP s -> step s t = Some s' ->
  forall h o i, hheld (get_h s' h) = Some o -> hidx (get_h s' h) = Some i -> ver (get_slot s' i) <> SLOT_IDLE.
Proof.
  intros s t s' IA IB IP H. pose proof (p_pub _ IP) as Hp. pose proof (a_inj _ IA) as Hinj.
  step_cases H; bfacts IA IB Hth Hpc; specs; prepb; intros hq oq ix Hh Hx; simp; gs; try (eapply Hp; eassumption); try congruence.
  all: try (apply leave_held in Hh; destruct Hh as [Hh Hz]).
  all: try (pose proof (Hp _ _ _ Hh Hx); congruence).
  all: try (eapply Hp; eassumption).
  all: try lia.
  all: try (exfalso; match goal with Hn : ?a <> ?b |- _ => apply Hn; eapply Hinj; eauto; fail end).
  eapply (idle_owner_published _ _ _ _ _ IA IB Hth Hpc); unfold get_h; eassumption.
Qed.

Lemma stepP_live : forall s t s', InvA s -> InvO s -> InvP s -> step s t = Some s' ->
  forall h o, hheld (get_h s' h) = Some o -> ~ In o (freed s').
Proof.
  intros s t s' IA IO IP H. pose proof (p_live _ IP) as Hl.
  step_cases H; pcfacts IA Hth Hpc; intros hq oq Hh; simp; gs; try (eapply Hl; eassumption); try congruence.
  all: try (apply leave_held in Hh; destruct Hh as [Hh Hz]; eapply Hl; eassumption).
  - injection Hh as <-. intro Hin. destruct (o_freed _ IO _ Hin) as [Hne _]. congruence.
  - pose proof (p_idx _ IP _ _ Hh) as Hi. destruct (hidx (get_h s hq)) as [i|] eqn:Ei; [|congruence].
    pose proof (p_coll _ IP _ _ _ _ _ Hh Ei Hth) as C. unfold coll_ok in C. rewrite Hpc in C.
    intros [E|Hin]; [apply (C (snd p)); left; rewrite <- E; apply surjective_pairing | eapply Hl; eauto].
  - pose proof (p_idx _ IP _ _ Hh) as Hi. destruct (hidx (get_h s hq)) as [i|] eqn:Ei; [|congruence].
    pose proof (p_coll _ IP _ _ _ _ _ Hh Ei Hth) as C. unfold coll_ok in C. rewrite Hpc in C.
    intros [E|Hin]; [apply (C (snd p)); left; rewrite <- E; apply surjective_pairing | eapply Hl; eauto].
Qed.

Ltac specs' :=
  rewrite ?lock_inc_spec, ?unlock_dec_spec, ?lock_published_spec, ?unlock_value_spec, ?tick_inc_spec in *.

Lemma stepP_ret : forall s t s', InvA s -> InvB s -> InvO s -> InvP s -> step s t = Some s' ->
  forall h o i t' th' T, hheld (get_h s' h) = Some o -> hidx (get_h s' h) = Some i -> thr s' t' th' ->
  In (o, T) (retired th') -> ver (get_slot s' i) < T.
Proof.
  intros s t s' IA IB IO IP H. pose proof (p_ret _ IP) as Hr. pose proof (p_pub _ IP) as Hp. pose proof (a_inj _ IA) as Hinj.
  pose proof (b_ver _ IB) as Hv.
  pose proof tick_ret_spec as Htr.
  step_cases H; bfacts IA IB Hth Hpc; specs'; prepb; intros hq oq ix t' th' Tq Hh Hx Ht' Hin; unfold thr in Ht'; simp;
    thr_cases Hth Ht'; gs; try (eapply Hr; eassumption); try congruence.
  all: try (apply leave_held in Hh; destruct Hh as [Hh Hz]).
  all: in_filter.
  all: try (eapply Hr; eassumption).
  all: try (pose proof (Hp _ _ _ Hh Hx); congruence).
  all: try lia.
  all: try (exfalso; match goal with Hn : ?a <> ?b |- _ => apply Hn; eapply Hinj; eauto; fail end).
  all: try (injection Hh as <-; exfalso;
            first [ destruct (o_ret _ IO _ _ _ _ Hth Hin) as [Hc _] | destruct (o_ret _ IO _ _ _ _ Ht' Hin) as [Hc _] ]; congruence).
  apply in_app_or in Hin. destruct Hin as [Hin|[Hin|[]]]; [eapply Hr; eassumption|].
  injection Hin as <- <-. pose proof (Hp _ _ _ Hh Hx). match goal with |- ?a < _ => change (a < tick_ret + gver s) end. destruct (Hv ix); [congruence | lia].
Qed.

Lemma coll_ok_fresh : forall s i th, InvO s -> (exists t, thr s t th) -> coll_ok s i (cell s) th.
Proof.
  intros s i th IO [t Ht]. unfold coll_ok. destruct (tpc th) eqn:Hpc; try exact I.
  - intros [T Hin]. destruct (o_ret _ IO _ _ _ _ Ht Hin) as [Hc _]. congruence.
  - intros [T Hin]. destruct (o_ret _ IO _ _ _ _ Ht Hin) as [Hc _]. congruence.
  - intros T Hin. destruct (o_ret _ IO _ _ _ _ Ht Hin) as [Hc _]. congruence.
  - intros T Hin. destruct (o_todo _ IO _ _ _ _ _ _ _ Ht Hpc Hin) as [Hc _]. congruence.
Qed.

Lemma lwm_update_true : forall a b, lwm_update a b = true -> b < a.
Proof. intros a b H. unfold lwm_update in H. destruct (Z.gtb_spec a b); [lia | discriminate]. Qed.
Lemma lwm_update_false : forall a b, lwm_update a b = false -> a <= b.
Proof. intros a b H. unfold lwm_update in H. destruct (Z.gtb_spec a b); [discriminate | lia]. Qed.

Lemma stepP_coll : forall s t s', InvA s -> InvB s -> InvO s -> InvP s -> step s t = Some s' ->
  forall h o i t' th', hheld (get_h s' h) = Some o -> hidx (get_h s' h) = Some i -> thr s' t' th' -> coll_ok s' i o th'.
Proof.
  intros s t s' IA IB IO IP H.
  step_cases H; pose proof (p_coll _ IP) as Hc; pose proof (a_inj _ IA) as Hinj; pose proof (p_ret _ IP) as Hr;
    unfold coll_ok in Hc; bfacts IA IB Hth Hpc; specs; prepb; intros hq oq ix t' th' Hh Hx Ht'; unfold thr in Ht'; simp;
    thr_cases Hth Ht'; gs; unfold coll_ok; simp; try exact I; try (eapply Hc; eassumption); try congruence.
  all: try (apply leave_held in Hh; destruct Hh as [Hh Hz]).
  all: try (exact (Hc _ _ _ _ _ Hh Hx Ht')).
  all: try (injection Hh as <-; apply (coll_ok_fresh s _ _ IO); eexists; eassumption).
  all: pose proof (Hc _ _ _ _ _ Hh Hx Hth) as C; rewrite Hpc in C; destruct (a_rng _ IA _ _ Hx) as (R1 & R2 & R3).
  all: repeat match goal with
       | Hb : (_ <? _)%nat = true |- _ => apply Nat.ltb_lt in Hb
       | Hb : (_ <? _)%nat = false |- _ => apply Nat.ltb_ge in Hb
       | Hb : lwm_update _ _ = true |- _ => apply lwm_update_true in Hb
       | Hb : lwm_update _ _ = false |- _ => apply lwm_update_false in Hb
       end.
  all: try (intros _; exact R2).
  all: try (intros E; split; [exact (C E) | destruct (tl s); [reflexivity | exfalso; lia]]; fail).
  all: try (intros T Hin; apply (C T); right; exact Hin).
  all: try (intros T Hin; right; pose proof (C (ex_intro _ T Hin)) as C'; try destruct C' as [C' Ctl];
            unfold scan_n; rewrite ?scan_end_spec, ?scan_begin_spec in *; destruct (tl s); try congruence; lia).
  all: try (intros T Hin; destruct (C T Hin) as [Hlt|Hrange];
            [ left; lia
            | destruct (Nat.eq_dec k ix) as [E|E];
              [ subst k; left; pose proof (Hr _ _ _ _ _ _ Hh Hx Hth Hin); lia | right; lia ] ]; fail).
  all: intros T Hin; match goal with Hq : filter _ _ = _ |- _ => rewrite <- Hq in Hin end;
       apply filter_In in Hin; destruct Hin as [Hin Hrec]; unfold reclaimable in Hrec; cbn [snd] in Hrec; apply Z.leb_le in Hrec.
  all: try (pose proof (C (ex_intro _ T Hin)) as C'; try destruct C' as [C' Ctl];
            unfold scan_n in *; rewrite ?scan_end_spec, ?scan_begin_spec in *; destruct (tl s); try congruence; lia).
  all: destruct (C T Hin) as [Hlt|Hrange]; [lia | assert (k = ix) by lia; subst k; pose proof (Hr _ _ _ _ _ _ Hh Hx Hth Hin); lia].
Qed.
