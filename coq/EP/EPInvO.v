(* EP: invariant O (unlinked objects never come back) *)
From Coq Require Import ZArith List Bool Lia Arith PeanoNat.
Require Import Verif.Base.Atomics Verif.Gen.Gen_epoch Verif.Conc.Machine Verif.EP.EPModel Verif.EP.EPBase Verif.EP.EPInvA Verif.EP.EPInvB.
Import ListNotations.
Local Open Scope Z_scope.

(* ======================================================================================== *)
(* O: objects - unlinked objects never come back                                            *)
(* ======================================================================================== *)
Definition dead (s : st) (o : nat) : Prop := o <> cell s /\ (o < nobj s)%nat.

Record InvO (s : st) : Prop := {
  o_cell : (cell s < nobj s)%nat;
  o_freed : forall o, In o (freed s) -> dead s o;
  o_ret : forall t th o T, thr s t th -> In (o, T) (retired th) -> dead s o;
  o_tick : forall t th o, thr s t th -> tpc th = UTick o -> dead s o;
  o_todo : forall t th m todo all o T, thr s t th -> tpc th = CFree m todo all -> In (o, T) todo -> dead s o
}.

Lemma dead_unlink : forall s o, (cell s < nobj s)%nat -> dead s o -> o <> nobj s /\ (o < S (nobj s))%nat.
Proof. intros s o Hc [H1 H2]. split; lia. Qed.

Ltac in_filter := repeat match goal with H : In _ (filter _ _) |- _ => apply filter_In in H; destruct H as [H _] end.

Lemma InvO_step : forall s t s', InvO s -> step s t = Some s' -> InvO s'.
Proof.
  intros s t s' IO H. pose proof (o_cell _ IO) as Hc. pose proof (o_freed _ IO) as Hf. pose proof (o_ret _ IO) as Hr.
  pose proof (o_tick _ IO) as Ht. pose proof (o_todo _ IO) as Hd.
  step_cases H; constructor; unfold dead in *; simp; try assumption; try lia.
  (* o_freed *)
  all: try (intros oq Hq; first [ apply dead_unlink; [exact Hc | apply Hf; exact Hq] | apply Hf; exact Hq
            | destruct Hq as [<-|Hq]; [ eapply (Hd _ _ _ _ _ _ (snd _) Hth Hpc); rewrite <- surjective_pairing; left; reflexivity | apply Hf; exact Hq ] ]; fail).
  (* o_ret *)
  all: try (intros t' th' oq Tq Ht' Hin; unfold thr in Ht'; simp; thr_cases Hth Ht';
            try (apply in_app_or in Hin; destruct Hin as [Hin|[Hin|[]]]; [|injection Hin as <- <-; eapply Ht; eauto]);
            in_filter;
            first [ apply dead_unlink; [exact Hc | eapply Hr; eauto] | eapply Hr; eauto ]; fail).
  (* o_tick *)
  all: try (intros t' th' oq Ht' Hpc'; unfold thr in Ht'; simp; thr_cases Hth Ht'; try discriminate Hpc';
            first [ injection Hpc' as <-; split; lia | apply dead_unlink; [exact Hc | eapply Ht; eauto] | eapply Ht; eauto ]; fail).
  (* o_todo *)
  all: try (intros t' th' mq todo allq oq Tq Ht' Hpc' Hin; unfold thr in Ht'; simp; thr_cases Hth Ht'; try discriminate Hpc';
            try (injection Hpc' as <- <- <-);
            first [ apply dead_unlink; [exact Hc | eapply Hd; eauto] | eapply Hd; eauto
                  | eapply (Hd _ _ _ _ _ _ _ Hth Hpc); right; exact Hin
                  | match goal with Hq : filter _ _ = _ |- _ => rewrite <- Hq in Hin end; in_filter; eapply Hr; eauto ]; fail).
  all: intros t' th' mq todoq allq oq Tq Ht' Hpc' Hin; unfold thr in Ht'; simp; thr_cases Hth Ht'; try discriminate Hpc'.
  all: try (eapply Hd; [exact Ht' | exact Hpc' | exact Hin]; fail).
  all: injection Hpc' as E1 E2 E3; subst.
  all: try (eapply (Hd _ _ _ _ _ _ _ Hth Hpc); right; exact Hin).
  all: match goal with Hq : filter _ _ = _ |- _ => rewrite <- Hq in Hin end; in_filter; eapply Hr; [exact Hth | exact Hin].
Qed.
