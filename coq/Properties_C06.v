(* C06 - monotonic buffer resources (ExclusiveMonotonicBufferResource; src/babylon/reusable/memory_resource.{h,cpp}).
   Only statements here; every proof is `exact <lemma of MR/MRProofs.v>`.

   Setting.  `step P s op` is the executable model of one operation on a resource whose page allocator has page
   size P; `reach P s` = s is reachable from the freshly constructed resource through ANY sequence of allocate /
   register_destructor / contains / release / move operations whose oracle answers (pages, upstream blocks) are
   what a correct allocator gives: fresh (disjoint from everything currently lent out), aligned, below 2^62
   (`op_ok`, `oracle_ok`).  Preconditions visible in the statements: P = 2^k, 7 <= k <= 32 (what
   NewDeletePageAllocator produces and set_page_allocator asserts), alignment 2^j with j <= 32, bytes < 2^61.
   Ghost fields of the state: `blocks` (address, bytes) handed to the user since the last release, `books`
   intrusive arrays, `gpages` / `gups` pages and upstream blocks obtained, `gdtors` destructors registered;
   c06_ghost_is_trace ties them to the allocator events of the trace.

   What is NOT proved here:
   * the shared / swiss variants: c06_shared_disjoint proves that per-thread exclusive resources fed by shared
     allocators (answers fresh for every thread's resource) never hand overlapping memory to different threads, for
     every interleaving of operations and thread creation, and c06_shared_release_order / _exact cover its
     release (all destructors of all sub-resources first, then every page / oversize block once); that each thread
     really gets its own resource
     (EnumerableThreadLocal, C19) and the atomics of the thread-local lookup are covered by monitors over real
     threads only;
   * "keeps its contents" is proved as: every store the resource performs lies inside one of its own bookkeeping
     arrays and is disjoint from every live block (the model has no byte memory);
   * move: move-assignment into a prepared target is the identity on the state; move construction keeps the
     whole state including _upstream (Gen.move_swaps_upstream is regenerated from operator=(&&): the swap of
     _upstream was missing before /repo commit 2947382 - KNOWN_FINDINGS.txt `fixed:` - and a revert breaks the
     translator target).  All theorems quantify over histories that contain both kinds of move. *)
From Coq Require Import ZArith List.
Require Import Verif.Gen.Gen_memory_resource Verif.MR.MRModel Verif.MR.MRProofs.
Import ListNotations.
Local Open Scope Z_scope.

Definition page_size_ok (P : Z) : Prop := exists k, 7 <= k <= 32 /\ P = 2 ^ k.

(* Every block returned by allocate is aligned as requested, lies in memory the resource owns (a page or
   oversize block obtained and not returned), overlaps no other live block and none of the bookkeeping. *)
Theorem c06_block_ok : forall P, page_size_ok P -> forall s b a o s' r e,
  reach P s -> 0 <= b < 2 ^ 61 -> pow2 a -> oracle_ok P s b a o ->
  step P s (Alloc b a o) = (s', r, e) ->
  r mod a = 0 /\ owned (regions P s') (r, b) /\
  Forall (disj (r, b)) (blocks s) /\ Forall (disj (r, b)) (books s') /\
  blocks s' = (r, b) :: blocks s.
Proof. exact mr_block_ok. Qed.
Print Assumptions c06_block_ok.

(* ... and this stays true while anything else happens: at every reachable state all live blocks and all
   bookkeeping arrays are pairwise disjoint, inside owned memory, and owned regions are pairwise disjoint. *)
Theorem c06_live_disjoint : forall P, page_size_ok P -> forall s, reach P s ->
  PW (blocks s ++ books s) /\ Forall (owned (regions P s)) (blocks s ++ books s) /\
  PW (regions P s) /\ (forall x y, In x (blocks s) -> In y (books s) -> disj x y).
Proof. exact mr_live_disjoint. Qed.
Print Assumptions c06_live_disjoint.

(* Blocks keep their contents: no store performed by any later operation touches a live block. *)
Theorem c06_contents_stable : forall P, page_size_ok P ->
  forall s o s' r e addr len, reach P s -> op_ok P s o -> step P s o = (s', r, e) ->
  In (EWrite addr len) e -> Forall (disj (addr, len)) (blocks s').
Proof. exact mr_contents_stable. Qed.
Print Assumptions c06_contents_stable.

(* The ghost lists are the allocator / upstream / registration events of the trace. *)
Theorem c06_ghost_is_trace : forall P s o s' r e, step P s o = (s', r, e) -> o <> Release ->
  gpages s' = rev (ev_pages e) ++ gpages s /\ gups s' = rev (ev_ups e) ++ gups s /\
  gdtors s' = match o with Reg ptr fn _ => (ptr, fn) :: gdtors s | _ => gdtors s end.
Proof. exact mr_ghost_is_trace. Qed.
Print Assumptions c06_ghost_is_trace.

(* release(): the registered destructors run exactly once each, newest first, before anything is freed; then
   the pages go back in batches whose concatenation is exactly the list of pages obtained; then every oversize
   block goes back with the (bytes, alignment) it was obtained with; the state afterwards is the reset one. *)
Theorem c06_release_exact : forall P, page_size_ok P -> forall s, reach P s ->
  exists batches,
    step P s Release =
      (reset s, 0,
       map (fun t => EDtor (fst t) (snd t)) (gdtors s) ++ map EPageFree batches ++
       map (fun e => match e with (p, b, a) => EUpFree (up s) p b a end) (map up_entry (gups s))) /\
    concat batches = gpages s.
Proof. exact mr_release_exact. Qed.
Print Assumptions c06_release_exact.

(* ... to the upstream each block came from (all histories, moves included) *)
Theorem c06_release_right_upstream : forall P s, reach P s ->
  Forall (fun e => fst (fst (fst e)) = up s) (gups s).
Proof. exact mr_release_right_upstream. Qed.
Print Assumptions c06_release_right_upstream.

(* afterwards the resource is reusable and its accounting is zero: it is the initial state again *)
Theorem c06_release_reusable : forall P, page_size_ok P -> forall s, reach P s ->
  fst (fst (step P s Release)) = init.
Proof. exact mr_release_init. Qed.
Print Assumptions c06_release_reusable.

(* Shared / swiss variants: a list of exclusive resources, thread t operating on the t-th, new threads appearing
   at any time (`sreach`), the page allocator and upstream shared (their answers fresh for every resource):
   blocks and bookkeeping of different threads never overlap. *)
Theorem c06_shared_disjoint : forall P, page_size_ok P -> forall S, sreach P S -> forall t u st su, t <> u ->
  nth_error S t = Some st -> nth_error S u = Some su ->
  forall x y, In x (blocks st ++ books st) -> In y (blocks su ++ books su) -> disj x y.
Proof. exact mr_shared_disjoint. Qed.
Print Assumptions c06_shared_disjoint.

(* release() of the shared / swiss resource = destruct_all of every per-thread resource, then release of every
   per-thread resource (two-loop structure regenerated from the source: Gen.shared_release_destructs_first):
   every destructor of every sub-resource runs before any page / oversize block of any sub-resource goes back ... *)
Theorem c06_shared_release_order : forall P, page_size_ok P -> forall S, sreach P S ->
  exists ed ef, snd (sh_release S) = ed ++ ef /\ Forall is_dtor ed /\ Forall is_free ef.
Proof. exact mr_shared_release_order. Qed.
Print Assumptions c06_shared_release_order.

(* ... each registered destructor exactly once (newest first per sub-resource), each page and oversize block of each
   sub-resource exactly once with its size and alignment, and every sub-resource is in its initial state afterwards *)
Theorem c06_shared_release_exact : forall P, page_size_ok P -> forall S, sreach P S ->
  sh_release S = (map (fun _ => init) S,
                  concat (map (fun s => map dtor_ev (gdtors s)) S) ++ concat (map free_evs S)) /\
  Forall (fun s => concat (page_batches s) = gpages s) S.
Proof. exact mr_shared_release_exact. Qed.
Print Assumptions c06_shared_release_exact.

(* Move ASSIGNMENT between two resources configured with different page allocators / upstreams (a configured
   resource = (state, page allocator id), upstream id in the state): `a = std::move(b)` exchanges everything, so
   the moved-from object releases a's former pages / oversize blocks to the allocators they came from.  Every
   std::swap line of operator=(&&) is a regenerated Gen.move_swaps_<member>; a member copied instead of swapped
   breaks the translator target, and the two-resource monitors of the check find the failing input. *)
Theorem c06_move_assign_exchanges : forall a b : rsrc,
  move_assign a b = (b, a) /\
  release_to (snd (move_assign a b)) = release_to a /\ release_to (fst (move_assign a b)) = release_to b.
Proof. exact mr_move_assign_exchanges. Qed.
Print Assumptions c06_move_assign_exchanges.

(* non-vacuity: real page sizes satisfy the hypothesis, fresh oracles exist, non-trivial states are reachable *)
Example c06_params_4096 : page_size_ok 4096.
Proof. exists 12. split; [split; discriminate|reflexivity]. Qed.
Example c06_oracle_satisfiable : oracle_ok 128 init 129 8 witness_oracle.
Proof. apply witness_oracle_ok; [exists 3; split; [split; discriminate|reflexivity]|discriminate|split; [discriminate|reflexivity]]. Qed.
Example c06_reach_nontrivial : exists s, reach 128 s /\ length (blocks s) = 1%nat /\ length (gups s) = 1%nat /\ up s = 1.
Proof. exact witness_reach. Qed.
