From Coq Require Import ZArith List.
Require Import Verif.Gen.Gen_memory_resource Verif.MR.MRModel Verif.MR.MRProofs.
Local Open Scope Z_scope.
Theorem c06_cap_pos : 1 <= PAGE_ARRAY_CAPACITY.
Proof. exact mr_cap_pos. Qed.
Print Assumptions c06_cap_pos.
