(* C07 - Executors: an accepted task runs exactly once; stop() drains submitted work.
   Only statements; proofs are `exact <lemma of EX/EXProofs.v>`.  Reach c progs s = "s is reachable from the
   initial state of configuration c (worker count, global/local capacity, stealing, balance interval, task graph)
   and client programs progs (external threads: submit / wakeup_one_worker / stop / wait-for-the-others) under
   SOME schedule" - every theorem is quantified over all of them.

   STATUS: c07_run_at_most_once (NoDup of started tasks), c07_runs_inside_runner_scope and c07_stop_drains are
   theorems, and so is c07_run_once (at most once + only accepted tasks start + on a worker thread), for every
   configuration, client program, task graph and schedule.  Liveness: c07_no_deadlock (no reachable deadlock under
   the usage rules named there) and c07_stop_makes_progress; fairness of the scheduler is what turns this into
   "stop() eventually returns".  c07_failed_never_runs, c07_inplace*, c07_newthread* cover refused submissions and the
   two degenerate executors.
   Model-level meaning of the property text: acc_before = tasks whose submission returned while stop() had not been
   called; acc_local = tasks pushed into a local queue (by any task, at any time); finished = callable returned,
   i.e. the future is ready.  In the model every submission to the pool succeeds (enqueue_task returns 0, pinned
   by c07_refused_submission_invalid_future); refusing executors are covered by monitors only. *)
From Coq Require Import ZArith List Bool.
Require Import Verif.Gen.Gen_executor Verif.Conc.Machine Verif.EX.EXModel Verif.EX.EXProofs Verif.EX.EXSmallModel Verif.EX.EXSmallProofs Verif.EX.EXLive Verif.EX.EXLive2 Verif.EX.EXScope.
Import ListNotations.

(* usage rules: at least one worker; every task id is written at one place only (one submit in one program, or
   one position in one task body) - each closure is a distinct task *)
Definition wf (c : config) (progs : list (list op)) : Prop :=
  1 <= nworkers c /\ NoDup (submit_ids progs ++ concat (bodies c)).

(* ---- exactly once ------------------------------------------------------------------------------------------- *)
(* a task starts at most once, only if its submission was accepted (a refused or never made submission never
   starts), and only on a worker thread, i.e. inside the RunnerScope keep_execute opens for this executor *)
Theorem c07_run_once : forall c progs s, NoDup (submit_ids progs ++ concat (bodies c)) -> Reach c progs s ->
  NoDup (map fst (started s)) /\ (forall id w, In (id, w) (started s) -> In id (accepted s) /\ w < nworkers c).
Proof. exact ex_run_once. Qed.
Print Assumptions c07_run_once.

Theorem c07_run_at_most_once : forall c progs s, NoDup (submit_ids progs ++ concat (bodies c)) -> Reach c progs s ->
  NoDup (map fst (started s)).
Proof. exact ex_nodup_started. Qed.
Print Assumptions c07_run_at_most_once.

Theorem c07_only_accepted_tasks_start : forall c progs s id w, Reach c progs s -> In (id, w) (started s) -> In id (accepted s).
Proof. exact ex_started_accepted. Qed.
Print Assumptions c07_only_accepted_tasks_start.

(* a task only ever starts on a worker thread, i.e. inside the RunnerScope keep_execute opens for this executor *)
Theorem c07_runs_inside_runner_scope : forall c progs s id w, Reach c progs s -> In (id, w) (started s) -> w < nworkers c.
Proof. exact ex_started_on_worker. Qed.
Print Assumptions c07_runs_inside_runner_scope.

(* a submission that reported failure (non-zero from submit(), invalid future from execute(): the regenerated
   failure test applied to enqueue_task's regenerated results) never starts; in the pool no submission is refused *)
Theorem c07_failed_never_runs : forall c progs s id, Reach c progs s -> In id (refused s) -> ~ In id (map fst (started s)).
Proof. exact ex_failed_never_runs. Qed.
Print Assumptions c07_failed_never_runs.

Theorem c07_pool_never_refuses : forall c progs s, Reach c progs s -> refused s = [].
Proof. exact ex_none_refused. Qed.
Print Assumptions c07_pool_never_refuses.

(* work stealing: for_each over the local queues invokes the callback once per storage block (128 thread ids); the
   callback begins with the regenerated guard `if (steal_success) return;`.  The model scans block by block and follows
   that flag; with it, at most one task is taken per scan - no worker ever goes on scanning while it holds a stolen
   task (which a second steal or the global pop would overwrite).  c07_run_once / c07_stop_drains rest on this. *)
Theorem c07_one_task_per_steal_scan : forall c progs s, Reach c progs s ->
  forall t th r cu it, nth_error (threads s) t = Some th -> tpc th <> WStealHeld r cu it.
Proof. exact ex_one_task_per_scan. Qed.
Print Assumptions c07_one_task_per_steal_scan.

Theorem c07_steal_callback_guard : guard_on = true /\ (forall rest, advance rest true = None) /\
  (steal_stops_at_first 1 = true /\ steal_stops_at_first 0 = false).
Proof. exact (conj gen_steal_guard (conj advance_true gen_steal_first)). Qed.
Print Assumptions c07_steal_callback_guard.

(* ---- stop() drains -------------------------------------------------------------------------------------------- *)
(* when stop() has returned, every task whose submission returned before stop() was called (acc_before) and every
   task pushed into a local queue, at any time (acc_local), has finished - hence, with at-most-once, ran exactly once *)
Theorem c07_stop_drains : forall c progs s, 1 <= nworkers c -> Reach c progs s -> stop_returned s = true ->
  forall id, In id (acc_before s) \/ In id (acc_local s) -> In id (finished s).
Proof. exact ex_stop_drains. Qed.
Print Assumptions c07_stop_drains.

(* the invariants behind it *)
Theorem c07_global_queue_tickets : forall c progs s, Reach c progs s -> TicketInv s.
Proof. exact ex_tickets. Qed.
Print Assumptions c07_global_queue_tickets.

Theorem c07_idle_worker_has_empty_local_queue : forall c progs s, Reach c progs s ->
  forall t th w, nth_error (threads s) t = Some th -> trole th = RWorker w -> quiet (tpc th) = true -> drained (lq_of s w).
Proof. exact ex_quiet_drained. Qed.
Print Assumptions c07_idle_worker_has_empty_local_queue.

Theorem c07_accepted_task_is_located : forall c progs s, Reach c progs s -> forall id, tracked s id -> located s id.
Proof. exact ex_located. Qed.
Print Assumptions c07_accepted_task_is_located.

Theorem c07_token_count : forall c progs, (forall x, total c (init c progs) x <= 1) ->
  forall s, Reach c progs s -> CntInv c progs s.
Proof. exact ex_counts. Qed.
Print Assumptions c07_token_count.

Theorem c07_stop_sequencing : forall c progs s, Reach c progs s ->
  (stop_returned s = true ->
     (forall j, j < nworkers c -> worker_exited s j) /\
     (forall t th, nth_error (threads s) t = Some th -> trole th = RBal -> tpc th = BExit)) /\
  (stop_called s = false -> nostop (gq s) = true) /\
  (forall t th, nth_error (threads s) t = Some th -> trole th = RBal -> tpc th <> BExit -> nostop (gq s) = true) /\
  Forall lq_funs (lqs s) /\
  (forall t th k it, nth_error (threads s) t = Some th -> tpc th = BTake k it -> fun_item it).
Proof.
  exact (fun c progs s Hr =>
    conj (ex_stop_returns_after_exit c progs s Hr)
    (conj (ex_nostop_before_stop c progs s Hr)
    (conj (fun t th Hn Hb Hp => ex_nostop_while_balancing c progs s t th Hr Hn Hb Hp)
          (ex_local_funs c progs s Hr)))).
Qed.
Print Assumptions c07_stop_sequencing.

(* stop() joins the workers in order: a stop() that is joining worker k has seen workers 0..k-1 exit *)
Theorem c07_stop_joins_every_worker : forall c progs s, Reach c progs s ->
  (forall t th k, nth_error (threads s) t = Some th -> tpc th = EStopJoin k -> forall j, j < k -> worker_exited s j) /\
  (stop_returned s = true -> forall j, j < nworkers c -> worker_exited s j).
Proof. exact ex_joined. Qed.
Print Assumptions c07_stop_joins_every_worker.

(* the marker loop starts only after the balance thread has exited *)
Theorem c07_markers_after_balancer : forall c progs s, Reach c progs s -> markers_begun s ->
  forall t th, nth_error (threads s) t = Some th -> trole th = RBal -> tpc th = BExit.
Proof. exact ex_bal_exited. Qed.
Print Assumptions c07_markers_after_balancer.

(* markers are pushed / workers joined only by a thread that has called stop(); stop() returned implies called *)
Theorem c07_stop_sequence : forall c progs s, Reach c progs s ->
  (forall t th, nth_error (threads s) t = Some th -> stop_pc (tpc th) = true -> stop_called s = true) /\
  (stop_returned s = true -> stop_called s = true).
Proof. exact ex_stop_called. Qed.
Print Assumptions c07_stop_sequence.

(* threads keep their kind: external threads never execute worker code and vice versa *)
Theorem c07_role_pc_consistent : forall c progs s, Reach c progs s ->
  forall t th, nth_error (threads s) t = Some th -> role_pc_ok (trole th) (tpc th) = true.
Proof. exact ex_role_pc. Qed.
Print Assumptions c07_role_pc_consistent.

(* ---- the regenerated decision expressions have the shape the argument relies on ---------------------------- *)
Theorem c07_marker_is_what_workers_exit_on :
  stop_marker_type = worker_exits_on /\ wakeup_marker_type <> worker_exits_on /\
  invoke_task_type = worker_runs_on /\ worker_runs_on <> worker_exits_on.
Proof. exact (conj gen_stop_is_exit (conj gen_wake_not_exit (conj gen_fun_is_run gen_run_not_exit))). Qed.
Print Assumptions c07_marker_is_what_workers_exit_on.

(* statement order in stop(), regenerated: _running cleared, then the balance thread joined, then the marker loop,
   then the worker joins.  The model follows stop_joins_balancer_first (EStopJoinBal / EStopJoinBalLate), and
   c07_stop_drains, c07_markers_after_balancer and the no-STOP-while-balancing invariant rest on this fact. *)
Theorem c07_stop_statement_order :
  (stop_joins_balancer_first =? 1)%Z = true /\ stop_clears_running_first = 1%Z /\
  stop_markers_before_worker_join = 1%Z /\ stop_worker_wait = 1%Z.
Proof. exact (conj gen_join_first gen_stop_order). Qed.
Print Assumptions c07_stop_statement_order.

Theorem c07_one_marker_per_worker : (forall i n, stop_push_more i n = (i <? n)%Z) /\ stop_first_marker = 0%Z.
Proof. exact (conj gen_push_more gen_first_marker). Qed.
Print Assumptions c07_one_marker_per_worker.

Theorem c07_local_push_only_below_capacity : forall sz l, local_enabled l && local_has_room sz l = true -> (sz < l)%Z.
Proof. exact gen_local_room. Qed.
Print Assumptions c07_local_push_only_below_capacity.

Theorem c07_worker_loop_tests :
  (worker_local_first 0 = true /\ worker_local_first 1 = false) /\ (global_pop_needed 0 = true /\ global_pop_needed 1 = false) /\
  (stop_returns_early 1 = false /\ stop_returns_early 0 = true) /\ (balance_continues 1 = true /\ balance_continues 0 = false).
Proof. exact (conj gen_local_first (conj gen_pop_needed (conj gen_stop_early gen_balance_continues))). Qed.
Print Assumptions c07_worker_loop_tests.

(* a refused submission (BasicExecutor::invoke's result) makes execute() return an invalid future; the pool's
   enqueue_task never refuses *)
Theorem c07_refused_submission_invalid_future :
  execute_failed base_invoke_result = true /\ execute_failed enqueue_result = false /\ execute_failed enqueue_local_result = false.
Proof. exact gen_refusal. Qed.
Print Assumptions c07_refused_submission_invalid_future.

Theorem c07_memory_order_obligations : orders_ok = true.
Proof. exact ex_orders_ok. Qed.
Print Assumptions c07_memory_order_obligations.

(* ---- liveness: stop() returns -------------------------------------------------------------------------------- *)
(* usage rules (predicates on configuration and programs):
     queue_cannot_fill c progs = every task id is written at one place, and the global queue (bit_ceil(2 *
        global_capacity) slots) has room for push_bound c progs tickets = one per submit and wakeup_one_worker, one
        STOP marker per worker and stop(), two per spawned task (its push and its possible move by the balancer).
        This excludes the self-blocking case: a task (or the balancer, or a submitter racing with stop()) blocked in
        push on a full global queue that only its own worker could drain.
     one_joiner progs = at most one client program waits for the other clients;  some_stop progs = some client calls stop(). *)
(* while a thread is inside stop() something can always move: stop() cannot get stuck *)
Theorem c07_stop_makes_progress : forall c progs s, queue_cannot_fill c progs -> Reach c progs s ->
  (exists t th, nth_error (threads s) t = Some th /\ stop_pc (tpc th) = true) -> exists t, step c s t <> None.
Proof. exact ex_stop_progress. Qed.
Print Assumptions c07_stop_makes_progress.

(* no reachable deadlock: in every reachable state either everything has finished or some thread can move *)
Theorem c07_no_deadlock : forall c progs s, usage c progs -> Reach c progs s -> all_done s = false ->
  exists t, step c s t <> None.
Proof. exact ex_no_deadlock. Qed.
Print Assumptions c07_no_deadlock.

(* the same without the capacity rule, for states in which no pusher is blocked by a full queue *)
Theorem c07_stop_not_stuck_unless_push_blocked : forall c progs s, Reach c progs s -> no_push_blocked c s ->
  (exists t th, nth_error (threads s) t = Some th /\ stop_pc (tpc th) = true) -> exists t, step c s t <> None.
Proof. exact ex_stop_not_stuck. Qed.
Print Assumptions c07_stop_not_stuck_unless_push_blocked.

Theorem c07_push_tickets_bounded : forall c progs, NoDup (submit_ids progs ++ concat (bodies c)) ->
  forall s, Reach c progs s -> phi c s <= push_bound c progs.
Proof. exact ex_phi. Qed.
Print Assumptions c07_push_tickets_bounded.

Example c07_usage_satisfiable : usage live_cfg live_progs.
Proof. exact ex_usage_demo. Qed.

(* ---- InplaceExecutor (EXSmallModel.inplace_invoke) ---------------------------------------------------------- *)
(* invoke runs the task and, re-entrantly, everything it submits to the same executor, inside the caller: at return
   each of them has run exactly once (log = pre-order of the task tree), each inside a RunnerScope of this executor
   (is_running_in() true), every invoke returned 0 (valid, ready future), and the caller's scope is restored -
   whatever scope the caller was in (none, another executor, or this one) *)
Theorem c07_inplace : forall t me s,
  icur (inplace_invoke me t s) = icur s /\
  ilog (inplace_invoke me t s) = ilog s ++ in_scope_log (preorder t) /\
  irets (inplace_invoke me t s) = irets s ++ ok_rets (postorder t).
Proof. exact inplace_spec. Qed.
Print Assumptions c07_inplace.

Theorem c07_inplace_each_submission_runs_once : forall t me s id,
  count_occ Nat.eq_dec (map fst (ilog (inplace_invoke me t s))) id =
  count_occ Nat.eq_dec (map fst (ilog s)) id + count_occ Nat.eq_dec (preorder t) id.
Proof. exact inplace_runs_each_once. Qed.
Print Assumptions c07_inplace_each_submission_runs_once.

(* ---- AlwaysUseNewThreadExecutor (EXSmallModel.nstep), all client programs, task graphs and schedules ------- *)
Theorem c07_newthread_one_thread_per_task : forall bodies progs s, NReach bodies progs s ->
  NoDup (map (fun e => snd (fst e)) (nstarted s)) /\
  forall id t sc, In (id, t, sc) (nstarted s) -> sc = true /\ length progs <= t.
Proof. exact ex_newthread_one_thread_each. Qed.
Print Assumptions c07_newthread_one_thread_per_task.

(* join()/destructor: it returns only on reading _running = 0, and then every task accepted so far - including
   everything those tasks spawned - has finished *)
Theorem c07_newthread_join_drains : forall bodies progs s, NReach bodies progs s ->
  njoin_ok s = true /\ (nrunning s = 0%Z -> forall id, In id (ncounted s) -> In id (nfinished s)).
Proof. exact (fun b p s Hr => conj (ex_newthread_join_ok b p s Hr) (ex_newthread_idle_means_done b p s Hr)). Qed.
Print Assumptions c07_newthread_join_drains.

Theorem c07_small_executor_statement_order :
  ((inplace_scope_first =? 1)%Z = true /\ inplace_result = 0%Z) /\
  ((newthread_counts_before_spawn =? 1)%Z = true /\ (newthread_scope_first =? 1)%Z = true /\
   newthread_uncounts_after_run = 1%Z /\ newthread_result = 0%Z /\ (forall r, newthread_join_waits r = negb (r =? 0)%Z)).
Proof. exact (conj gen_inplace gen_newthread). Qed.
Print Assumptions c07_small_executor_statement_order.

(* ---- non-vacuity: a reachable state in which stop() has returned, a task spawned into a local queue after
   stop() was called has run, and both full statements hold ------------------------------------------------ *)
Example c07_demo_reachable : Reach demo_cfg demo_progs (run st (step demo_cfg) (init demo_cfg demo_progs) demo_sched).
Proof. exact ex_demo_reach. Qed.
Example c07_demo_drained : let s := run st (step demo_cfg) (init demo_cfg demo_progs) demo_sched in
  stop_returned s = true /\ finished s = [0; 1] /\ map fst (started s) = [0; 1] /\ acc_local s = [1] /\ acc_before s = [0].
Proof. exact ex_demo. Qed.
Example c07_demo_wf : wf demo_cfg demo_progs.
Proof. exact ex_demo_wf. Qed.
Example c07_newthread_demo : let s := run nst (nstep ndemo_bodies) (ninit ndemo_progs) ndemo_sched in
  NReach ndemo_bodies ndemo_progs s /\ nrunning s = 0%Z /\ nfinished s = [1; 0] /\ ncounted s = [1; 0] /\
  nstarted s = [(0, 1, true); (1, 2, true)] /\ map nopi (nthreads s) = [2; 0; 0].
Proof. exact ex_ndemo. Qed.
Example c07_inplace_demo : inplace_invoke 7 (Task 0 [Task 1 [Task 3 []]; Task 2 []]) {| icur := Some 9; ilog := []; irets := [] |} =
  {| icur := Some 9; ilog := [(0, true); (1, true); (3, true); (2, true)]; irets := [(3, 0%Z); (1, 0%Z); (2, 0%Z); (0, 0%Z)] |}.
Proof. exact ex_idemo. Qed.

(* ---- nested RunnerScopes on one thread (EXScope; regenerated: the constructor remembers the previous current
   executor, the destructor writes it back): after any well-bracketed use of other executors' scopes inside a task
   of executor e the thread still reports e, the outermost scope leaves the thread as it found it, and at every
   point of every nesting depth the current executor is the one whose scope is innermost ------------------------- *)
Theorem c07_nested_scopes_restore_running_in : forall e p,
  run_scopes p (Some e) = Some e /\
  run_scopes (Nest e p Done) None = None /\
  Forall (fun m => fst m = snd m) (marks p (Some e) (Some e)).
Proof. exact nested_scopes_restore. Qed.
Print Assumptions c07_nested_scopes_restore_running_in.
Example c07_nested_scopes_demo :
  marks (Nest 3 (Nest 3 Done Done) (Nest 5 Done Done)) (Some 7%nat) (Some 7%nat) =
  [(Some 7, Some 7); (Some 3, Some 3); (Some 3, Some 3); (Some 3, Some 3); (Some 7, Some 7); (Some 5, Some 5); (Some 7, Some 7)]%nat.
Proof. exact ex_scope_demo. Qed.
