(* C07 - Executors: an accepted task runs exactly once; stop() drains submitted work.
   Only statements; proofs are `exact <lemma of EX/EXProofs.v>`.  Reach c progs s = "s is reachable from the
   initial state of configuration c (worker count, global/local capacity, stealing, balance interval, task graph)
   and client programs progs (external threads: submit / wakeup_one_worker / stop / wait-for-the-others) under
   SOME schedule" - every theorem is quantified over all of them.

   STATUS (honest): the two headline statements are stated below at full strength as `..._statement`
   definitions but are NOT proved in Coq:
     c07_run_once_statement     - a task starts at most once and only if its submission was accepted
     c07_stop_drains_statement  - when stop() has returned, every task accepted before stop() was called and
                                  every task pushed into a local queue has finished
   What IS proved (for all configurations, programs and schedules) are the parts of their argument that concern
   the order of events in stop() and where tasks may run:
     c07_run_once_partial       - a task only ever starts on a worker thread, i.e. inside the RunnerScope that
                                  keep_execute opens for this executor (not proved: at most once, only accepted)
     c07_stop_drains_partial    - when stop() has returned every worker has left keep_execute and the balance
                                  thread has exited; no STOP marker exists in the global queue before stop() is
                                  called (so everything accepted earlier has a smaller ticket than every marker)
                                  nor while the balance thread is alive (so what it moves to the global queue is
                                  ahead of every marker); local queues and the balance thread only ever hold
                                  FUNCTION tasks (a worker exits only on a marker popped from the global queue)
   Missing for the full statements: the ticket invariant of the global queue (every pop ticket is consumed or
   has a worker waiting on it), "a worker past its local try_pop has an empty local queue", the location
   invariant of accepted tasks and the token-counting invariant for at-most-once.  Both full statements are
   checked instead by exhaustive exploration of the extracted model on small programs (no deadlock, outcome sets)
   and by the monitors on the real executor (see checks/c07.py). *)
From Coq Require Import ZArith List Bool.
Require Import Verif.Gen.Gen_executor Verif.Conc.Machine Verif.EX.EXModel Verif.EX.EXProofs.
Import ListNotations.

(* usage rules under which the full statements are meant: at least one worker, one stop() call, every task id
   submitted at one place only *)
Definition submit_ids (progs : list (list op)) : list nat :=
  flat_map (fun p => flat_map (fun o => match o with OSubmit id => [id] | _ => [] end) p) progs.
Definition stop_ops (progs : list (list op)) : nat :=
  length (flat_map (fun p => flat_map (fun o => match o with OStop => [tt] | _ => [] end) p) progs).
Definition wf (c : config) (progs : list (list op)) : Prop :=
  1 <= nworkers c /\ stop_ops progs <= 1 /\ NoDup (submit_ids progs ++ concat (bodies c)).

(* ---- full-strength statements (not proved, see header) ----------------------------------------------------- *)
Definition c07_run_once_statement : Prop := forall c progs s, wf c progs -> Reach c progs s ->
  NoDup (map fst (started s)) /\ (forall id w, In (id, w) (started s) -> In id (accepted s) /\ w < nworkers c).
Definition c07_stop_drains_statement : Prop := forall c progs s, wf c progs -> Reach c progs s ->
  stop_returned s = true -> forall id, In id (acc_before s) \/ In id (acc_local s) -> In id (finished s).

(* ---- proved ------------------------------------------------------------------------------------------------- *)
Theorem c07_run_once_partial : forall c progs s id w, Reach c progs s -> In (id, w) (started s) -> w < nworkers c.
Proof. exact ex_started_on_worker. Qed.
Print Assumptions c07_run_once_partial.

Theorem c07_stop_drains_partial : forall c progs s, Reach c progs s ->
  (stop_returned s = true ->
     (forall j, j < nworkers c -> worker_exited s j) /\
     (forall t th, nth_error (threads s) t = Some th -> trole th = RBal -> tpc th = BExit)) /\
  (stop_called s = false -> nostop (gq s) = true) /\
  (forall t th, nth_error (threads s) t = Some th -> trole th = RBal -> tpc th <> BExit -> nostop (gq s) = true) /\
  Forall lq_funs (lqs s) /\
  (forall t th k it, nth_error (threads s) t = Some th -> tpc th = BTake k it -> fun_item it).
Proof.
  exact (fun c progs s Hr =>
    conj (ex_stop_returns_after_exit c progs s Hr)
    (conj (ex_nostop_before_stop c progs s Hr)
    (conj (fun t th Hn Hb Hp => ex_nostop_while_balancing c progs s t th Hr Hn Hb Hp)
          (ex_local_funs c progs s Hr)))).
Qed.
Print Assumptions c07_stop_drains_partial.

(* stop() joins the workers in order: a stop() that is joining worker k has seen workers 0..k-1 exit *)
Theorem c07_stop_joins_every_worker : forall c progs s, Reach c progs s ->
  (forall t th k, nth_error (threads s) t = Some th -> tpc th = EStopJoin k -> forall j, j < k -> worker_exited s j) /\
  (stop_returned s = true -> forall j, j < nworkers c -> worker_exited s j).
Proof. exact ex_joined. Qed.
Print Assumptions c07_stop_joins_every_worker.

(* the marker loop starts only after the balance thread has exited *)
Theorem c07_markers_after_balancer : forall c progs s, Reach c progs s -> markers_begun s ->
  forall t th, nth_error (threads s) t = Some th -> trole th = RBal -> tpc th = BExit.
Proof. exact ex_bal_exited. Qed.
Print Assumptions c07_markers_after_balancer.

(* markers are pushed / workers joined only by a thread that has called stop(); stop() returned implies called *)
Theorem c07_stop_sequence : forall c progs s, Reach c progs s ->
  (forall t th, nth_error (threads s) t = Some th -> stop_pc (tpc th) = true -> stop_called s = true) /\
  (stop_returned s = true -> stop_called s = true).
Proof. exact ex_stop_called. Qed.
Print Assumptions c07_stop_sequence.

(* threads keep their kind: external threads never execute worker code and vice versa *)
Theorem c07_role_pc_consistent : forall c progs s, Reach c progs s ->
  forall t th, nth_error (threads s) t = Some th -> role_pc_ok (trole th) (tpc th) = true.
Proof. exact ex_role_pc. Qed.
Print Assumptions c07_role_pc_consistent.

(* ---- the regenerated decision expressions have the shape the argument relies on ---------------------------- *)
Theorem c07_marker_is_what_workers_exit_on :
  stop_marker_type = worker_exits_on /\ wakeup_marker_type <> worker_exits_on /\
  invoke_task_type = worker_runs_on /\ worker_runs_on <> worker_exits_on.
Proof. exact (conj gen_stop_is_exit (conj gen_wake_not_exit (conj gen_fun_is_run gen_run_not_exit))). Qed.
Print Assumptions c07_marker_is_what_workers_exit_on.

Theorem c07_one_marker_per_worker : (forall i n, stop_push_more i n = (i <? n)%Z) /\ stop_first_marker = 0%Z.
Proof. exact (conj gen_push_more gen_first_marker). Qed.
Print Assumptions c07_one_marker_per_worker.

Theorem c07_local_push_only_below_capacity : forall sz l, local_enabled l && local_has_room sz l = true -> (sz < l)%Z.
Proof. exact gen_local_room. Qed.
Print Assumptions c07_local_push_only_below_capacity.

Theorem c07_worker_loop_tests :
  (worker_local_first 0 = true /\ worker_local_first 1 = false) /\ (global_pop_needed 0 = true /\ global_pop_needed 1 = false) /\
  (stop_returns_early 1 = false /\ stop_returns_early 0 = true) /\ (balance_continues 1 = true /\ balance_continues 0 = false).
Proof. exact (conj gen_local_first (conj gen_pop_needed (conj gen_stop_early gen_balance_continues))). Qed.
Print Assumptions c07_worker_loop_tests.

(* a refused submission (BasicExecutor::invoke's result) makes execute() return an invalid future; the pool's
   enqueue_task never refuses *)
Theorem c07_refused_submission_invalid_future :
  execute_failed base_invoke_result = true /\ execute_failed enqueue_result = false /\ execute_failed enqueue_local_result = false.
Proof. exact gen_refusal. Qed.
Print Assumptions c07_refused_submission_invalid_future.

Theorem c07_memory_order_obligations : orders_ok = true.
Proof. exact ex_orders_ok. Qed.
Print Assumptions c07_memory_order_obligations.

(* ---- non-vacuity: a reachable state in which stop() has returned, a task spawned into a local queue after
   stop() was called has run, and both full statements hold ------------------------------------------------ *)
Example c07_demo_reachable : Reach demo_cfg demo_progs (run st (step demo_cfg) (init demo_cfg demo_progs) demo_sched).
Proof. exact ex_demo_reach. Qed.
Example c07_demo_drained : let s := run st (step demo_cfg) (init demo_cfg demo_progs) demo_sched in
  stop_returned s = true /\ finished s = [0; 1] /\ map fst (started s) = [0; 1] /\ acc_local s = [1] /\ acc_before s = [0].
Proof. exact ex_demo. Qed.
