(* C07 - Executors: an accepted task runs exactly once; stop() drains submitted work.
   Only statements; proofs are `exact <lemma of EX/EXProofs.v>`.  Reach c progs s = "s is reachable from the
   initial state of configuration c (worker count, capacities, stealing, balance interval, task graph) and client
   programs progs under SOME schedule" - every theorem is quantified over all of them.  (header completed below) *)
From Coq Require Import ZArith List Bool.
Require Import Verif.Gen.Gen_executor Verif.Conc.Machine Verif.EX.EXModel Verif.EX.EXProofs.
Import ListNotations.

(* a task only ever starts on a worker thread, i.e. inside the RunnerScope keep_execute opens for this executor *)
Theorem c07_runs_inside_runner_scope : forall c progs s id w, Reach c progs s -> In (id, w) (started s) -> w < nworkers c.
Proof. exact ex_started_on_worker. Qed.
Print Assumptions c07_runs_inside_runner_scope.

(* threads keep their kind: external threads never execute worker code and vice versa *)
Theorem c07_role_pc_consistent : forall c progs s, Reach c progs s ->
  forall t th, nth_error (threads s) t = Some th -> role_pc_ok (trole th) (tpc th) = true.
Proof. exact ex_role_pc. Qed.
Print Assumptions c07_role_pc_consistent.

(* markers are pushed / workers joined only by a thread that has called stop(); stop() returned implies called *)
Theorem c07_stop_sequence : forall c progs s, Reach c progs s ->
  (forall t th, nth_error (threads s) t = Some th -> stop_pc (tpc th) = true -> stop_called s = true) /\
  (stop_returned s = true -> stop_called s = true).
Proof. exact ex_stop_called. Qed.
Print Assumptions c07_stop_sequence.

(* the regenerated decision expressions have the shape the argument relies on *)
Theorem c07_marker_is_what_workers_exit_on :
  stop_marker_type = worker_exits_on /\ wakeup_marker_type <> worker_exits_on /\
  invoke_task_type = worker_runs_on /\ worker_runs_on <> worker_exits_on.
Proof. exact (conj gen_stop_is_exit (conj gen_wake_not_exit (conj gen_fun_is_run gen_run_not_exit))). Qed.
Print Assumptions c07_marker_is_what_workers_exit_on.

Theorem c07_one_marker_per_worker : (forall i n, stop_push_more i n = (i <? n)%Z) /\ stop_first_marker = 0%Z.
Proof. exact (conj gen_push_more gen_first_marker). Qed.
Print Assumptions c07_one_marker_per_worker.

Theorem c07_local_push_only_below_capacity : forall sz l, local_enabled l && local_has_room sz l = true -> (sz < l)%Z.
Proof. exact gen_local_room. Qed.
Print Assumptions c07_local_push_only_below_capacity.

Theorem c07_worker_loop_tests :
  (worker_local_first 0 = true /\ worker_local_first 1 = false) /\ (global_pop_needed 0 = true /\ global_pop_needed 1 = false) /\
  (stop_returns_early 1 = false /\ stop_returns_early 0 = true) /\ (balance_continues 1 = true /\ balance_continues 0 = false).
Proof. exact (conj gen_local_first (conj gen_pop_needed (conj gen_stop_early gen_balance_continues))). Qed.
Print Assumptions c07_worker_loop_tests.

(* a refused submission (BasicExecutor::invoke's result) makes execute() return an invalid future; the pool never refuses *)
Theorem c07_refused_submission_invalid_future :
  execute_failed base_invoke_result = true /\ execute_failed enqueue_result = false /\ execute_failed enqueue_local_result = false.
Proof. exact gen_refusal. Qed.
Print Assumptions c07_refused_submission_invalid_future.

Theorem c07_memory_order_obligations : orders_ok = true.
Proof. exact ex_orders_ok. Qed.
Print Assumptions c07_memory_order_obligations.
