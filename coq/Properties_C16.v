(* C16 - Execution queue: items consumed once, one consumer at a time, none stranded.
   Only statements; proofs are `exact <lemma of EQ/EQProofs.v>`.  Reach cap async faults progs s = "s is reachable
   from the initial state of client programs `progs` (any number of threads, ops execute / signal_push_event / join)
   with queue capacity `cap`, asynchronous (true) or inline (false) executor and executor fault list `faults`
   (true = that submit attempt is refused) under SOME schedule" - every theorem is therefore quantified over all
   schedules, programs, producer counts, capacities >= 1, both executors and all fault lists.

   REFUTED / PARTIAL (finding, signature ticket-gap): the sentences "pending items always have a running or launched
   consumer" and "join() returns only after everything submitted before it was consumed" are false of the code at full
   strength even when no launch is ever refused (c16_never_stranded_refuted, c16_join_returns_after_refuted: witness
   program [[execute; join]; [execute]], replayed on the real code by checks/c16.py).  What holds is proved as
   c16_never_stranded_partial (the head ticket is then held by a producer that has not signalled yet - it will signal
   and launch a consumer) and c16_join_returns_after_partial (the sentence holds whenever no other execute() is between
   taking its ticket and signalling).  Liveness ("and it does return") is proved as: while join() must wait the counter
   has exactly one owner and that owner is enabled (c16_join_returns_partial); the step from there to termination under
   a fair scheduler is the standard argument and is not mechanised. *)
From Coq Require Import ZArith List Bool.
Require Import Verif.Gen.Gen_execution_queue Verif.Conc.Machine Verif.EQ.EQModel Verif.EQ.EQProofs.
Import ListNotations.
Local Open Scope Z_scope.

(* every item is delivered to the consume function at most once, and only items passed to execute() are delivered
   (delivered s = the tickets whose consumption finished, in delivery order, as (producer thread, op index)) *)
Theorem c16_consumed_at_most_once : forall cap asy flt progs s, (1 <= cap)%nat -> Reach cap asy flt progs s ->
  NoDup (delivered s) /\
  (forall t i, In (t, i) (delivered s) -> exists th, nth_error (threads s) t = Some th /\ nth_error (prog th) i = Some OExec).
Proof. exact eq_consumed_at_most_once. Qed.
Print Assumptions c16_consumed_at_most_once.

(* ... and exactly once by the end of every run - also after refused launches, provided the last reset of the counter
   was a consumer's exit, i.e. some later launch was accepted ("the next accepted signal resumes consumption of
   everything pending") *)
Theorem c16_none_stranded_at_end : forall cap asy flt progs s, (1 <= cap)%nat -> Reach cap asy flt progs s ->
  all_done s = true -> stale s = false ->
  events s = 0 /\ delivered s = map key (cells s) /\
  (forall t th i, nth_error (threads s) t = Some th -> nth_error (prog th) i = Some OExec -> In (t, i) (delivered s)).
Proof. exact eq_none_stranded_at_end. Qed.
Print Assumptions c16_none_stranded_at_end.

(* items of one producer are delivered in the order it submitted them *)
Theorem c16_producer_order : forall cap asy flt progs s i j p x y, (1 <= cap)%nat -> Reach cap asy flt progs s ->
  (i < j)%nat -> nth_error (delivered s) i = Some (p, x) -> nth_error (delivered s) j = Some (p, y) -> (x < y)%nat.
Proof. exact eq_producer_order. Qed.
Print Assumptions c16_producer_order.

(* the consume function is never running in two places: at most one consumer activation exists at all
   (launched or running), a fortiori at most one is inside the consume function *)
Theorem c16_single_consumer : forall cap asy flt progs s t1 t2 th1 th2, (1 <= cap)%nat -> Reach cap asy flt progs s ->
  nth_error (threads s) t1 = Some th1 -> nth_error (threads s) t2 = Some th2 ->
  is_consumer th1 = true -> is_consumer th2 = true -> t1 = t2.
Proof. exact eq_single_consumer. Qed.
Print Assumptions c16_single_consumer.

Theorem c16_consume_not_reentered : forall cap asy flt progs s, (1 <= cap)%nat -> Reach cap asy flt progs s ->
  (inside s <= 1)%nat.
Proof. exact eq_inside_le_1. Qed.
Print Assumptions c16_consume_not_reentered.

(* the event counter is zero iff nobody owns it, and otherwise has exactly one owner: a launched/running consumer or
   a producer inside start_consumer (between its 0->1 fetch_add and the accepted submit / the roll-back) *)
Theorem c16_events_iff_owner : forall cap asy flt progs s, (1 <= cap)%nat -> Reach cap asy flt progs s ->
  (events s = 0 -> owners (threads s) = 0%nat) /\ (events s <> 0 -> owners (threads s) = 1%nat) /\ 0 <= events s.
Proof. exact eq_events_iff_owner. Qed.
Print Assumptions c16_events_iff_owner.

(* never stranded - full statement refuted, see header *)
Theorem c16_never_stranded_refuted : exists progs s k c,
  Reach 4 true [] progs s /\ nth_error (cells s) k = Some c /\ (npop s <= k)%nat /\ cpub c = true /\ csig c = true /\
  returned (threads s) c = true /\ owners (threads s) = 0%nat /\ events s = 0 /\ stale s = false.
Proof. exact eq_never_stranded_refuted. Qed.
Print Assumptions c16_never_stranded_refuted.

(* never stranded - proved part: whenever the counter is zero and its last reset was a consumer's exit (not the
   roll-back of a refused launch), the head ticket of the queue - if there is one - belongs to a producer that has
   not signalled yet; in particular everything behind it will be consumed by the consumer that signal launches.
   Holds for arbitrary fault lists: after a refused launch, the next consumer that runs re-establishes it. *)
Theorem c16_never_stranded_partial : forall cap asy flt progs s, (1 <= cap)%nat -> Reach cap asy flt progs s ->
  events s = 0 -> stale s = false -> forall c, nth_error (cells s) (npop s) = Some c -> csig c = false.
Proof. exact eq_cover. Qed.
Print Assumptions c16_never_stranded_partial.

(* join returns only after ... - full statement refuted, see header *)
Theorem c16_join_returns_after_refuted : exists progs s th m,
  Reach 4 true [] progs s /\ nth_error (threads s) 0 = Some th /\ nth_error (prog th) 0 = Some OExec /\
  results th = [RExec 0; RJoin m] /\ m <> 0%nat.
Proof. exact eq_join_returns_after_refuted. Qed.
Print Assumptions c16_join_returns_after_refuted.

(* join returns only after ... - proved part: a join() that returns while no execute() is between taking its ticket
   and its fetch_add on the counter (and the last reset was not a refused launch) returns with every ticket ever
   taken delivered and released; its recorded result is RJoin 0.  (With a single producer thread this is the full
   statement.) *)
Theorem c16_join_returns_after_partial : forall cap asy flt progs s t th s', (1 <= cap)%nat -> Reach cap asy flt progs s ->
  nth_error (threads s) t = Some th -> tpc th = Idle -> nth_error (prog th) (opi th) = Some OJoin ->
  step s t = Some s' -> stale s = false ->
  (forall t' th', nth_error (threads s) t' = Some th' -> in_flight th' = false) ->
  (length (cells s) <= ndel s)%nat /\
  exists th', nth_error (threads s') t = Some th' /\ results th' = results th ++ [RJoin 0].
Proof. exact eq_join_returns_after_partial. Qed.
Print Assumptions c16_join_returns_after_partial.

(* "and it does return", proved part *)
Theorem c16_join_returns_partial : forall cap asy flt progs s, (1 <= cap)%nat -> Reach cap asy flt progs s ->
  events s <> 0 -> exists t th, nth_error (threads s) t = Some th /\ is_owner th = true /\ step s t <> None.
Proof. exact eq_waiting_join_has_enabled_owner. Qed.
Print Assumptions c16_join_returns_partial.

(* the memory orders the argument relies on are the ones in the source; push is ticket-then-publish *)
Theorem c16_memory_order_obligations : orders_ok = true /\ push_is_ticketed = true.
Proof. exact (conj eq_orders_ok eq_push_is_ticketed). Qed.
Print Assumptions c16_memory_order_obligations.

(* non-vacuity: a run with a refused launch, a recovery signal that is accepted, and everything consumed *)
Example c16_resume_example : Reach 2 true [true] resume_progs resume_state /\ all_done resume_state = true /\
  stale resume_state = false /\ delivered resume_state = [(0, 0)]%nat /\
  (exists th, nth_error (threads resume_state) 0 = Some th /\ results th = [RExec (-1); RSignal 0; RJoin 0]).
Proof. exact resume_example. Qed.
