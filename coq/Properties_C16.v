(* C16 - Execution queue: items consumed once, one consumer at a time, none stranded.
   Only statements; proofs are `exact <lemma of EQ/EQProofs.v>`.  Reach cap async faults progs s = "s is reachable
   from the initial state of client programs `progs` (any number of threads, ops execute(T&&) / execute(const T&) / signal_push_event / join)
   with queue capacity `cap`, asynchronous (true) or inline (false) executor and executor fault list `faults`
   (true = that submit attempt is refused) under SOME schedule" - every theorem is therefore quantified over all
   schedules, programs, producer counts, capacities >= 1, both executors and all fault lists.

   History: against the code before fix f78c0c5 the sentences "pending items always have a running or launched
   consumer" and "join() returns only after everything submitted before it was consumed" were refuted (try_pop_n stops
   at a ticket that is taken but not yet published; the consumer then gave up its role although later tickets were
   signalled).  The fix (consume_until_empty keeps its role while _queue.size() != 0) is modelled (pc CSize, the test
   and the size formula are regenerated from the source) and the sentences are now proved at full strength:
   c16_never_stranded, c16_join_returns_after (+ _history).  `stale s = false` = "the last reset of the counter to zero
   was a consumer's exit, not the roll-back of a refused launch" - this is the property's "as long as the executor
   accepts the launch"; it is re-established by the exit of the next consumer that runs (resumption after a refusal).
   Liveness ("and it does return"):
   * c16_join_returns - no reachable state with an unfinished thread is a deadlock (unless a refused launch is
     outstanding); c16_join_returns_owner_enabled - while join() has to wait the unique owner of the counter is enabled;
   * termination, mechanised for the phase after the producers are through (`pquiet s`: no thread between taking a
     ticket and its fetch_add, only join() ops left in the client programs; a producer may still be retrying its launch
     in start_consumer, the fault list is arbitrary and finite = "an executor that eventually accepts"):
     c16_join_returns_steps_bounded - under ANY schedule at most `mu s` further steps are taken at all (every step
     strictly decreases the measure mu: 3 per unused fault-list entry, 6 per unpopped ticket, remaining ops and a
     pc weight per thread); c16_join_returns_quiet_never_stuck - in such states somebody is enabled while anybody is
     unfinished (whatever the refusal history); c16_join_returns_fair - hence every weakly fair infinite schedule
     (fairness notion: for every thread t and index n there is m >= n at which t is picked or is not enabled, i.e. no
     thread stays enabled for ever without being picked) reaches a state in which every thread has finished: every
     join() has returned.
     NOT mechanised: that a fair schedule reaches a producers-quiet state from an arbitrary reachable state (the
     producers' own steps are finitely many, but while a producer sits between ticket and publish the consumer spins
     in the poll/size loop, so that phase needs the fairness argument on the ticket holder; capacity-blocked producers
     need the consumer's progress).  There the result is deadlock-freedom (c16_join_returns) only.
   Resumption: c16_refused_then_resumes (+ c16_accepted_launch_creates_consumer) - step level, for arbitrary refusal
   histories. *)
From Coq Require Import ZArith List Bool.
Require Import Verif.Gen.Gen_execution_queue Verif.Gen.Gen_execution_queue_sites Verif.Conc.Machine Verif.EQ.EQModel Verif.EQ.EQProofs.
Import ListNotations.
Local Open Scope Z_scope.

(* both overloads of execute() - OExec = execute(T&&), OExecL = execute(const T&) - push into the inner queue with
   CONCURRENT = true (regenerated template arguments), i.e. take their ring ticket with one atomic fetch_add; with
   `false` the model splits the ticket into load and store steps (pc PTicket) and every invariant proof re-opens *)
Theorem c16_tickets_atomic : execute_move_push_concurrent = true /\ execute_copy_push_concurrent = true /\
  (forall cap asy flt progs s t th i, (1 <= cap)%nat -> Reach cap asy flt progs s ->
     nth_error (threads s) t = Some th -> tpc th <> PTicket i).
Proof. exact eq_tickets_atomic. Qed.
Print Assumptions c16_tickets_atomic.

(* every item (exec_at th i = true: op i of thread th is an execute() call of either overload) is delivered to the
   consume function at most once, and only items passed to execute() are delivered
   (delivered s = the tickets whose consumption finished, in delivery order, as (producer thread, op index)) *)
Theorem c16_consumed_at_most_once : forall cap asy flt progs s, (1 <= cap)%nat -> Reach cap asy flt progs s ->
  NoDup (delivered s) /\
  (forall t i, In (t, i) (delivered s) -> exists th, nth_error (threads s) t = Some th /\ exec_at th i = true).
Proof. exact eq_consumed_at_most_once. Qed.
Print Assumptions c16_consumed_at_most_once.

(* ... and exactly once by the end of every run - also after refused launches, provided the last reset of the counter
   was a consumer's exit, i.e. some later launch was accepted ("the next accepted signal resumes consumption of
   everything pending") *)
Theorem c16_none_stranded_at_end : forall cap asy flt progs s, (1 <= cap)%nat -> Reach cap asy flt progs s ->
  all_done s = true -> stale s = false ->
  events s = 0 /\ delivered s = map key (cells s) /\
  (forall t th i, nth_error (threads s) t = Some th -> exec_at th i = true -> In (t, i) (delivered s)).
Proof. exact eq_none_stranded_at_end. Qed.
Print Assumptions c16_none_stranded_at_end.

(* items of one producer are delivered in the order it submitted them *)
Theorem c16_producer_order : forall cap asy flt progs s i j p x y, (1 <= cap)%nat -> Reach cap asy flt progs s ->
  (i < j)%nat -> nth_error (delivered s) i = Some (p, x) -> nth_error (delivered s) j = Some (p, y) -> (x < y)%nat.
Proof. exact eq_producer_order. Qed.
Print Assumptions c16_producer_order.

(* the consume function is never running in two places: at most one consumer activation exists at all
   (launched or running), a fortiori at most one is inside the consume function *)
Theorem c16_single_consumer : forall cap asy flt progs s t1 t2 th1 th2, (1 <= cap)%nat -> Reach cap asy flt progs s ->
  nth_error (threads s) t1 = Some th1 -> nth_error (threads s) t2 = Some th2 ->
  is_consumer th1 = true -> is_consumer th2 = true -> t1 = t2.
Proof. exact eq_single_consumer. Qed.
Print Assumptions c16_single_consumer.

Theorem c16_consume_not_reentered : forall cap asy flt progs s, (1 <= cap)%nat -> Reach cap asy flt progs s ->
  (inside s <= 1)%nat.
Proof. exact eq_inside_le_1. Qed.
Print Assumptions c16_consume_not_reentered.

(* the event counter is zero iff nobody owns it, and otherwise has exactly one owner: a launched/running consumer or
   a producer inside start_consumer (between its 0->1 fetch_add and the accepted submit / the roll-back) *)
Theorem c16_events_iff_owner : forall cap asy flt progs s, (1 <= cap)%nat -> Reach cap asy flt progs s ->
  (events s = 0 -> owners (threads s) = 0%nat) /\ (events s <> 0 -> owners (threads s) = 1%nat) /\ 0 <= events s.
Proof. exact eq_events_iff_owner. Qed.
Print Assumptions c16_events_iff_owner.

(* never stranded: an item whose producer has signalled (its fetch_add on the counter is done - in particular every
   item whose execute() has returned) and that is not yet delivered always has an owner of the counter working for it:
   events > 0 and exactly one launched/running consumer or launching producer *)
Theorem c16_never_stranded : forall cap asy flt progs s k x, (1 <= cap)%nat -> Reach cap asy flt progs s ->
  stale s = false -> nth_error (cells s) k = Some x -> csig x = true -> (ndel s <= k)%nat ->
  0 < events s /\ owners (threads s) = 1%nat.
Proof. exact eq_never_stranded. Qed.
Print Assumptions c16_never_stranded.

(* join() returns only after everything submitted before it was consumed: at the step at which a join() returns,
   every ticket whose execute() has returned (a fortiori returned before the join began) is delivered and released;
   the recorded result is RJoin 0 *)
Theorem c16_join_returns_after : forall cap asy flt progs s t th s', (1 <= cap)%nat -> Reach cap asy flt progs s ->
  nth_error (threads s) t = Some th -> tpc th = Idle -> nth_error (prog th) (opi th) = Some OJoin ->
  step s t = Some s' -> stale s = false ->
  (forall k x, nth_error (cells s) k = Some x -> returned (threads s) x = true -> (k < ndel s)%nat) /\
  exists th', nth_error (threads s') t = Some th' /\ results th' = results th ++ [RJoin 0].
Proof. exact eq_join_returns_after. Qed.
Print Assumptions c16_join_returns_after.

(* the same over whole histories, for an executor that never refuses: no join() ever returned with an item missing *)
Theorem c16_join_returns_after_history : forall cap asy progs s t th m, (1 <= cap)%nat -> Reach cap asy [] progs s ->
  nth_error (threads s) t = Some th -> In (RJoin m) (results th) -> m = 0%nat.
Proof. exact eq_join_results_zero. Qed.
Print Assumptions c16_join_returns_after_history.

(* "and it does return": no reachable state is a trap ... *)
Theorem c16_join_returns : forall cap asy flt progs s, (1 <= cap)%nat -> Reach cap asy flt progs s ->
  stale s = false -> all_done s = false -> exists t, step s t <> None.
Proof. exact eq_no_deadlock. Qed.
Print Assumptions c16_join_returns.

(* ... and while join() has to wait (counter non-zero) the unique owner of the counter can take a step *)
Theorem c16_join_returns_owner_enabled : forall cap asy flt progs s, (1 <= cap)%nat -> Reach cap asy flt progs s ->
  events s <> 0 -> exists t th, nth_error (threads s) t = Some th /\ is_owner th = true /\ step s t <> None.
Proof. exact eq_waiting_join_has_enabled_owner. Qed.
Print Assumptions c16_join_returns_owner_enabled.

(* termination after the producers are through: bound on the number of steps under any schedule *)
Theorem c16_join_returns_steps_bounded : forall cap asy flt progs s sch, (1 <= cap)%nat -> Reach cap asy flt progs s ->
  pquiet s = true -> (taken s sch + mu (run st step s sch) <= mu s)%nat.
Proof. exact eq_quiet_steps_bounded_reach. Qed.
Print Assumptions c16_join_returns_steps_bounded.

Theorem c16_join_returns_quiet_never_stuck : forall cap asy flt progs s, (1 <= cap)%nat -> Reach cap asy flt progs s ->
  pquiet s = true -> all_done s = false -> exists t, step s t <> None.
Proof. exact eq_quiet_enabled_reach. Qed.
Print Assumptions c16_join_returns_quiet_never_stuck.

(* ... hence every weakly fair schedule makes every join() return *)
Theorem c16_join_returns_fair : forall cap asy flt progs s f, (1 <= cap)%nat -> Reach cap asy flt progs s ->
  pquiet s = true -> weakly_fair s f -> exists n, all_done (state_at s f n) = true.
Proof. exact eq_fair_termination. Qed.
Print Assumptions c16_join_returns_fair.

(* after refused launches the next accepted signal resumes consumption of everything pending - step level, for ANY
   history of refusals (no hypothesis on `stale s`): an accepted launch hands the launcher's ownership of the counter
   to exactly one new consumer activation ... *)
Theorem c16_accepted_launch_creates_consumer : forall cap asy flt progs s t th e s', (1 <= cap)%nat ->
  Reach cap asy flt progs s -> nth_error (threads s) t = Some th -> tpc th = PSubmit e ->
  match faults s with b :: _ => b = false | [] => True end -> step s t = Some s' ->
  exists t' th', nth_error (threads s') t' = Some th' /\ tpc th' = CStart /\ 0 < events s' /\
                 owners (threads s') = 1%nat.
Proof. exact eq_accepted_launch_creates_consumer. Qed.
Print Assumptions c16_accepted_launch_creates_consumer.

(* ... and when a consumer activation exits (its CAS to zero succeeds) every item signalled so far - in particular
   everything that was pending when it was launched - has been delivered, and the counter is again "reset by a
   consumer" (stale = false), so c16_never_stranded applies from then on.  While the activation lives it is the unique
   owner (c16_events_iff_owner): no roll-back of a refused launch can intervene before its exit. *)
Theorem c16_refused_then_resumes : forall cap asy flt progs s t th seen s', (1 <= cap)%nat -> Reach cap asy flt progs s ->
  nth_error (threads s) t = Some th -> tpc th = CCas seen -> step s t = Some s' -> events s' = 0 ->
  stale s' = false /\
  (forall k x, nth_error (cells s') k = Some x -> csig x = true -> (k < ndel s')%nat).
Proof. exact eq_exit_leaves_nothing_signalled. Qed.
Print Assumptions c16_refused_then_resumes.

(* the memory orders the argument relies on are the ones in the source; push is ticket-then-publish; size() reads
   both indices; the roll-back of a refused launch is the CAS retry loop (the model reads this) *)
Theorem c16_memory_order_obligations : orders_ok = true /\ push_is_ticketed = true /\ size_is_two_loads = true /\
  rollback_is_fetch_sub = false.
Proof. exact (conj eq_orders_ok (conj eq_push_is_ticketed (conj eq_size_is_two_loads g_rb_kind))). Qed.
Print Assumptions c16_memory_order_obligations.

(* non-vacuity: a run with a refused launch, a recovery signal that is accepted, and everything consumed *)
Example c16_resume_example : Reach 2 true [true] resume_progs resume_state /\ all_done resume_state = true /\
  stale resume_state = false /\ delivered resume_state = [(0, 0)]%nat /\
  (exists th, nth_error (threads resume_state) 0 = Some th /\ results th = [RExec (-1); RSignal 0; RJoin 0]).
Proof. exact resume_example. Qed.

(* non-vacuity of c16_never_stranded on the former counter-example: ticket 0 taken but unpublished, ticket 1 published,
   signalled, its execute() returned, nothing delivered - the consumer keeps its role, the counter stays non-zero *)
Example c16_gap_example : Reach 4 true [] gap_progs gap_state /\ events gap_state = 1 /\ stale gap_state = false /\
  (exists x, nth_error (cells gap_state) 1 = Some x /\ csig x = true /\ returned (threads gap_state) x = true) /\
  ndel gap_state = 0%nat /\
  (exists th, nth_error (threads gap_state) 0 = Some th /\ results th = [RExec 0]) /\
  (exists th, nth_error (threads gap_state) 2 = Some th /\ is_consumer th = true).
Proof. exact gap_example. Qed.

(* non-vacuity of the termination theorems: a reachable producers-quiet state with join() waiting (disabled), the
   launched consumer not yet started; measure 18 *)
Example c16_waiting_example : Reach 2 true [] waiting_progs waiting_state /\ pquiet waiting_state = true /\
  all_done waiting_state = false /\ events waiting_state = 1 /\ step waiting_state 0 = None /\ mu waiting_state = 18%nat.
Proof. exact waiting_example. Qed.
