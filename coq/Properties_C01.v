(* C01 - bounded queue: each element delivered exactly once, FIFO, with exclusive access.
   Only statements; proofs are `exact <lemma of BQ/*.v>`.  Reach k progs s = "s is reachable from the initial state of the queue of
   capacity 2^k with client programs `progs` under SOME schedule (list of thread ids, clock ticks included)", so every theorem
   about reachable states is quantified over all schedules, all capacities 2^k, all thread counts and all client programs mixing
   push, pop, try_push, try_pop, push_n, pop_n, try_push_n, try_pop_n and the timed exclusive pop with any CONCURRENT /
   USE_FUTEX_WAIT / USE_FUTEX_WAKE flags that satisfy the documented pairing rules (usage_ok).

   PROVED (all "Closed under the global context"):
   schedule-quantified, from the ticket-interval invariant of BQ/BQInvMain.v (threads hold pairwise disjoint ticket intervals
   below next_push / next_pop; version(slot i) <= expected(i) for every held or future ticket i; an observed-ready slot stays
   ready because a (side, slot, version) triple belongs to one ticket; slot payload/owner state follows the version parity):
     c01_exclusive            no callback ever enters a slot that is owned or whose payload is in the wrong state (err = false)
     c01_exactly_once         delivered (pop ticket, value) pairs are pushed (push ticket, value) pairs with the same ticket; no
                              ticket delivered twice, none written twice; at quiescence pushed = delivered + still in its slot
     c01_fifo_realtime        tickets respect real time (see the statement); with c01_exactly_once this is FIFO
     c01_try_fail_justified   a failing / short try_ call saw a not-ready slot for the then-next ticket, or the ticket moved
   arithmetic of the regenerated expressions, for every capacity 2^k (an edit of `(index >> _slot_bits) << 1`, `+ 1`,
   `index & _slot_mask`, `(index + _slot_mask + 1) & ~_slot_mask`, the `<=` split tests, the segment lengths,
   `expected_version + 1`, `index + 1` / `index + num`, the ready tests or the memory orders re-opens a proof - and these lemmas
   are what the invariant proof uses):
     c01_ticket_owns_slot_version, c01_push_pop_versions_differ, c01_versions, c01_slot_index, c01_round, c01_split_sound,
     c01_next_version, c01_next_index, c01_ready_tests, c01_try_n_short, c01_version16_sound, c01_memory_order_obligations
   NOT COVERED by the Coq model (monitors on the implementation only): the compensating push_n/pop_n(cb, reverse_cb, n) variants.
   Model assumptions: sequentially consistent interleavings (release/acquire publication is reduced to the memory-order
   obligations on the regenerated site tables, no weak-memory machine); unbounded versions in the model (16-bit truncation handled
   by c01_version16_sound under < 2^15 rounds of lag); size_t tickets do not wrap; callbacks do not touch the queue. *)
From Coq Require Import ZArith List Bool.
Require Import Verif.Gen.Gen_bounded_queue Verif.Conc.Machine Verif.BQ.BQModel Verif.BQ.BQProofs.
Require Import Verif.BQ.BQInvDefs Verif.BQ.BQInvStep Verif.BQ.BQInvMain Verif.BQ.BQInvThm Verif.BQ.BQWake Verif.BQ.BQFifo Verif.BQ.BQTry Verif.BQ.BQDead Verif.BQ.BQEntry.
Import ListNotations.
Local Open Scope Z_scope.

Theorem c01_ticket_owns_slot_version : forall k i i', 0 <= k ->
  slot_index i (2 ^ k - 1) = slot_index i' (2 ^ k - 1) ->
  (push_ver k i = push_ver k i' \/ pop_ver k i = pop_ver k i') -> i = i'.
Proof. exact bq_ticket_injective. Qed.
Print Assumptions c01_ticket_owns_slot_version.

Theorem c01_push_pop_versions_differ : forall k i i', 0 <= k -> push_ver k i <> pop_ver k i'.
Proof. exact bq_push_pop_versions_differ. Qed.
Print Assumptions c01_push_pop_versions_differ.

Theorem c01_versions : forall k i, 0 <= k -> push_ver k i = 2 * (i / 2 ^ k) /\ pop_ver k i = 2 * (i / 2 ^ k) + 1.
Proof. exact (fun k i H => conj (bq_push_ver k i H) (bq_pop_ver k i H)). Qed.
Print Assumptions c01_versions.

Theorem c01_slot_index : forall k i, 0 <= k ->
  slot_index i (2 ^ k - 1) = i mod 2 ^ k /\ slot_index_try i (2 ^ k - 1) = i mod 2 ^ k /\
  slot_index_n i (2 ^ k - 1) = i mod 2 ^ k /\ slot_index_tryn i (2 ^ k - 1) = i mod 2 ^ k /\
  slot_index_until i (2 ^ k - 1) = i mod 2 ^ k.
Proof. exact bq_slot_index. Qed.
Print Assumptions c01_slot_index.

Theorem c01_round : forall k i, 0 <= k ->
  push_n_round i (2 ^ k - 1) = (i / 2 ^ k + 1) * 2 ^ k /\ pop_n_round i (2 ^ k - 1) = (i / 2 ^ k + 1) * 2 ^ k /\
  try_push_n_round i (2 ^ k - 1) = (i / 2 ^ k + 1) * 2 ^ k /\ try_pop_n_round i (2 ^ k - 1) = (i / 2 ^ k + 1) * 2 ^ k.
Proof. exact bq_round. Qed.
Print Assumptions c01_round.

Theorem c01_split_sound : forall o kb i n i1 n1 r, 0 <= kb -> 0 <= i -> 0 <= n <= 2 ^ kb ->
  (okind o = KSingle \/ okind o = KTry -> n <= 1) ->
  split o (2 ^ kb - 1) i n = ((i1, n1), r) ->
  i1 = i /\ seg_in_round kb i1 n1 /\
  match r with
  | None => Z.of_nat n1 = n
  | Some (i2, n2) => i2 = i1 + Z.of_nat n1 /\ Z.of_nat n1 + Z.of_nat n2 = n /\ seg_in_round kb i2 n2 /\ (0 < n1)%nat
  end.
Proof. exact bq_split_sound. Qed.
Print Assumptions c01_split_sound.

Theorem c01_next_version : forall k w e, next_ver k w e = e + 1 /\ wake_ver k e = e + 1.
Proof. exact bq_next_version. Qed.
Print Assumptions c01_next_version.

Theorem c01_next_index : forall i n, try_deal_next_index i = i + 1 /\ try_deal_n_next_index i n = i + n /\
  try_deal_n_next_index_excl i n = i + n /\ until_index i n = i + n.
Proof. exact bq_next_index. Qed.
Print Assumptions c01_next_index.

Theorem c01_ready_tests : forall v e,
  wait_ready v e = (v =? e) /\ block_cas_ready v e = (v =? e) /\ block_reload_ready v e = (v =? e) /\ spin_ready v e = (v =? e) /\
  try_deal_not_ready e v = negb (v =? e) /\ try_deal_n_not_ready e v = negb (v =? e) /\ wakeup_moved_on v e = negb (v =? e) /\
  try_deal_same_index v e = (v =? e) /\ try_deal_n_none v = (v =? 0).
Proof. exact bq_ready_tests. Qed.
Print Assumptions c01_ready_tests.

Theorem c01_try_n_short : forall o d r, try_short o d r = Nat.ltb d r.
Proof. exact bq_try_n_short. Qed.
Print Assumptions c01_try_n_short.

Theorem c01_version16_sound : forall a b, a mod 65536 = b mod 65536 -> Z.abs (a - b) < 65536 -> a = b.
Proof. exact bq_version16_sound. Qed.
Print Assumptions c01_version16_sound.

Theorem c01_memory_order_obligations : orders_ok = true.
Proof. exact bq_orders_ok. Qed.
Print Assumptions c01_memory_order_obligations.

(* ---- schedule-quantified theorems about BQModel: every usage_ok client program, every capacity 2^k, every number of threads,
   every schedule (ticket-interval invariant, BQ/BQInv*.v) ---- *)
(* exclusive, fully published access: no callback ever enters a slot that is owned by another callback or whose payload cell is
   in the wrong state (producer: still holding an unconsumed value; consumer: empty) *)
Theorem c01_exclusive : forall k progs s, usage_ok k progs = true -> Reach k progs s -> err s = false.
Proof. exact bq_exclusive. Qed.
Print Assumptions c01_exclusive.

(* exactly once: every delivered (pop ticket, value) is the (push ticket, value) written by the producer with the same ticket;
   no ticket is delivered twice; no ticket is written twice; at quiescence what was pushed has been delivered or is still
   in its slot *)
Theorem c01_exactly_once : forall k progs s, usage_ok k progs = true -> Reach k progs s ->
  (forall i v, In (i, v) (delivered s) -> In (i, v) (pushed s)) /\ NoDup (map fst (delivered s)) /\ NoDup (map fst (pushed s)) /\
  (all_done s = true -> forall i v, In (i, v) (pushed s) -> In (i, v) (delivered s) \/
     pay (get_slot s (Z.to_nat (i mod 2 ^ Z.of_nat k))) = Some v).
Proof. exact bq_exactly_once_full. Qed.
Print Assumptions c01_exactly_once.

(* the same for client programs written against any public overload (callback / value / pointer / iterator, with or
   without template arguments): lower = the core operation a call runs, flags after every forwarding wrapper, each forwarded
   template-argument list regenerated from the source *)
Theorem c01_entry_points_forward_flags : forall c, entry_ok c = true -> lower c = c_op c.
Proof. exact bq_lower_faithful. Qed.
Print Assumptions c01_entry_points_forward_flags.

Theorem c01_exclusive_any_entry : forall k cp s, calls_ok cp = true -> usage_ok k (declared cp) = true ->
  Reach k (lower_progs cp) s -> err s = false.
Proof. exact bq_client_exclusive. Qed.
Print Assumptions c01_exclusive_any_entry.

Theorem c01_exactly_once_any_entry : forall k cp s, calls_ok cp = true -> usage_ok k (declared cp) = true ->
  Reach k (lower_progs cp) s ->
  (forall i v, In (i, v) (delivered s) -> In (i, v) (pushed s)) /\ NoDup (map fst (delivered s)) /\ NoDup (map fst (pushed s)) /\
  (all_done s = true -> forall i v, In (i, v) (pushed s) -> In (i, v) (delivered s) \/
     pay (get_slot s (Z.to_nat (i mod 2 ^ Z.of_nat k))) = Some v).
Proof. exact bq_client_exactly_once. Qed.
Print Assumptions c01_exactly_once_any_entry.

(* swap / move construction / move assignment hand the whole queue over: every member is exchanged with the same member of
   the other queue (the pairing is regenerated from the body of swap), so nothing held by the source is lost *)
Theorem c01_swap_exchanges_queues : forall this other, swap_this this other = other /\ swap_other this other = this.
Proof. exact bq_swap_exchanges. Qed.
Print Assumptions c01_swap_exchanges_queues.

(* real-time order of tickets (FIFO).  held s r u i = thread u holds ticket i of side r in s (acquired, not yet published).
   For any reachable moment s and any later state s' = run s sch: the ticket counters only grow; a ticket that a thread holds in
   s' and did not hold in s is >= the counter at s; a (ticket, value) written / delivered after s by an operation that did not
   yet hold that ticket at s has a ticket >= the counter at s; everything held, written or delivered up to s has a ticket
   below the counter at s.  Hence an operation that returned before another one began has the smaller tickets, and with
   c01_exactly_once (the value of pop ticket i is the value of push ticket i) this is the FIFO sentence of the property.
   (An earlier formulation over the tickets recorded in the per-call results was false of the model: a call that obtained its
   ticket before s but returned after s shows up as a "new" result with an old ticket.) *)
Theorem c01_fifo_realtime : forall k progs s, usage_ok k progs = true -> Reach k progs s -> forall sch,
  let s' := run st step s sch in
  (forall r, next_of s r <= next_of s' r) /\
  (forall r u i, held s' r u i -> held s r u i \/ next_of s r <= i) /\
  (forall i v, In (i, v) (pushed s') -> In (i, v) (pushed s) \/ (exists u, held s true u i) \/ npush s <= i) /\
  (forall i v, In (i, v) (delivered s') -> In (i, v) (delivered s) \/ (exists u, held s false u i) \/ npop s <= i) /\
  (forall r u i, held s r u i -> 0 <= i < next_of s r) /\
  (forall i v, In (i, v) (pushed s) -> 0 <= i < npush s) /\ (forall i v, In (i, v) (delivered s) -> 0 <= i < npop s).
Proof. exact bq_fifo_realtime. Qed.
Print Assumptions c01_fifo_realtime.

(* a try_ operation fails or comes up short only if, at one of its version loads, the slot of the then-next ticket was not ready
   (queue full / empty at that moment: r_full) or another operation of the same side moved the ticket during the call (r_over);
   the two ghost flags are set by BQModel.step exactly at those events (set_just) *)
Theorem c01_try_fail_justified : forall k progs s th i o r, usage_ok k progs = true -> Reach k progs s ->
  In th (threads s) -> nth_error (prog th) i = Some o -> nth_error (results th) i = Some r ->
  (okind o = KTry \/ okind o = KTryN) -> (r_cnt r < onum o)%nat -> r_full r = true \/ r_over r = true.
Proof. exact bq_try_fail_justified. Qed.
Print Assumptions c01_try_fail_justified.

(* non-vacuity: a usage_ok program with batches crossing the ring end; a run that delivers what was pushed *)
Example c01_usage_example : usage_ok 1 [[OPush f111 1; OPushN f111 [2; 3]]; [OPop f111; OPopN f111 2]] = true.
Proof. exact bq_usage_example. Qed.
Example c01_finish_example :
  exists s, Reach 0 [[OPush f111 1]; [OPop f111]] s /\ all_done s = true /\ delivered s = [(0, 1)] /\ pushed s = [(0, 1)].
Proof. exact bq_finish_example. Qed.

(* ---- "fully published access": the release/acquire half on the explicit view machine of coq/WM/RA.v ----
   For every publish path of the queue (single push/pop: release store or release exchange of the slot version;
   try_: release store; batch / try_n: release fence + relaxed version stores) and every observe path (single:
   acquire version load; try_: acquire load; batch / try_n: relaxed loads + acquire fence), with the memory
   orders regenerated from bounded_queue.hpp, and for EVERY execution of the view machine: a callback that saw
   the version published reads the element the other side wrote, and there is no data race on it. *)
Require Import Verif.Base.Atomics Verif.WM.RA Verif.WM.RALitmus Verif.BQ.BQLitmus.
Theorem c01_publication : forall pf x o_st o_ld cf, In (pf, x, o_st) publishers -> In (o_ld, cf) observers ->
  forall sch, RA.final (RA.run (RA.init (mp_general pf x o_st o_ld cf)) sch) = true ->
  mp_bad (RA.result (RA.run (RA.init (mp_general pf x o_st o_ld cf)) sch)) = false.
Proof. exact bq_publication. Qed.
Print Assumptions c01_publication.

(* the order parameters of wait_until_reach_expected_version / set_version are really the ones used for the access *)
Theorem c01_publication_orders_are_used :
  Gen_bounded_queue_orders.fast_load_order = 100%Z /\ Gen_bounded_queue_orders.spin_load_order = 100%Z /\
  Gen_bounded_queue_orders.block_reload_order = 100%Z /\ Gen_bounded_queue_orders.block_cas_order = 100%Z /\
  Gen_bounded_queue_orders.set_version_order = 100%Z /\ Gen_bounded_queue_orders.version_getter_order = 100%Z.
Proof. exact bq_param_orders_used. Qed.
Print Assumptions c01_publication_orders_are_used.

(* weakened orders: the racy executions exist (the check's search prints one when the source is weakened) *)
Theorem c01_publication_weakened_refuted :
  mp_general_safe None false Relaxed Acquire None = false /\ mp_general_safe None false Release Relaxed None = false /\
  mp_general_safe (Some Release) false Relaxed Relaxed None = false /\ mp_general_safe None false Relaxed Relaxed (Some Acquire) = false.
Proof. exact (conj bq_single_relaxed_store_refuted (conj bq_single_relaxed_load_refuted
              (conj bq_batch_no_acquire_fence_refuted bq_batch_no_release_fence_refuted))). Qed.
Print Assumptions c01_publication_weakened_refuted.
