(* C01 - bounded queue: exactly once, FIFO, exclusive access.  Only statements. *)
From Coq Require Import ZArith List Bool.
Require Import Verif.Gen.Gen_bounded_queue Verif.Conc.Machine Verif.BQ.BQModel Verif.BQ.BQProofs.
Import ListNotations.
Local Open Scope Z_scope.

Theorem c01_memory_order_obligations : orders_ok = true.
Proof. exact bq_orders_ok. Qed.
Print Assumptions c01_memory_order_obligations.
