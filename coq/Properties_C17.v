(* C17 - Page allocators / object pool: resources conserved, never shared, never lost.
   Only statements; proofs are `exact <lemma of PA/PAProofs.v>`.

   PART A (concurrent).  `Reach qc pc progs s` = state s is reachable from the initial state of the client programs
   `progs` (one list of calls per thread, arbitrary) on a queue of capacity qc and a pool capacity pc under SOME
   schedule: every theorem over Reach is quantified over all programs, all thread counts, all capacities >= 1 and all
   interleavings of the atomic steps of CachedPageAllocator::allocate/deallocate (OAlloc/OFree, incl. the
   compensating reverse callbacks and the beyond-capacity part) and of ObjectPool pop/push/try_pop in auto-create
   mode (OPoolPop/OPoolPush) and strict mode (ONew/OSPop/OSPush/OTryPop).
     pages_of s = cache content ++ pages held by callers ++ pages inside running calls (for a deallocate: the part
                  of its array beyond the cursor progress) ++ pages returned upstream;
     pow2 qc    = the queue capacity is 2^k, k < 64 (what reserve_and_clear's bit_ceil produces);
     err s      = some callback touched a queue cell it does not own / in the wrong state.
   PART B (sequential, calls of different threads in any order): Counting(Batch(upstream)).
   PART C (calls atomic, any call sequence, any number of pools in both modes): handles (unique_ptr<T, Deleter>) and
   the routing of push / Deleter between pools.

   Not mechanised (stated in META["note"]): the ring-slot/version/futex protocol of ConcurrentBoundedQueue below the
   ticket contract (C01), termination under fairness (liveness appears as enabledness theorems:
   c17_blocked_pop_resumes, c17_blocked_pop_means_empty, c17_strict_no_deadlock, c17_compensates_when_starved). *)
From Coq Require Import ZArith List Bool Arith Permutation.
Require Import Verif.Gen.Gen_page_allocator Verif.Conc.Machine Verif.PA.PAModel Verif.PA.PAProofs.
Import ListNotations.

(* a page (object) is in exactly one place at any time: never cached twice, never held by two callers, never held or
   cached after it went back upstream; and no callback ever reads or overwrites a cell that is not its own *)
Theorem c17_single_owner : forall qc pc progs s, pow2 qc -> Reach qc pc progs s -> NoDup (pages_of s) /\ err s = false.
Proof. exact (fun qc pc progs s H R => pa_single_owner s (pa_inv qc pc progs s H R)). Qed.
Print Assumptions c17_single_owner.

(* nothing is lost and nothing is invented: the pages in the four places are exactly the pages obtained from upstream *)
Theorem c17_conservation : forall qc pc progs s, pow2 qc -> Reach qc pc progs s ->
  Permutation (pages_of s) (seq 0 (fresh s)).
Proof. exact (fun qc pc progs s H R => pa_conservation s (pa_inv qc pc progs s H R)). Qed.
Print Assumptions c17_conservation.

(* at any quiescent point: obtained - returned = held by callers + cached *)
Theorem c17_conservation_at_quiescence : forall qc pc progs s, pow2 qc -> Reach qc pc progs s -> quiescent s = true ->
  fresh s - length (returned s) = length (all_held s) + length (tape_pages (tape s)) /\ length (returned s) <= fresh s.
Proof. exact (fun qc pc progs s H R => pa_conservation_quiescent s (pa_inv qc pc progs s H R)). Qed.
Print Assumptions c17_conservation_at_quiescence.

(* destroying the allocator returns exactly its cache upstream (and touches nothing else) *)
Theorem c17_dtor_returns_cache : forall qc pc progs s, pow2 qc -> Reach qc pc progs s -> quiescent s = true ->
  tape_pages (tape (dtor s)) = [] /\ Permutation (returned (dtor s)) (returned s ++ tape_pages (tape s)) /\
  threads (dtor s) = threads s /\ fresh (dtor s) = fresh s.
Proof. exact (fun qc pc progs s H R => pa_dtor_returns_cache s (pa_inv qc pc progs s H R)). Qed.
Print Assumptions c17_dtor_returns_cache.

Theorem c17_cache_bounded_at_quiescence : forall qc pc progs s, pow2 qc -> Reach qc pc progs s -> quiescent s = true ->
  length (tape_pages (tape s)) <= qcap s.
Proof. exact (fun qc pc progs s H R => pa_cache_bounded_quiescent s (pa_inv qc pc progs s H R)). Qed.
Print Assumptions c17_cache_bounded_at_quiescence.

(* the allocator callbacks, invoked once per contiguous segment [ss, se) of the ring, read / write the caller's page
   array at the cursor and leave the cursor advanced by the segment length - so the two invocations of a claim that
   wraps the ring handle consecutive parts of the array; the tail loops run from the cursor to the end of the array *)
Theorem c17_callbacks_advance_cursor : forall r th j, ss th <= se th -> (Z.of_nat (se th - ss th) < 2 ^ 64)%Z ->
  src_index th j = cur th + j /\ dst_index th j = cur th + j /\ cursor_after r th = cur th + (se th - ss th) /\
  extra_alloc_num th = ex th - cur th /\
  (forall p e, (alloc_extra_more p e = true <-> (p < e)%Z) /\ (free_extra_more p e = true <-> (p < e)%Z)).
Proof.
  exact (fun r th j L W => conj (src_index_spec th j) (conj (dst_index_spec th j) (conj (cursor_after_spec r th L W)
           (conj (extra_alloc_num_spec th) extra_loops_spec)))).
Qed.
Print Assumptions c17_callbacks_advance_cursor.

(* the split of a claim at the end of the ring round (regenerated from pop_n / push_n): a first segment and, when the
   claim wraps, a second one covering exactly the rest *)
Theorem c17_segments_partition_the_claim : forall r q idx need, pow2 q -> 1 <= need ->
  idx < fst (seg_plan r q idx need) <= idx + need /\
  ((snd (seg_plan r q idx need) = None /\ fst (seg_plan r q idx need) = idx + need) \/
   (snd (seg_plan r q idx need) = Some (fst (seg_plan r q idx need), idx + need - fst (seg_plan r q idx need)) /\
    fst (seg_plan r q idx need) < idx + need)).
Proof. exact seg_plan_spec. Qed.
Print Assumptions c17_segments_partition_the_claim.

(* the cache never holds more pages than its capacity - in EVERY reachable state, also in the middle of concurrent
   allocate/deallocate calls and compensations *)
Theorem c17_cache_bounded : forall qc pc progs s, pow2 qc -> Reach qc pc progs s -> length (tape_pages (tape s)) <= qcap s.
Proof. exact (fun qc pc progs s H R => pa_cache_bounded s (pa_inv qc pc progs s H R)). Qed.
Print Assumptions c17_cache_bounded.

(* the claim on the queue never exceeds its capacity (so a batch larger than the cache takes the direct path) *)
Theorem c17_claims_fit_the_cache : forall n c, alloc_need_n n c = Nat.min n c /\ free_need_n n c = Nat.min n c.
Proof. exact (fun n c => conj (alloc_need_spec n c) (free_need_spec n c)). Qed.
Print Assumptions c17_claims_fit_the_cache.

(* a call whose awaited ticket has not even been claimed by the opposite side compensates instead of yielding for
   ever (allocate on an empty cache / deallocate on a full cache) *)
Theorem c17_compensates_when_starved : forall npop npush q l n p, l <= p < l + n ->
  (npush <= p -> comp_now false npop npush q l n = true) /\ (npop + q <= p -> comp_now true npop npush q l n = true).
Proof. exact (fun npop npush q l n p H => conj (comp_now_pop npop npush q l n p H) (comp_now_push npop npush q l n p H)). Qed.
Print Assumptions c17_compensates_when_starved.

(* strict pool: objects are never created by the pool, so never more than the injected ones are outstanding *)
Theorem c17_strict_never_creates : forall qc pc progs s, strict_progs progs = true -> Reach qc pc progs s -> fresh s = news s.
Proof. exact pa_strict_never_creates. Qed.
Print Assumptions c17_strict_never_creates.
Theorem c17_strict_bound : forall qc pc progs s, pow2 qc -> strict_progs progs = true -> Reach qc pc progs s ->
  length (all_held s) + length (tape_pages (tape s)) <= news s.
Proof. exact pa_strict_bound. Qed.
Print Assumptions c17_strict_bound.

(* a blocked pop resumes as soon as its object is there, and pops are blocked only when the pool is really empty *)
Theorem c17_blocked_pop_resumes : forall s t th i, nth_error (threads s) t = Some th -> tpc th = SWait false i ->
  pop_ready (tape s) i = true -> step s t <> None.
Proof. exact pa_blocked_pop_enabled. Qed.
Print Assumptions c17_blocked_pop_resumes.
Theorem c17_blocked_pop_means_empty : forall qc pc progs s, pow2 qc -> Reach qc pc progs s ->
  (forall t th, nth_error (threads s) t = Some th ->
     tpc th = Idle \/ exists i, tpc th = SWait false i /\ pop_ready (tape s) i = false) ->
  (exists t th i, nth_error (threads s) t = Some th /\ tpc th = SWait false i) ->
  tape_pages (tape s) = [].
Proof. exact (fun qc pc progs s H R => pa_blocked_pop_means_empty s (pa_inv qc pc progs s H R)). Qed.
Print Assumptions c17_blocked_pop_means_empty.

(* no deadlock while an object is available: a reachable state of a strict pool in which nobody can move although
   some thread is unfinished (no push being stuck on a full ring, which capacity >= injected objects excludes) has
   ALL injected objects held by callers and an empty pool; so whenever outstanding < injected somebody can move *)
Theorem c17_strict_no_deadlock : forall qc pc progs s, pow2 qc -> strict_progs progs = true -> Reach qc pc progs s ->
  (forall t, step s t = None) ->
  (forall t th i, nth_error (threads s) t = Some th -> tpc th = SWait true i -> push_ready (qcap s) (tape s) i = true) ->
  (exists t th, nth_error (threads s) t = Some th /\ thread_done th = false) ->
  length (all_held s) = news s /\ tape_pages (tape s) = [].
Proof. exact pa_strict_no_deadlock. Qed.
Print Assumptions c17_strict_no_deadlock.

(* the recycler runs exactly once, in order, for every object handed to push *)
Theorem c17_recycle_once : forall qc pc progs s, Reach qc pc progs s -> recycled s = pushes s.
Proof. exact pa_recycle_once. Qed.
Print Assumptions c17_recycle_once.

(* auto-create mode: a push that sees the pool at capacity destroys the object (it goes to `returned`, the queue is
   untouched); together with c17_conservation nothing is leaked *)
Theorem c17_overflow_destroyed : forall s t th a, nth_error (threads s) t = Some th -> tpc th = PSize2 a ->
  pcap s <= npush s - a ->
  exists s', step s t = Some s' /\ returned s' = returned s ++ buf th /\ tape s' = tape s /\
             npush s' = npush s /\ npop s' = npop s.
Proof. exact pa_overflow_destroyed. Qed.
Print Assumptions c17_overflow_destroyed.

(* ---- PART B: batch allocator (per-thread prefetch buffer) under the counting allocator ---- *)
Theorem c17_batch_conservation : forall ops b n, 1 <= b -> bops_ok n ops ->
  let s := brun (binit b n) ops in
  Permutation (bpages s) (seq 0 (bfresh s)) /\ NoDup (bpages s) /\ berr s = false.
Proof. exact (fun ops b n Hb Hok => pb_conservation _ (proj1 (pb_inv ops b n Hb Hok))). Qed.
Print Assumptions c17_batch_conservation.

Theorem c17_counting_exact : forall ops b n, 1 <= b -> bops_ok n ops ->
  let s := brun (binit b n) ops in allocated_page_num s = Z.of_nat (length (concat (bheld s))).
Proof. exact (fun ops b n Hb Hok => pb_counting_exact _ (proj1 (pb_inv ops b n Hb Hok))). Qed.
Print Assumptions c17_counting_exact.

Theorem c17_batch_dtor_returns_buffers : forall ops b n, 1 <= b -> (Z.of_nat b < 2 ^ 64)%Z -> bops_ok n ops ->
  let s := brun (binit b n) ops in
  flat_map slot_rest (slots (bdtor s)) = [] /\ breturned (bdtor s) = breturned s ++ flat_map slot_rest (slots s) /\
  bheld (bdtor s) = bheld s.
Proof. exact pb_dtor_run. Qed.
Print Assumptions c17_batch_dtor_returns_buffers.

(* ---- PART C: handles / Deleter routing between several pools (calls atomic, any call sequence) ---- *)
(* what the regenerated body of push(unique_ptr<T, Deleter>&&) does: it releases the object into THE POOL push WAS
   CALLED ON - the same effect as the unique_ptr<T> overload, whatever pool (or none) the handle's Deleter is bound to *)
Theorem c17_push_handle_routes_into_this_pool : forall s j, cstep s (CPushH j) = cstep s (CPushU j).
Proof. exact pc_push_handle_routes_here. Qed.
Print Assumptions c17_push_handle_routes_into_this_pool.

Theorem c17_push_handle_spec : forall s j p h hs, nth_error (cpools s) j = Some p -> hands s = h :: hs ->
  let drop := negb (cstrict p) && pool_drop (zn (ccap p)) (zn (length (cq p))) in
  let s' := cstep s (CPushH j) in
  nth_error (cpools s') j = Some {| cstrict := cstrict p; ccap := ccap p; cq := if drop then cq p else cq p ++ [hobj h];
                                    crec := crec p ++ [hobj h] |} /\
  (forall i, i <> j -> nth_error (cpools s') i = nth_error (cpools s) i) /\
  hands s' = hs /\ cdestroyed s' = (if drop then cdestroyed s ++ [hobj h] else cdestroyed s) /\ cleaked s' = cleaked s /\
  chome_of s' (hobj h) = Some j.
Proof. exact pc_push_handle_spec. Qed.
Print Assumptions c17_push_handle_spec.

(* conservation over all pools and handles: every object ever created is in exactly one free list, in exactly one
   handle, destroyed (once) or lost - and it can only be lost by letting a handle bound to NO pool die *)
Theorem c17_pools_conservation : forall ops modes cap, cops_ok (length modes) ops ->
  let s := crun (cinit modes cap) ops in
  Permutation (cq_all s ++ map hobj (hands s) ++ cdestroyed s ++ cleaked s) (seq 0 (cfresh s)).
Proof. exact (fun ops modes cap H => pc_conservation _ (pc_inv ops modes cap H)). Qed.
Print Assumptions c17_pools_conservation.
Theorem c17_lost_only_by_unbound_handle_dying : forall s o, cleaked (cstep s o) = cleaked s \/
  (o = CDie /\ exists h hs, hands s = h :: hs /\ hbind h = None /\ cleaked (cstep s o) = cleaked s ++ [hobj h]).
Proof. exact pc_leak_only_by_unbound_die. Qed.
Print Assumptions c17_lost_only_by_unbound_handle_dying.

(* per pool: a live object whose home is pool j (created by j or last pushed into j) is in j's free list or in an
   outstanding handle bound to j *)
Theorem c17_pool_owns_its_objects : forall ops modes cap o j, cops_ok (length modes) ops ->
  let s := crun (cinit modes cap) ops in
  chome_of s o = Some j -> 1 <= cnt (cq_all s) o + cnt (map hobj (hands s)) o ->
  (exists p, nth_error (cpools s) j = Some p /\ In o (cq p)) \/
  (exists h, In h (hands s) /\ hobj h = o /\ (hbind h = Some j \/ hbind h = None)).
Proof. exact (fun ops modes cap o j H => pc_pool_owns _ o j (pc_inv ops modes cap H)). Qed.
Print Assumptions c17_pool_owns_its_objects.

(* moving a pool (move construction / assignment) transfers everything: free lists, handles, nothing destroyed or lost *)
Theorem c17_pool_move_transfers_everything : forall s j, let s' := cstep s (CMovePool j) in
  cpools s' = cpools s /\ hands s' = hands s /\ cdestroyed s' = cdestroyed s /\ cleaked s' = cleaked s /\ cfresh s' = cfresh s.
Proof. exact (fun s j => conj eq_refl (conj eq_refl (conj eq_refl (conj eq_refl eq_refl)))). Qed.
Print Assumptions c17_pool_move_transfers_everything.

(* ---- non-vacuity ---- *)
Example c17_reach_example : exists s, Reach 2 0 ex_progs s /\ quiescent s = true /\ all_done s = true /\
  tape_pages (tape s) <> [] /\ returned s <> [] /\ all_held s <> [].
Proof. exact ex_reach. Qed.
Example c17_blocked_example : exists s, Reach 2 1 [[OSPop]; [ONew; OSPush]] s /\
  (forall t th, nth_error (threads s) t = Some th ->
     tpc th = Idle \/ exists i, tpc th = SWait false i /\ pop_ready (tape s) i = false) /\
  (exists t th i, nth_error (threads s) t = Some th /\ tpc th = SWait false i).
Proof. exact ex_blocked. Qed.
Example c17_stuck_example : exists s, Reach 2 1 [[OSPop]; [ONew; OSPush; OSPop; OSPop]] s /\ (forall t, step s t = None) /\
  (exists t th, nth_error (threads s) t = Some th /\ thread_done th = false) /\ all_held s <> [].
Proof. exact ex_stuck. Qed.
Example c17_batch_example : BInv (brun (binit 2 2) [BAlloc 0; BAllocN 1 3; BFree 0; BAlloc 0]) /\
  boutcome (brun (binit 2 2) [BAlloc 0; BAllocN 1 3; BFree 0; BAlloc 0]) = ([[1]; [2; 3; 4]], [[]; [5]], ([0], 6, 4%Z)).
Proof. exact ex_batch. Qed.
Example c17_route_example : let s := crun (cinit [true; true] 2) [CNewH; CPushH 0; CPop 0; CPushH 1; CTry 0; CTry 1] in
  map cq (cpools s) = [[]; []] /\ map hobj (hands s) = [0] /\ map hbind (hands s) = [Some 1] /\ cleaked s = [] /\
  clog s = [CNew 0; CPushed false; CGot 0; CPushed false; CNone; CGot 0].
Proof. exact ex_route. Qed.
