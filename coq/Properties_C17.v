(* C17 - page allocators / object pool.  Statements only. *)
From Coq Require Import ZArith List Bool Arith Permutation.
Require Import Verif.Gen.Gen_page_allocator Verif.Conc.Machine Verif.PA.PAModel Verif.PA.PAProofs.
Import ListNotations.

Theorem c17_claims_fit_the_cache : forall n c, alloc_need_n n c = Nat.min n c /\ free_need_n n c = Nat.min n c.
Proof. exact (fun n c => conj (alloc_need_spec n c) (free_need_spec n c)). Qed.
Print Assumptions c17_claims_fit_the_cache.
