(* C20 - logging: each committed entry written once, intact; pages accounted for.
   Only statements here; every proof is `exact <lemma of LG/LGProofs.v>`. *)
From Coq Require Import ZArith List Permutation.
Require Import Verif.Gen.Gen_log_entry Verif.LG.LGModel Verif.LG.LGProofs.
Require Import Verif.LG.LGAsyncModel Verif.LG.LGAsyncProofs.
Import ListNotations.
Local Open Scope Z_scope.

(* For every page size that fits the bookkeeping and every byte sequence streamed into an entry:
   the scatter list exists (no wild slot read) and spells exactly the streamed bytes. *)
Theorem c20_bytes_exact : forall p bs, params_ok p ->
  exists v, append_to_iovec p (run p bs) = Some v /\ iov_bytes v (data (run p bs)) = bs.
Proof. exact lg_bytes_exact. Qed.
Print Assumptions c20_bytes_exact.

(* every page the allocator handed out for the entry (data pages and page-table pages) appears in the
   scatter list exactly once, and nothing else does *)
Theorem c20_pages_once : forall p bs, params_ok p ->
  exists v, append_to_iovec p (run p bs) = Some v /\ Permutation (map fst v) (all_pages (run p bs)).
Proof. exact lg_pages_once. Qed.
Print Assumptions c20_pages_once.

(* building the entry never writes a page slot beyond its array *)
Theorem c20_no_slot_overrun : forall p bs, params_ok p -> err (run p bs) = false.
Proof. exact lg_no_oob. Qed.
Print Assumptions c20_no_slot_overrun.

Theorem c20_size_is_length : forall p bs, params_ok p -> size (run p bs) = Z.of_nat (length bs).
Proof. exact lg_size. Qed.
Print Assumptions c20_size_is_length.

(* every scatter element is within one page *)
Theorem c20_iov_lengths : forall p bs v, params_ok p ->
  append_to_iovec p (run p bs) = Some v -> Forall (fun e => 0 <= snd e <= p) v.
Proof. exact lg_iov_lens. Qed.
Print Assumptions c20_iov_lengths.

(* non-vacuity: the hypothesis is met by real page sizes, and a concrete entry spills into chained tables *)
Example c20_params_4096 : params_ok 4096.
Proof. exact lg_params_4096. Qed.
Example c20_spills : length (tabs (run 24 (map Z.of_nat (seq 0 500)))) = 4%nat.
Proof. vm_compute. reflexivity. Qed.

(* ---- asynchronous appender: writer loop over an abstract FIFO (queue order is property C01) ----
   q = the entries pushed before close()'s stop marker, in queue order; `rounds` = ANY way the queue
   hands them to the writer (any batch sizes, empty polls included, possibly later items behind the
   marker), each round with ANY set of file objects that report a usable descriptor in it.
   If every file object always has a descriptor, each file receives exactly the scatter lists of its
   entries, once, in queue order (hence each thread's entries in the order it wrote them, and unmixed:
   an entry's scatter list is contiguous in the stream).  With files that are sometimes unavailable, a
   file receives exactly the entries scanned in the rounds in which it had a descriptor (whole entries,
   in order, nothing else).  In every case every page of every entry is returned, and the writer stops. *)
Theorem c20_async_file_stream_exact : forall q rest rounds f,
  concat (map fst rounds) = map Entry q ++ Stop :: rest ->
  Forall (fun r => forall g, snd r g = true) rounds ->
  file_stream (writer w0 rounds) f = flat_map (fun e => if Nat.eqb (efile e) f then eiov e else []) q.
Proof. exact lga_file_stream. Qed.
Print Assumptions c20_async_file_stream_exact.

Theorem c20_async_file_stream_unavailable_files : forall q rest rounds f,
  concat (map fst rounds) = map Entry q ++ Stop :: rest ->
  file_stream (writer w0 rounds) f = delivered f rounds.
Proof. exact lga_file_stream_any. Qed.
Print Assumptions c20_async_file_stream_unavailable_files.

Theorem c20_async_pages_returned : forall q rest rounds,
  concat (map fst rounds) = map Entry q ++ Stop :: rest ->
  Permutation (returned (writer w0 rounds)) (flat_map (fun e => map fst (eiov e)) q).
Proof. exact lga_pages_returned. Qed.
Print Assumptions c20_async_pages_returned.

Theorem c20_async_writer_stops : forall q rest rounds,
  concat (map fst rounds) = map Entry q ++ Stop :: rest -> stopped (writer w0 rounds) = true.
Proof. exact lga_stops. Qed.
Print Assumptions c20_async_writer_stops.

(* non-vacuity: a run in which a file object has no descriptor while its entry is flushed *)
Example c20_async_unavailable_example :
  let e := {| eid := 1; efile := 0%nat; eiov := [(10, 4); (11, 2)] |} in
  let rounds := [([Entry e], fun _ : nat => false); ([Stop], fun _ : nat => true)] in
  file_stream (writer w0 rounds) 0 = [] /\ returned (writer w0 rounds) = [10; 11].
Proof. vm_compute. split; reflexivity. Qed.
