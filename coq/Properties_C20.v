(* C20 - logging: each committed entry written once, intact; pages accounted for.
   Only statements here; every proof is `exact <lemma of LG/LGProofs.v>`. *)
From Coq Require Import ZArith List Permutation.
Require Import Verif.Gen.Gen_log_entry Verif.LG.LGModel Verif.LG.LGProofs.
Import ListNotations.
Local Open Scope Z_scope.

(* For every page size that fits the bookkeeping and every byte sequence streamed into an entry:
   the scatter list exists (no wild slot read) and spells exactly the streamed bytes. *)
Theorem c20_bytes_exact : forall p bs, params_ok p ->
  exists v, append_to_iovec p (run p bs) = Some v /\ iov_bytes v (data (run p bs)) = bs.
Proof. exact lg_bytes_exact. Qed.
Print Assumptions c20_bytes_exact.

(* every page the allocator handed out for the entry (data pages and page-table pages) appears in the
   scatter list exactly once, and nothing else does *)
Theorem c20_pages_once : forall p bs, params_ok p ->
  exists v, append_to_iovec p (run p bs) = Some v /\ Permutation (map fst v) (all_pages (run p bs)).
Proof. exact lg_pages_once. Qed.
Print Assumptions c20_pages_once.

(* building the entry never writes a page slot beyond its array *)
Theorem c20_no_slot_overrun : forall p bs, params_ok p -> err (run p bs) = false.
Proof. exact lg_no_oob. Qed.
Print Assumptions c20_no_slot_overrun.

Theorem c20_size_is_length : forall p bs, params_ok p -> size (run p bs) = Z.of_nat (length bs).
Proof. exact lg_size. Qed.
Print Assumptions c20_size_is_length.

(* every scatter element is within one page *)
Theorem c20_iov_lengths : forall p bs v, params_ok p ->
  append_to_iovec p (run p bs) = Some v -> Forall (fun e => 0 <= snd e <= p) v.
Proof. exact lg_iov_lens. Qed.
Print Assumptions c20_iov_lengths.

(* non-vacuity: the hypothesis is met by real page sizes, and a concrete entry spills into chained tables *)
Example c20_params_4096 : params_ok 4096.
Proof. exact lg_params_4096. Qed.
Example c20_spills : length (tabs (run 24 (map Z.of_nat (seq 0 500)))) = 4%nat.
Proof. vm_compute. reflexivity. Qed.
