(* Executable model of babylon::ExclusiveMonotonicBufferResource
   (src/babylon/reusable/memory_resource.{h,cpp}).  No proofs in this file.

   Addresses are Z.  Every comparison, rounding expression, placement test, slot index and size used
   below comes from Gen_memory_resource (regenerated from the C++ on every run); the control structure
   (which branch stores what where) is hand-written and tied to the code by the correspondence run
   (harness/seq/c06_memory_resource.cpp compares returned pointers, bump window, array chains, slot
   positions, accounting and every allocator/upstream/destructor event, exactly).

   The page allocator and the upstream memory_resource are oracles: each operation carries the
   addresses they answer with (`oracle`); the correspondence run feeds the addresses the recording
   allocators really returned.  The intrusive arrays (PageArray, OversizePageArray, DestroyTaskArray)
   are kept as (address, slot index -> value) so that a slot that was never written is visibly read
   as garbage by release (value `wild`).  Pointers into an array are slot indices (0 = `array->pages`),
   exactly as the pointer comparisons of the code read once divided by the element size.

   Ghost fields (never read by the non-ghost part): blocks handed to the user, bookkeeping intervals,
   pages / upstream blocks obtained, destructors registered - all since the last release. *)
From Coq Require Import ZArith List Bool.
Require Import Verif.Gen.Gen_memory_resource.
Import ListNotations.
Local Open Scope Z_scope.

Record oracle := { o1 : Z;   (* first page the page allocator hands out in this operation *)
                   o2 : Z;   (* second page (only the extra-page placement takes it) *)
                   ou : Z }. (* block the upstream resource hands out *)

Inductive op :=
| Alloc (bytes align : Z) (o : oracle)
| Reg (ptr fn : Z) (o : oracle)        (* register_destructor(ptr, fn) *)
| Contains (ptr : Z)
| Release
| MoveAssign                           (* target prepared with the same page allocator and upstream *)
| MoveCtor.                            (* ExclusiveMonotonicBufferResource b(std::move(a)) *)

Inductive ev :=
| EPageAlloc (p : Z)
| EUpAlloc (up p bytes align : Z)      (* up: which upstream object (1 = the one set, 0 = default) *)
| EDtor (ptr fn : Z)
| EPageFree (ps : list Z)              (* one PageAllocator::deallocate(pages, n) call *)
| EUpFree (up p bytes align : Z)
| EWrite (addr len : Z).               (* ghost: a store the resource performs into managed memory *)

Definition wild : Z := -1.

Record st := {
  fb : Z; fe : Z;                              (* _free_begin / _free_end *)
  used : Z; allocd : Z;                        (* _space_used / _space_allocated *)
  ptop : Z; parrs : list (Z * list (Z * Z));   (* _last_page_pointer (slot index), PageArray chain *)
  otop : Z; oarrs : list (Z * list (Z * (Z * Z * Z)));
  dtop : Z; darrs : list (Z * list (Z * (Z * Z)));
  up : Z;                                      (* _upstream *)
  (* ghost *)
  blocks : list (Z * Z);                       (* (address, bytes) returned by allocate *)
  books : list (Z * Z);                        (* (address, size) of every intrusive array *)
  gpages : list Z;                             (* pages obtained, newest first *)
  gups : list (Z * Z * Z * Z);                 (* (upstream, address, bytes, alignment) obtained *)
  gdtors : list (Z * Z)                        (* (ptr, fn) registered, newest first *)
}.

Definition init : st :=
  {| fb := 0; fe := 0; used := 0; allocd := 0; ptop := 0; parrs := []; otop := 0; oarrs := [];
     dtop := 0; darrs := []; up := 1; blocks := []; books := []; gpages := []; gups := []; gdtors := [] |}.

Definition set_bump (s : st) (b e : Z) : st :=
  {| fb := b; fe := e; used := used s; allocd := allocd s; ptop := ptop s; parrs := parrs s; otop := otop s;
     oarrs := oarrs s; dtop := dtop s; darrs := darrs s; up := up s; blocks := blocks s; books := books s;
     gpages := gpages s; gups := gups s; gdtors := gdtors s |}.
Definition set_acct (s : st) (u a : Z) : st :=
  {| fb := fb s; fe := fe s; used := u; allocd := a; ptop := ptop s; parrs := parrs s; otop := otop s;
     oarrs := oarrs s; dtop := dtop s; darrs := darrs s; up := up s; blocks := blocks s; books := books s;
     gpages := gpages s; gups := gups s; gdtors := gdtors s |}.
Definition set_pages (s : st) (t : Z) (arrs : list (Z * list (Z * Z))) (g : list Z) : st :=
  {| fb := fb s; fe := fe s; used := used s; allocd := allocd s; ptop := t; parrs := arrs; otop := otop s;
     oarrs := oarrs s; dtop := dtop s; darrs := darrs s; up := up s; blocks := blocks s; books := books s;
     gpages := g; gups := gups s; gdtors := gdtors s |}.
Definition set_over (s : st) (t : Z) (arrs : list (Z * list (Z * (Z * Z * Z)))) (g : list (Z * Z * Z * Z)) : st :=
  {| fb := fb s; fe := fe s; used := used s; allocd := allocd s; ptop := ptop s; parrs := parrs s; otop := t;
     oarrs := arrs; dtop := dtop s; darrs := darrs s; up := up s; blocks := blocks s; books := books s;
     gpages := gpages s; gups := g; gdtors := gdtors s |}.
Definition set_dtor (s : st) (t : Z) (arrs : list (Z * list (Z * (Z * Z)))) (g : list (Z * Z)) : st :=
  {| fb := fb s; fe := fe s; used := used s; allocd := allocd s; ptop := ptop s; parrs := parrs s; otop := otop s;
     oarrs := oarrs s; dtop := t; darrs := arrs; up := up s; blocks := blocks s; books := books s;
     gpages := gpages s; gups := gups s; gdtors := g |}.
Definition set_ghost (s : st) (bl bk : list (Z * Z)) : st :=
  {| fb := fb s; fe := fe s; used := used s; allocd := allocd s; ptop := ptop s; parrs := parrs s; otop := otop s;
     oarrs := oarrs s; dtop := dtop s; darrs := darrs s; up := up s; blocks := bl; books := bk;
     gpages := gpages s; gups := gups s; gdtors := gdtors s |}.
Definition set_up (s : st) (u : Z) : st :=
  {| fb := fb s; fe := fe s; used := used s; allocd := allocd s; ptop := ptop s; parrs := parrs s; otop := otop s;
     oarrs := oarrs s; dtop := dtop s; darrs := darrs s; up := u; blocks := blocks s; books := books s;
     gpages := gpages s; gups := gups s; gdtors := gdtors s |}.

(* ---- slot arrays ---- *)
Definition lookup {A} (d : A) (i : Z) (l : list (Z * A)) : A :=
  match find (fun e => Z.eqb (fst e) i) l with Some e => snd e | None => d end.

(* the slots lo, lo+1, ..., hi-1 as the code reads them *)
Definition read_slots {A} (d : A) (lo hi : Z) (l : list (Z * A)) : list A :=
  map (fun i => lookup d (Z.of_nat i) l) (seq (Z.to_nat lo) (Z.to_nat hi - Z.to_nat lo)).

(* `*--pointer = v` on the newest array *)
Definition push_slot {A} (i : Z) (v : A) (arrs : list (Z * list (Z * A))) : list (Z * list (Z * A)) :=
  match arrs with
  | [] => []                                   (* store through nullptr->pages: excluded by the tests *)
  | (a, sl) :: r => (a, (i, v) :: sl) :: r
  end.

Definition head_addr {A} (arrs : list (Z * A)) : Z := match arrs with [] => 0 | (a, _) :: _ => a end.

(* address of slot i of a PageArray / OversizePageArray / DestroyTaskArray at a *)
Definition pslot (a i : Z) : Z := a + 8 + 8 * i.
Definition oslot (a i : Z) : Z := a + 8 + 24 * i.
Definition dslot (a i : Z) : Z := a + 8 + 16 * i.

Section WithPageSize.
Variable P : Z.   (* _page_allocator->page_size() *)

(* ---- do_allocate_in_oversize_page ---- *)
Definition alloc_oversize (s : st) (b a : Z) (o : oracle) : st * Z * list ev :=
  let page := ou o in
  if has_oversize_slot (otop s) then
    let t := otop s - 1 in
    let s1 := set_acct s (used s) (allocd s + b) in
    let s2 := set_over s1 t (push_slot t (page, b, a) (oarrs s)) ((up s, page, b, a) :: gups s) in
    (s2, page, [EUpAlloc (up s) page b a; EWrite (oslot (head_addr (oarrs s)) t) 24])
  else
    let a' := over_align a in
    let b' := over_round b a' in
    let req := over_first_request b' in
    let s1 := set_acct s (used s) (allocd s + over_first_accounted b') in
    let arr := over_array_at page b' in
    let t := idx_over_first in
    let s2 := set_over s1 t ((arr, [(t, (page, over_first_recorded b', a'))]) :: oarrs s)
                       ((up s, page, req, a') :: gups s) in
    let s3 := set_ghost s2 (blocks s2) ((arr, SIZEOF_OVERSIZE_ARRAY) :: books s2) in
    (s3, page, [EUpAlloc (up s) page req a'; EWrite arr 8; EWrite (oslot arr t) 24]).

(* ---- do_allocate_with_page_in_new_page_array ---- *)
Definition alloc_new_array (s : st) (b : Z) (page : Z) (o : oracle) : st * Z * list ev :=
  let fb2 := align_up (fb s) ALIGNOF_PAGE_ARRAY in
  if old_tail_fits fb2 (fe s) then
    let arr := fb2 in
    let t := idx_old_tail in
    let s1 := set_pages s t ((arr, [(t, page)]) :: parrs s) (gpages s) in
    let s2 := set_bump s1 (old_tail_free_begin page b) (slot_free_end page P) in
    let s3 := set_ghost s2 (blocks s2) ((arr, SIZEOF_PAGE_ARRAY) :: books s2) in
    (s3, page, [EWrite arr 8; EWrite (pslot arr t) 8])
  else if new_tail_fits b P then
    let b' := new_tail_round b in
    let arr := new_tail_array_at page b' in
    let t := idx_new_tail in
    let s1 := set_pages s t ((arr, [(t, page)]) :: parrs s) (gpages s) in
    let s2 := set_bump s1 (new_tail_free_begin page b') (slot_free_end page P) in
    let s3 := set_ghost s2 (blocks s2) ((arr, SIZEOF_PAGE_ARRAY) :: books s2) in
    (s3, page, [EWrite arr 8; EWrite (pslot arr t) 8])
  else
    let add := o2 o in
    let arr := add in
    let t := idx_extra_ptr in
    let s0 := set_acct s (used s) (allocd s + P) in
    let s1 := set_pages s0 t ((arr, [(t, add); (idx_extra_page, page)]) :: parrs s) (add :: gpages s) in
    let s2 := set_bump s1 (extra_free_begin add) (extra_free_end add P) in
    let s3 := set_ghost s2 (blocks s2) ((arr, SIZEOF_PAGE_ARRAY) :: books s2) in
    (s3, page, [EPageAlloc add; EWrite arr 8; EWrite (pslot arr idx_extra_page) 8; EWrite (pslot arr t) 8]).

(* ---- do_allocate_in_new_page ---- *)
Definition alloc_new_page (s : st) (b a : Z) (o : oracle) : st * Z * list ev :=
  if page_path b a P then
    let page := o1 o in
    let s1 := set_acct s (used s) (allocd s + P) in
    let s1 := set_pages s1 (ptop s1) (parrs s1) (page :: gpages s1) in
    if has_page_slot (ptop s1) then
      let t := ptop s1 - 1 in
      let s2 := set_pages s1 t (push_slot t page (parrs s1)) (gpages s1) in
      let s3 := set_bump s2 (slot_free_begin page b) (slot_free_end page P) in
      (s3, page, [EPageAlloc page; EWrite (pslot (head_addr (parrs s1)) t) 8])
    else
      let '(s2, r, e) := alloc_new_array s1 b page o in (s2, r, EPageAlloc page :: e)
  else alloc_oversize s b a o.

(* ---- allocate(bytes, alignment): do_align + do_allocate_already_aligned ---- *)
Definition alloc_core (s : st) (b a : Z) (o : oracle) : st * Z * list ev :=
  let s1 := set_bump s (align_up (fb s) a) (fe s) in
  let s2 := set_acct s1 (used s1 + b) (allocd s1) in
  let result := fb s2 in
  let next := fast_next result b in
  if fast_fits next (fe s2) then (set_bump s2 next (fe s2), result, [])
  else alloc_new_page s2 b a o.

Definition do_alloc (s : st) (b a : Z) (o : oracle) : st * Z * list ev :=
  let '(s1, r, e) := alloc_core s b a o in
  (set_ghost s1 ((r, b) :: blocks s1) (books s1), r, e).

(* ---- register_destructor: get_destroy_task / do_get_destroy_task_in_new_array ---- *)
Definition do_reg (s : st) (ptr fn : Z) (o : oracle) : st * Z * list ev :=
  if has_destroy_slot (dtop s) then
    let t := dtop s - 1 in
    (set_dtor s t (push_slot t (ptr, fn) (darrs s)) ((ptr, fn) :: gdtors s), 0,
     [EWrite (dslot (head_addr (darrs s)) t) 16])
  else
    let '(s1, arr, e) := alloc_core s SIZEOF_DESTROY_ARRAY ALIGNOF_DESTROY_ARRAY o in
    let t := idx_destroy_first in
    let s2 := set_ghost s1 (blocks s1) ((arr, SIZEOF_DESTROY_ARRAY) :: books s1) in
    (set_dtor s2 t ((arr, [(t, (ptr, fn))]) :: darrs s2) ((ptr, fn) :: gdtors s2), 0,
     e ++ [EWrite arr 8; EWrite (dslot arr t) 16]).

(* ---- destruct_all / release ---- *)
Fixpoint chain_read {A} (d : A) (top hi : Z) (arrs : list (Z * list (Z * A))) : list (list A) :=
  match arrs with
  | [] => []
  | (_, sl) :: r => read_slots d top hi sl :: chain_read d 0 hi r
  end.

Definition dtor_events (s : st) : list ev :=
  map (fun t => EDtor (fst t) (snd t)) (concat (chain_read (wild, wild) (dtop s) idx_destroy_end (darrs s))).

Definition page_batches (s : st) : list (list Z) :=
  match parrs s with
  | [] => []
  | (_, sl) :: r =>
    (* size = pages + CAPACITY - _last_page_pointer slots starting at _last_page_pointer *)
    read_slots wild (ptop s) (ptop s + release_batch_size (ptop s)) sl
      :: chain_read wild 0 (release_batch_size 0) r
  end.

Definition upfree_events (s : st) : list ev :=
  map (fun e => match e with (p, b, a) => EUpFree (up s) p b a end)
      (concat (chain_read (wild, wild, wild) (otop s) release_oversize_end (oarrs s))).

Definition do_release (s : st) : st * Z * list ev :=
  let e := dtor_events s ++ map EPageFree (page_batches s) ++ upfree_events s in
  let '(b, en) := match parrs s with [] => (fb s, fe s) | _ => (0, 0) end in
  ({| fb := b; fe := en; used := 0; allocd := 0; ptop := 0; parrs := []; otop := 0; oarrs := [];
      dtop := 0; darrs := []; up := up s; blocks := []; books := []; gpages := []; gups := []; gdtors := [] |},
   0, e).

(* ---- contains ---- *)
Definition in_range (ptr lo len : Z) : bool := (lo <=? ptr) && (ptr <? (lo + len) mod 2 ^ 64).

Fixpoint contains_pages (ptr size : Z) (ls : list (list Z)) : bool :=
  match ls with
  | [] => false
  | l :: r =>
    match l with
    | [] => contains_pages ptr size r
    | p :: l' => in_range ptr p size || existsb (fun q => in_range ptr q P) l' || contains_pages ptr P r
    end
  end.

Definition do_contains (s : st) (ptr : Z) : bool :=
  contains_pages ptr (contains_first_size P (fe s) (fb s)) (chain_read wild (ptop s) PAGE_ARRAY_CAPACITY (parrs s))
  || existsb (fun e => match e with (p, b, _) => in_range ptr p b end)
             (concat (chain_read (wild, wild, wild) (otop s) PAGE_ARRAY_CAPACITY (oarrs s))).

Definition step (s : st) (o : op) : st * Z * list ev :=
  match o with
  | Alloc b a orc => do_alloc s b a orc
  | Reg ptr fn orc => do_reg s ptr fn orc
  | Contains ptr => (s, if do_contains s ptr then 1 else 0, [])
  | Release => do_release s
  | MoveAssign => (s, 0, [])
  (* operator= swaps every member; whether _upstream is among them is read off the source
     (Gen.move_swaps_upstream = 1 iff `std::swap(_upstream, other._upstream)` is present); a fresh
     target object has the default upstream 0 *)
  | MoveCtor => (set_up s (if Z.eqb move_swaps_upstream 1 then up s else 0), 0, [])
  end.

Fixpoint run (s : st) (ops : list op) : st * list (Z * list ev) :=
  match ops with
  | [] => (s, [])
  | o :: r => let '(s1, res, e) := step s o in let '(s2, outs) := run s1 r in (s2, (res, e) :: outs)
  end.

(* what the correspondence run compares after every operation *)
Definition observe_st (s : st) : (Z * Z * Z * Z) * (Z * list Z) * (Z * list Z) * (Z * list Z) :=
  ((fb s, fe s, used s, allocd s), (ptop s, map fst (parrs s)), (otop s, map fst (oarrs s)),
   (dtop s, map fst (darrs s))).

Fixpoint observe (s : st) (ops : list op)
  : list (Z * list ev * ((Z * Z * Z * Z) * (Z * list Z) * (Z * list Z) * (Z * list Z))) :=
  match ops with
  | [] => []
  | o :: r => let '(s1, res, e) := step s o in (res, e, observe_st s1) :: observe s1 r
  end.

(* ---- SharedMonotonicBufferResource::release over the per-thread exclusive resources (enumeration order) ----
   The body is two for_each loops: destruct_all() on every resource, then release() on every resource
   (Gen.shared_release_destructs_first = 1 iff the source has exactly these two loops in this order). *)
Definition destruct_all (s : st) : st * list ev := (set_dtor s 0 [] [], dtor_events s).

Definition sh_release (S : list st) : list st * list ev :=
  if Z.eqb shared_release_destructs_first 1 then
    let S1 := map (fun s => fst (destruct_all s)) S in
    let e1 := concat (map (fun s => snd (destruct_all s)) S) in
    let R := map do_release S1 in
    (map (fun x => fst (fst x)) R, e1 ++ concat (map snd R))
  else
    let R := map do_release S in (map (fun x => fst (fst x)) R, concat (map snd R)).

End WithPageSize.

(* ---- two resources with their own page allocators / upstreams: a = std::move(b) ----
   A configured resource = (state, page allocator id); the upstream id is the `up` field.  operator=(&&)
   exchanges members; which ones is read off the source (one Gen.move_swaps_<member> per std::swap line).  A member
   that is assigned instead of swapped leaves the moved-from object with its old value. *)
Definition rsrc : Type := (st * Z)%type.

Definition move_swaps_contents : bool :=
  Z.eqb (move_swaps_last_page_array * move_swaps_last_page_pointer * move_swaps_free_begin * move_swaps_free_end *
         move_swaps_space_used * move_swaps_space_allocated * move_swaps_last_oversize_page_array *
         move_swaps_last_oversize_page_pointer * move_swaps_last_destroy_task_array *
         move_swaps_last_destroy_task_pointer) 1.

(* (a, b) after `a = std::move(b)` *)
Definition move_assign (a b : rsrc) : rsrc * rsrc :=
  if move_swaps_contents then
    ((set_up (fst b) (up (fst b)), snd b),
     (set_up (fst a) (if Z.eqb move_swaps_upstream 1 then up (fst a) else up (fst b)),
      if Z.eqb move_swaps_page_allocator 1 then snd a else snd b))
  else (a, b).

(* release() of a configured resource: (page allocator the page batches go to, events; EUpFree carries the upstream) *)
Definition release_to (r : rsrc) : Z * list ev := (snd r, snd (do_release (fst r))).
