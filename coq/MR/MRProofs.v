(* Proofs for C06 over MR/MRModel.v.  Layout: rounding arithmetic; interval geometry on plain lists (GeoL);
   geometry of the model (Geo: regions / items / bump window) through oversize, the three page-array placements,
   new page, allocate; structure of the slot arrays (Chain / Str) through every operation; main theorems. *)
From Coq Require Import ZArith List Bool Lia.
Require Import Verif.Gen.Gen_memory_resource Verif.MR.MRModel.
Import ListNotations.
Local Open Scope Z_scope.

Lemma land_neg_pow2 : forall k x, 0 <= k < 64 -> 0 <= x < 2 ^ 64 ->
  Z.land x ((- 2 ^ k) mod 2 ^ 64) = 2 ^ k * (x / 2 ^ k).
Proof.
  intros k x Hk Hx.
  assert (E : - 2 ^ k = Z.lnot (Z.ones k)).
  { rewrite Z.ones_equiv. unfold Z.lnot. lia. }
  rewrite E.
  rewrite <- (Z.land_ones _ 64) by lia.
  rewrite (Z.land_comm (Z.lnot (Z.ones k))).
  rewrite Z.land_assoc.
  rewrite (Z.land_ones x 64) by lia.
  rewrite (Z.mod_small x) by lia.
  rewrite <- Z.ldiff_land.
  rewrite Z.ldiff_ones_r by lia.
  rewrite Z.shiftr_div_pow2 by lia.
  rewrite Z.shiftl_mul_pow2 by lia. lia.
Qed.

Definition pow2 (a : Z) : Prop := exists k, 0 <= k <= 32 /\ a = 2 ^ k.

Lemma pow2_pos : forall a, pow2 a -> 1 <= a <= 2 ^ 32.
Proof.
  intros a (k & Hk & ->). split.
  - assert (0 < 2 ^ k) by (apply Z.pow_pos_nonneg; lia). lia.
  - apply Z.pow_le_mono_r; lia.
Qed.

(* the three rounding expressions of the source are instances of this one *)
Definition rup (x a : Z) : Z := Z.land (x + a - 1) ((- a) mod 2 ^ 64).

Lemma rup_spec : forall x a, pow2 a -> 0 <= x <= 2 ^ 63 ->
  rup x a = a * ((x + a - 1) / a).
Proof.
  intros x a Ha Hx. pose proof (pow2_pos a Ha) as Hp.
  destruct Ha as (k & Hk & ->). unfold rup.
  apply land_neg_pow2; lia.
Qed.

Lemma rup_bounds : forall x a, pow2 a -> 0 <= x <= 2 ^ 63 ->
  x <= rup x a < x + a /\ rup x a mod a = 0.
Proof.
  intros x a Ha Hx. rewrite rup_spec by assumption.
  pose proof (pow2_pos a Ha) as Hp.
  pose proof (Z.div_mod (x + a - 1) a ltac:(lia)).
  pose proof (Z.mod_pos_bound (x + a - 1) a ltac:(lia)).
  split. lia. rewrite Z.mul_comm. apply Z.mod_mul. lia.
Qed.

Lemma rup_le_multiple : forall x a m, pow2 a -> 0 <= x <= 2 ^ 63 -> x <= m -> m mod a = 0 -> rup x a <= m.
Proof.
  intros x a m Ha Hx Hm Hd. rewrite rup_spec by assumption.
  pose proof (pow2_pos a Ha) as Hp.
  apply Z.mod_divide in Hd; try lia. destruct Hd as (c & ->).
  assert ((x + a - 1) / a < c + 1). { apply Z.div_lt_upper_bound; lia. }
  nia.
Qed.

Lemma align_up_rup : forall x a, align_up x a = rup x a.
Proof. reflexivity. Qed.
Lemma new_tail_round_rup : forall b, new_tail_round b = rup b 8.
Proof. reflexivity. Qed.
Lemma over_round_rup : forall b a, over_round b a = rup b a.
Proof. reflexivity. Qed.
(* ---------------------------------------------------------------- intervals *)
Definition iv := (Z * Z)%type.
Definition disj (x y : iv) : Prop :=
  snd x <= 0 \/ snd y <= 0 \/ fst x + snd x <= fst y \/ fst y + snd y <= fst x.
Definition inside (x r : iv) : Prop :=
  snd x <= 0 \/ (fst r <= fst x /\ fst x + snd x <= fst r + snd r).

Lemma disj_sym : forall x y, disj x y -> disj y x.
Proof. unfold disj; intros; lia. Qed.
Lemma disj_inside_l : forall x w i, inside x w -> disj i w -> disj i x.
Proof. unfold disj, inside; intros; lia. Qed.
Lemma inside_trans : forall x y z, inside x y -> inside y z -> inside x z.
Proof. unfold inside; intros; lia. Qed.
Lemma inside_disj : forall x r y r', inside x r -> inside y r' -> disj r r' -> disj x y.
Proof. unfold disj, inside; intros; lia. Qed.

Fixpoint PW (l : list iv) : Prop :=
  match l with [] => True | x :: r => Forall (disj x) r /\ PW r end.

Lemma PW_insert : forall l1 l2 x, PW (l1 ++ l2) -> Forall (disj x) (l1 ++ l2) -> PW (l1 ++ x :: l2).
Proof.
  induction l1 as [|y l1 IH]; simpl; intros l2 x H F.
  - split; assumption.
  - destruct H as [Hy Hr]. inversion F as [|? ? Fy Fr]; subst. split.
    + apply Forall_app in Hy. destruct Hy as [H1 H2]. apply Forall_app. split; [assumption|].
      constructor; [apply disj_sym; assumption | assumption].
    + apply IH; assumption.
Qed.

Lemma Forall_insert : forall {A} (Q : A -> Prop) l1 l2 x, Forall Q (l1 ++ l2) -> Q x -> Forall Q (l1 ++ x :: l2).
Proof.
  intros A Q l1 l2 x H Hx. apply Forall_app in H. destruct H. apply Forall_app. split; [assumption|].
  constructor; assumption.
Qed.

Lemma In_insert : forall {A} (l1 l2 : list A) x y, In y (l1 ++ l2) -> In y (l1 ++ x :: l2).
Proof. intros. rewrite in_app_iff in *. simpl. tauto. Qed.

(* ---------------------------------------------------------------- geometry invariant on plain lists *)
Definition reg_ok (r : iv) : Prop := 0 < fst r /\ 0 <= snd r /\ fst r + snd r <= 2 ^ 62.
Definition owned (R : list iv) (i : iv) : Prop := snd i <= 0 \/ exists r, In r R /\ inside i r.

Record GeoL (R I : list iv) (w : iv) : Prop := {
  g_regs : PW R;
  g_regok : Forall reg_ok R;
  g_items : PW I;
  g_in : Forall (owned R) I;
  g_win : Forall (fun i => disj i w) I;
  g_winin : owned R w
}.

Definition fresh (R : list iv) (r : iv) : Prop := reg_ok r /\ Forall (disj r) R.

Lemma owned_insert : forall R1 R2 r i, owned (R1 ++ R2) i -> owned (R1 ++ r :: R2) i.
Proof.
  intros R1 R2 r i [H|(q & Hq & Hi)]; [left; assumption|right].
  exists q. split; [apply In_insert; assumption|assumption].
Qed.

Lemma owned_inside : forall R x w, owned R w -> inside x w -> owned R x.
Proof.
  intros R x w [H|(q & Hq & Hi)] Hx.
  - left. unfold inside in Hx. lia.
  - destruct (Z_le_gt_dec (snd x) 0); [left; assumption|right].
    exists q. split; [assumption|eapply inside_trans; eauto].
Qed.

Lemma geo_add_region : forall R1 R2 I w r, GeoL (R1 ++ R2) I w -> fresh (R1 ++ R2) r -> GeoL (R1 ++ r :: R2) I w.
Proof.
  intros R1 R2 I w r [] [Hok Hf]. constructor; auto.
  - apply PW_insert; assumption.
  - apply Forall_insert; assumption.
  - eapply Forall_impl; [|exact g_in0]. intros i. apply owned_insert.
  - apply owned_insert; assumption.
Qed.

(* anything inside a fresh region is disjoint from every existing item and from the window *)
Lemma fresh_disj_owned : forall R r x i, fresh R r -> inside x r -> owned R i -> disj x i.
Proof.
  intros R r x i [Hok Hf] Hx [Hz|(q & Hq & Hi)]; [unfold disj; lia|].
  rewrite Forall_forall in Hf. specialize (Hf q Hq).
  eapply inside_disj; eauto.
Qed.

Lemma fresh_disj_items : forall R I w r x, GeoL R I w -> fresh R r -> inside x r -> Forall (disj x) I.
Proof.
  intros R I w r x [] Hf Hx.
  eapply Forall_impl; [|exact g_in0]. intros i Hi. eapply fresh_disj_owned; eauto.
Qed.

Lemma fresh_disj_win : forall R I w r x, GeoL R I w -> fresh R r -> inside x r -> disj x w.
Proof. intros R I w r x [] Hf Hx. eapply fresh_disj_owned; eauto. Qed.

(* add an item x that is owned and disjoint from all items and from the window *)
Lemma geo_add_item : forall R I1 I2 w x, GeoL R (I1 ++ I2) w -> owned R x ->
  Forall (disj x) (I1 ++ I2) -> disj x w -> GeoL R (I1 ++ x :: I2) w.
Proof.
  intros R I1 I2 w x [] Hx Hd Hw. constructor; auto.
  - apply PW_insert; assumption.
  - apply Forall_insert; assumption.
  - apply Forall_insert; assumption.
Qed.

Lemma geo_set_window : forall R I w w', GeoL R I w -> Forall (fun i => disj i w') I -> owned R w' -> GeoL R I w'.
Proof. intros R I w w' [] H1 H2. constructor; auto. Qed.

Lemma geo_shrink_window : forall R I w w', GeoL R I w -> inside w' w -> GeoL R I w'.
Proof.
  intros R I w w' G Hi. pose proof G as []. eapply geo_set_window; eauto.
  - eapply Forall_impl; [|exact g_win0]. intros i Hd. eapply disj_inside_l; eauto.
  - eapply owned_inside; eauto.
Qed.

(* carve x from the window, keep a sub-window w' disjoint from x *)
Lemma geo_carve : forall R I1 I2 w x w', GeoL R (I1 ++ I2) w -> inside x w -> inside w' w -> disj x w' ->
  GeoL R (I1 ++ x :: I2) w'.
Proof.
  intros R I1 I2 w x w' G Hx Hw Hd.
  pose proof (geo_shrink_window _ _ _ _ G Hw) as G'.
  apply geo_add_item; auto.
  - eapply owned_inside; [exact (g_winin _ _ _ G)|assumption].
  - pose proof G as []. eapply Forall_impl; [|exact g_win0]. intros i Hi. apply disj_sym. eapply disj_inside_l; eauto.
Qed.
Lemma geo_drop_head : forall R x I w, GeoL R (x :: I) w -> GeoL R I w.
Proof.
  intros R x I w []. simpl in *. destruct g_items0.
  inversion g_in0; subst. inversion g_win0; subst. constructor; auto.
Qed.

Lemma geo_move_item : forall R x I1 I2 w, GeoL R (x :: I1 ++ I2) w -> GeoL R (I1 ++ x :: I2) w.
Proof.
  intros R x I1 I2 w G. pose proof (geo_drop_head _ _ _ _ G) as G'.
  destruct G as []. simpl in *. destruct g_items0. inversion g_in0; subst. inversion g_win0; subst.
  apply geo_add_item; auto.
Qed.

(* a fresh region rg is obtained; item x and the new window w' lie in it *)
Lemma geo_fresh_win : forall R1 R2 I1 I2 w rg x w', GeoL (R1 ++ R2) (I1 ++ I2) w -> fresh (R1 ++ R2) rg ->
  inside x rg -> inside w' rg -> disj x w' -> GeoL (R1 ++ rg :: R2) (I1 ++ x :: I2) w'.
Proof.
  intros R1 R2 I1 I2 w rg x w' G Hf Hx Hw Hd.
  pose proof (geo_add_region _ _ _ _ _ G Hf) as G1.
  assert (Hin : In rg (R1 ++ rg :: R2)) by (apply in_elt).
  assert (G2 : GeoL (R1 ++ rg :: R2) (I1 ++ I2) w').
  { eapply geo_set_window; [exact G1| |].
    - pose proof (fresh_disj_items _ _ _ _ _ G Hf Hw) as F. eapply Forall_impl; [|exact F]. intros; apply disj_sym; assumption.
    - destruct (Z_le_gt_dec (snd w') 0); [left; assumption|right]. exists rg. split; assumption. }
  apply geo_add_item; [exact G2| | |exact Hd].
  - destruct (Z_le_gt_dec (snd x) 0); [left; assumption|right]. exists rg. split; assumption.
  - exact (fresh_disj_items _ _ _ _ _ G Hf Hx).
Qed.

(* same, the window stays *)
Lemma geo_fresh_keep : forall R1 R2 I1 I2 w rg x, GeoL (R1 ++ R2) (I1 ++ I2) w -> fresh (R1 ++ R2) rg ->
  inside x rg -> GeoL (R1 ++ rg :: R2) (I1 ++ x :: I2) w.
Proof.
  intros R1 R2 I1 I2 w rg x G Hf Hx.
  pose proof (geo_add_region _ _ _ _ _ G Hf) as G1.
  apply geo_add_item; [exact G1| | |].
  - destruct (Z_le_gt_dec (snd x) 0); [left; assumption|right]. exists rg. split; [apply in_elt|assumption].
  - exact (fresh_disj_items _ _ _ _ _ G Hf Hx).
  - exact (fresh_disj_win _ _ _ _ _ G Hf Hx).
Qed.

(* a second item y in a region rg already present, disjoint from a known item x that was just inserted *)
Lemma geo_add_item_after : forall R I1 I2 I3 w x y rg, GeoL R (I1 ++ I2 ++ x :: I3) w -> In rg R -> inside y rg ->
  Forall (disj y) (I1 ++ I2 ++ I3) -> disj y x -> disj y w -> GeoL R (I1 ++ y :: I2 ++ x :: I3) w.
Proof.
  intros R I1 I2 I3 w x y rg G Hin Hy F Hx Hw.
  apply geo_add_item; [exact G| | |exact Hw].
  - destruct (Z_le_gt_dec (snd y) 0); [left; assumption|right]. exists rg. split; assumption.
  - rewrite app_assoc. apply Forall_insert; [rewrite <- app_assoc; assumption|assumption].
Qed.

Lemma fresh_cons : forall R r q, fresh R r -> reg_ok r -> disj r q -> fresh (q :: R) r.
Proof. intros R r q [H1 H2] _ Hd. split; [assumption|constructor; assumption]. Qed.
(* ---------------------------------------------------------------- the model's geometry *)
Section Geo.
Variable P : Z.
Hypothesis Pok : exists k, 7 <= k <= 32 /\ P = 2 ^ k.

Definition page_iv (p : Z) : iv := (p, P).
Definition up_iv (e : Z * Z * Z * Z) : iv := match e with (_, p, b, _) => (p, b) end.
Definition regions (s : st) : list iv := map page_iv (gpages s) ++ map up_iv (gups s).
Definition items (s : st) : list iv := blocks s ++ books s.
Definition window (s : st) : iv := (fb s, fe s - fb s).

Record Geo (s : st) : Prop := {
  geo_l : GeoL (regions s) (items s) (window s);
  geo_fb : 0 <= fb s <= 2 ^ 63;
  geo_fe : 0 <= fe s <= 2 ^ 62;
  geo_k : parrs s = [] -> fb s = 0 /\ fe s = 0 /\ ptop s = 0
}.

(* the request the resource sends upstream for allocate(b, a) in state s *)
Definition up_request (s : st) (b a : Z) : Z * Z :=
  if has_oversize_slot (otop s) then (b, a)
  else (over_first_request (over_round b (over_align a)), over_align a).

(* what a correct page allocator / upstream answers: fresh, aligned regions (answers the operation does
   not ask for are ignored by the model, so constraining them loses nothing) *)
Definition oracle_ok (s : st) (b a : Z) (o : oracle) : Prop :=
  fresh (regions s) (o1 o, P) /\ o1 o mod P = 0 /\
  fresh (regions s) (o2 o, P) /\ o2 o mod P = 0 /\ disj (o1 o, P) (o2 o, P) /\
  fresh (regions s) (ou o, fst (up_request s b a)) /\ ou o mod snd (up_request s b a) = 0.

Lemma P_facts : 128 <= P <= 2 ^ 32 /\ P mod 8 = 0 /\ pow2 P.
Proof.
  destruct Pok as (k & Hk & ->). repeat split.
  - change 128 with (2 ^ 7). apply Z.pow_le_mono_r; lia.
  - apply Z.pow_le_mono_r; lia.
  - replace k with (3 + (k - 3)) by lia. rewrite Z.pow_add_r by lia. rewrite Z.mul_comm. apply Z.mod_mul. lia.
  - exists k. split; [lia|reflexivity].
Qed.

Lemma pow2_8 : pow2 8.
Proof. exists 3. split; [lia|reflexivity]. Qed.

Lemma pow2_mod : forall a c, pow2 a -> pow2 c -> a <= c -> c mod a = 0.
Proof.
  intros a c (j & Hj & ->) (k & Hk & ->) Hle.
  assert (j <= k). { apply (Z.pow_le_mono_r_iff 2); lia. }
  replace k with (j + (k - j)) by lia. rewrite Z.pow_add_r by lia. rewrite Z.mul_comm. apply Z.mod_mul.
  assert (0 < 2 ^ j) by (apply Z.pow_pos_nonneg; lia). lia.
Qed.

Lemma mod_mod_0 : forall x a c, 0 < a -> 0 < c -> c mod a = 0 -> x mod c = 0 -> x mod a = 0.
Proof.
  intros x a c Ha Hc H1 H2.
  apply Z.mod_divide in H1; try lia. apply Z.mod_divide in H2; try lia.
  apply Z.mod_divide; try lia. eapply Z.divide_trans; eauto.
Qed.

Lemma pow2_max8 : forall a, pow2 a -> pow2 (Z.max a 8) /\ (Z.max a 8) mod a = 0 /\ 8 <= Z.max a 8.
Proof.
  intros a Ha. pose proof (pow2_pos a Ha).
  destruct (Z_le_gt_dec a 8).
  - rewrite Z.max_r by lia. split; [apply pow2_8|]. split; [apply pow2_mod; auto using pow2_8|lia].
  - rewrite Z.max_l by lia. split; [assumption|]. split; [apply Z_mod_same_full|lia].
Qed.

(* ---- do_allocate_in_oversize_page ---- *)
Lemma oversize_geo : forall s b a o s' r e,
  Geo s -> 0 <= b < 2 ^ 61 -> pow2 a -> oracle_ok s b a o ->
  alloc_oversize s b a o = (s', r, e) ->
  r mod a = 0 /\ blocks s' = blocks s /\
  GeoL (regions s') ((r, b) :: items s') (window s') /\ fb s' = fb s /\ fe s' = fe s.
Proof.
  intros s b a o s' r e G Hb Ha Ho H.
  destruct G as [GL Hfb Hfe _].
  destruct Ho as (_ & _ & _ & _ & _ & Hfu & Hmu).
  unfold alloc_oversize, up_request in *.
  destruct (has_oversize_slot (otop s)) eqn:Hs; inversion H; subst; clear H; cbn in *.
  - split; [assumption|]. split; [reflexivity|]. split; [|split; reflexivity].
    unfold regions, items in *; cbn.
    apply (geo_fresh_keep (map page_iv (gpages s)) (map up_iv (gups s)) [] (blocks s ++ books s)); auto.
    unfold inside; cbn; lia.
  - pose proof (pow2_max8 a Ha) as (Hp8 & Hd8 & Hge8).
    unfold over_align, over_first_request, over_first_recorded, over_array_at, over_first_accounted in *.
    rewrite over_round_rup in *.
    pose proof (rup_bounds b (Z.max a 8) Hp8 ltac:(lia)) as (Hr1 & Hr2).
    pose proof (pow2_pos a Ha).
    split. { eapply mod_mod_0; [| |exact Hd8|exact Hmu]; lia. }
    split; [reflexivity|]. split; [|split; reflexivity].
    unfold regions, items in *; cbn.
    set (b' := rup b (Z.max a 8)) in *.
    set (rg := (ou o, b' + 368)) in *.
    pose proof (geo_fresh_keep (map page_iv (gpages s)) (map up_iv (gups s)) (blocks s) (books s) _ rg
                  (ou o + b', SIZEOF_OVERSIZE_ARRAY) GL Hfu) as G1.
    assert (Hi : inside (ou o + b', SIZEOF_OVERSIZE_ARRAY) rg).
    { unfold inside, rg, SIZEOF_OVERSIZE_ARRAY; cbn; lia. }
    specialize (G1 Hi).
    apply (geo_add_item_after _ [] (blocks s) (books s) _ (ou o + b', SIZEOF_OVERSIZE_ARRAY) (ou o, b) rg); auto.
    + apply in_elt.
    + unfold inside, rg; cbn; lia.
    + cbn. apply (fresh_disj_items _ _ _ rg _ GL Hfu). unfold inside, rg; cbn; lia.
    + unfold disj, SIZEOF_OVERSIZE_ARRAY; cbn; lia.
    + apply (fresh_disj_win _ _ _ rg _ GL Hfu). unfold inside, rg; cbn; lia.
Qed.
(* ---- do_allocate_with_page_in_new_page_array: the three placements ---- *)
Lemma new_array_geo : forall s b page o s' r e g0,
  gpages s = page :: g0 ->
  GeoL (map page_iv g0 ++ map up_iv (gups s)) (items s) (window s) ->
  0 <= fb s <= 2 ^ 63 -> 0 <= fe s <= 2 ^ 62 ->
  fresh (map page_iv g0 ++ map up_iv (gups s)) (page, P) ->
  fresh (map page_iv g0 ++ map up_iv (gups s)) (o2 o, P) -> disj (page, P) (o2 o, P) ->
  0 <= b <= P ->
  alloc_new_array P s b page o = (s', r, e) ->
  r = page /\ blocks s' = blocks s /\
  GeoL (regions s') ((page, b) :: items s') (window s') /\ 0 <= fb s' <= 2 ^ 63 /\ 0 <= fe s' <= 2 ^ 62.
Proof.
  intros s b page o s' r e g0 Hg GL Hfb Hfe Hf1 Hf2 Hd12 Hb H.
  pose proof P_facts as (HP & HP8 & HPp).
  pose proof Hf1 as [Hok1 _]. unfold reg_ok in Hok1; cbn in Hok1.
  pose proof Hf2 as [Hok2 _]. unfold reg_ok in Hok2; cbn in Hok2.
  unfold alloc_new_array in H.
  rewrite align_up_rup in H.
  pose proof (rup_bounds (fb s) ALIGNOF_PAGE_ARRAY pow2_8 Hfb) as (Hr1 & _).
  set (fb2 := rup (fb s) ALIGNOF_PAGE_ARRAY) in *.
  unfold old_tail_fits, new_tail_fits in H.
  destruct (fb2 + 128 <=? fe s) eqn:C1.
  - (* the array goes to the tail of the old page *)
    apply Z.leb_le in C1. injection H as Hs Hr He; subst s' r e.
    unfold regions, items, window in *; cbn. rewrite Hg; cbn.
    unfold old_tail_free_begin, slot_free_end, SIZEOF_PAGE_ARRAY.
    split; [reflexivity|]. split; [reflexivity|]. split; [|lia].
    assert (G1 : GeoL (map page_iv g0 ++ map up_iv (gups s)) (blocks s ++ (fb2, 128) :: books s) (fe s, 0)).
    { apply (geo_carve _ _ _ _ _ _ GL); unfold inside, disj; cbn; lia. }
    apply (geo_fresh_win [] _ [] _ _ (page, P) (page, b) _ G1 Hf1); unfold inside, disj; cbn; lia.
  - apply Z.leb_gt in C1. destruct (b + 128 <=? P) eqn:C2.
    + (* the array goes behind the block in the new page *)
      apply Z.leb_le in C2. injection H as Hs Hr He; subst s' r e.
      unfold regions, items, window in *; cbn. rewrite Hg; cbn.
      rewrite new_tail_round_rup.
      pose proof (rup_bounds b 8 pow2_8 ltac:(lia)) as (Hb1 & _).
      assert (Hb2 : rup b 8 <= P - 128).
      { apply rup_le_multiple; [apply pow2_8|lia|lia|].
        rewrite Zminus_mod, HP8. reflexivity. }
      set (b' := rup b 8) in *.
      unfold new_tail_array_at, new_tail_free_begin, slot_free_end, SIZEOF_PAGE_ARRAY.
      split; [reflexivity|]. split; [reflexivity|]. split; [|lia].
      assert (G1 : GeoL ((page, P) :: map page_iv g0 ++ map up_iv (gups s)) (blocks s ++ (page + b', 128) :: books s)
                        (page + b' + 128, page + P - (page + b' + 128))).
      { apply (geo_fresh_win [] _ _ _ _ (page, P) _ _ GL Hf1); unfold inside, disj; cbn; lia. }
      apply (geo_add_item_after _ [] (blocks s) (books s) _ (page + b', 128) (page, b) (page, P) G1).
      * left; reflexivity.
      * unfold inside; cbn; lia.
      * cbn. apply (fresh_disj_items _ _ _ (page, P) _ GL Hf1). unfold inside; cbn; lia.
      * unfold disj; cbn; lia.
      * unfold disj; cbn; lia.
    + (* an additional page holds the array *)
      apply Z.leb_gt in C2. injection H as Hs Hr He; subst s' r e.
      unfold regions, items, window in *; cbn. rewrite Hg; cbn.
      unfold extra_free_begin, extra_free_end, SIZEOF_PAGE_ARRAY.
      split; [reflexivity|]. split; [reflexivity|]. split; [|lia].
      assert (G1 : GeoL ((page, P) :: map page_iv g0 ++ map up_iv (gups s)) ((page, b) :: blocks s ++ books s) (page + P, 0)).
      { apply (geo_fresh_win [] _ [] _ _ (page, P) (page, b) _ GL Hf1); unfold inside, disj; cbn; lia. }
      assert (Hf2' : fresh ((page, P) :: map page_iv g0 ++ map up_iv (gups s)) (o2 o, P)).
      { apply fresh_cons; [assumption|apply Hf2|apply disj_sym; assumption]. }
      apply (geo_fresh_win [] _ ((page, b) :: blocks s) (books s) _ (o2 o, P) (o2 o, 128) _ G1 Hf2');
        unfold inside, disj; cbn; lia.
Qed.
(* ---- do_allocate_in_new_page ---- *)
Lemma new_page_geo : forall s b a o s' r e,
  Geo s -> 0 <= b < 2 ^ 61 -> pow2 a -> oracle_ok s b a o ->
  alloc_new_page P s b a o = (s', r, e) ->
  r mod a = 0 /\ blocks s' = blocks s /\
  GeoL (regions s') ((r, b) :: items s') (window s') /\ 0 <= fb s' <= 2 ^ 63 /\ 0 <= fe s' <= 2 ^ 62.
Proof.
  intros s b a o s' r e G Hb Ha Ho H.
  pose proof P_facts as (HP & HP8 & HPp). pose proof (pow2_pos a Ha) as Hap.
  unfold alloc_new_page in H. unfold page_path in H.
  destruct ((b <=? P) && (a <=? P)) eqn:C.
  - apply andb_true_iff in C. destruct C as [C1 C2]. apply Z.leb_le in C1. apply Z.leb_le in C2.
    destruct Ho as (Hf1 & Hm1 & Hf2 & Hm2 & Hd12 & _).
    destruct G as [GL Hfb Hfe _].
    pose proof Hf1 as [Hok1 _]. unfold reg_ok in Hok1; cbn in Hok1.
    assert (Hal : o1 o mod a = 0).
    { eapply mod_mod_0; [| |apply (pow2_mod a P Ha HPp C2)|exact Hm1]; lia. }
    cbn in H. unfold has_page_slot in H.
    destruct (ptop s >? 0) eqn:C3.
    + injection H as Hs Hr He; subst s' r e.
      unfold regions, items, window in *; cbn. unfold slot_free_begin, slot_free_end.
      split; [assumption|]. split; [reflexivity|]. split; [|lia].
      apply (geo_fresh_win [] _ [] _ _ (o1 o, P) (o1 o, b) _ GL Hf1); unfold inside, disj; cbn; lia.
    + destruct (alloc_new_array P _ b (o1 o) o) as [[s2 r2] e2] eqn:E.
      injection H as Hs Hr He; subst s' r e.
      apply new_array_geo with (g0 := gpages s) in E; cbn; auto.
      all: try lia.
      destruct E as (Er & Hbl & GL' & Hn1 & Hn2). subst r2. split; [exact Hal|]. split; [exact Hbl|]. split; [exact GL'|]. split; assumption.
  - destruct (oversize_geo s b a o s' r e G Hb Ha Ho H) as (H1 & H2 & H3 & H4 & H5).
    destruct G as [GL Hfb Hfe _]. rewrite H4, H5. split; [exact H1|]. split; [exact H2|]. split; [exact H3|]. split; assumption.
Qed.

(* ---- allocate(bytes, alignment) ---- *)
Lemma core_geo : forall s b a o s' r e,
  Geo s -> 0 <= b < 2 ^ 61 -> pow2 a -> oracle_ok s b a o ->
  alloc_core P s b a o = (s', r, e) ->
  r mod a = 0 /\ blocks s' = blocks s /\
  GeoL (regions s') ((r, b) :: items s') (window s') /\ 0 <= fb s' <= 2 ^ 63 /\ 0 <= fe s' <= 2 ^ 62.
Proof.
  intros s b a o s' r e G Hb Ha Ho H.
  pose proof (pow2_pos a Ha) as Hap.
  pose proof G as [GL Hfb Hfe HK].
  unfold alloc_core in H. cbn in H. rewrite align_up_rup in H.
  pose proof (rup_bounds (fb s) a Ha Hfb) as ((Hr1 & Hr2) & Hr3).
  assert (Hr4 : rup (fb s) a <= 2 ^ 63).
  { apply rup_le_multiple; auto; try lia.
    destruct Ha as (k & Hk & ->).
    replace 63 with (k + (63 - k)) by lia. rewrite Z.pow_add_r by lia. rewrite Z.mul_comm. apply Z.mod_mul. lia. }
  set (fb1 := rup (fb s) a) in *.
  unfold fast_fits, fast_next in H.
  destruct (fb1 + b <=? fe s) eqn:C.
  - apply Z.leb_le in C. injection H as Hs Hr He; subst s' r e.
    unfold regions, items, window in *; cbn.
    split; [assumption|]. split; [reflexivity|]. split; [|lia].
    apply (geo_carve _ [] _ _ _ _ GL); unfold inside, disj; cbn; lia.
  - apply Z.leb_gt in C.
    apply (new_page_geo (set_acct (set_bump s fb1 (fe s)) (used s + b) (allocd s)) b a o s' r e); [|exact Hb|exact Ha|exact Ho|exact H].
    constructor; cbn; try lia.
    + unfold regions, items, window in *; cbn.
      apply (geo_shrink_window _ _ _ _ GL). unfold inside; cbn; lia.
    + intros Hp. destruct (HK Hp) as (K1 & K2 & K3). rewrite K1 in *. 
      assert (fb1 = 0) by (rewrite <- Hr3; symmetry; apply Z.mod_small; lia). lia.
Qed.
(* ---- structure facts needed by the geometry: no page array => empty window, no slot ---- *)
Definition K (s : st) : Prop := parrs s = [] -> fb s = 0 /\ fe s = 0 /\ ptop s = 0.

Lemma oversize_K : forall s b a o s' r e, alloc_oversize s b a o = (s', r, e) ->
  parrs s' = parrs s /\ ptop s' = ptop s /\ fb s' = fb s /\ fe s' = fe s.
Proof.
  intros s b a o s' r e H. unfold alloc_oversize in H.
  destruct (has_oversize_slot (otop s)); injection H as Hs Hr He; subst s'; cbn; auto.
Qed.

Lemma new_array_K : forall s b page o s' r e, alloc_new_array P s b page o = (s', r, e) -> parrs s' <> [].
Proof.
  intros s b page o s' r e H. unfold alloc_new_array in H.
  destruct (old_tail_fits _ _); [|destruct (new_tail_fits _ _)]; injection H as Hs Hr He; subst s'; cbn; discriminate.
Qed.

Lemma new_page_K : forall s b a o s' r e, K s -> alloc_new_page P s b a o = (s', r, e) -> K s'.
Proof.
  intros s b a o s' r e HK H. unfold alloc_new_page in H.
  destruct (page_path b a P).
  - cbn in H. unfold has_page_slot in H. destruct (ptop s >? 0) eqn:C.
    + injection H as Hs Hr He; subst s'. intros Hp; cbn in Hp.
      destruct (parrs s) as [|[a0 sl] rest] eqn:E; [|discriminate].
      destruct (HK E) as (_ & _ & K3). rewrite K3 in C. discriminate.
    + destruct (alloc_new_array P _ b (o1 o) o) as [[s2 r2] e2] eqn:E.
      injection H as Hs Hr He; subst s'. intros Hp. apply new_array_K in E. contradiction.
  - destruct (oversize_K _ _ _ _ _ _ _ H) as (H1 & H2 & H3 & H4). unfold K. rewrite H1, H2, H3, H4. exact HK.
Qed.

Lemma core_K : forall s b a o s' r e, K s -> 0 <= b -> pow2 a -> 0 <= fb s <= 2 ^ 63 ->
  alloc_core P s b a o = (s', r, e) -> K s'.
Proof.
  intros s b a o s' r e HK Hb Ha Hfb H. pose proof (pow2_pos a Ha).
  unfold alloc_core in H. cbn in H. rewrite align_up_rup in H.
  pose proof (rup_bounds (fb s) a Ha Hfb) as ((Hr1 & Hr2) & Hr3).
  assert (Z0 : parrs s = [] -> rup (fb s) a = 0 /\ fe s = 0 /\ ptop s = 0).
  { intros Hp. destruct (HK Hp) as (K1 & K2 & K3). rewrite K1 in *.
    split; [|auto]. rewrite <- (Z.mod_small (rup 0 a) a) by lia. exact Hr3. }
  unfold fast_fits, fast_next in H.
  destruct (rup (fb s) a + b <=? fe s) eqn:C.
  - apply Z.leb_le in C. injection H as Hs Hr He; subst s'. intros Hp; cbn in *.
    destruct (Z0 Hp) as (K1 & K2 & K3). lia.
  - eapply new_page_K; [|exact H]. intros Hp; cbn in *. auto.
Qed.

(* ---------------------------------------------------------------- one step keeps the geometry *)
Definition op_ok (s : st) (o : op) : Prop :=
  match o with
  | Alloc b a orc => 0 <= b < 2 ^ 61 /\ pow2 a /\ oracle_ok s b a orc
  | Reg _ _ orc => oracle_ok s SIZEOF_DESTROY_ARRAY ALIGNOF_DESTROY_ARRAY orc
  | _ => True
  end.

Lemma geo_init : Geo init.
Proof.
  constructor.
  - constructor; cbn; auto. left; cbn; lia.
  - cbn; lia.
  - cbn; lia.
  - intros _; cbn; auto.
Qed.

Lemma alloc_geo : forall s b a o s' r e, Geo s -> 0 <= b < 2 ^ 61 -> pow2 a -> oracle_ok s b a o ->
  do_alloc P s b a o = (s', r, e) ->
  Geo s' /\ r mod a = 0 /\ blocks s' = (r, b) :: blocks s.
Proof.
  intros s b a o s' r e G Hb Ha Ho H. unfold do_alloc in H.
  destruct (alloc_core P s b a o) as [[s1 r1] e1] eqn:E. injection H as Hs Hr He; subst s' r e.
  pose proof (core_K _ _ _ _ _ _ _ (geo_k _ G) (proj1 Hb) Ha (geo_fb _ G) E) as HK.
  destruct (core_geo _ _ _ _ _ _ _ G Hb Ha Ho E) as (H1 & H2 & H3 & H4 & H5).
  split; [|split; [exact H1|cbn; rewrite H2; reflexivity]].
  constructor; cbn; auto.
Qed.

Lemma step_geo : forall s o s' r e, Geo s -> op_ok s o -> step P s o = (s', r, e) -> Geo s'.
Proof.
  intros s o s' r e G Hok H. destruct o as [b a orc|ptr fn orc|ptr| | |]; cbn in H.
  - destruct Hok as (Hb & Ha & Ho). eapply alloc_geo; eauto.
  - unfold do_reg in H. destruct (has_destroy_slot (dtop s)).
    + injection H as Hs Hr He; subst s'. destruct G. constructor; cbn; auto.
    + destruct (alloc_core P s SIZEOF_DESTROY_ARRAY ALIGNOF_DESTROY_ARRAY orc) as [[s1 r1] e1] eqn:E.
      injection H as Hs Hr He; subst s'.
      assert (Hb : 0 <= SIZEOF_DESTROY_ARRAY < 2 ^ 61) by (unfold SIZEOF_DESTROY_ARRAY; lia).
      pose proof (core_K _ _ _ _ _ _ _ (geo_k _ G) (proj1 Hb) pow2_8 (geo_fb _ G) E) as HK.
      destruct (core_geo _ _ _ _ _ _ _ G Hb pow2_8 Hok E) as (H1 & H2 & H3 & H4 & H5).
      constructor; cbn; auto.
      unfold regions, items, window in *; cbn. apply geo_move_item. exact H3.
  - injection H as Hs Hr He; subst s'. exact G.
  - unfold do_release in H.
    assert (Hz : (match parrs s with [] => (fb s, fe s) | _ :: _ => (0, 0) end) = (0, 0)).
    { destruct (parrs s) eqn:E; [|reflexivity]. destruct (geo_k _ G E) as (-> & -> & _). reflexivity. }
    rewrite Hz in H. injection H as Hs Hr He; subst s'.
    constructor.
    + constructor; cbn; auto. left; cbn; lia.
    + cbn; lia.
    + cbn; lia.
    + intros _; cbn; auto.
  - injection H as Hs Hr He; subst s'. exact G.
  - injection H as Hs Hr He; subst s'. destruct G. constructor; cbn; auto.
Qed.

(* every state reachable from the initial one through operations whose oracle answers are fresh *)
Inductive reach : st -> Prop :=
| reach_init : reach init
| reach_step : forall s o, reach s -> op_ok s o -> reach (fst (fst (step P s o))).

Lemma reach_geo : forall s, reach s -> Geo s.
Proof.
  induction 1 as [|s o R IH Hok]; [apply geo_init|].
  destruct (step P s o) as [[s' r] e] eqn:E. cbn. eapply step_geo; eauto.
Qed.
End Geo.
(* ---------------------------------------------------------------- slot arrays *)
Section Chains.
Context {A : Type}.
Variable d : A.

Lemma lookup_hit : forall i (v : A) l, lookup d i ((i, v) :: l) = v.
Proof. intros. unfold lookup. cbn. rewrite Z.eqb_refl. reflexivity. Qed.
Lemma lookup_miss : forall i j (v : A) l, i <> j -> lookup d i ((j, v) :: l) = lookup d i l.
Proof. intros. unfold lookup. cbn. destruct (Z.eqb_spec j i); [congruence|reflexivity]. Qed.

Definition keys_ok (k cap : nat) (sl : list (Z * A)) : Prop := map fst sl = map Z.of_nat (seq k (cap - k)).

Lemma read_keys : forall n lo (sl : list (Z * A)), map fst sl = map Z.of_nat (seq lo n) ->
  map (fun i => lookup d (Z.of_nat i) sl) (seq lo n) = map snd sl.
Proof.
  induction n as [|n IH]; intros lo sl H; cbn in *.
  - destruct sl; [reflexivity|discriminate].
  - destruct sl as [|[k v] sl]; [discriminate|]. cbn in H. injection H as Hk Hr. subst k. cbn.
    rewrite lookup_hit. f_equal. rewrite <- (IH (S lo) sl Hr).
    apply map_ext_in. intros i Hi. apply in_seq in Hi. apply lookup_miss. lia.
Qed.

Lemma read_slots_ok : forall k cap sl, keys_ok k cap sl ->
  read_slots d (Z.of_nat k) (Z.of_nat cap) sl = map snd sl.
Proof. intros k cap sl H. unfold read_slots. rewrite !Nat2Z.id. apply read_keys. exact H. Qed.

Fixpoint chain_ok (k cap : nat) (arrs : list (Z * list (Z * A))) : Prop :=
  match arrs with [] => True | (_, sl) :: r => keys_ok k cap sl /\ chain_ok 0 cap r end.

Definition chain_vals (arrs : list (Z * list (Z * A))) : list A := concat (map (fun a => map snd (snd a)) arrs).

Lemma chain_read_ok : forall arrs k cap, chain_ok k cap arrs ->
  concat (chain_read d (Z.of_nat k) (Z.of_nat cap) arrs) = chain_vals arrs.
Proof.
  induction arrs as [|[a sl] r IH]; intros k cap H; cbn in *; [reflexivity|].
  destruct H as [H1 H2]. rewrite read_slots_ok by assumption. unfold chain_vals in *. cbn. f_equal.
  apply (IH 0%nat cap H2).
Qed.

Definition Chain (top : Z) (arrs : list (Z * list (Z * A))) (vals : list A) (cap : nat) : Prop :=
  exists k, top = Z.of_nat k /\ (k <= cap)%nat /\ (arrs = [] -> k = 0%nat) /\ chain_ok k cap arrs /\ chain_vals arrs = vals.

Lemma chain_nil : forall cap, Chain 0 [] [] cap.
Proof. intros cap. exists 0%nat. repeat split; auto; lia. Qed.

Lemma chain_push : forall top arrs vals cap v, Chain top arrs vals cap -> 0 < top ->
  Chain (top - 1) (push_slot (top - 1) v arrs) (v :: vals) cap /\ arrs <> [].
Proof.
  intros top arrs vals cap v (k & -> & Hk & Hn & Hc & Hv) Ht.
  destruct arrs as [|[a sl] r]; [specialize (Hn eq_refl); lia|]. split; [|discriminate].
  exists (k - 1)%nat. cbn in *. destruct Hc as [H1 H2].
  split; [lia|]. split; [lia|]. split; [discriminate|]. split.
  - split; [|assumption]. unfold keys_ok in *. cbn.
    replace (cap - (k - 1))%nat with (S (cap - k)) by lia. cbn.
    replace (Z.of_nat k - 1) with (Z.of_nat (k - 1)) by lia. f_equal.
    replace (S (k - 1)) with k by lia. exact H1.
  - unfold chain_vals in *. cbn in *. rewrite Hv. reflexivity.
Qed.

Lemma chain_new1 : forall top arrs vals cap a v, Chain top arrs vals cap -> top <= 0 -> (1 <= cap)%nat ->
  Chain (Z.of_nat (cap - 1)) ((a, [(Z.of_nat (cap - 1), v)]) :: arrs) (v :: vals) cap.
Proof.
  intros top arrs vals cap a v (k & -> & Hk & Hn & Hc & Hv) Ht Hcap.
  assert (k = 0%nat) by lia. subst k.
  exists (cap - 1)%nat. split; [reflexivity|]. split; [lia|]. split; [discriminate|]. split.
  - cbn. split; [|assumption]. unfold keys_ok. cbn. replace (cap - (cap - 1))%nat with 1%nat by lia. reflexivity.
  - unfold chain_vals in *. cbn. rewrite Hv. reflexivity.
Qed.

Lemma chain_new2 : forall top arrs vals cap a v1 v2, Chain top arrs vals cap -> top <= 0 -> (2 <= cap)%nat ->
  Chain (Z.of_nat (cap - 2)) ((a, [(Z.of_nat (cap - 2), v2); (Z.of_nat (cap - 1), v1)]) :: arrs) (v2 :: v1 :: vals) cap.
Proof.
  intros top arrs vals cap a v1 v2 (k & -> & Hk & Hn & Hc & Hv) Ht Hcap.
  assert (k = 0%nat) by lia. subst k.
  exists (cap - 2)%nat. split; [reflexivity|]. split; [lia|]. split; [discriminate|]. split.
  - cbn. split; [|assumption]. unfold keys_ok. cbn. replace (cap - (cap - 2))%nat with 2%nat by lia.
    change (seq (cap - 2) 2) with [(cap - 2)%nat; S (cap - 2)].
    replace (S (cap - 2)) with (cap - 1)%nat by lia. reflexivity.
  - unfold chain_vals in *. cbn. rewrite Hv. reflexivity.
Qed.

Lemma chain_read_all : forall top arrs vals cap, Chain top arrs vals cap ->
  concat (chain_read d top (Z.of_nat cap) arrs) = vals.
Proof. intros top arrs vals cap (k & -> & Hk & Hn & Hc & Hv). rewrite chain_read_ok by assumption. exact Hv. Qed.

Lemma chain_top_range : forall top arrs vals cap, Chain top arrs vals cap -> 0 <= top <= Z.of_nat cap.
Proof. intros top arrs vals cap (k & -> & Hk & _). lia. Qed.
End Chains.
(* ---------------------------------------------------------------- structure invariant *)
Definition pcap : nat := Z.to_nat PAGE_ARRAY_CAPACITY.
Definition ocap : nat := Z.to_nat release_oversize_end.
Definition dcap : nat := Z.to_nat idx_destroy_end.
Definition up_entry (e : Z * Z * Z * Z) : Z * Z * Z := match e with (_, p, b, a) => (p, b, a) end.

(* the slot indices written by the code are the ones release reads back (closed computations on the
   regenerated constants: an edited index / capacity makes these fail) *)
Lemma side_idx :
  idx_old_tail = Z.of_nat (pcap - 1) /\ idx_new_tail = Z.of_nat (pcap - 1) /\
  idx_extra_page = Z.of_nat (pcap - 1) /\ idx_extra_ptr = Z.of_nat (pcap - 2) /\ (2 <= pcap)%nat /\
  idx_over_first = Z.of_nat (ocap - 1) /\ (1 <= ocap)%nat /\
  idx_destroy_first = Z.of_nat (dcap - 1) /\ (1 <= dcap)%nat.
Proof. repeat split; try reflexivity; apply Nat.leb_le; reflexivity. Qed.

Lemma side_caps : PAGE_ARRAY_CAPACITY = Z.of_nat pcap /\ release_oversize_end = Z.of_nat ocap /\
  idx_destroy_end = Z.of_nat dcap.
Proof. repeat split; reflexivity. Qed.

(* every slot the code can write lies inside its array *)
Lemma side_sizes : 8 + 8 * Z.of_nat pcap <= SIZEOF_PAGE_ARRAY /\ 8 + 24 * Z.of_nat ocap <= SIZEOF_OVERSIZE_ARRAY /\
  8 + 16 * Z.of_nat dcap <= SIZEOF_DESTROY_ARRAY.
Proof. vm_compute. repeat split; discriminate. Qed.

Arguments In : simpl never.
Arguments idx_old_tail : simpl never.
Arguments idx_new_tail : simpl never.
Arguments idx_extra_page : simpl never.
Arguments idx_extra_ptr : simpl never.
Arguments idx_over_first : simpl never.
Arguments idx_destroy_first : simpl never.
Arguments idx_destroy_end : simpl never.
Arguments release_oversize_end : simpl never.
Arguments PAGE_ARRAY_CAPACITY : simpl never.
Arguments SIZEOF_PAGE_ARRAY : simpl never.
Arguments SIZEOF_OVERSIZE_ARRAY : simpl never.
Arguments SIZEOF_DESTROY_ARRAY : simpl never.

Record Str' (s : st) (g : list Z) : Prop := {
  str_p : Chain (ptop s) (parrs s) g pcap;
  str_o : Chain (otop s) (oarrs s) (map up_entry (gups s)) ocap;
  str_d : Chain (dtop s) (darrs s) (gdtors s) dcap;
  str_bp : Forall (fun a => In (a, SIZEOF_PAGE_ARRAY) (books s)) (map fst (parrs s));
  str_bo : Forall (fun a => In (a, SIZEOF_OVERSIZE_ARRAY) (books s)) (map fst (oarrs s));
  str_bd : Forall (fun a => In (a, SIZEOF_DESTROY_ARRAY) (books s)) (map fst (darrs s))
}.
Definition Str (s : st) : Prop := Str' s (gpages s).

Lemma Forall_in_cons : forall {B C} (f : B -> C) (x : C) l (bs : list B),
  Forall (fun a => In (f a) l) bs -> Forall (fun a => In (f a) (x :: l)) bs.
Proof. intros. eapply Forall_impl; [|eassumption]. intros; right; assumption. Qed.

Lemma map_fst_push : forall {A} i (v : A) arrs, map fst (push_slot i v arrs) = map fst arrs.
Proof. intros A i v [|[a sl] r]; reflexivity. Qed.

Section StrP.
Variable P : Z.

Lemma oversize_str : forall s g b a o s' r e, Str' s g -> alloc_oversize s b a o = (s', r, e) ->
  Str' s' g /\ gpages s' = gpages s.
Proof.
  intros s g b a o s' r e [] H. unfold alloc_oversize in H.
  pose proof side_idx as (_ & _ & _ & _ & _ & So1 & So2 & _).
  unfold has_oversize_slot in H. destruct (otop s >? 0) eqn:C.
  - apply Z.gtb_lt in C. injection H as Hs Hr He; subst s'. split; [|reflexivity].
    destruct (chain_push _ _ _ _ (ou o, b, a) str_o0 C) as [Hc Hne].
    constructor; cbn; auto. rewrite map_fst_push. assumption.
  - injection H as Hs Hr He; subst s'. split; [|reflexivity].
    assert (Ht : otop s <= 0) by (destruct (Z.gtb_spec (otop s) 0); [discriminate|lia]).
    constructor; cbn; auto using Forall_in_cons.
    + rewrite So1. eapply chain_new1; eauto.
    + constructor; [left; reflexivity|auto using Forall_in_cons].
Qed.

Lemma new_array_str : forall s g0 b page o s' r e, Str' s g0 -> gpages s = page :: g0 -> ptop s <= 0 ->
  alloc_new_array P s b page o = (s', r, e) -> Str s'.
Proof.
  intros s g0 b page o s' r e [] Hg Ht H. unfold alloc_new_array in H.
  pose proof side_idx as (S1 & S2 & S3 & S4 & S5 & _).
  destruct (old_tail_fits _ _); [|destruct (new_tail_fits _ _)]; injection H as Hs Hr He; subst s';
    (constructor; cbn; auto using Forall_in_cons;
     [rewrite Hg | constructor; [left; reflexivity|auto using Forall_in_cons]]).
  - rewrite S1. eapply chain_new1; eauto; lia.
  - rewrite S2. eapply chain_new1; eauto; lia.
  - rewrite S3, S4. eapply chain_new2; eauto.
Qed.

Lemma new_page_str : forall s b a o s' r e, Str s -> alloc_new_page P s b a o = (s', r, e) -> Str s'.
Proof.
  intros s b a o s' r e HS H. unfold alloc_new_page in H.
  destruct (page_path b a P).
  - cbn in H. unfold has_page_slot in H. destruct (ptop s >? 0) eqn:C.
    + apply Z.gtb_lt in C. injection H as Hs Hr He; subst s'. destruct HS.
      destruct (chain_push _ _ _ _ (o1 o) str_p0 C) as [Hc Hne].
      constructor; cbn; auto. rewrite map_fst_push. assumption.
    + destruct (alloc_new_array P _ b (o1 o) o) as [[s2 r2] e2] eqn:E.
      injection H as Hs Hr He; subst s'.
      assert (Ht : ptop s <= 0) by (destruct (Z.gtb_spec (ptop s) 0); [discriminate|lia]).
      eapply new_array_str; [| | |exact E]; cbn; [|reflexivity|assumption].
      destruct HS. constructor; cbn; auto.
  - destruct (oversize_str _ _ _ _ _ _ _ _ HS H) as [H1 H2]. unfold Str. rewrite H2. exact H1.
Qed.

Lemma core_str : forall s b a o s' r e, Str s -> alloc_core P s b a o = (s', r, e) -> Str s'.
Proof.
  intros s b a o s' r e HS H. unfold alloc_core in H. cbn in H.
  destruct (fast_fits _ _).
  - injection H as Hs Hr He; subst s'. destruct HS. constructor; cbn; auto.
  - eapply new_page_str; [|exact H]. destruct HS. constructor; cbn; auto.
Qed.

(* ---- ghost bookkeeping of allocate: what it obtains is what it reports; destructor fields untouched ---- *)
Definition ev_pages (e : list ev) : list Z := flat_map (fun x => match x with EPageAlloc p => [p] | _ => [] end) e.
Definition ev_ups (e : list ev) : list (Z * Z * Z * Z) :=
  flat_map (fun x => match x with EUpAlloc u p b a => [(u, p, b, a)] | _ => [] end) e.

Definition ghost_rel (s s' : st) (e : list ev) : Prop :=
  gpages s' = rev (ev_pages e) ++ gpages s /\ gups s' = rev (ev_ups e) ++ gups s /\ up s' = up s /\
  (forall u p b a, In (u, p, b, a) (ev_ups e) -> u = up s) /\
  dtop s' = dtop s /\ darrs s' = darrs s /\ gdtors s' = gdtors s.

Ltac ghost_done := unfold ghost_rel; cbn; repeat split; auto;
  intros u p b0 a0 Hin; cbn in Hin; unfold In in Hin; intuition congruence.

Lemma oversize_ghost : forall s b a o s' r e, alloc_oversize s b a o = (s', r, e) -> ghost_rel s s' e.
Proof.
  intros s b a o s' r e H. unfold alloc_oversize in H.
  destruct (has_oversize_slot (otop s)); injection H as Hs Hr He; subst s' e; ghost_done.
Qed.

Lemma new_array_ghost : forall s b page o s' r e, alloc_new_array P s b page o = (s', r, e) -> ghost_rel s s' e.
Proof.
  intros s b page o s' r e H. unfold alloc_new_array in H.
  destruct (old_tail_fits _ _); [|destruct (new_tail_fits _ _)]; injection H as Hs Hr He; subst s' e; ghost_done.
Qed.

Lemma new_page_ghost : forall s b a o s' r e, alloc_new_page P s b a o = (s', r, e) -> ghost_rel s s' e.
Proof.
  intros s b a o s' r e H. unfold alloc_new_page in H.
  destruct (page_path b a P); [|eapply oversize_ghost; eauto].
  cbn in H. destruct (has_page_slot (ptop s)).
  - injection H as Hs Hr He; subst s' e; ghost_done.
  - destruct (alloc_new_array P _ b (o1 o) o) as [[s2 r2] e2] eqn:E.
    injection H as Hs Hr He; subst s' e. apply new_array_ghost in E.
    destruct E as (E1 & E2 & E3 & E4 & E5 & E6 & E7). cbn in *.
    unfold ghost_rel. cbn. rewrite E1, E2. rewrite <- app_assoc. repeat split; auto.
Qed.

Lemma core_ghost_rel : forall s b a o s' r e, alloc_core P s b a o = (s', r, e) -> ghost_rel s s' e.
Proof.
  intros s b a o s' r e H. unfold alloc_core in H. cbn in H.
  destruct (fast_fits _ _).
  - injection H as Hs Hr He; subst s' e; ghost_done.
  - apply new_page_ghost in H. exact H.
Qed.

Lemma core_frame_d : forall s b a o s' r e, alloc_core P s b a o = (s', r, e) ->
  dtop s' = dtop s /\ darrs s' = darrs s /\ gdtors s' = gdtors s.
Proof. intros s b a o s' r e H. apply core_ghost_rel in H. destruct H as (_ & _ & _ & _ & H). exact H. Qed.

Lemma str_init : Str init.
Proof. constructor; cbn; auto; apply chain_nil. Qed.

Lemma step_str : forall s o s' r e, Str s -> step P s o = (s', r, e) -> Str s'.
Proof.
  intros s o s' r e HS H. destruct o as [b a orc|ptr fn orc|ptr| | |]; cbn in H.
  - unfold do_alloc in H. destruct (alloc_core P s b a orc) as [[s1 r1] e1] eqn:E.
    injection H as Hs Hr He; subst s'. apply core_str in E; [|assumption]. destruct E. constructor; cbn; auto.
  - unfold do_reg in H. pose proof side_idx as (_ & _ & _ & _ & _ & _ & _ & Sd1 & Sd2).
    unfold has_destroy_slot in H. destruct (dtop s =? 0) eqn:C; cbn in H.
    + apply Z.eqb_eq in C.
      destruct (alloc_core P s SIZEOF_DESTROY_ARRAY ALIGNOF_DESTROY_ARRAY orc) as [[s1 r1] e1] eqn:E.
      injection H as Hs Hr He; subst s'.
      destruct (core_frame_d _ _ _ _ _ _ _ E) as (D1 & D2 & D3).
      apply core_str in E; [|assumption].
      destruct E. constructor; cbn; auto using Forall_in_cons.
      * rewrite Sd1. eapply chain_new1; eauto. rewrite D1, C. lia.
      * constructor; [left; reflexivity|auto using Forall_in_cons].
    + apply Z.eqb_neq in C. injection H as Hs Hr He; subst s'. destruct HS.
      pose proof (chain_top_range _ _ _ _ str_d0).
      destruct (chain_push _ _ _ _ (ptr, fn) str_d0 ltac:(lia)) as [Hc Hne].
      constructor; cbn; auto. rewrite map_fst_push. assumption.
  - injection H as Hs Hr He; subst s'. exact HS.
  - unfold do_release in H. destruct (match parrs s with [] => _ | _ => _ end) as [b0 e0].
    injection H as Hs Hr He; subst s'. constructor; cbn; auto; apply chain_nil.
  - injection H as Hs Hr He; subst s'. exact HS.
  - injection H as Hs Hr He; subst s'. destruct HS. constructor; cbn; auto.
Qed.
End StrP.
(* ---------------------------------------------------------------- main theorems *)
Section Main.
Variable P : Z.
Hypothesis Pok : exists k, 7 <= k <= 32 /\ P = 2 ^ k.

Lemma reach_str : forall s, reach P s -> Str s.
Proof.
  induction 1 as [|s o R IH Hok]; [apply str_init|].
  destruct (step P s o) as [[s' r] e] eqn:E. cbn. eapply step_str; eauto.
Qed.

Lemma PW_app_disj : forall l1 l2 x y, PW (l1 ++ l2) -> In x l1 -> In y l2 -> disj x y.
Proof.
  induction l1 as [|z l1 IH]; cbn; intros l2 x y H Hx Hy; [contradiction|].
  destruct H as [H1 H2]. destruct Hx as [->|Hx].
  - rewrite Forall_forall in H1. apply H1. apply in_or_app. right. assumption.
  - eapply IH; eauto.
Qed.

(* C06, first sentence: the block returned by allocate *)
Theorem mr_block_ok : forall s b a o s' r e,
  reach P s -> 0 <= b < 2 ^ 61 -> pow2 a -> oracle_ok P s b a o ->
  step P s (Alloc b a o) = (s', r, e) ->
  r mod a = 0 /\ owned (regions P s') (r, b) /\
  Forall (disj (r, b)) (blocks s) /\ Forall (disj (r, b)) (books s') /\
  blocks s' = (r, b) :: blocks s.
Proof.
  intros s b a o s' r e R Hb Ha Ho H. cbn in H.
  destruct (alloc_geo P Pok _ _ _ _ _ _ _ (reach_geo P Pok _ R) Hb Ha Ho H) as (G & Hal & Hbl).
  destruct G as [GL _ _ _]. destruct GL as [_ _ Hpw Hin _ _]. unfold items in *. rewrite Hbl in *.
  cbn in Hpw, Hin. destruct Hpw as [Hd _]. apply Forall_app in Hd. destruct Hd as [Hd1 Hd2].
  inversion Hin; subst. repeat split; assumption.
Qed.

(* ... and at every reachable state all live blocks and all bookkeeping arrays are pairwise disjoint and
   lie in pages / oversize blocks obtained and not yet returned *)
Theorem mr_live_disjoint : forall s, reach P s ->
  PW (blocks s ++ books s) /\ Forall (owned (regions P s)) (blocks s ++ books s) /\
  PW (regions P s) /\ (forall x y, In x (blocks s) -> In y (books s) -> disj x y).
Proof.
  intros s R. destruct (reach_geo P Pok _ R) as [GL _ _ _]. destruct GL as [H1 _ H2 H3 _ _].
  unfold items in *. repeat split; auto. intros x y Hx Hy. eapply PW_app_disj; eauto.
Qed.

(* ---- the ghost lists are exactly the allocator / upstream / registration events of the trace ---- *)
Lemma core_ghost : forall s b a o s' r e, alloc_core P s b a o = (s', r, e) ->
  gpages s' = rev (ev_pages e) ++ gpages s /\ gups s' = rev (ev_ups e) ++ gups s /\ up s' = up s /\
  (forall u p b0 a0, In (u, p, b0, a0) (ev_ups e) -> u = up s).
Proof.
  intros s b a o s' r e H. apply core_ghost_rel in H. destruct H as (H1 & H2 & H3 & H4 & _). auto.
Qed.

Theorem mr_ghost_is_trace : forall s o s' r e, step P s o = (s', r, e) -> o <> Release ->
  gpages s' = rev (ev_pages e) ++ gpages s /\ gups s' = rev (ev_ups e) ++ gups s /\
  gdtors s' = match o with Reg ptr fn _ => (ptr, fn) :: gdtors s | _ => gdtors s end.
Proof.
  intros s o s' r e H Hn. destruct o as [b a orc|ptr fn orc|ptr| | |]; cbn in H; try congruence.
  - unfold do_alloc in H. destruct (alloc_core P s b a orc) as [[s1 r1] e1] eqn:E.
    injection H as Hs Hr He; subst s' e. destruct (core_ghost _ _ _ _ _ _ _ E) as (H1 & H2 & _).
    destruct (core_frame_d _ _ _ _ _ _ _ _ E) as (_ & _ & D3). cbn. auto.
  - unfold do_reg in H. destruct (has_destroy_slot (dtop s)).
    + injection H as Hs Hr He; subst s' e. cbn. auto.
    + destruct (alloc_core P s _ _ orc) as [[s1 r1] e1] eqn:E.
      injection H as Hs Hr He; subst s' e. destruct (core_ghost _ _ _ _ _ _ _ E) as (H1 & H2 & _).
      destruct (core_frame_d _ _ _ _ _ _ _ _ E) as (_ & _ & D3). cbn.
      unfold ev_pages, ev_ups in *. rewrite !flat_map_app. cbn. rewrite !app_nil_r, D3. auto.
  - injection H as Hs Hr He; subst s' e. cbn. auto.
  - injection H as Hs Hr He; subst s' e. cbn. auto.
  - injection H as Hs Hr He; subst s' e. cbn. auto.
Qed.

(* ---- release ---- *)
Definition reset (s : st) : st :=
  {| fb := 0; fe := 0; used := 0; allocd := 0; ptop := 0; parrs := []; otop := 0; oarrs := [];
     dtop := 0; darrs := []; up := up s; blocks := []; books := []; gpages := []; gups := []; gdtors := [] |}.

Lemma release_parts : forall s, reach P s ->
  dtor_events s = map (fun t => EDtor (fst t) (snd t)) (gdtors s) /\
  upfree_events s = map (fun e => match e with (p, b, a) => EUpFree (up s) p b a end) (map up_entry (gups s)) /\
  concat (page_batches s) = gpages s /\
  (match parrs s with [] => (fb s, fe s) | _ :: _ => (0, 0) end) = (0, 0).
Proof.
  intros s R. pose proof (reach_str _ R) as [Hp Ho Hd _ _ _]. pose proof (reach_geo P Pok _ R) as [_ _ _ HK].
  pose proof side_caps as (C1 & C2 & C3).
  split; [|split; [|split]].
  - unfold dtor_events. rewrite C3. rewrite (chain_read_all _ _ _ _ _ Hd). reflexivity.
  - unfold upfree_events. rewrite C2. rewrite (chain_read_all _ _ _ _ _ Ho). reflexivity.
  - unfold page_batches. destruct Hp as (k & Hk & Hle & Hn & Hc & Hv).
    destruct (parrs s) as [|[a0 sl] rest] eqn:E.
    + cbn in Hv. cbn. auto.
    + cbn in Hc. destruct Hc as [Hc1 Hc2]. unfold release_batch_size. rewrite C1. rewrite Hk.
      replace (Z.of_nat k + (0 + Z.of_nat pcap - Z.of_nat k)) with (Z.of_nat pcap) by lia.
      replace (0 + Z.of_nat pcap - 0) with (Z.of_nat pcap) by lia.
      cbn [concat]. rewrite (read_slots_ok wild _ _ _ Hc1).
      change 0 with (Z.of_nat 0). rewrite (chain_read_ok wild _ _ _ Hc2).
      rewrite <- Hv. unfold chain_vals. cbn. reflexivity.
  - destruct (parrs s) eqn:E; [|reflexivity]. destruct (HK eq_refl) as (-> & -> & _). reflexivity.
Qed.

Theorem mr_release_exact : forall s, reach P s ->
  exists batches,
    step P s Release =
      (reset s, 0,
       map (fun t => EDtor (fst t) (snd t)) (gdtors s) ++ map EPageFree batches ++
       map (fun e => match e with (p, b, a) => EUpFree (up s) p b a end) (map up_entry (gups s))) /\
    concat batches = gpages s.
Proof.
  intros s R. destruct (release_parts s R) as (H1 & H2 & H3 & H4).
  exists (page_batches s). split; [|exact H3].
  cbn. unfold do_release. rewrite H4, H1, H2. reflexivity.
Qed.

(* every oversize block is returned to the upstream it was obtained from - all histories, move included
   (move construction carries _upstream over: Gen.move_swaps_upstream) *)
Lemma reach_tag : forall s, reach P s -> up s = 1 /\ Forall (fun e => fst (fst (fst e)) = 1) (gups s).
Proof.
  induction 1 as [|s o R [IH1 IH2] Hok]; [cbn; auto|].
  destruct (step P s o) as [[s' r] e] eqn:E. cbn.
  destruct o as [b a orc|ptr fn orc|ptr| | |]; cbn in E.
  - unfold do_alloc in E. destruct (alloc_core P s b a orc) as [[s1 r1] e1] eqn:E1.
    injection E as Hs Hr He; subst s'. destruct (core_ghost _ _ _ _ _ _ _ E1) as (_ & H2 & H3 & H4). cbn.
    rewrite H3, H2. split; [assumption|]. apply Forall_app. split; [|assumption].
    apply Forall_forall. intros [[[u p] b0] a0] Hin. apply in_rev in Hin. cbn. rewrite (H4 _ _ _ _ Hin). assumption.
  - unfold do_reg in E. destruct (has_destroy_slot (dtop s)).
    + injection E as Hs Hr He; subst s'. cbn. auto.
    + destruct (alloc_core P s _ _ orc) as [[s1 r1] e1] eqn:E1.
      injection E as Hs Hr He; subst s'. destruct (core_ghost _ _ _ _ _ _ _ E1) as (_ & H2 & H3 & H4). cbn.
      rewrite H3, H2. split; [assumption|]. apply Forall_app. split; [|assumption].
      apply Forall_forall. intros [[[u p] b0] a0] Hin. apply in_rev in Hin. cbn. rewrite (H4 _ _ _ _ Hin). assumption.
  - injection E as Hs Hr He; subst s'. auto.
  - unfold do_release in E. destruct (match parrs s with [] => _ | _ => _ end).
    injection E as Hs Hr He; subst s'. cbn. auto.
  - injection E as Hs Hr He; subst s'. auto.
  - injection E as Hs Hr He; subst s'. cbn. auto.
Qed.

Theorem mr_release_right_upstream : forall s, reach P s ->
  Forall (fun e => fst (fst (fst e)) = up s) (gups s).
Proof.
  intros s R. destruct (reach_tag _ R) as [H1 H2]. rewrite H1. exact H2.
Qed.
End Main.

(* ---------------------------------------------------------------- stores of the resource *)
Definition write_ok (bks : list iv) (x : ev) : Prop :=
  match x with EWrite a l => 0 < l /\ exists bk, In bk bks /\ inside (a, l) bk | _ => True end.

Lemma write_ok_mono : forall bks bk e, Forall (write_ok bks) e -> Forall (write_ok (bk :: bks)) e.
Proof.
  intros bks bk e H. eapply Forall_impl; [|exact H]. intros [] Hx; cbn in *; auto.
  destruct Hx as (Hl & q & Hq & Hi). split; [assumption|]. exists q. split; [right; assumption|assumption].
Qed.

Lemma head_in_books : forall {A} (arrs : list (Z * A)) (sz : Z) (bks : list iv),
  Forall (fun a => In (a, sz) bks) (map fst arrs) -> arrs <> [] -> In (head_addr arrs, sz) bks.
Proof. intros A [|[a x] r] sz bks H Hn; [congruence|]. cbn in *. inversion H; assumption. Qed.

Section Writes.
Variable P : Z.

Lemma oversize_writes : forall s g b a o s' r e, Str' s g -> alloc_oversize s b a o = (s', r, e) ->
  Forall (write_ok (books s')) e.
Proof.
  intros s g b a o s' r e HS H. pose proof HS as [_ Ho _ _ Hbo _].
  pose proof side_idx as (_ & _ & _ & _ & _ & So1 & So2 & _). pose proof side_sizes as (_ & Sz & _).
  unfold alloc_oversize in H. unfold has_oversize_slot in H. destruct (otop s >? 0) eqn:C.
  - apply Z.gtb_lt in C. injection H as Hs Hr He; subst s' e. cbn.
    destruct (chain_push _ _ _ _ (ou o, b, a) Ho C) as [_ Hne].
    pose proof (chain_top_range _ _ _ _ Ho).
    constructor; [exact I|]. constructor; [|constructor]. cbn. split; [lia|].
    exists (head_addr (oarrs s), SIZEOF_OVERSIZE_ARRAY). split; [apply head_in_books; assumption|].
    unfold inside, oslot; cbn [fst snd]. lia.
  - injection H as Hs Hr He; subst s' e. cbn.
    repeat first [apply Forall_nil | apply Forall_cons]; cbn; try exact I; (split; [lia|]);
      eexists; (split; [left; reflexivity|]); unfold inside, oslot; cbn [fst snd]; rewrite ?So1; lia.
Qed.

Lemma new_array_writes : forall s b page o s' r e, alloc_new_array P s b page o = (s', r, e) ->
  Forall (write_ok (books s')) e.
Proof.
  intros s b page o s' r e H. unfold alloc_new_array in H.
  pose proof side_idx as (S1 & S2 & S3 & S4 & S5 & _). pose proof side_sizes as (Sz & _).
  destruct (old_tail_fits _ _); [|destruct (new_tail_fits _ _)]; injection H as Hs Hr He; subst s' e; cbn;
    repeat first [apply Forall_nil | apply Forall_cons]; cbn; try exact I; (split; [lia|]);
    eexists; (split; [left; reflexivity|]); unfold inside, pslot; cbn [fst snd]; rewrite ?S1, ?S2, ?S3, ?S4; lia.
Qed.

Lemma new_page_writes : forall s b a o s' r e, Str s -> alloc_new_page P s b a o = (s', r, e) ->
  Forall (write_ok (books s')) e.
Proof.
  intros s b a o s' r e HS H. unfold alloc_new_page in H.
  destruct (page_path b a P).
  - cbn in H. unfold has_page_slot in H. destruct (ptop s >? 0) eqn:C.
    + apply Z.gtb_lt in C. injection H as Hs Hr He; subst s' e. destruct HS as [Hp _ _ Hbp _ _].
      destruct (chain_push _ _ _ _ (o1 o) Hp C) as [_ Hne]. pose proof (chain_top_range _ _ _ _ Hp).
      pose proof side_sizes as (Sz & _). cbn.
      constructor; [exact I|]. constructor; [|constructor]. cbn. split; [lia|].
      exists (head_addr (parrs s), SIZEOF_PAGE_ARRAY). split; [apply head_in_books; assumption|].
      unfold inside, pslot; cbn [fst snd]. lia.
    + destruct (alloc_new_array P _ b (o1 o) o) as [[s2 r2] e2] eqn:E.
      injection H as Hs Hr He; subst s' e. constructor; [exact I|]. eapply new_array_writes; eauto.
  - eapply oversize_writes; eauto.
Qed.

Lemma core_writes : forall s b a o s' r e, Str s -> alloc_core P s b a o = (s', r, e) ->
  Forall (write_ok (books s')) e.
Proof.
  intros s b a o s' r e HS H. unfold alloc_core in H. cbn in H.
  destruct (fast_fits _ _).
  - injection H as Hs Hr He; subst s' e. constructor.
  - eapply new_page_writes; [|exact H]. destruct HS. constructor; cbn; auto.
Qed.

Lemma step_writes : forall s o s' r e, Str s -> step P s o = (s', r, e) -> Forall (write_ok (books s')) e.
Proof.
  intros s o s' r e HS H. destruct o as [b a orc|ptr fn orc|ptr| | |]; cbn in H.
  - unfold do_alloc in H. destruct (alloc_core P s b a orc) as [[s1 r1] e1] eqn:E.
    injection H as Hs Hr He; subst s' e. cbn. eapply core_writes; eauto.
  - unfold do_reg in H. pose proof side_idx as (_ & _ & _ & _ & _ & _ & _ & Sd1 & Sd2).
    pose proof side_sizes as (_ & _ & Sz).
    unfold has_destroy_slot in H. destruct (dtop s =? 0) eqn:C; cbn in H.
    + destruct (alloc_core P s SIZEOF_DESTROY_ARRAY ALIGNOF_DESTROY_ARRAY orc) as [[s1 r1] e1] eqn:E.
      injection H as Hs Hr He; subst s' e. cbn. apply Forall_app. split.
      * apply write_ok_mono. eapply core_writes; eauto.
      * repeat first [apply Forall_nil | apply Forall_cons]; cbn; try exact I; (split; [lia|]);
          eexists; (split; [left; reflexivity|]); unfold inside, dslot; cbn [fst snd]; rewrite ?Sd1; lia.
    + apply Z.eqb_neq in C. injection H as Hs Hr He; subst s' e. destruct HS as [_ _ Hd _ _ Hbd].
      pose proof (chain_top_range _ _ _ _ Hd).
      destruct (chain_push _ _ _ _ (ptr, fn) Hd ltac:(lia)) as [_ Hne]. cbn.
      constructor; [|constructor]. cbn. split; [lia|].
      exists (head_addr (darrs s), SIZEOF_DESTROY_ARRAY). split; [apply head_in_books; assumption|].
      unfold inside, dslot; cbn [fst snd]. lia.
  - injection H as Hs Hr He; subst s' e. constructor.
  - unfold do_release in H. destruct (match parrs s with [] => _ | _ => _ end).
    injection H as Hs Hr He; subst s' e. cbn.
    apply Forall_app. split; [|apply Forall_app; split]; apply Forall_forall; intros x Hx; apply in_map_iff in Hx;
      destruct Hx as (y & <- & _); try exact I. destruct y as [[? ?] ?]. exact I.
  - injection H as Hs Hr He; subst s' e. constructor.
  - injection H as Hs Hr He; subst s' e. constructor.
Qed.
End Writes.

(* no store of the resource lands in a live block *)
Theorem mr_contents_stable : forall P, (exists k, 7 <= k <= 32 /\ P = 2 ^ k) ->
  forall s o s' r e addr len, reach P s -> op_ok P s o -> step P s o = (s', r, e) ->
  In (EWrite addr len) e -> Forall (disj (addr, len)) (blocks s').
Proof.
  intros P Pok s o s' r e addr len R Hok H Hin.
  pose proof (step_writes P _ _ _ _ _ (reach_str P _ R) H) as W.
  rewrite Forall_forall in W. specialize (W _ Hin). cbn in W. destruct W as (Hl & bk & Hbk & Hi).
  assert (R' : reach P s') by (replace s' with (fst (fst (step P s o))) by (rewrite H; reflexivity); constructor; assumption).
  destruct (mr_live_disjoint P Pok _ R') as (_ & _ & _ & Hd).
  apply Forall_forall. intros x Hx. apply disj_sym. eapply disj_inside_l; [exact Hi|]. apply Hd; assumption.
Qed.

(* ---------------------------------------------------------------- histories as data (non-vacuity witnesses) *)
Fixpoint ops_ok (P : Z) (s : st) (ops : list op) : Prop :=
  match ops with [] => True | o :: r => op_ok P s o /\ ops_ok P (fst (fst (step P s o))) r end.

Lemma ops_ok_reach : forall P ops s, reach P s -> ops_ok P s ops -> reach P (fst (run P s ops)).
Proof.
  induction ops as [|o r IH]; intros s R H; cbn in *; [assumption|].
  destruct H as [H1 H2]. pose proof (reach_step P s o R H1) as R'.
  destruct (step P s o) as [[s1 res] e] eqn:E. cbn in *. specialize (IH s1 R' H2).
  destruct (run P s1 r) as [s2 outs]. exact IH.
Qed.

Definition witness_oracle : oracle := {| o1 := 4096; o2 := 8192; ou := 16384 |}.

Lemma witness_oracle_ok : forall b a, pow2 a -> a <= 16384 -> 0 <= b < 2 ^ 40 -> oracle_ok 128 init b a witness_oracle.
Proof.
  intros b a Ha Hle Hb. pose proof (pow2_pos a Ha).
  assert (F : forall r, reg_ok r -> fresh (regions 128 init) r) by (intros; split; [assumption|constructor]).
  assert (Hm : 16384 mod Z.max a 8 = 0).
  { destruct (pow2_max8 a Ha) as ((k & Hk & Hk') & _ & _). rewrite Hk'.
    assert (Z.max a 8 <= 16384) by lia. rewrite Hk' in H0.
    assert (k <= 14). { apply (Z.pow_le_mono_r_iff 2); try lia. }
    change 16384 with (2 ^ 14). replace 14 with (k + (14 - k)) by lia. rewrite Z.pow_add_r by lia.
    rewrite Z.mul_comm. apply Z.mod_mul. assert (0 < 2 ^ k) by (apply Z.pow_pos_nonneg; lia). lia. }
  assert (Hu : up_request init b a = (over_first_request (over_round b (over_align a)), over_align a)) by reflexivity.
  unfold oracle_ok. rewrite Hu. cbn [o1 o2 ou witness_oracle fst snd].
  split; [apply F; unfold reg_ok; cbn; lia|]. split; [reflexivity|].
  split; [apply F; unfold reg_ok; cbn; lia|]. split; [reflexivity|].
  split; [unfold disj; cbn; lia|]. split; [|exact Hm].
  apply F. unfold reg_ok, over_first_request; cbn [fst snd]. rewrite over_round_rup.
  destruct (pow2_max8 a Ha) as (Hp & _ & _). pose proof (pow2_pos _ Hp).
  pose proof (rup_bounds b (over_align a) Hp ltac:(lia)). unfold over_align in *. lia.
Qed.

(* after release the resource is in its initial state again (accounting zero, nothing held): every theorem
   above applies to the following operations *)
Theorem mr_release_init : forall P, (exists k, 7 <= k <= 32 /\ P = 2 ^ k) ->
  forall s, reach P s -> fst (fst (step P s Release)) = init.
Proof.
  intros P Pok s R. destruct (mr_release_exact P Pok s R) as (bt & H1 & _).
  rewrite H1. cbn. unfold reset. destruct (reach_tag P s R) as [-> _]. reflexivity.
Qed.

Lemma witness_reach : exists s, reach 128 s /\ length (blocks s) = 1%nat /\ length (gups s) = 1%nat /\ up s = 1.
Proof.
  exists (fst (run 128 init [Alloc 129 8 witness_oracle; MoveCtor])). split.
  - apply ops_ok_reach; [constructor|]. cbn. split; [|auto]. split; [lia|]. split; [apply pow2_8|].
    apply witness_oracle_ok; [apply pow2_8|lia|lia].
  - vm_compute. auto.
Qed.

(* ---------------------------------------------------------------- shared variant: one exclusive resource per thread *)
Section Shared.
Variable P : Z.
Hypothesis Pok : exists k, 7 <= k <= 32 /\ P = 2 ^ k.

(* every page / upstream block an allocation obtains is one of the oracle's answers *)
Definition ev_src (s : st) (b a : Z) (o : oracle) (e : list ev) : Prop :=
  (forall p, In p (ev_pages e) -> p = o1 o \/ p = o2 o) /\
  (forall u p b0 a0, In (u, p, b0, a0) (ev_ups e) -> p = ou o /\ b0 = fst (up_request s b a)).

Ltac src_done := unfold ev_src; cbn; split;
  [intros p Hin; cbn in Hin; unfold In in Hin; intuition congruence
  |intros u p b0 a0 Hin; cbn in Hin; unfold In in Hin; intuition congruence].

Lemma oversize_src : forall s b a o s' r e, alloc_oversize s b a o = (s', r, e) -> ev_src s b a o e.
Proof.
  intros s b a o s' r e H. unfold alloc_oversize in H. unfold ev_src, up_request.
  destruct (has_oversize_slot (otop s)); injection H as Hs Hr He; subst s' e; src_done.
Qed.

Lemma new_array_src : forall s sx bx ax b page o s' r e, alloc_new_array P s b page o = (s', r, e) ->
  ev_src sx bx ax o e.
Proof.
  intros s sx bx ax b page o s' r e H. unfold alloc_new_array in H.
  destruct (old_tail_fits _ _); [|destruct (new_tail_fits _ _)]; injection H as Hs Hr He; subst s' e; src_done.
Qed.

Lemma new_page_src : forall s b a o s' r e, alloc_new_page P s b a o = (s', r, e) -> ev_src s b a o e.
Proof.
  intros s b a o s' r e H. unfold alloc_new_page in H.
  destruct (page_path b a P); [|eapply oversize_src; eauto].
  cbn in H. destruct (has_page_slot (ptop s)).
  - injection H as Hs Hr He; subst s' e; src_done.
  - destruct (alloc_new_array P _ b (o1 o) o) as [[s2 r2] e2] eqn:E.
    injection H as Hs Hr He; subst s' e. apply (new_array_src _ s b a) in E. destruct E as [E1 E2].
    split; [|exact E2]. intros p [Hp|Hp]; [left; congruence|apply E1; exact Hp].
Qed.

Lemma core_src : forall s b a o s' r e, alloc_core P s b a o = (s', r, e) -> ev_src s b a o e.
Proof.
  intros s b a o s' r e H. unfold alloc_core in H. cbn in H.
  destruct (fast_fits _ _).
  - injection H as Hs Hr He; subst s' e; src_done.
  - apply new_page_src in H. exact H.
Qed.

Definition op_regions (s : st) (o : op) : list iv :=
  match o with
  | Alloc b a orc => [(o1 orc, P); (o2 orc, P); (ou orc, fst (up_request s b a))]
  | Reg _ _ orc => [(o1 orc, P); (o2 orc, P); (ou orc, fst (up_request s SIZEOF_DESTROY_ARRAY ALIGNOF_DESTROY_ARRAY))]
  | _ => []
  end.

Lemma core_regions : forall s b a o s' r e, alloc_core P s b a o = (s', r, e) ->
  incl (regions P s') (regions P s ++ [(o1 o, P); (o2 o, P); (ou o, fst (up_request s b a))]).
Proof.
  intros s b a o s' r e H. destruct (core_src _ _ _ _ _ _ _ H) as [S1 S2].
  destruct (core_ghost P _ _ _ _ _ _ _ H) as (G1 & G2 & _).
  intros rg Hin. unfold regions in *. rewrite G1, G2 in Hin. rewrite !map_app in Hin.
  apply in_app_iff. rewrite !in_app_iff in Hin. rewrite !in_app_iff.
  destruct Hin as [[Hin|Hin]|[Hin|Hin]]; auto.
  - right. apply in_map_iff in Hin. destruct Hin as (p & <- & Hp). apply in_rev in Hp.
    destruct (S1 p Hp) as [->| ->]; unfold page_iv, In; auto.
  - right. apply in_map_iff in Hin. destruct Hin as ([[[u p] b0] a0] & <- & Hp). apply in_rev in Hp.
    destruct (S2 _ _ _ _ Hp) as [-> ->]. unfold up_iv, In; auto.
Qed.

Lemma step_regions : forall s o s' r e, step P s o = (s', r, e) ->
  incl (regions P s') (regions P s ++ op_regions s o).
Proof.
  intros s o s' r e H. destruct o as [b a orc|ptr fn orc|ptr| | |]; cbn in H.
  - unfold do_alloc in H. destruct (alloc_core P s b a orc) as [[s1 r1] e1] eqn:E.
    injection H as Hs Hr He; subst s'. apply core_regions in E. exact E.
  - unfold do_reg in H. destruct (has_destroy_slot (dtop s)).
    + injection H as Hs Hr He; subst s'. intros rg Hin. apply in_app_iff. left. exact Hin.
    + destruct (alloc_core P s _ _ orc) as [[s1 r1] e1] eqn:E.
      injection H as Hs Hr He; subst s'. apply core_regions in E. exact E.
  - injection H as Hs Hr He; subst s'. intros rg Hin. apply in_app_iff. left. exact Hin.
  - unfold do_release in H. destruct (match parrs s with [] => _ | _ => _ end).
    injection H as Hs Hr He; subst s'. intros rg [].
  - injection H as Hs Hr He; subst s'. intros rg Hin. apply in_app_iff. left. exact Hin.
  - injection H as Hs Hr He; subst s'. intros rg Hin. apply in_app_iff. left. exact Hin.
Qed.

(* the shared resource: thread t owns the t-th exclusive resource; threads appear at any time *)
Fixpoint upd {A} (t : nat) (x : A) (l : list A) : list A :=
  match l, t with
  | [], _ => []
  | _ :: r, O => x :: r
  | y :: r, S t' => y :: upd t' x r
  end.

Lemma nth_upd : forall {A} (l : list A) t u x y, nth_error (upd t x l) u = Some y ->
  (u = t /\ y = x) \/ (u <> t /\ nth_error l u = Some y).
Proof.
  induction l as [|z l IH]; intros t u x y H; destruct t, u; cbn in *; try discriminate; auto.
  - injection H as ->. auto.
  - destruct (IH _ _ _ _ H) as [[-> ->]|[Hn Hy]]; auto.
Qed.

Inductive sreach : list st -> Prop :=
| sreach_nil : sreach []
| sreach_spawn : forall S, sreach S -> sreach (S ++ [init])
| sreach_step : forall S t s o, sreach S -> nth_error S t = Some s -> op_ok P s o ->
    (* the allocators are shared: their answers are fresh for every thread's resource *)
    (forall u su, u <> t -> nth_error S u = Some su ->
       Forall (fun rg => Forall (disj rg) (regions P su)) (op_regions s o)) ->
    sreach (upd t (fst (fst (step P s o))) S).

Definition cross (S : list st) : Prop :=
  forall t u st su, t <> u -> nth_error S t = Some st -> nth_error S u = Some su ->
  forall r r', In r (regions P st) -> In r' (regions P su) -> disj r r'.

Lemma sreach_inv : forall S, sreach S -> (forall t s, nth_error S t = Some s -> reach P s) /\ cross S.
Proof.
  induction 1 as [|S R [IH1 IH2]|S t s o R [IH1 IH2] Ht Hok Hfr].
  - split; [intros [|t] s H; discriminate|intros [|t] u st su _ H; discriminate].
  - assert (N : forall t s, nth_error (S ++ [init]) t = Some s -> nth_error S t = Some s \/ s = init).
    { intros t s H. destruct (Nat.lt_ge_cases t (length S)).
      - left. rewrite nth_error_app1 in H by assumption. exact H.
      - right. rewrite nth_error_app2 in H by assumption. destruct (t - length S)%nat as [|[|k]]; cbn in H; congruence. }
    split.
    + intros t s H. destruct (N _ _ H) as [H'| ->]; [exact (IH1 _ _ H')|constructor].
    + intros t u st su Hn H1 H2 r r' Hr Hr'.
      destruct (N _ _ H1) as [H1'| ->]; [|destruct Hr].
      destruct (N _ _ H2) as [H2'| ->]; [|destruct Hr'].
      exact (IH2 _ _ _ _ Hn H1' H2' _ _ Hr Hr').
  - destruct (step P s o) as [[s' res] e] eqn:E. cbn. pose proof (step_regions _ _ _ _ _ E) as Hincl. split.
    + intros u x H. destruct (nth_upd _ _ _ _ _ H) as [[-> ->]|[Hn Hx]]; [|exact (IH1 _ _ Hx)].
      replace s' with (fst (fst (step P s o))) by (rewrite E; reflexivity).
      apply reach_step; [exact (IH1 _ _ Ht)|exact Hok].
    + assert (New : forall u su r r', u <> t -> nth_error S u = Some su -> In r (regions P s') -> In r' (regions P su) -> disj r r').
      { intros u su r r' Hn Hu Hr Hr'. apply Hincl in Hr. apply in_app_iff in Hr. destruct Hr as [Hr|Hr].
        - exact (IH2 t u s su (fun h => Hn (eq_sym h)) Ht Hu r r' Hr Hr').
        - specialize (Hfr u su Hn Hu). rewrite Forall_forall in Hfr. specialize (Hfr r Hr).
          rewrite Forall_forall in Hfr. apply Hfr. exact Hr'. }
      intros a u sa su Hn Ha Hu r r' Hr Hr'.
      destruct (nth_upd _ _ _ _ _ Ha) as [[-> ->]|[Hna Ha']]; destruct (nth_upd _ _ _ _ _ Hu) as [[-> ->]|[Hnu Hu']].
      * congruence.
      * exact (New u su r r' Hnu Hu' Hr Hr').
      * apply disj_sym. exact (New a sa r' r Hna Ha' Hr' Hr).
      * exact (IH2 _ _ _ _ Hn Ha' Hu' _ _ Hr Hr').
Qed.

(* blocks (and bookkeeping) handed out to different threads never overlap *)
Theorem mr_shared_disjoint : forall S, sreach S -> forall t u st su, t <> u ->
  nth_error S t = Some st -> nth_error S u = Some su ->
  forall x y, In x (blocks st ++ books st) -> In y (blocks su ++ books su) -> disj x y.
Proof.
  intros S R t u st su Hn Ht Hu x y Hx Hy. destruct (sreach_inv S R) as [I1 I2].
  destruct (mr_live_disjoint P Pok st (I1 _ _ Ht)) as (_ & Ox & _ & _).
  destruct (mr_live_disjoint P Pok su (I1 _ _ Hu)) as (_ & Oy & _ & _).
  rewrite Forall_forall in Ox, Oy. specialize (Ox x Hx). specialize (Oy y Hy).
  destruct Ox as [Zx|(r & Hr & Ix)]; [unfold disj; lia|].
  destruct Oy as [Zy|(r' & Hr' & Iy)]; [unfold disj; lia|].
  exact (inside_disj _ _ _ _ Ix Iy (I2 _ _ _ _ Hn Ht Hu _ _ Hr Hr')).
Qed.
(* ---- SharedMonotonicBufferResource::release: destruct_all of every resource, then release of every resource ---- *)
Definition dtor_ev (t : Z * Z) : ev := EDtor (fst t) (snd t).
Definition free_evs (s : st) : list ev :=
  map EPageFree (page_batches s) ++
  map (fun e => match e with (p, b, a) => EUpFree (up s) p b a end) (map up_entry (gups s)).
Definition is_dtor (e : ev) : Prop := match e with EDtor _ _ => True | _ => False end.
Definition is_free (e : ev) : Prop := match e with EPageFree _ | EUpFree _ _ _ _ => True | _ => False end.

Lemma sh_elem : forall s, reach P s ->
  snd (destruct_all s) = map dtor_ev (gdtors s) /\
  do_release (fst (destruct_all s)) = (init, 0, free_evs s) /\
  concat (page_batches s) = gpages s.
Proof.
  intros s R. destruct (release_parts P Pok s R) as (H1 & H2 & H3 & H4). destruct (reach_tag P s R) as [Hu _].
  split; [exact H1|]. split; [|exact H3].
  unfold destruct_all, do_release. cbn [fst].
  change (parrs (set_dtor s 0 [] [])) with (parrs s). change (fb (set_dtor s 0 [] [])) with (fb s).
  change (fe (set_dtor s 0 [] [])) with (fe s). rewrite H4.
  change (page_batches (set_dtor s 0 [] [])) with (page_batches s).
  change (upfree_events (set_dtor s 0 [] [])) with (upfree_events s).
  change (up (set_dtor s 0 [] [])) with (up s).
  change (dtor_events (set_dtor s 0 [] [])) with (@nil ev).
  unfold free_evs. rewrite H2, Hu. reflexivity.
Qed.

Lemma sreach_all : forall S, sreach S -> forall s, In s S -> reach P s.
Proof.
  intros S R s Hin. destruct (sreach_inv S R) as [I1 _]. apply In_nth_error in Hin. destruct Hin as [t Ht]. eauto.
Qed.

Theorem mr_shared_release_exact : forall S, sreach S ->
  sh_release S = (map (fun _ => init) S,
                  concat (map (fun s => map dtor_ev (gdtors s)) S) ++ concat (map free_evs S)) /\
  Forall (fun s => concat (page_batches s) = gpages s) S.
Proof.
  intros S R. pose proof (sreach_all S R) as A. split.
  - unfold sh_release. change (shared_release_destructs_first =? 1) with true. cbv iota zeta.
    rewrite !map_map.
    f_equal; [|f_equal; f_equal]; apply map_ext_in; intros s Hs;
      destruct (sh_elem s (A s Hs)) as (E1 & E2 & _); rewrite ?E1, ?E2; reflexivity.
  - apply Forall_forall. intros s Hs. apply (sh_elem s (A s Hs)).
Qed.

(* every destructor of every per-thread resource runs before any page / oversize block of any of them is returned *)
Theorem mr_shared_release_order : forall S, sreach S ->
  exists ed ef, snd (sh_release S) = ed ++ ef /\ Forall is_dtor ed /\ Forall is_free ef.
Proof.
  intros S R. destruct (mr_shared_release_exact S R) as [H _]. rewrite H. cbn [snd].
  eexists. eexists. split; [reflexivity|]. split; apply Forall_forall; intros e He;
    apply in_concat in He; destruct He as (l & Hl & He); apply in_map_iff in Hl; destruct Hl as (s & <- & _).
  - apply in_map_iff in He. destruct He as (t & <- & _). exact I.
  - unfold free_evs in He. apply in_app_iff in He. destruct He as [He|He]; apply in_map_iff in He.
    + destruct He as (x & <- & _). exact I.
    + destruct He as ([[p b] a] & <- & _). exact I.
Qed.
End Shared.

(* ---------------------------------------------------------------- move assignment between two configured resources *)
Lemma set_up_id : forall s, set_up s (up s) = s.
Proof. intros []. reflexivity. Qed.

(* a = std::move(b) exchanges the two resources completely, allocators included: what b holds afterwards is
   exactly what a held, and it is released to the page allocator / upstream it was obtained from *)
Theorem mr_move_assign_exchanges : forall a b : rsrc,
  move_assign a b = (b, a) /\
  release_to (snd (move_assign a b)) = release_to a /\ release_to (fst (move_assign a b)) = release_to b.
Proof.
  intros [sa pa] [sb pb].
  assert (E : move_assign (sa, pa) (sb, pb) = ((sb, pb), (sa, pa))).
  { unfold move_assign. change move_swaps_contents with true.
    change (move_swaps_upstream =? 1) with true. change (move_swaps_page_allocator =? 1) with true.
    cbn [fst snd]. rewrite !set_up_id. reflexivity. }
  rewrite E. auto.
Qed.
