From Coq Require Import ZArith List Bool Lia.
Require Import Verif.Gen.Gen_memory_resource Verif.MR.MRModel.
Import ListNotations.
Local Open Scope Z_scope.
Lemma mr_cap_pos : 1 <= PAGE_ARRAY_CAPACITY.
Proof. vm_compute. discriminate. Qed.
