(* Proofs about FUModel.  Statements are fixed by Properties_C08.v. *)
From Coq Require Import ZArith List Bool Lia.
Require Import Verif.Base.Atomics Verif.Gen.Gen_future Verif.Conc.Machine Verif.FU.FUModel.
Import ListNotations.
Local Open Scope Z_scope.

(* ---- vocabulary used by the statements (do not change) ---- *)
Definition Reach (latch : Z) (progs : list (list op)) (s : st) : Prop :=
  reachable st step (init latch progs) s.

Definition is_set (o : op) : bool := match o with OSet => true | _ => false end.
Definition is_down (o : op) : bool := match o with ODown _ => true | _ => false end.
Definition down_amount (o : op) : Z := match o with ODown d => d | _ => 0 end.
Definition all_ops (progs : list (list op)) : list op := concat progs.

(* documented usage: a promise is set at most once (plain mode, latch = 0, no count_down), or the
   object is a latch (latch > 0): no direct set_value, every count_down positive, total <= count *)
Definition wf (latch : Z) (progs : list (list op)) : Prop :=
  (latch = 0 /\ (length (filter is_set (all_ops progs)) <= 1)%nat /\ filter is_down (all_ops progs) = [])
  \/ (0 < latch /\ filter is_set (all_ops progs) = [] /\
      Forall (fun o => is_down o = true -> 0 < down_amount o) (all_ops progs) /\
      fold_right Z.add 0 (map down_amount (all_ops progs)) <= latch).

Definition setting (th : thread) : bool :=
  match tpc th with SetFutex _ | SetWake _ | SetRun _ => true | _ => false end.
Definition wake_pending (th : thread) : bool :=
  match tpc th with SetFutex _ | SetWake _ => true | _ => false end.
Definition parked (th : thread) : bool :=
  match tpc th with GetBlocked | WaitBlocked _ _ => true | _ => false end.

(* memory-order obligations on the regenerated site tables *)
Definition orders_ok : bool :=
  match sites_seal, sites_set_value, sites_get, sites_on_finish, sites_wait_slow, sites_wait_for_slow, sites_count_down with
  | [(KXchg, o_seal, _)], [(KXchg, o_fx, _)], [(KLoad, o_get, _)],
    [(KLoad, o_of_load, _); (_, o_of_cas, _)], [(KFadd, o_ws_add, _); (KLoad, o_ws_load, _)],
    [(KFadd, o_wf_add, _); (KLoad, o_wf_load, _)], [(KFsub, o_cd, _)] =>
    has_release o_seal && has_acquire o_seal && has_release o_fx && has_acquire o_get &&
    has_acquire o_of_load && has_release o_of_cas && has_acquire o_of_cas &&
    has_acquire o_ws_add && has_acquire o_ws_load && has_acquire o_wf_add && has_acquire o_wf_load &&
    has_release o_cd && has_acquire o_cd
  | _, _, _, _, _, _, _ => false
  end.
